#!/usr/bin/env python3
"""Regenerates MANIFEST.json from checks_table.py (claimed checks) — run after editing the table."""
import json, os, subprocess, sys
ROOT = os.path.dirname(os.path.abspath(__file__))
sys.path.insert(0, ROOT)
from checks_table import PROPS, HOOK_COMMITS, NOT_APPLICABLE

props = [json.loads(l) for l in open(os.path.join(ROOT, "properties.jsonl"))]
checks = []
engines = {}
na = []
for p in props:
    pid = p["id"]
    spec = PROPS.get(pid)
    if not spec or not spec.get("claimed", True):
        na.append({"property_id": pid, "reason": NOT_APPLICABLE.get(pid, "no runtime-monitoring check registered yet (under construction)")})
        continue
    for s in spec["subs"]:
        e = engines.setdefault(s["engine"], {"name": s["engine"], "path": "harness/engines/" + s["engine"].split(".")[0],
                                             "serves_properties": [], "kind_free_text": spec.get("engine_kind", "runtime monitor")})
        if pid not in e["serves_properties"]:
            e["serves_properties"].append(pid)
    checks.append({
        "property_id": pid,
        "quick_cmd": "./check %s quick" % pid,
        "thorough_cmd": "./check %s thorough" % pid,
        "evidence_file": "evidence/%s.json" % pid,
        "replay_cmd_template": "./check replay {path}",
        "engine": ",".join(sorted({s["engine"] for s in spec["subs"]})),
        "level_claimed": {"category": spec["level"], "text": spec["level_text"], "design_ref": "DESIGN.md 3." + pid},
        "level_note": spec["level_note"],
        "technique": spec["technique"],
    })
m = {
    "version": 1,
    "setup_cmd": "./setup.sh",
    "hooks": {
        "guard": "verif",
        "enable": "go build -tags verif (harness module with replace github.com/gofiber/fiber/v3 => /repo; vt mode adds -tags faketime with CGO_ENABLED=0, race mode adds -race)",
        "baseline_off_cmd": "cd /repo && go test -mod=mod -json -vet=off -count=1 -timeout 25m ./...",
        "source_commits": HOOK_COMMITS,
        "add_only": True,
    },
    "engines": sorted(engines.values(), key=lambda e: e["name"]),
    "checks": checks,
    "notes": "Technique family: runtime monitoring and sanitizers. Every check runs the real code from /repo's working tree (go build with replace => /repo) under generated/hostile/stress workloads and decides with oracles over observed executions; see DESIGN.md.",
    "not_applicable": na,
}
json.dump(m, open(os.path.join(ROOT, "MANIFEST.json"), "w"), indent=1)
print("checks:", [c["property_id"] for c in checks], "not_applicable:", [n["property_id"] for n in na])
