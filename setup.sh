#!/bin/bash
# MANIFEST.setup_cmd: build the engine binary in all three modes (warms the Go build cache).
cd "$(dirname "$0")" || exit 2
export GOFLAGS=-mod=mod GOPROXY=off GOSUMDB=off GOTOOLCHAIN=local
mkdir -p .bin evidence replays work
cp -n /repo/go.sum harness/go.sum 2>/dev/null
python3 driver.py build plain vt race
