// Package gen is the splittable, seed-determined PRNG and the small generators every engine
// shares. Nothing here reads the clock or global state: a case is a pure function of
// (seed, engine, case index).
package gen

import (
	"encoding/binary"
	"hash/fnv"
)

// Rand is a splitmix64 generator. Cheap to create, cheap to split.
type Rand struct{ s uint64 }

func New(seed uint64) *Rand { return &Rand{s: seed} }

// Derive makes an independent generator from a seed and a list of labels.
func Derive(seed uint64, labels ...string) *Rand {
	h := fnv.New64a()
	var b [8]byte
	binary.LittleEndian.PutUint64(b[:], seed)
	h.Write(b[:])
	for _, l := range labels {
		h.Write([]byte{0xff})
		h.Write([]byte(l))
	}
	r := &Rand{s: h.Sum64()}
	r.Uint64()
	return r
}

func (r *Rand) Uint64() uint64 {
	r.s += 0x9e3779b97f4a7c15
	z := r.s
	z = (z ^ (z >> 30)) * 0xbf58476d1ce4e5b9
	z = (z ^ (z >> 27)) * 0x94d049bb133111eb
	return z ^ (z >> 31)
}

// Split returns a child generator; the parent advances by one step.
func (r *Rand) Split() *Rand { return &Rand{s: r.Uint64() ^ 0x5851f42d4c957f2d} }

// Intn returns a value in [0,n). n<=0 yields 0.
func (r *Rand) Intn(n int) int {
	if n <= 0 {
		return 0
	}
	return int(r.Uint64() % uint64(n))
}

// Range returns a value in [lo,hi] inclusive.
func (r *Rand) Range(lo, hi int) int {
	if hi <= lo {
		return lo
	}
	return lo + r.Intn(hi-lo+1)
}

func (r *Rand) Bool() bool { return r.Uint64()&1 == 1 }

// Chance is true with probability num/den.
func (r *Rand) Chance(num, den int) bool { return r.Intn(den) < num }

func (r *Rand) Byte() byte { return byte(r.Uint64()) }

// Pick returns one element of xs.
func Pick[T any](r *Rand, xs []T) T { return xs[r.Intn(len(xs))] }

// PickW picks index by integer weights.
func (r *Rand) PickW(w ...int) int {
	t := 0
	for _, x := range w {
		t += x
	}
	n := r.Intn(t)
	for i, x := range w {
		if n < x {
			return i
		}
		n -= x
	}
	return len(w) - 1
}

// Shuffle permutes xs in place.
func Shuffle[T any](r *Rand, xs []T) {
	for i := len(xs) - 1; i > 0; i-- {
		j := r.Intn(i + 1)
		xs[i], xs[j] = xs[j], xs[i]
	}
}

// Bytes returns n arbitrary bytes.
func (r *Rand) Bytes(n int) []byte {
	b := make([]byte, n)
	for i := range b {
		b[i] = r.Byte()
	}
	return b
}

// StringFrom returns a string of length n over alphabet.
func (r *Rand) StringFrom(alphabet string, n int) string {
	b := make([]byte, n)
	for i := range b {
		b[i] = alphabet[r.Intn(len(alphabet))]
	}
	return string(b)
}

const (
	Lower    = "abcdefghijklmnopqrstuvwxyz"
	Upper    = "ABCDEFGHIJKLMNOPQRSTUVWXYZ"
	Digits   = "0123456789"
	AlphaNum = Lower + Upper + Digits
	// Token characters of RFC 9110 (tchar).
	TChar = AlphaNum + "!#$%&'*+-.^_`|~"
)

// Ident returns a lower-case identifier of length in [lo,hi].
func (r *Rand) Ident(lo, hi int) string { return r.StringFrom(Lower, r.Range(lo, hi)) }

// Hash64 hashes strings to a 64-bit key (distinctness bookkeeping).
func Hash64(parts ...string) uint64 {
	h := fnv.New64a()
	for _, p := range parts {
		h.Write([]byte(p))
		h.Write([]byte{0})
	}
	return h.Sum64()
}
