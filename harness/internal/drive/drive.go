// Package drive feeds requests into a real fiber app: "direct" (hand-built RequestCtx on the
// calling goroutine) and "wire" (raw bytes over a scripted in-memory conn into ServeConn).
package drive

import (
	"bytes"
	"crypto/tls"
	"errors"
	"io"
	"net"
	"sync"
	"time"

	"github.com/gofiber/fiber/v3"
	"github.com/valyala/fasthttp"
)

// H is one header field.
type H struct{ K, V string }

// Req is a direct-drive request.
type Req struct {
	Method string
	URI    string // request URI (path + query), or absolute
	Host   string
	Hdr    []H
	Body   []byte
	Remote net.Addr
	TLS    bool
}

// Resp is what came back from a direct drive.
type Resp struct {
	Status int
	Hdr    []H // in serialisation order, names as stored
	Body   []byte
}

// Get returns the first header value with that (canonical) name.
func (r *Resp) Get(name string) string {
	for _, h := range r.Hdr {
		if equalFold(h.K, name) {
			return h.V
		}
	}
	return ""
}

// All returns every value for that name.
func (r *Resp) All(name string) []string {
	var out []string
	for _, h := range r.Hdr {
		if equalFold(h.K, name) {
			out = append(out, h.V)
		}
	}
	return out
}

func equalFold(a, b string) bool {
	if len(a) != len(b) {
		return false
	}
	for i := 0; i < len(a); i++ {
		x, y := a[i], b[i]
		if x >= 'A' && x <= 'Z' {
			x += 32
		}
		if y >= 'A' && y <= 'Z' {
			y += 32
		}
		if x != y {
			return false
		}
	}
	return true
}

var DefaultRemote net.Addr = &net.TCPAddr{IP: net.IPv4(203, 0, 113, 7), Port: 40000}

// Handler caches app.Handler() (which runs the startup process once).
type Direct struct {
	App *fiber.App
	h   fasthttp.RequestHandler
}

func NewDirect(app *fiber.App) *Direct { return &Direct{App: app, h: app.Handler()} }

// Rebuild re-runs the startup process (after routes were added).
func (d *Direct) Rebuild() { d.h = d.App.Handler() }

type tlsMarkerConn struct{ net.Conn }

func (tlsMarkerConn) Handshake() error                    { return nil }
func (tlsMarkerConn) ConnectionState() tls.ConnectionState { return tls.ConnectionState{} }

type nopConn struct{}

func (nopConn) Read([]byte) (int, error)         { return 0, io.EOF }
func (nopConn) Write(b []byte) (int, error)      { return len(b), nil }
func (nopConn) Close() error                     { return nil }
func (nopConn) LocalAddr() net.Addr              { return &net.TCPAddr{IP: net.IPv4(127, 0, 0, 1), Port: 80} }
func (nopConn) RemoteAddr() net.Addr             { return DefaultRemote }
func (nopConn) SetDeadline(time.Time) error      { return nil }
func (nopConn) SetReadDeadline(time.Time) error  { return nil }
func (nopConn) SetWriteDeadline(time.Time) error { return nil }

// Do runs one request on the calling goroutine and returns a deep copy of the response.
func (d *Direct) Do(rq *Req) *Resp {
	var fctx fasthttp.RequestCtx
	return d.DoCtx(&fctx, rq)
}

// DoCtx is Do with a caller-supplied RequestCtx (so engines can reuse one like fasthttp does).
func (d *Direct) DoCtx(fctx *fasthttp.RequestCtx, rq *Req) *Resp {
	var req fasthttp.Request
	m := rq.Method
	if m == "" {
		m = "GET"
	}
	req.Header.SetMethod(m)
	req.SetRequestURI(rq.URI)
	if rq.Host != "" {
		req.Header.SetHost(rq.Host)
	} else if len(req.Header.Host()) == 0 {
		req.Header.SetHost("example.com")
	}
	for _, h := range rq.Hdr {
		req.Header.Add(h.K, h.V)
	}
	if rq.Body != nil {
		req.SetBody(rq.Body)
	}
	remote := rq.Remote
	if remote == nil {
		remote = DefaultRemote
	}
	if rq.TLS {
		// RequestCtx.IsTLS checks the conn type; Init2 lets us pass one.
		fctx.Init2(tlsMarkerConn{nopConnAddr{remote}}, nil, false)
		req.CopyTo(&fctx.Request)
	} else {
		fctx.Init(&req, remote, nil)
	}
	d.h(fctx)
	return CopyResp(&fctx.Response)
}

type nopConnAddr struct{ a net.Addr }

func (nopConnAddr) Read([]byte) (int, error)         { return 0, io.EOF }
func (nopConnAddr) Write(b []byte) (int, error)      { return len(b), nil }
func (nopConnAddr) Close() error                     { return nil }
func (nopConnAddr) LocalAddr() net.Addr              { return &net.TCPAddr{IP: net.IPv4(127, 0, 0, 1), Port: 443} }
func (c nopConnAddr) RemoteAddr() net.Addr           { return c.a }
func (nopConnAddr) SetDeadline(time.Time) error      { return nil }
func (nopConnAddr) SetReadDeadline(time.Time) error  { return nil }
func (nopConnAddr) SetWriteDeadline(time.Time) error { return nil }

// CopyResp deep-copies a fasthttp response.
func CopyResp(r *fasthttp.Response) *Resp {
	out := &Resp{Status: r.StatusCode()}
	r.Header.VisitAll(func(k, v []byte) {
		out.Hdr = append(out.Hdr, H{string(k), string(v)})
	})
	out.Body = append([]byte(nil), r.Body()...)
	return out
}

// ---------------------------------------------------------------------------------------------
// wire drive

// ScriptConn is an in-memory net.Conn: the server reads the scripted request bytes and its
// writes are collected. Read returns io.EOF when the script is exhausted.
type ScriptConn struct {
	mu     sync.Mutex
	in     bytes.Reader
	chunks [][]byte // optional: deliver input in these pieces (one Read each)
	out    bytes.Buffer
	remote net.Addr
	closed bool
}

func NewScriptConn(input []byte, remote net.Addr) *ScriptConn {
	c := &ScriptConn{remote: remote}
	c.in.Reset(input)
	if c.remote == nil {
		c.remote = DefaultRemote
	}
	return c
}

// NewChunkedConn delivers the input in the given pieces, one per Read call.
func NewChunkedConn(chunks [][]byte, remote net.Addr) *ScriptConn {
	c := &ScriptConn{remote: remote, chunks: chunks}
	if c.remote == nil {
		c.remote = DefaultRemote
	}
	return c
}

func (c *ScriptConn) Read(p []byte) (int, error) {
	c.mu.Lock()
	defer c.mu.Unlock()
	if c.closed {
		return 0, errors.New("closed")
	}
	if c.chunks != nil {
		for len(c.chunks) > 0 && len(c.chunks[0]) == 0 {
			c.chunks = c.chunks[1:]
		}
		if len(c.chunks) == 0 {
			return 0, io.EOF
		}
		n := copy(p, c.chunks[0])
		c.chunks[0] = c.chunks[0][n:]
		return n, nil
	}
	return c.in.Read(p)
}

func (c *ScriptConn) Write(p []byte) (int, error) {
	c.mu.Lock()
	defer c.mu.Unlock()
	if c.closed {
		return 0, errors.New("closed")
	}
	return c.out.Write(p)
}

func (c *ScriptConn) Close() error {
	c.mu.Lock()
	c.closed = true
	c.mu.Unlock()
	return nil
}
func (c *ScriptConn) LocalAddr() net.Addr              { return &net.TCPAddr{IP: net.IPv4(127, 0, 0, 1), Port: 80} }
func (c *ScriptConn) RemoteAddr() net.Addr             { return c.remote }
func (c *ScriptConn) SetDeadline(time.Time) error      { return nil }
func (c *ScriptConn) SetReadDeadline(time.Time) error  { return nil }
func (c *ScriptConn) SetWriteDeadline(time.Time) error { return nil }

// Output returns everything the server wrote.
func (c *ScriptConn) Output() []byte {
	c.mu.Lock()
	defer c.mu.Unlock()
	return append([]byte(nil), c.out.Bytes()...)
}

// Wire serves the scripted bytes through the app's fasthttp server on the calling goroutine
// and returns everything written back plus ServeConn's error.
type Wire struct {
	App *fiber.App
}

func NewWire(app *fiber.App) *Wire {
	app.Handler() // startup process
	return &Wire{App: app}
}

func (w *Wire) Serve(input []byte, remote net.Addr) ([]byte, error) {
	c := NewScriptConn(input, remote)
	err := w.App.Server().ServeConn(c)
	return c.Output(), err
}

func (w *Wire) ServeConn(c *ScriptConn) ([]byte, error) {
	err := w.App.Server().ServeConn(c)
	return c.Output(), err
}
