// Package sched is a deterministic scheduler over real goroutines, for the vt build
// (DESIGN.md 2.4). Workers run the real code under test; at *boundaries* (calls back into
// harness-owned code: injected storage, config callbacks, protected handler, yield hooks) a
// worker parks until the scheduler releases it. Between boundaries exactly one worker is
// released at a time; the quiescence barrier of the fake clock tells the scheduler when that
// worker has parked again, finished, or blocked inside the code under test.
package sched

import (
	"fmt"
	"runtime"
	"runtime/debug"
	"strconv"
	"sync"
	"time"

	"verifharness/internal/vt"
)

type state int

const (
	stRunning state = iota
	stParked
	stDone
)

type worker struct {
	idx   int
	name  string
	goid  uint64
	st    state
	point string
	ch    chan struct{}
	panic string
	anon  bool
}

// Event is one scheduling-relevant event in logical order.
type Event struct {
	W     int    `json:"w"`
	Point string `json:"p"`
}

// Outcome of one run.
type Outcome struct {
	Schedule  []int    // choices made (index into the list of parked workers at each step)
	Options   []int    // number of parked workers at each step
	Trace     []Event  // boundary events in order of *arrival*
	Released  []Event  // boundary events in order of *release* (the actual interleaving)
	Deadlock  bool     // unfinished workers, none parked, no timer within the cap released them
	Blocked   []string // names of workers blocked at deadlock
	Panics    map[string]string
	Steps     int
	MaxParked int
}

// Chooser picks which parked worker to release: returns an index in [0,n).
type Chooser func(step int, parked []Parked) int

// Parked describes a parked worker to the chooser.
type Parked struct {
	Worker int
	Name   string
	Point  string
}

type Sched struct {
	mu          sync.Mutex
	workers     []*worker
	byGoid      map[uint64]*worker
	ParkUnknown bool // park goroutines not started through Go (spawned by the code under test)
	trace       []Event
	released    []Event
	// DeadlockCap is how much virtual time may pass with nothing parked before declaring deadlock.
	DeadlockCap time.Duration
	active      bool
}

func New() *Sched {
	vt.Require()
	return &Sched{byGoid: map[uint64]*worker{}, DeadlockCap: 10 * time.Second}
}

func goid() uint64 {
	var buf [64]byte
	n := runtime.Stack(buf[:], false)
	// "goroutine 123 ["
	b := buf[10:n]
	i := 0
	for i < len(b) && b[i] >= '0' && b[i] <= '9' {
		i++
	}
	id, _ := strconv.ParseUint(string(b[:i]), 10, 64)
	return id
}

// Go registers and starts a worker. It parks at the implicit boundary "start" first, so the
// order in which workers begin is a scheduling choice too.
func (s *Sched) Go(name string, f func()) int {
	s.mu.Lock()
	w := &worker{idx: len(s.workers), name: name, ch: make(chan struct{}, 1), st: stRunning}
	s.workers = append(s.workers, w)
	s.mu.Unlock()
	go func() {
		id := goid()
		s.mu.Lock()
		w.goid = id
		s.byGoid[id] = w
		s.mu.Unlock()
		defer func() {
			if r := recover(); r != nil {
				w.panic = fmt.Sprintf("%v\n%s", r, debug.Stack())
			}
			s.mu.Lock()
			w.st = stDone
			delete(s.byGoid, id)
			s.mu.Unlock()
		}()
		s.Yield("start")
		f()
	}()
	return w.idx
}

// Yield is a boundary: the calling worker records the event and parks until released.
// Calls from goroutines the scheduler does not know pass through (unless ParkUnknown).
func (s *Sched) Yield(point string) {
	if s == nil {
		return
	}
	id := goid()
	s.mu.Lock()
	if !s.active && len(s.workers) == 0 {
		s.mu.Unlock()
		return
	}
	w := s.byGoid[id]
	if w == nil {
		if !s.ParkUnknown || !s.active {
			s.mu.Unlock()
			return
		}
		w = &worker{idx: len(s.workers), name: "anon" + strconv.Itoa(len(s.workers)), ch: make(chan struct{}, 1), goid: id, anon: true}
		s.workers = append(s.workers, w)
		s.byGoid[id] = w
	}
	w.st = stParked
	w.point = point
	s.trace = append(s.trace, Event{w.idx, point})
	s.mu.Unlock()
	<-w.ch
	if w.anon {
		// an anonymous goroutine is only tracked while parked
		s.mu.Lock()
		w.st = stDone
		delete(s.byGoid, id)
		s.mu.Unlock()
	}
}

// WorkerIndex returns the index of the calling worker, or -1.
func (s *Sched) WorkerIndex() int {
	id := goid()
	s.mu.Lock()
	defer s.mu.Unlock()
	if w := s.byGoid[id]; w != nil {
		return w.idx
	}
	return -1
}

// Run drives the registered workers to completion.
func (s *Sched) Run(choose Chooser) *Outcome {
	out := &Outcome{Panics: map[string]string{}}
	s.mu.Lock()
	s.active = true
	s.mu.Unlock()
	var idle time.Duration
	step := 0
	for {
		vt.Barrier()
		s.mu.Lock()
		var parked []Parked
		unfinished := 0
		for _, w := range s.workers {
			switch w.st {
			case stParked:
				parked = append(parked, Parked{w.idx, w.name, w.point})
				unfinished++
			case stRunning:
				unfinished++
			}
		}
		if unfinished == 0 {
			s.mu.Unlock()
			break
		}
		if len(parked) == 0 {
			s.mu.Unlock()
			// Everybody left is blocked inside the code under test or sleeping on a timer.
			if idle >= s.DeadlockCap {
				out.Deadlock = true
				s.mu.Lock()
				for _, w := range s.workers {
					if w.st == stRunning {
						out.Blocked = append(out.Blocked, w.name)
					}
				}
				s.mu.Unlock()
				break
			}
			d := 10 * time.Millisecond
			if idle >= time.Second {
				d = 500 * time.Millisecond
			}
			time.Sleep(d)
			idle += d
			continue
		}
		idle = 0
		if len(parked) > out.MaxParked {
			out.MaxParked = len(parked)
		}
		k := 0
		if len(parked) > 1 {
			k = choose(step, parked)
			if k < 0 || k >= len(parked) {
				k = 0
			}
		}
		out.Schedule = append(out.Schedule, k)
		out.Options = append(out.Options, len(parked))
		w := s.workers[parked[k].Worker]
		w.st = stRunning
		s.released = append(s.released, Event{w.idx, w.point})
		s.mu.Unlock()
		w.ch <- struct{}{}
		step++
	}
	s.mu.Lock()
	s.active = false
	out.Trace = s.trace
	out.Released = s.released
	for _, w := range s.workers {
		if w.panic != "" {
			out.Panics[w.name] = w.panic
		}
	}
	s.mu.Unlock()
	out.Steps = step
	return out
}

// ---------------------------------------------------------------------------------------------
// exploration strategies

// DFS runs f for every schedule (up to max; 0 = unlimited). f builds a fresh scenario, calls
// Run with the supplied chooser and returns the outcome. Returns number of schedules and
// whether the space was exhausted.
func DFS(max int, f func(ch Chooser) *Outcome) (n int, exhausted bool) {
	var prefix []int
	for {
		pos := 0
		cur := prefix
		ch := func(step int, parked []Parked) int {
			// called only when len(parked) > 1; pos counts such calls
			k := 0
			if pos < len(cur) {
				k = cur[pos]
			}
			pos++
			return k
		}
		out := f(ch)
		n++
		// rebuild the sequence of multi-option choices actually taken
		var taken, opts []int
		for i, o := range out.Options {
			if o > 1 {
				taken = append(taken, out.Schedule[i])
				opts = append(opts, o)
			}
		}
		// backtrack
		i := len(taken) - 1
		for i >= 0 && taken[i]+1 >= opts[i] {
			i--
		}
		if i < 0 {
			return n, true
		}
		prefix = append(append([]int(nil), taken[:i]...), taken[i]+1)
		if max > 0 && n >= max {
			return n, false
		}
	}
}

// RandomChooser picks uniformly using the supplied function (e.g. gen.Rand.Intn).
func RandomChooser(intn func(int) int) Chooser {
	return func(step int, parked []Parked) int { return intn(len(parked)) }
}

// ReplayChooser replays the multi-option choices of a recorded schedule.
func ReplayChooser(out *Outcome) Chooser {
	var taken []int
	for i, o := range out.Options {
		if o > 1 {
			taken = append(taken, out.Schedule[i])
		}
	}
	pos := 0
	return func(step int, parked []Parked) int {
		k := 0
		if pos < len(taken) {
			k = taken[pos]
		}
		pos++
		return k
	}
}

// Key renders the released-event sequence as a string (distinctness of interleavings).
func (o *Outcome) Key() string {
	b := make([]byte, 0, len(o.Released)*8)
	for _, e := range o.Released {
		b = strconv.AppendInt(b, int64(e.W), 10)
		b = append(b, ':')
		b = append(b, e.Point...)
		b = append(b, ' ')
	}
	return string(b)
}
