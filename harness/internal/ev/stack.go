package ev

import (
	"strings"
)

// PanicSite extracts the innermost frame inside the code under test (fiber or fasthttp) from
// a stack trace, as "pkg.Func" without line numbers — stable across unrelated edits.
func PanicSite(stack string) string {
	lines := strings.Split(stack, "\n")
	for _, l := range lines {
		if strings.HasPrefix(l, "\t") || l == "" {
			continue
		}
		if strings.HasPrefix(l, "github.com/gofiber/fiber/v3") {
			fn := l
			if i := strings.LastIndex(fn, "("); i > 0 {
				fn = fn[:i]
			}
			fn = strings.TrimPrefix(fn, "github.com/gofiber/fiber/v3")
			fn = strings.TrimPrefix(fn, "/")
			fn = strings.TrimPrefix(fn, ".")
			return fn
		}
	}
	for _, l := range lines {
		if strings.HasPrefix(l, "github.com/valyala/fasthttp") {
			fn := l
			if i := strings.LastIndex(fn, "("); i > 0 {
				fn = fn[:i]
			}
			return "fasthttp:" + strings.TrimPrefix(fn, "github.com/valyala/fasthttp.")
		}
	}
	return "unknown"
}

func trimStack(st string) string {
	if len(st) > 3000 {
		return st[:3000]
	}
	return st
}
