// Package ev is the engine-side runtime: case iteration (sharding, replay filter, journal for
// crash attribution), and the recorder that turns oracle verdicts into the result file the
// driver merges into evidence.
package ev

import (
	"encoding/binary"
	"encoding/json"
	"flag"
	"fmt"
	"os"
	"runtime/debug"
	"sort"
	"strconv"
	"sync"

	"verifharness/internal/gen"
)

// Violation is one rejected observation. Sig identifies the *kind* of failure
// (clause|site|input class) — never the random input — so known findings can be matched.
type Violation struct {
	Sig    string `json:"sig"`
	What   string `json:"what"`
	Case   string `json:"case"`
	Detail any    `json:"detail,omitempty"`
}

type Result struct {
	Engine       string            `json:"engine"`
	Tier         string            `json:"tier"`
	Seed         uint64            `json:"seed"`
	Shard        int               `json:"shard"`
	Shards       int               `json:"shards"`
	Evaluations  int64             `json:"evaluations"`
	Nontrivial   int64             `json:"nontrivial"`
	NTCapped     bool              `json:"nontrivial_capped"`
	Samples      []any             `json:"samples"`
	Violations   []Violation       `json:"violations"`
	VioCounts    map[string]int64  `json:"violation_counts"`
	Stats        map[string]int64  `json:"stats"`
	Notes        map[string]string `json:"notes,omitempty"`
	Inconclusive []string          `json:"inconclusive"`
	Completed    bool              `json:"completed"`
}

const ntCap = 400000

// Env is what an engine gets.
type Env struct {
	Engine string
	Tier   string // quick | thorough
	Seed   uint64
	Shard  int
	Shards int
	Only   string // replay: run only this case id
	Verbose bool

	mu       sync.Mutex
	res      Result
	nt       map[uint64]struct{}
	outPath  string
	journal  *os.File
	curCase  string
	perSig   map[string]int
	sampleBy map[string]int
}

var (
	fEngine  = flag.String("engine", "", "engine name")
	fTier    = flag.String("tier", "quick", "quick|thorough")
	fSeed    = flag.Uint64("seed", 1, "VERIF_SEED")
	fShard   = flag.Int("shard", 0, "shard index")
	fShards  = flag.Int("shards", 1, "number of shards")
	fOut     = flag.String("out", "", "result file")
	fJournal = flag.String("journal", "", "journal file")
	fOnly    = flag.String("only", "", "run only this case id (replay)")
	fVerbose = flag.Bool("v", false, "verbose")
)

// NewEnvFromFlags parses the common flags.
func NewEnvFromFlags() *Env {
	flag.Parse()
	e := &Env{Engine: *fEngine, Tier: *fTier, Seed: *fSeed, Shard: *fShard, Shards: *fShards,
		Only: *fOnly, Verbose: *fVerbose, outPath: *fOut}
	e.res = Result{Engine: e.Engine, Tier: e.Tier, Seed: e.Seed, Shard: e.Shard, Shards: e.Shards,
		Stats: map[string]int64{}, VioCounts: map[string]int64{}, Notes: map[string]string{}}
	e.nt = map[uint64]struct{}{}
	e.perSig = map[string]int{}
	e.sampleBy = map[string]int{}
	if *fJournal != "" {
		f, err := os.OpenFile(*fJournal, os.O_CREATE|os.O_WRONLY|os.O_TRUNC, 0o644)
		if err == nil {
			e.journal = f
		}
	}
	return e
}

func (e *Env) Quick() bool { return e.Tier != "thorough" }

// N picks the case count for the tier.
func (e *Env) N(quick, thorough int) int {
	if e.Quick() {
		return quick
	}
	return thorough
}

// Case is one generated or corpus case.
type Case struct {
	ID  string
	R   *gen.Rand
	Env *Env
}

func (e *Env) begin(id string) {
	e.mu.Lock()
	e.curCase = id
	e.mu.Unlock()
	if e.journal != nil {
		// One short line per case; the driver only reads the last one after a crash.
		e.journal.WriteString(id + "\n")
	}
}

// Journal writes a free-form line (e.g. the raw input about to be fed) to the journal.
func (e *Env) Journal(s string) {
	if e.journal != nil {
		e.journal.WriteString("# " + s + "\n")
	}
}

// Corpus runs a fixed, named case (same on every seed and shard 0 only).
func (e *Env) Corpus(name string, f func(c *Case)) {
	id := "corpus:" + name
	if e.Only != "" {
		if e.Only != id {
			return
		}
	} else if e.Shard != 0 {
		return
	}
	e.begin(id)
	f(&Case{ID: id, R: gen.Derive(0, e.Engine, id), Env: e})
}

// Cases runs n generated cases of a family, striped over the shards. The PRNG of a case depends
// only on (seed, engine, family, index), so any case replays alone.
func (e *Env) Cases(family string, n int, f func(c *Case)) {
	for i := 0; i < n; i++ {
		id := family + ":" + strconv.Itoa(i)
		if e.Only != "" {
			if e.Only != id {
				continue
			}
		} else if i%e.Shards != e.Shard {
			continue
		}
		e.begin(id)
		f(&Case{ID: id, R: gen.Derive(e.Seed, e.Engine, family, strconv.Itoa(i)), Env: e})
	}
}

// Eval counts executions of the code under test that an oracle judged.
func (e *Env) Eval(n int) {
	e.mu.Lock()
	e.res.Evaluations += int64(n)
	e.mu.Unlock()
}

// Nontrivial registers one non-trivial case by its distinctness key.
func (e *Env) Nontrivial(key ...string) {
	h := gen.Hash64(key...)
	e.mu.Lock()
	if len(e.nt) < ntCap {
		e.nt[h] = struct{}{}
	} else {
		e.res.NTCapped = true
	}
	e.mu.Unlock()
}

// Sample keeps up to 3 samples per kind.
func (e *Env) Sample(kind string, v any) {
	e.mu.Lock()
	defer e.mu.Unlock()
	if e.sampleBy[kind] >= 3 || len(e.res.Samples) >= 24 {
		return
	}
	e.sampleBy[kind]++
	e.res.Samples = append(e.res.Samples, map[string]any{"kind": kind, "case": e.curCase, "value": v})
}

func (e *Env) Stat(name string, n int64) {
	e.mu.Lock()
	e.res.Stats[name] += n
	e.mu.Unlock()
}

// StatMax keeps the maximum.
func (e *Env) StatMax(name string, n int64) {
	e.mu.Lock()
	if n > e.res.Stats[name] {
		e.res.Stats[name] = n
	}
	e.mu.Unlock()
}

func (e *Env) Note(name, v string) {
	e.mu.Lock()
	e.res.Notes[name] = v
	e.mu.Unlock()
}

// Violation records a rejected observation. At most 3 full records per signature are kept;
// all are counted.
func (e *Env) Violation(c *Case, sig, what string, detail any) {
	id := ""
	if c != nil {
		id = c.ID
	}
	e.mu.Lock()
	defer e.mu.Unlock()
	if id == "" {
		id = e.curCase
	}
	e.res.VioCounts[sig]++
	if e.perSig[sig] >= 3 {
		return
	}
	e.perSig[sig]++
	e.res.Violations = append(e.res.Violations, Violation{Sig: sig, What: what, Case: id, Detail: detail})
	if e.Verbose || e.Only != "" {
		b, _ := json.MarshalIndent(detail, "  ", "  ")
		fmt.Fprintf(os.Stderr, "violation sig=%s case=%s\n  %s\n  %s\n", sig, id, what, b)
	}
}

func (e *Env) Inconclusive(why string) {
	e.mu.Lock()
	if len(e.res.Inconclusive) < 20 {
		e.res.Inconclusive = append(e.res.Inconclusive, why)
	}
	e.res.Stats["inconclusive_cases"]++
	e.mu.Unlock()
}

// Finish writes the result file (and the sidecar of distinctness hashes).
func (e *Env) Finish() {
	e.mu.Lock()
	defer e.mu.Unlock()
	e.res.Completed = true
	if e.res.Violations == nil {
		e.res.Violations = []Violation{}
	}
	if e.res.Samples == nil {
		e.res.Samples = []any{}
	}
	if e.res.Inconclusive == nil {
		e.res.Inconclusive = []string{}
	}
	e.res.Nontrivial = int64(len(e.nt))
	sort.Slice(e.res.Violations, func(i, j int) bool { return e.res.Violations[i].Sig < e.res.Violations[j].Sig })
	if e.outPath == "" {
		b, _ := json.MarshalIndent(e.res, "", " ")
		os.Stderr.Write(b)
		os.Stderr.WriteString("\n")
		return
	}
	b, err := json.Marshal(e.res)
	if err != nil {
		// Details must always be serialisable; fall back without them.
		for i := range e.res.Violations {
			e.res.Violations[i].Detail = fmt.Sprint(e.res.Violations[i].Detail)
		}
		e.res.Samples = nil
		b, _ = json.Marshal(e.res)
	}
	if err := os.WriteFile(e.outPath, b, 0o644); err != nil {
		fmt.Fprintln(os.Stderr, "write result:", err)
		os.Exit(3)
	}
	hb := make([]byte, 0, 8*len(e.nt))
	for h := range e.nt {
		hb = binary.LittleEndian.AppendUint64(hb, h)
	}
	os.WriteFile(e.outPath+".nt", hb, 0o644)
}

// Guard runs f and converts a panic into a violation with the given signature prefix.
// Returns true if f panicked.
func (e *Env) Guard(c *Case, sigPrefix string, detail any, f func()) (panicked bool) {
	defer func() {
		if r := recover(); r != nil {
			panicked = true
			st := string(debug.Stack())
			e.Violation(c, sigPrefix+"|panic|"+PanicSite(st), fmt.Sprintf("panic: %v", r),
				map[string]any{"input": detail, "panic": fmt.Sprint(r), "stack": trimStack(st)})
		}
	}()
	f()
	return false
}
