package reg

import (
	"fmt"
	"os"

	"verifharness/internal/ev"
)

// Main is the body of every vh binary.
func Main() {
	env := ev.NewEnvFromFlags()
	if env.Engine == "list" || env.Engine == "" {
		for _, n := range Names() {
			fmt.Println(n)
		}
		return
	}
	e, ok := Get(env.Engine)
	if !ok {
		fmt.Fprintln(os.Stderr, "unknown engine", env.Engine)
		os.Exit(3)
	}
	e.Run(env)
	env.Finish()
	// Background goroutines of the code under test (tickers) must not keep a vt process alive.
	os.Exit(0)
}
