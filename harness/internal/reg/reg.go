// Package reg is the engine registry of cmd/vh.
package reg

import (
	"sort"

	"verifharness/internal/ev"
)

type Engine struct {
	Name string
	Run  func(e *ev.Env)
}

var engines = map[string]Engine{}

func Register(name string, run func(e *ev.Env)) { engines[name] = Engine{name, run} }

func Get(name string) (Engine, bool) { e, ok := engines[name]; return e, ok }

func Names() []string {
	var n []string
	for k := range engines {
		n = append(n, k)
	}
	sort.Strings(n)
	return n
}
