// Package vstore is an instrumented fiber.Storage and idempotency.Locker: TTL on the process
// clock (virtual under vt), an operation journal, introspection, optional scheduler boundary
// on every call, and fault plans ("fail the n-th call of kind K").
package vstore

import (
	"errors"
	"sort"
	"strings"
	"sync"
	"time"
)

// ErrInjected is the error returned by injected faults.
var ErrInjected = errors.New("vstore: injected fault")

type entry struct {
	val []byte
	exp time.Time // zero = never
}

// Op is one journalled storage call.
type Op struct {
	Seq   int
	Kind  string // get set delete reset close lock unlock
	Key   string
	Size  int
	TTL   time.Duration
	Found bool
	Err   bool
}

// Fault says: the N-th (1-based) call of Kind fails (or, for get, returns Corrupt bytes).
type Fault struct {
	Kind    string
	N       int
	Corrupt []byte
}

type Store struct {
	mu     sync.Mutex
	m      map[string]entry
	Ops    []Op
	seq    int
	counts map[string]int
	Faults []Fault
	// Yield, when set, is called before every operation with a boundary name ("storage.get" …).
	Yield func(point string)
	// AfterOp, when set, is called (outside the lock) after every operation — invariants on contents.
	AfterOp func(op Op)
	// CopyOnGet false (default) returns the stored slice itself like most real drivers' memory
	// variants do not; true returns a copy.
	Name string
	// KeepKeyRef true keeps the caller's key string by reference as the in-repo memory driver
	// does (exposes callers that pass keys aliasing reused request buffers); default false.
	KeepKeyRef bool
}

func New() *Store { return &Store{m: map[string]entry{}, counts: map[string]int{}} }

func (s *Store) fault(kind string) *Fault {
	s.counts[kind]++
	n := s.counts[kind]
	for i := range s.Faults {
		if s.Faults[i].Kind == kind && s.Faults[i].N == n {
			return &s.Faults[i]
		}
	}
	return nil
}

// Calls returns how many calls of a kind happened.
func (s *Store) Calls(kind string) int {
	s.mu.Lock()
	defer s.mu.Unlock()
	return s.counts[kind]
}

func (s *Store) yield(p string) {
	if s.Yield != nil {
		s.Yield(p)
	}
}

func (s *Store) log(op Op) {
	op.Key = strings.Clone(op.Key)
	s.seq++
	op.Seq = s.seq
	s.Ops = append(s.Ops, op)
}

func (s *Store) Get(key string) ([]byte, error) {
	s.yield("storage.get")
	s.mu.Lock()
	f := s.fault("get")
	if f != nil && f.Corrupt == nil {
		op := Op{Kind: "get", Key: key, Err: true}
		s.log(op)
		s.mu.Unlock()
		s.after(op)
		return nil, ErrInjected
	}
	e, ok := s.m[key]
	if ok && !e.exp.IsZero() && !time.Now().Before(e.exp) {
		delete(s.m, key)
		ok = false
	}
	var out []byte
	if ok {
		out = append([]byte(nil), e.val...)
	}
	if f != nil && f.Corrupt != nil && ok {
		out = append([]byte(nil), f.Corrupt...)
	}
	op := Op{Kind: "get", Key: key, Found: ok, Size: len(out)}
	s.log(op)
	s.mu.Unlock()
	s.after(op)
	return out, nil
}

func (s *Store) after(op Op) {
	if s.AfterOp != nil {
		s.AfterOp(op)
	}
}

func (s *Store) Set(key string, val []byte, exp time.Duration) error {
	s.yield("storage.set")
	s.mu.Lock()
	if f := s.fault("set"); f != nil {
		op := Op{Kind: "set", Key: key, Err: true, Size: len(val), TTL: exp}
		s.log(op)
		s.mu.Unlock()
		s.after(op)
		return ErrInjected
	}
	if key == "" || len(val) == 0 {
		op := Op{Kind: "set", Key: key, Size: len(val), TTL: exp}
		s.log(op)
		s.mu.Unlock()
		s.after(op)
		return nil
	}
	e := entry{val: append([]byte(nil), val...)}
	if exp > 0 {
		e.exp = time.Now().Add(exp)
	}
	if !s.KeepKeyRef {
		// like a network-backed driver: the key is serialised, never retained by reference
		key = strings.Clone(key)
	}
	s.m[key] = e
	op := Op{Kind: "set", Key: key, Size: len(val), TTL: exp, Found: true}
	s.log(op)
	s.mu.Unlock()
	s.after(op)
	return nil
}

func (s *Store) Delete(key string) error {
	s.yield("storage.delete")
	s.mu.Lock()
	if f := s.fault("delete"); f != nil {
		op := Op{Kind: "delete", Key: key, Err: true}
		s.log(op)
		s.mu.Unlock()
		s.after(op)
		return ErrInjected
	}
	_, ok := s.m[key]
	delete(s.m, key)
	op := Op{Kind: "delete", Key: key, Found: ok}
	s.log(op)
	s.mu.Unlock()
	s.after(op)
	return nil
}

func (s *Store) Reset() error {
	s.yield("storage.reset")
	s.mu.Lock()
	s.m = map[string]entry{}
	op := Op{Kind: "reset"}
	s.log(op)
	s.mu.Unlock()
	s.after(op)
	return nil
}

func (s *Store) Close() error { return nil }

// ---- introspection (never yields, never faults, not journalled)

// Live returns unexpired keys, sorted.
func (s *Store) Live() []string {
	s.mu.Lock()
	defer s.mu.Unlock()
	now := time.Now()
	var ks []string
	for k, e := range s.m {
		if e.exp.IsZero() || now.Before(e.exp) {
			ks = append(ks, k)
		}
	}
	sort.Strings(ks)
	return ks
}

// Peek returns the live value without journalling.
func (s *Store) Peek(key string) ([]byte, bool) {
	s.mu.Lock()
	defer s.mu.Unlock()
	e, ok := s.m[key]
	if !ok || (!e.exp.IsZero() && !time.Now().Before(e.exp)) {
		return nil, false
	}
	return append([]byte(nil), e.val...), true
}

// Deadline returns the expiry instant of a live key.
func (s *Store) Deadline(key string) (time.Time, bool) {
	s.mu.Lock()
	defer s.mu.Unlock()
	e, ok := s.m[key]
	return e.exp, ok
}

// SumSuffix sums the sizes of live values whose key ends with suffix.
func (s *Store) SumSuffix(suffix string) int {
	s.mu.Lock()
	defer s.mu.Unlock()
	now := time.Now()
	t := 0
	for k, e := range s.m {
		if strings.HasSuffix(k, suffix) && (e.exp.IsZero() || now.Before(e.exp)) {
			t += len(e.val)
		}
	}
	return t
}

// OpsCopy returns a copy of the journal.
func (s *Store) OpsCopy() []Op {
	s.mu.Lock()
	defer s.mu.Unlock()
	return append([]Op(nil), s.Ops...)
}

// ---------------------------------------------------------------------------------------------

// InnerLocker is the interface of idempotency.Locker.
type InnerLocker interface {
	Lock(key string) error
	Unlock(key string) error
}

// Locker wraps a real locker with boundaries, a journal and faults.
type Locker struct {
	Inner  InnerLocker
	Yield  func(point string)
	mu     sync.Mutex
	Ops    []Op
	counts map[string]int
	Faults []Fault
	// Held counts holders per key as observed at the boundary (mutual-exclusion monitor).
	held    map[string]int
	MaxHeld int
}

func NewLocker(inner InnerLocker) *Locker {
	return &Locker{Inner: inner, counts: map[string]int{}, held: map[string]int{}}
}

func (l *Locker) fault(kind string) bool {
	l.mu.Lock()
	defer l.mu.Unlock()
	l.counts[kind]++
	n := l.counts[kind]
	for _, f := range l.Faults {
		if f.Kind == kind && f.N == n {
			return true
		}
	}
	return false
}

func (l *Locker) Lock(key string) error {
	if l.Yield != nil {
		l.Yield("lock")
	}
	if l.fault("lock") {
		l.mu.Lock()
		l.Ops = append(l.Ops, Op{Kind: "lock", Key: key, Err: true})
		l.mu.Unlock()
		return ErrInjected
	}
	err := l.Inner.Lock(key)
	l.mu.Lock()
	l.Ops = append(l.Ops, Op{Kind: "lock", Key: key, Err: err != nil})
	if err == nil {
		l.held[key]++
		if l.held[key] > l.MaxHeld {
			l.MaxHeld = l.held[key]
		}
	}
	l.mu.Unlock()
	return err
}

func (l *Locker) Unlock(key string) error {
	if l.Yield != nil {
		l.Yield("unlock")
	}
	if l.fault("unlock") {
		l.mu.Lock()
		l.Ops = append(l.Ops, Op{Kind: "unlock", Key: key, Err: true})
		l.mu.Unlock()
		return ErrInjected
	}
	l.mu.Lock()
	l.held[key]--
	l.Ops = append(l.Ops, Op{Kind: "unlock", Key: key})
	l.mu.Unlock()
	return l.Inner.Unlock(key)
}
