// Package strict is an independent, deliberately unforgiving HTTP/1.1 response parser and a
// small RFC 6265 cookie codec. It is the oracle for "whatever the server writes back is a
// well-formed response": nothing from net/http or fasthttp is used.
package strict

import (
	"bytes"
	"fmt"
	"strconv"
	"strings"
)

type Header struct{ Name, Value string }

type Response struct {
	Proto  string
	Status int
	Reason string
	Hdr    []Header
	Body   []byte
	Close  bool // Connection: close
	Raw    []byte
}

func (r *Response) Get(name string) string {
	for _, h := range r.Hdr {
		if strings.EqualFold(h.Name, name) {
			return h.Value
		}
	}
	return ""
}

func (r *Response) All(name string) []string {
	var out []string
	for _, h := range r.Hdr {
		if strings.EqualFold(h.Name, name) {
			out = append(out, h.Value)
		}
	}
	return out
}

// Names returns the multiset of header names, lower-cased, in order.
func (r *Response) Names() []string {
	out := make([]string, len(r.Hdr))
	for i, h := range r.Hdr {
		out[i] = strings.ToLower(h.Name)
	}
	return out
}

type ParseError struct {
	Class string // stable class for signatures
	Msg   string
	Off   int
}

func (e *ParseError) Error() string { return fmt.Sprintf("%s at %d: %s", e.Class, e.Off, e.Msg) }

func perr(class string, off int, f string, a ...any) *ParseError {
	return &ParseError{Class: class, Off: off, Msg: fmt.Sprintf(f, a...)}
}

func isTChar(c byte) bool {
	switch {
	case c >= 'a' && c <= 'z', c >= 'A' && c <= 'Z', c >= '0' && c <= '9':
		return true
	}
	return strings.IndexByte("!#$%&'*+-.^_`|~", c) >= 0
}

// ParseAll parses a byte stream into consecutive responses. headReq[i] tells whether the
// i-th response answers a HEAD request (no body regardless of Content-Length); missing
// entries mean false. Trailing bytes after the last complete response are an error.
func ParseAll(b []byte, headReq []bool) ([]*Response, *ParseError) {
	var out []*Response
	off := 0
	for off < len(b) {
		isHead := false
		if len(out) < len(headReq) {
			isHead = headReq[len(out)]
		}
		r, n, err := parseOne(b[off:], isHead)
		if err != nil {
			err.Off += off
			return out, err
		}
		r.Raw = b[off : off+n]
		out = append(out, r)
		off += n
		if r.Close && off < len(b) {
			return out, perr("bytes-after-close", off, "%d bytes after a Connection: close response", len(b)-off)
		}
	}
	return out, nil
}

func parseOne(b []byte, isHead bool) (*Response, int, *ParseError) {
	// status line
	eol := bytes.Index(b, []byte("\r\n"))
	if eol < 0 {
		return nil, 0, perr("status-line", 0, "no CRLF in %q", trunc(b))
	}
	line := b[:eol]
	if len(line) < 12 || !bytes.HasPrefix(line, []byte("HTTP/1.1 ")) && !bytes.HasPrefix(line, []byte("HTTP/1.0 ")) {
		return nil, 0, perr("status-line", 0, "bad status line %q", trunc(line))
	}
	r := &Response{Proto: string(line[:8])}
	code := line[9:12]
	for _, c := range code {
		if c < '0' || c > '9' {
			return nil, 0, perr("status-line", 9, "bad status code %q", code)
		}
	}
	r.Status, _ = strconv.Atoi(string(code))
	if r.Status < 100 || r.Status > 599 {
		return nil, 0, perr("status-line", 9, "status code out of range %d", r.Status)
	}
	if len(line) > 12 {
		if line[12] != ' ' {
			return nil, 0, perr("status-line", 12, "no SP after status code in %q", trunc(line))
		}
		for i, c := range line[13:] {
			if c != '\t' && (c < 0x20 || c == 0x7f) {
				return nil, 0, perr("status-line", 13+i, "control byte %#x in reason phrase", c)
			}
		}
		r.Reason = string(line[13:])
	}
	off := eol + 2
	// header fields
	for {
		if off > len(b) {
			return nil, 0, perr("header-truncated", off, "header block truncated")
		}
		eol = bytes.Index(b[off:], []byte("\r\n"))
		if eol < 0 {
			return nil, 0, perr("header-truncated", off, "header block not terminated: %q", trunc(b[off:]))
		}
		line = b[off : off+eol]
		if len(line) == 0 {
			off += 2
			break
		}
		colon := bytes.IndexByte(line, ':')
		if colon <= 0 {
			return nil, 0, perr("header-name", off, "no field name in line %q", trunc(line))
		}
		for i := 0; i < colon; i++ {
			if !isTChar(line[i]) {
				return nil, 0, perr("header-name", off+i, "byte %#x in field name %q", line[i], trunc(line[:colon]))
			}
		}
		val := line[colon+1:]
		for i, c := range val {
			if c == '\t' {
				continue
			}
			if c < 0x20 || c == 0x7f {
				// A bare LF or CR inside a value is the classic response-splitting symptom.
				cl := "header-value-ctl"
				if c == '\n' || c == '\r' {
					cl = "header-value-crlf"
				} else if c == 0 {
					cl = "header-value-nul"
				}
				return nil, 0, perr(cl, off+colon+1+i, "control byte %#x in value of %q", c, line[:colon])
			}
		}
		r.Hdr = append(r.Hdr, Header{Name: string(line[:colon]), Value: strings.Trim(string(val), " \t")})
		off += eol + 2
	}
	// framing
	cls := r.All("Content-Length")
	te := r.All("Transfer-Encoding")
	for _, v := range r.All("Connection") {
		for _, t := range strings.Split(v, ",") {
			if strings.EqualFold(strings.TrimSpace(t), "close") {
				r.Close = true
			}
		}
	}
	if r.Proto == "HTTP/1.0" {
		r.Close = true
		for _, v := range r.All("Connection") {
			if strings.EqualFold(strings.TrimSpace(v), "keep-alive") {
				r.Close = false
			}
		}
	}
	noBody := isHead || r.Status/100 == 1 || r.Status == 204 || r.Status == 304
	if len(te) > 0 {
		if len(cls) > 0 {
			return nil, 0, perr("framing", off, "both Transfer-Encoding and Content-Length")
		}
		if len(te) != 1 || !strings.EqualFold(te[0], "chunked") {
			return nil, 0, perr("framing", off, "unsupported Transfer-Encoding %q", te)
		}
		if noBody {
			return r, off, nil
		}
		body, n, err := parseChunked(b[off:])
		if err != nil {
			err.Off += off
			return nil, 0, err
		}
		r.Body = body
		return r, off + n, nil
	}
	if len(cls) > 1 {
		for _, c := range cls[1:] {
			if c != cls[0] {
				return nil, 0, perr("framing", off, "conflicting Content-Length %q", cls)
			}
		}
	}
	if len(cls) >= 1 {
		v := cls[0]
		if v == "" {
			return nil, 0, perr("framing", off, "empty Content-Length")
		}
		for _, c := range []byte(v) {
			if c < '0' || c > '9' {
				return nil, 0, perr("framing", off, "bad Content-Length %q", v)
			}
		}
		n, e := strconv.Atoi(v)
		if e != nil {
			return nil, 0, perr("framing", off, "bad Content-Length %q", v)
		}
		if noBody {
			return r, off, nil
		}
		if off+n > len(b) {
			return nil, 0, perr("body-short", off, "Content-Length %d but only %d body bytes", n, len(b)-off)
		}
		r.Body = b[off : off+n]
		return r, off + n, nil
	}
	if noBody {
		return r, off, nil
	}
	// no framing: body runs to end of stream, only legal with close
	if !r.Close {
		return nil, 0, perr("framing", off, "no Content-Length/Transfer-Encoding on a keep-alive response")
	}
	r.Body = b[off:]
	return r, len(b), nil
}

func parseChunked(b []byte) ([]byte, int, *ParseError) {
	var body []byte
	off := 0
	for {
		eol := bytes.Index(b[off:], []byte("\r\n"))
		if eol < 0 {
			return nil, 0, perr("chunk", off, "chunk size line not terminated")
		}
		sz := string(b[off : off+eol])
		if i := strings.IndexByte(sz, ';'); i >= 0 {
			sz = sz[:i]
		}
		if sz == "" {
			return nil, 0, perr("chunk", off, "empty chunk size")
		}
		n, err := strconv.ParseUint(sz, 16, 31)
		if err != nil {
			return nil, 0, perr("chunk", off, "bad chunk size %q", sz)
		}
		off += eol + 2
		if n == 0 {
			// trailers until empty line
			for {
				eol = bytes.Index(b[off:], []byte("\r\n"))
				if eol < 0 {
					return nil, 0, perr("chunk", off, "trailer not terminated")
				}
				off += eol + 2
				if eol == 0 {
					return body, off, nil
				}
			}
		}
		if off+int(n)+2 > len(b) {
			return nil, 0, perr("chunk", off, "chunk of %d bytes truncated", n)
		}
		body = append(body, b[off:off+int(n)]...)
		off += int(n)
		if b[off] != '\r' || b[off+1] != '\n' {
			return nil, 0, perr("chunk", off, "chunk data not followed by CRLF")
		}
		off += 2
	}
}

func trunc(b []byte) string {
	if len(b) > 120 {
		return string(b[:120]) + "…"
	}
	return string(b)
}
