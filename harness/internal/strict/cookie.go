package strict

import (
	"strconv"
	"strings"
	"time"
)

// SetCookie is a strictly parsed Set-Cookie line (RFC 6265 §4.1.1 server grammar).
type SetCookie struct {
	Name, Value string
	Quoted      bool
	Path        string
	Domain      string
	MaxAge      *int
	Expires     *time.Time
	Secure      bool
	HTTPOnly    bool
	SameSite    string
	Attrs       []string
}

// cookie-octet = %x21 / %x23-2B / %x2D-3A / %x3C-5B / %x5D-7E
func IsCookieOctet(c byte) bool {
	return c == 0x21 || (c >= 0x23 && c <= 0x2b) || (c >= 0x2d && c <= 0x3a) || (c >= 0x3c && c <= 0x5b) || (c >= 0x5d && c <= 0x7e)
}

// ValidCookieValue reports whether v is *cookie-octet or a DQUOTE-wrapped one.
func ValidCookieValue(v string) bool {
	if len(v) >= 2 && v[0] == '"' && v[len(v)-1] == '"' {
		v = v[1 : len(v)-1]
	}
	for i := 0; i < len(v); i++ {
		if !IsCookieOctet(v[i]) {
			return false
		}
	}
	return true
}

// ParseSetCookie applies the server-side grammar. An error class is returned for lines a
// conforming user agent has no obligation to interpret the way the server meant.
func ParseSetCookie(line string) (*SetCookie, string) {
	parts := strings.Split(line, ";")
	nv := parts[0]
	eq := strings.IndexByte(nv, '=')
	if eq <= 0 {
		return nil, "no-name"
	}
	name, val := nv[:eq], nv[eq+1:]
	for i := 0; i < len(name); i++ {
		if !isTChar(name[i]) {
			return nil, "name-not-token"
		}
	}
	sc := &SetCookie{Name: name}
	if len(val) >= 2 && val[0] == '"' && val[len(val)-1] == '"' {
		sc.Quoted = true
		val = val[1 : len(val)-1]
	}
	for i := 0; i < len(val); i++ {
		if !IsCookieOctet(val[i]) {
			return nil, "value-not-cookie-octets"
		}
	}
	sc.Value = val
	for _, a := range parts[1:] {
		a = strings.TrimLeft(a, " ")
		for i := 0; i < len(a); i++ {
			if a[i] < 0x20 || a[i] == 0x7f {
				return nil, "attr-ctl"
			}
		}
		sc.Attrs = append(sc.Attrs, a)
		k, v, _ := strings.Cut(a, "=")
		switch strings.ToLower(k) {
		case "path":
			sc.Path = v
		case "domain":
			sc.Domain = v
		case "max-age":
			n, err := strconv.Atoi(v)
			if err != nil {
				return nil, "max-age-syntax"
			}
			sc.MaxAge = &n
		case "expires":
			t, err := time.Parse("Mon, 02 Jan 2006 15:04:05 GMT", v)
			if err != nil {
				return nil, "expires-syntax"
			}
			sc.Expires = &t
		case "secure":
			sc.Secure = true
		case "httponly":
			sc.HTTPOnly = true
		case "samesite":
			sc.SameSite = v
		}
	}
	return sc, ""
}

// Expired tells whether the line instructs the client to drop the cookie at instant now.
func (sc *SetCookie) Expired(now time.Time) bool {
	if sc.MaxAge != nil {
		return *sc.MaxAge <= 0
	}
	if sc.Expires != nil {
		return !sc.Expires.After(now)
	}
	return false
}

// Jar is a minimal conforming client cookie store for one host (name+path keyed).
type Jar struct {
	c []*SetCookie
}

// Store applies a Set-Cookie line received for a request to "/"; see StoreFrom.
func (j *Jar) Store(line string, now time.Time) (ignored string) {
	return j.StoreFrom(line, now, "/")
}

// DefaultPath is the default-path of RFC 6265 section 5.1.4 for a request path.
func DefaultPath(reqPath string) string {
	if reqPath == "" || reqPath[0] != '/' {
		return "/"
	}
	i := strings.LastIndexByte(reqPath, '/')
	if i <= 0 {
		return "/"
	}
	return reqPath[:i]
}

// StoreFrom applies a Set-Cookie line received in the response to a request for reqPath;
// ill-formed lines are ignored and reported. A cookie without Path attribute gets the
// default-path of the request, so it replaces / deletes only a stored cookie with that path.
func (j *Jar) StoreFrom(line string, now time.Time, reqPath string) (ignored string) {
	sc, bad := ParseSetCookie(line)
	if bad != "" {
		return bad
	}
	p := sc.Path
	if p == "" || p[0] != '/' {
		p = DefaultPath(reqPath)
	}
	sc.Path = p
	for i, o := range j.c {
		if o.Name == sc.Name && o.Path == sc.Path {
			j.c = append(j.c[:i], j.c[i+1:]...)
			break
		}
	}
	if !sc.Expired(now) {
		j.c = append(j.c, sc)
	}
	return ""
}

// Header renders the Cookie request header for a path ("" when there is nothing to send).
func (j *Jar) Header(path string) string {
	var sb strings.Builder
	for _, c := range j.c {
		if !pathMatch(path, c.Path) {
			continue
		}
		if sb.Len() > 0 {
			sb.WriteString("; ")
		}
		sb.WriteString(c.Name)
		sb.WriteByte('=')
		if c.Quoted {
			sb.WriteByte('"')
		}
		sb.WriteString(c.Value)
		if c.Quoted {
			sb.WriteByte('"')
		}
	}
	return sb.String()
}

func (j *Jar) Get(name string) (string, bool) {
	for _, c := range j.c {
		if c.Name == name {
			return c.Value, true
		}
	}
	return "", false
}

func (j *Jar) Len() int { return len(j.c) }

func pathMatch(reqPath, cookiePath string) bool {
	if reqPath == cookiePath {
		return true
	}
	if strings.HasPrefix(reqPath, cookiePath) {
		if strings.HasSuffix(cookiePath, "/") {
			return true
		}
		if len(reqPath) > len(cookiePath) && reqPath[len(cookiePath)] == '/' {
			return true
		}
	}
	return false
}
