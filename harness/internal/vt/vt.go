// Package vt holds the virtual-time helpers. See DESIGN.md 2.3.
package vt

import (
	"fmt"
	"os"
	"time"

	"github.com/gofiber/utils/v2"
)

// Require aborts the engine when it was built without the fake clock.
func Require() {
	if !Enabled {
		fmt.Fprintln(os.Stderr, "this engine needs the vt build (-tags faketime, CGO_ENABLED=0, GOMAXPROCS=1)")
		os.Exit(4)
	}
}

// Barrier returns only when every other goroutine is blocked (mutex, channel, cond, or a
// timer later than now+1ns). Exact and load-independent under the fake clock.
func Barrier() { time.Sleep(1) }

// Advance moves virtual time forward by d and lets every ticker that fired store its new
// coarse timestamp (1 ms settle).
func Advance(d time.Duration) {
	if d > 0 {
		time.Sleep(d)
	}
	time.Sleep(time.Millisecond)
}

var t0 time.Time

// Start must be the first thing an engine does: starts the coarse clock of gofiber/utils at
// virtual t=0 and moves to t0+500ms so that harness actions never coincide with a tick.
func Start() {
	t0 = time.Now()
	utils.StartTimeStampUpdater()
	time.Sleep(500 * time.Millisecond)
}

// Since is virtual time elapsed since Start.
func Since() time.Duration { return time.Since(t0) }

// AlignHalf sleeps to the next instant of the form k s + 500 ms (+1 ms settle) strictly after now,
// at least d from now.
func AlignHalf(d time.Duration) {
	el := time.Since(t0) + d
	k := el / time.Second
	target := k*time.Second + 500*time.Millisecond
	if target < el {
		target += time.Second
	}
	time.Sleep(target - time.Since(t0))
	time.Sleep(time.Millisecond)
}
