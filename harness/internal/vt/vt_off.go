//go:build !faketime

package vt

const Enabled = false
