//go:build faketime

package vt

// Enabled is true when the binary runs on the Go runtime's fake clock (-tags faketime,
// CGO_ENABLED=0): time only advances when every goroutine is blocked.
const Enabled = true
