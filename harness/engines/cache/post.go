package cache

import (
	"fmt"
	"sort"
	"time"

	"verifharness/internal/vt"
)

// advance moves the virtual clock forward by n whole seconds, staying on the k s + 501 ms grid.
func advance(n int) {
	if n <= 0 {
		return
	}
	vt.AlignHalf(time.Duration(n)*time.Second - 500*time.Millisecond)
}

// onGrid puts the virtual clock exactly on the k s + 501 ms grid if it is not there (scheduler
// runs drift by a nanosecond per step). Exactness matters for speed, not for verdicts: every app
// ever built leaves a 300 ms clock goroutine behind, and apps built on the same grid instant wake
// at the same virtual instants, i.e. with one jump of the fake clock instead of one each.
func onGrid() {
	if vt.Since()%time.Second != 501*time.Millisecond {
		vt.AlignHalf(0)
	}
}

// followUp runs one more request on its own goroutine and reports whether it completed within
// `wait` (virtual seconds in vt builds). After a panic inside the first critical section of the
// middleware its mutex stays locked and every later request blocks.
func (g *rig) followUp(wait time.Duration) bool {
	m := "GET"
	if len(g.cf.Methods) > 0 {
		m = g.cf.Methods[0]
	}
	q := &rq{Method: m, Key: "followup", Status: 200, Size: 8}
	if !g.inline && g.yield == nil {
		g.do(q) // guarded: reports the deadlock itself
		return !q.Hung
	}
	done := make(chan struct{})
	go func() {
		g.doInline(q)
		close(done)
	}()
	if g.realtime {
		switch g.waitRealtime(done) {
		case "done":
			return true
		case "timeout":
			g.mu.Lock()
			g.dead = true
			g.mu.Unlock()
			g.e.Inconclusive("cache.race: the follow-up request after a panic did not complete within the real-time guard and no leaked lock was confirmed")
			g.followUpInconclusive = true
			return false
		}
		g.mu.Lock()
		g.dead = true
		g.mu.Unlock()
		return false
	}
	select {
	case <-done:
		return true
	case <-time.After(wait):
		g.mu.Lock()
		g.dead = true
		g.mu.Unlock()
		return false
	}
}

// reportPanic records the panic of q and checks whether the middleware still serves requests.
// The rig must not be used on the calling goroutine afterwards if this returns false.
func (g *rig) reportPanic(q *rq, class string, extra map[string]any) bool {
	site := panicSite(q.Panic)
	if extra == nil {
		extra = map[string]any{}
	}
	extra["request"] = q.String()
	extra["panic"] = firstLine(q.Panic)
	extra["stack"] = trimStack(q.Panic)
	g.viol("panic|"+site+"|"+class, "the cache middleware panicked: "+firstLine(q.Panic), extra)
	// a request that is not blocked completes without any virtual time passing (the middleware has
	// no timers of its own on the request path), so a short virtual wait is exact; kept short
	// because every virtual second costs a wake-up of the clock goroutine of every app built so far
	wait := 50 * time.Millisecond
	if !g.followUp(wait) {
		if g.followUpInconclusive {
			return false
		}
		delete(extra, "stack")
		g.viol("deadlock|mutex-held-after-panic", "after the panic a further request never completes (the middleware's mutex is still locked)", extra)
		return false
	}
	return true
}

// usedKeys lists every method+key requested so far (sorted).
func (g *rig) usedKeys() []string {
	g.mu.Lock()
	seen := map[string]bool{}
	for _, q := range g.reqs {
		if q.Key != "followup" {
			seen[q.mkey()] = true
		}
	}
	g.mu.Unlock()
	ks := make([]string, 0, len(seen))
	for k := range seen {
		ks = append(ks, k)
	}
	sort.Strings(ks)
	return ks
}

// fillCheck is the accounting monitor (MaxBytes > 0, quiescent): one second later four fresh
// keys of MaxBytes/4 bytes each, with an expiration later than that of anything cached before,
// are stored. Entries with the nearest expiration are evicted first, so everything older goes
// and exactly these four fit: all four must hit, and the bound must hold over all keys. A
// positive drift of the byte counter loses capacity (fewer hit), a negative one keeps older
// entries alive beyond MaxBytes (or, wrapped around, empties the heap and panics). Two more
// inserts must then evict (eviction still works) and leave the bound intact.
func (g *rig) fillCheck(class string) {
	if g.cf.MaxBytes <= 0 || g.cf.MaxBytes%4 != 0 {
		return
	}
	if !g.cf.methodOK("GET") {
		return
	}
	prior := g.usedKeys()
	if !g.realtime {
		advance(1)
	}
	s := g.cf.MaxBytes / 4
	mk := func(i int) *rq {
		q := &rq{Method: "GET", Key: fmt.Sprintf("fill%d", i), Status: 200, Size: s}
		if g.cf.ExpGen {
			q.ExpSec = 30
			if g.realtime {
				q.ExpSec = 86400 // real time: no stall of the machine may let a fill response expire before it is probed
			}
		}
		return q
	}
	var fills []string
	ins := func(i int) bool {
		q := mk(i)
		g.do(q)
		if q.Hung {
			return false
		}
		if q.Panic != "" {
			g.reportPanic(q, g.panicClass(q), map[string]any{"during": "fill after quiescence (" + class + ")"})
			return false
		}
		g.judge(q)
		fills = append(fills, q.mkey())
		return true
	}
	for i := 0; i < 4; i++ {
		if !ins(i) {
			return
		}
	}
	n, _, ok := g.probeBound(fills)
	if !ok {
		return
	}
	g.e.Stat("fill-checks", 1)
	if n < 4 {
		g.viol("accounting|drift|capacity-lost", fmt.Sprintf("after quiescence four fresh %d B responses (MaxBytes=%d) were stored, only %d are still cached: the byte counter exceeds what is held", s, g.cf.MaxBytes, n), map[string]any{"class": class})
	}
	if _, _, ok := g.probeBound(append(append([]string(nil), prior...), fills...)); !ok {
		return
	}
	for i := 4; i < 6; i++ {
		if !ins(i) {
			return
		}
	}
	g.probeBound(append(append([]string(nil), prior...), fills...))
	g.checkVstoreBound()
}
