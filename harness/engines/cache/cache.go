// Package cache is the runtime monitor for property C14 (cache middleware: transparent, fresh,
// bounded, concurrency-safe). See DESIGN.md 3.C14.
//
// "cache"       vt build, GOMAXPROCS=1. Families:
//
//	timed  sequential timed histories on the virtual clock (all actions at k s + 500 ms)
//	burst  sequential histories with hundreds of small entries: mass removal, refill (heap growth / shrinkage)
//	exh    fixed small concurrent scenarios, schedules enumerated exhaustively (DFS)
//	sched  generated concurrent scenarios, bounded DFS / random walks
//
// "cache.race"  -race build, real time: 32 goroutines, 3 keys, Expiration 1 s, small MaxBytes;
//
//	panic / transparency / accounting monitors only; the driver collects race reports.
package cache

import (
	"verifharness/internal/ev"
	"verifharness/internal/reg"
	"verifharness/internal/vt"
)

func init() {
	reg.Register("cache", run)
	reg.Register("cache.race", runRace)
}

func run(e *ev.Env) {
	vt.Require()
	vt.Start()
	setHook(nil)
	corpus(e)
	// Counts are per invocation. Every cache.New leaves a goroutine behind that wakes every
	// 300 ms of virtual time for the rest of the process (plus a 1 s ticker per memory store), so
	// the cost of a process grows with the square of the number of apps it has built: ~3000 apps
	// per shard is the practical limit. The thorough totals of DESIGN 3.C14 (200 000 histories,
	// 300 000 schedules) are reached by repeating the invocation with derived seeds
	// (checks_table "reps": 10), not by one long-lived process.
	e.Cases("timed", e.N(3000, 20000), func(c *ev.Case) { runTimed(e, c) })
	e.Cases("burst", e.N(48, 600), func(c *ev.Case) { runBurst(e, c) })
	e.Cases("exh", len(exhScenarios()), func(c *ev.Case) { runExh(e, c) })
	// a case explores up to schedPerCase schedules of one generated scenario
	e.Cases("sched", e.N(3000, 30000)/schedPerCase(e), func(c *ev.Case) { runSched(e, c) })
}

func schedPerCase(e *ev.Env) int { return e.N(50, 200) }
