// Package cache is the runtime monitor for property C14 (cache middleware: transparent, fresh,
// bounded, concurrency-safe). See DESIGN.md 3.C14.
//
// "cache"       vt build, GOMAXPROCS=1. Families:
//
//	timed  sequential timed histories on the virtual clock (all actions at k s + 500 ms)
//	exh    fixed small concurrent scenarios, schedules enumerated exhaustively (DFS)
//	sched  generated concurrent scenarios, bounded DFS / random walks
//
// "cache.race"  -race build, real time: 32 goroutines, 3 keys, Expiration 1 s, small MaxBytes;
//
//	panic / transparency / accounting monitors only; the driver collects race reports.
package cache

import (
	"verifharness/internal/ev"
	"verifharness/internal/reg"
	"verifharness/internal/vt"
)

func init() {
	reg.Register("cache", run)
	reg.Register("cache.race", runRace)
}

func run(e *ev.Env) {
	vt.Require()
	vt.Start()
	setHook(nil)
	corpus(e)
	e.Cases("timed", e.N(3000, 200000), func(c *ev.Case) { runTimed(e, c) })
	e.Cases("exh", len(exhScenarios()), func(c *ev.Case) { runExh(e, c) })
	// a case explores up to schedPerCase schedules of one generated scenario
	e.Cases("sched", e.N(3000, 300000)/schedPerCase(e), func(c *ev.Case) { runSched(e, c) })
}

func schedPerCase(e *ev.Env) int { return e.N(50, 200) }
