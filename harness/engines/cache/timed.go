package cache

import (
	"fmt"
	"strings"
	"time"

	"verifharness/internal/ev"
	"verifharness/internal/gen"
)

// step of a timed history: advance the clock by Adv seconds, then send the request
// (or, if Probe, sweep all keys with bound probes).
type step struct {
	Adv   int
	Q     rq
	Sweep bool
}

func genConf(r *gen.Rand) conf {
	cf := conf{}
	cf.Exp = []int{1, 1, 1, 2, 2, 3, 4, 5}[r.Intn(8)]
	cf.ExpGen = r.Chance(1, 3)
	cf.Inv = r.Chance(1, 2)
	cf.Next = r.Chance(1, 4)
	cf.MaxBytes = []int{0, 1024, 4096}[r.Intn(3)]
	cf.StoreHdr = r.Bool()
	cf.KeyGen = r.Intn(3)
	switch r.Intn(10) {
	case 0:
		cf.Methods = []string{"GET"}
	case 1:
		cf.Methods = []string{"GET", "POST"}
	case 2:
		cf.Methods = []string{"POST", "PUT"}
	case 3:
		cf.Methods = []string{"GET", "HEAD", "DELETE"}
	}
	cf.VStore = r.Bool()
	cf.CacheCtl = r.Chance(1, 4)
	cf.Polite = cf.VStore && cf.Inv && r.Chance(2, 3)
	cf.ReuseCtx = r.Bool()
	cf.PreHdr = cf.StoreHdr && r.Bool()
	cf.KeepSlices = cf.VStore && r.Chance(1, 3)
	if r.Chance(1, 7) {
		// keys that differ only in letter case (the app routes case-insensitively by default;
		// the path and a custom KeyGenerator's result keep their spelling)
		all := []string{"coupon/Ab12", "coupon/aB12", "coupon/AB12", "coupon/ab12", "Coupon/ab12", "coupon/ab13"}
		gen.Shuffle(r, all)
		cf.KeyNames = all[:r.Range(2, 5)]
	} else if r.Chance(1, 6) {
		// keys that look like the middleware's own key decoration
		all := []string{"r", "r_HEAD", "r_GET", "r_POST", "r_body", "r_GET_body", "r_HEAD_body", "r_POST_body"}
		gen.Shuffle(r, all[1:])
		cf.KeyNames = all[:r.Range(3, 6)]
		cf.Methods = [][]string{{"GET", "HEAD", "POST"}, {"GET", "HEAD", "POST"}, nil, {"GET", "POST"}}[r.Intn(4)]
	}
	return cf
}

func genSize(r *gen.Rand, max int) int {
	if max == 0 {
		max = 2048
	}
	switch r.Intn(12) {
	case 0:
		return 0
	case 1:
		return r.Range(1, idLen)
	case 2, 3:
		return r.Range(idLen, 64)
	case 4, 5, 6:
		return r.Range(max/4, max/2)
	case 7:
		return max / 2
	case 8:
		return max
	case 9:
		return min(max+1, 4096)
	case 10:
		return r.Range(max/2, max)
	}
	return r.Range(0, 4096)
}

// ccSpell writes a request Cache-Control value that carries `directive` as one element of a list:
// first / middle / last, other (valid) directives around it, with and without the optional
// white space around the commas (RFC 9110 5.6.1). loose additionally spells the directive in
// upper or mixed case.
func ccSpell(r *gen.Rand, directive string, loose bool) string {
	others := []string{"max-age=0", "no-transform", "only-if-cached", "max-stale=5", "min-fresh=1", "max-age=3600", "stale-if-error=9"}
	d := directive
	if loose {
		switch r.Intn(3) {
		case 0:
			d = strings.ToUpper(d)
		case 1:
			d = strings.ToUpper(d[:1]) + d[1:4] + strings.ToUpper(d[4:])
		default:
			d = strings.ToUpper(d[:1]) + d[1:3] + strings.ToUpper(d[3:4]) + d[4:]
		}
	}
	n := r.Intn(4) // number of other directives
	if n == 0 && r.Bool() {
		n = 1
	}
	gen.Shuffle(r, others)
	parts := append([]string(nil), others[:n]...)
	pos := r.Intn(n + 1)
	parts = append(parts[:pos], append([]string{d}, parts[pos:]...)...)
	var sb strings.Builder
	for i, p := range parts {
		if i > 0 {
			sb.WriteString([]string{",", ",", ", ", ", ", " ,", " , ", ",\t", ",  "}[r.Intn(8)])
		}
		sb.WriteString(p)
	}
	return sb.String()
}

// ccGen decides the Cache-Control of a generated request: plain / no-cache / no-store in the
// literal documented spelling or as a list element, and a small share of mixed-case spellings
// that carry no expectation.
func ccGen(r *gen.Rand, q *rq, pNoCache, pNoStore, den int) {
	k := r.Intn(den)
	var d string
	switch {
	case k < pNoCache:
		d = "no-cache"
	case k < pNoCache+pNoStore:
		d = "no-store"
	default:
		return
	}
	if r.Chance(1, 6) {
		// upper / mixed-case spelling: directives are case-insensitive (RFC 9111 5.2), so it is a
		// no-cache / no-store request like any other (judged since the fix in /repo)
		q.CCLoose = d
		q.CC = ccSpell(r, d, true)
		if d == "no-cache" {
			q.NoCache = true
		} else {
			q.NoStore = true
		}
		return
	}
	if d == "no-cache" {
		q.NoCache = true
	} else {
		q.NoStore = true
	}
	if r.Chance(3, 4) {
		q.CC = ccSpell(r, d, false)
	}
}

func genReq(r *gen.Rand, cf conf, nkeys int) rq {
	q := rq{Key: fmt.Sprintf("k%d", r.Intn(nkeys))}
	if cf.KeyNames != nil {
		q.Key = cf.KeyNames[r.Intn(len(cf.KeyNames))]
	}
	mix := 20
	if cf.KeyNames != nil {
		mix = 10 // more HEAD / POST among suffix-like keys
	}
	switch r.Intn(mix) {
	case 0, 1:
		q.Method = "HEAD"
	case 2, 3:
		q.Method = "POST"
	case 4:
		q.Method = "PUT"
	case 5:
		q.Method = "DELETE"
	default:
		q.Method = "GET"
	}
	ccGen(r, &q, 3, 2, 24)
	if cf.Inv && r.Chance(1, 8) {
		q.Inv = true
		// an invalidating request combines freely with everything else; in particular with a
		// no-cache directive and with an origin response that is not stored afterwards
		if q.CC == "" && !q.NoCache && !q.NoStore && r.Chance(1, 3) {
			ccGen(r, &q, 5, 1, 6)
		}
	}
	if cf.Next && r.Chance(1, 10) || cf.Next && q.Inv && r.Chance(1, 4) {
		q.Skip = true
	}
	if r.Chance(4, 5) && !(q.Inv && r.Chance(1, 4)) {
		q.Status = gen.Pick(r, okStatuses)
	} else {
		q.Status = gen.Pick(r, badStatuses)
	}
	q.Size = genSize(r, cf.MaxBytes)
	if q.Inv && cf.MaxBytes > 0 && r.Chance(1, 5) {
		q.Size = min(cf.MaxBytes+1, 4097)
	}
	if cf.ExpGen && r.Chance(3, 4) || r.Chance(1, 8) {
		q.ExpSec = r.Range(1, 5)
	}
	if cf.ExpGen && r.Chance(1, 7) {
		// the generator answers with zero or a sub-second lifetime for this response
		q.ExpSec, q.SubSec = 0, []string{"0", "0", "1", "500", "999"}[r.Intn(5)]
	}
	q.Enc = r.Chance(1, 4)
	if cf.PreHdr {
		for i := range q.Pre {
			q.Pre[i] = []int{0, 0, 1, 1, 1, 2}[r.Intn(6)]
		}
	}
	if cf.StoreHdr && r.Chance(1, 12) {
		q.Multi = true
	}
	if r.Chance(1, 25) {
		q.Sleep = r.Range(1, 2)
	}
	return q
}

func genSteps(r *gen.Rand, cf conf) []step {
	nkeys := r.Range(1, 5)
	n := r.Range(8, 24)
	var out []step
	for i := 0; i < n; i++ {
		st := step{}
		switch r.Intn(20) {
		case 0, 1, 2, 3, 4:
			st.Adv = 1
		case 5, 6:
			st.Adv = 2
		case 7:
			st.Adv = cf.Exp
		case 8:
			st.Adv = cf.Exp + 1
		case 9:
			st.Adv = cf.Exp + 2
		}
		if cf.MaxBytes > 0 && r.Chance(1, 10) {
			st.Sweep = true
		} else {
			st.Q = genReq(r, cf, nkeys)
		}
		out = append(out, st)
	}
	return out
}

func runTimed(e *ev.Env, c *ev.Case) {
	cf := genConf(c.R)
	steps := genSteps(c.R, cf)
	runHistory(e, c, cf, steps, true)
}

// runHistory executes a timed history sequentially and applies all monitors. Returns the rig.
func runHistory(e *ev.Env, c *ev.Case, cf conf, steps []step, fill bool) *rig {
	setHook(nil)
	onGrid()
	g := newRig(e, c, cf)
	e.Stat("timed-histories", 1)
	stored := map[string]*exec{} // mkey -> last execution whose response was marked "miss" (stored)
	hits, expiries, evictions := 0, 0, 0
	var marks strings.Builder
	for i := range steps {
		st := &steps[i]
		advance(st.Adv)
		if st.Sweep {
			if _, _, ok := g.probeBound(g.usedKeys()); !ok {
				return g
			}
			g.checkVstoreBound()
			continue
		}
		q := &st.Q
		g.do(q)
		if q.Hung {
			return g
		}
		if q.Panic != "" {
			class := g.panicClass(q)
			e.Eval(1)
			g.reportPanic(q, class, nil)
			return g
		}
		hit := g.judge(q)
		g.checkVstoreBound()
		mk := q.mkey()
		plain := !q.NoCache && !q.NoStore && !q.invalidates(cf) && cf.methodOK(q.Method)
		switch {
		case hit:
			hits++
			marks.WriteByte('h')
		case q.Mark == "miss":
			marks.WriteByte('m')
		case q.Mark == "unreachable":
			marks.WriteByte('u')
		default:
			marks.WriteByte('-')
		}
		if !hit && plain {
			if x := stored[mk]; x != nil {
				if q.T0-x.Done >= time.Duration(x.ExpSec)*time.Second || q.T0-x.Rq.T0 >= time.Duration(x.ExpSec)*time.Second {
					expiries++
				} else if cf.MaxBytes > 0 {
					evictions++
				}
			}
		}
		if q.invalidates(cf) || (!hit && plain) {
			delete(stored, mk)
		}
		if q.Mark == "miss" && q.Exec != nil {
			stored[mk] = q.Exec
		}
	}
	if cf.MaxBytes > 0 {
		if _, _, ok := g.probeBound(g.usedKeys()); !ok {
			return g
		}
		if fill && !g.bad() {
			g.fillCheck(cf.backend() + "|sequential")
		}
	}
	g.checkVstoreBound()
	e.Stat("timed-hits", int64(hits))
	e.Stat("timed-expiries", int64(expiries))
	e.Stat("timed-evictions", int64(evictions))
	if hits > 0 && (expiries > 0 || evictions > 0) {
		e.Nontrivial("timed", cf.String(), marks.String())
	}
	if hits > 0 {
		e.Sample("timed-history", g.detail(nil))
	}
	return g
}
