package cache

import (
	"sync"
	"time"

	"verifharness/internal/vstore"
)

// keepStore is a fiber.Storage that KEEPS the slice it is given and hands the very same slice
// back, like fiber's internal/storage/memory (entry{data: val}) and gofiber/storage/memory do.
// Presence, TTL (virtual clock), journal, boundaries and the byte-sum introspection are those of
// the vstore it wraps; only the *content* returned for a live key is the retained slice. A
// middleware that re-uses a buffer it has handed to Set therefore finds its older entries changed.
type keepStore struct {
	inner *vstore.Store
	mu    sync.Mutex
	kept  map[string][]byte
}

func newKeepStore(inner *vstore.Store) *keepStore {
	return &keepStore{inner: inner, kept: map[string][]byte{}}
}

func (k *keepStore) Get(key string) ([]byte, error) {
	b, err := k.inner.Get(key)
	if err != nil || b == nil {
		return b, err
	}
	k.mu.Lock()
	v, ok := k.kept[key]
	k.mu.Unlock()
	if ok {
		return v, nil
	}
	return b, nil
}

func (k *keepStore) Set(key string, val []byte, exp time.Duration) error {
	if key != "" && len(val) > 0 {
		k.mu.Lock()
		k.kept[string(append([]byte(nil), key...))] = val // the value is retained, not copied
		k.mu.Unlock()
	}
	return k.inner.Set(key, val, exp)
}

func (k *keepStore) Delete(key string) error {
	k.mu.Lock()
	delete(k.kept, key)
	k.mu.Unlock()
	return k.inner.Delete(key)
}

func (k *keepStore) Reset() error {
	k.mu.Lock()
	k.kept = map[string][]byte{}
	k.mu.Unlock()
	return k.inner.Reset()
}

func (k *keepStore) Close() error { return nil }
