package cache

import (
	"bytes"
	"fmt"
	"strconv"
	"strings"
	"time"
)

// identify finds the origin execution(s) a response came from: the Content-Type carries the id
// of the execution whose item (status, headers, type) is served, the body prefix the id of the
// execution whose body is served (bodies shorter than the id are matched by equality).
func (g *rig) identify(q *rq) (item, body *exec) {
	idOf := func(s string) int {
		n, err := strconv.Atoi(s)
		if err != nil {
			return -1
		}
		return n
	}
	ib, ic := -1, -1
	b := q.Resp.Body
	if len(b) >= idLen && b[0] == 'E' && b[idLen-1] == ';' {
		ib = idOf(string(b[1 : idLen-1]))
	}
	if ct := q.Resp.Get("Content-Type"); strings.HasPrefix(ct, "application/x-e") {
		if rest := strings.TrimPrefix(ct, "application/x-e"); len(rest) >= 6 {
			ic = idOf(rest[:6])
		}
	}
	g.mu.Lock()
	defer g.mu.Unlock()
	if ic >= 1 && ic <= len(g.execs) {
		item = g.execs[ic-1]
	}
	if ib >= 1 && ib <= len(g.execs) {
		body = g.execs[ib-1]
	}
	if body == nil && item != nil && len(b) > 0 && len(b) < idLen && !bytes.Equal(b, item.Body) {
		for _, y := range g.execs {
			if y.Key == item.Key && y.Method == item.Method && bytes.Equal(y.Body, b) {
				body = y
			}
		}
	}
	return item, body
}

// judge applies the per-response monitors to a completed request. Returns true if the
// response was a cache hit.
func (g *rig) judge(q *rq) bool {
	if !q.Done {
		return false
	}
	g.e.Eval(1)
	// a response observed while other requests were in flight gets its own signature class
	sfx := ""
	if g.overlapped(q) {
		sfx = "|concurrent-requests"
	} else if g.concurrent {
		sfx = "|after-concurrent-requests"
	}
	ex := func(m map[string]any) map[string]any {
		if m == nil {
			m = map[string]any{}
		}
		m["request"] = q.String()
		return m
	}
	// bypass: no-store always reaches the origin
	if q.NoStore {
		if q.Exec == nil {
			g.viol("no-store|not-forwarded-to-origin"+sfx, "a no-store request did not reach the origin handler", ex(nil))
		}
		if q.Mark == "hit" {
			g.viol("no-store|served-from-cache"+sfx, "a no-store request was answered from the cache", ex(nil))
		}
	}
	if q.CCLoose != "" {
		// upper / mixed-case directive: no expectation, observed behaviour is counted
		switch {
		case q.CCLoose == "no-store" && q.Mark == "":
			g.e.Stat("mixed-case-no-store-honoured", 1)
		case q.CCLoose == "no-store":
			g.e.Stat("mixed-case-no-store-ignored", 1)
		case q.CCLoose == "no-cache" && q.Mark == "hit":
			g.e.Stat("mixed-case-no-cache-ignored(hit)", 1)
		}
	}
	if q.Mark != "hit" {
		return false
	}
	g.e.Stat("hits", 1)
	if q.Exec != nil {
		// marked hit although the origin ran for this very request: the reply must then still be a stored one
		g.e.Stat("hit-and-origin-ran", 1)
	}
	if q.NoCache {
		g.viol("hit|no-cache-request"+sfx, "a request with Cache-Control: no-cache was answered from the cache", ex(nil))
	}
	if !g.cf.methodOK(q.Method) {
		g.viol("hit|unconfigured-method"+sfx, "a request whose method is not in Methods was answered from the cache", ex(nil))
	}
	x, bx := g.identify(q)
	if x != nil && bx != nil && x != bx {
		// item of one execution, body of another. Which situation: the entry was re-stored with an
		// empty body (a conforming Storage ignores empty values, so the older body stays under
		// <key>_body), or item and body come from different stores of the entry
		class := "item-and-body-of-different-stores"
		if len(x.Body) == 0 && bx.ID < x.ID && bx.Key == x.Key && bx.Method == x.Method {
			class = "entry-restored-with-empty-body"
		}
		if class == "entry-restored-with-empty-body" {
			sfx = "" // a sequential defect, the same whether or not other requests are in flight
		}
		g.viol("transparency|mixed-executions|"+class+sfx, fmt.Sprintf("a hit combines parts of two origin responses: body of execution %d, item (status, Content-Type) of execution %d", bx.ID, x.ID), ex(nil))
		return true
	}
	if x == nil {
		x = bx
	}
	if x == nil {
		g.viol("transparency|unknown-execution"+sfx, "a hit does not identify any recorded origin execution",
			ex(map[string]any{"body_prefix": string(q.Resp.Body[:min(len(q.Resp.Body), 16)]), "ctype": q.Resp.Get("Content-Type")}))
		return true
	}
	ox := ex(map[string]any{"origin_execution": fmt.Sprintf("%s by %s", x.IDs, x.Rq.spec())})
	// transparency
	if x.Key != q.Key {
		g.viol("transparency|other-key"+sfx, "a hit serves the origin response of a different key", ox)
	} else if x.Method != q.Method {
		g.viol("transparency|other-method"+sfx, "a hit serves the origin response of a different method", ox)
	}
	if q.Resp.Status != x.Status {
		g.viol("transparency|status"+sfx, fmt.Sprintf("hit status %d, origin produced %d", q.Resp.Status, x.Status), ox)
	}
	if !bytes.Equal(q.Resp.Body, x.Body) {
		sig := "transparency|body"
		if len(q.Resp.Body) == 0 {
			sig += "|hit-without-body" // the item is there, the separately stored body is not
		}
		if g.realtime && g.vs != nil && len(q.Resp.Body) == 0 {
			// Real time + external storage: item and body are two storage entries with their own
			// TTLs (the body is set first). When the machine stalls between the middleware's
			// freshness decision (second-granular clock refreshed by a goroutine that may be
			// starved) and its read of the body, the body has expired and the hit is served
			// without it. Whether that happens depends on the wall clock, so it is no verdict in
			// the race build; the virtual-time families judge this signature deterministically.
			g.e.Stat("race-hit-without-body-not-judged(wall-clock)", 1)
		} else {
			g.viol(sig+sfx, fmt.Sprintf("hit body (%d B) differs from the origin body (%d B)", len(q.Resp.Body), len(x.Body)), ox)
		}
	}
	if ct := q.Resp.Get("Content-Type"); ct != x.Ctype {
		g.viol("transparency|content-type"+sfx, fmt.Sprintf("hit Content-Type %q, origin %q", ct, x.Ctype), ox)
	}
	if ce := q.Resp.Get("Content-Encoding"); ce != x.Cenc {
		g.viol("transparency|content-encoding"+sfx, fmt.Sprintf("hit Content-Encoding %q, origin %q", ce, x.Cenc), ox)
	}
	if g.cf.StoreHdr {
		for _, k := range []string{"X-U1", "X-U2", "X-Exp-Sec", "X-Exp-Ms"} {
			if got, want := q.Resp.Get(k), x.Hdr[k]; got != want {
				g.viol("transparency|header|"+k+sfx, fmt.Sprintf("hit %s=%q, origin %q", k, got, want), ox)
			}
		}
		if g.cf.PreHdr {
			// headers a middleware in front of the cache had pre-set: what the origin response
			// carried (left alone or overridden) is a stored header; one the origin deleted is
			// not a stored header - no expectation, counted
			for _, k := range preNames {
				want, ok := x.Hdr[k]
				if !ok {
					if q.Resp.Get(k) != "" {
						g.e.Stat("hit-carries-header-the-origin-had-deleted", 1)
					}
					continue
				}
				if got := q.Resp.Get(k); got != want {
					g.viol("transparency|header|"+k+sfx, fmt.Sprintf("hit %s=%q, origin %q", k, got, want), ox)
				}
			}
		}
		// header lines the origin added more than once
		for _, k := range []string{"Link", "Set-Cookie"} {
			want := x.Multi[k]
			if len(want) == 0 {
				continue
			}
			got := q.Resp.All(k)
			if strings.Join(got, "\n") != strings.Join(want, "\n") {
				g.viol("transparency|header|"+k+"|multi-valued"+sfx, fmt.Sprintf("hit carries %d %s line(s) %q, the origin response had %d: %q", len(got), k, got, len(want), want), ox)
			}
		}
	}
	// admission
	if !cacheable[x.Status] {
		g.viol("stored|non-cacheable-status"+sfx, fmt.Sprintf("origin response with status %d was served from the cache later", x.Status), ox)
	}
	if !g.cf.methodOK(x.Method) {
		g.viol("stored|unconfigured-method"+sfx, "origin response to a method outside Methods was served from the cache later", ox)
	}
	if x.Rq.NoStore {
		g.viol("no-store|created-entry"+sfx, "the origin response to a no-store request was served from the cache later", ox)
	}
	if g.cf.MaxBytes > 0 && len(x.Body) > g.cf.MaxBytes {
		g.viol("bound|maxbytes-exceeded|single-entry"+sfx, fmt.Sprintf("a %d B body is held with MaxBytes=%d", len(x.Body), g.cf.MaxBytes), ox)
	}
	if x.Rq.NextTrue {
		g.e.Stat("hit-of-next-skipped-response", 1) // documented as "without cache creation"; not in the statement, counted only
	}
	// freshness: invalidation (only when the order is unambiguous: the request that produced
	// and stored the response had completed before the invalidating request started, and that one
	// had completed before this request started)
	g.mu.Lock()
	var inv *rq
	for _, v := range g.invMu[q.mkey()] {
		if v != q && x.Rq != v && x.Rq.E != 0 && x.Rq.E < v.S && v.E != 0 && v.E < q.S {
			inv = v
		}
	}
	storedBy, storedAt := x.Rq.E, x.Rq.T1
	g.mu.Unlock()
	if inv != nil {
		ox["invalidated_by"] = inv.spec()
		g.viol("stale-hit|after-invalidation"+sfx, "a hit serves a response that was cached before a completed request for which CacheInvalidator returns true for this method+key", ox)
	}
	// freshness: expiry, unambiguous instants only (second-resolution clock of the middleware):
	// more than Expiration + 1 s after the entry was stored
	// (stored-at = completion of the request that stored it, the latest the store can have happened)
	if !g.realtime && storedBy != 0 && storedBy < q.S {
		age := q.T0 - storedAt
		lim := time.Duration(x.ExpSec+1) * time.Second
		if age > lim {
			ox["age"] = age.String()
			ox["expiration_s"] = x.ExpSec
			g.viol("stale-hit|after-expiry"+sfx, fmt.Sprintf("a hit %.3f s after the response was stored, Expiration %d s", age.Seconds(), x.ExpSec), ox)
		}
	}
	return true
}

// probeBound sends, for every method+key used so far, a probe request (answered 500 by the
// origin, so a miss stores nothing) and sums the body sizes of the keys that still hit.
// Returns the number of hitting keys and their total size.
func (g *rig) probeBound(keys []string) (int, int, bool) {
	n, sum := 0, 0
	for _, mk := range keys {
		i := strings.IndexByte(mk, ' ')
		q := &rq{Method: mk[:i], Key: mk[i+1:], Status: 500, Size: 16, Probe: true}
		g.do(q)
		if q.Hung {
			return n, sum, false
		}
		if q.Panic != "" {
			g.reportPanic(q, g.panicClass(q), map[string]any{"during": "bound probe"})
			return n, sum, false
		}
		if g.judge(q) {
			n++
			sum += len(q.Resp.Body)
		}
	}
	g.e.Stat("bound-probes", 1)
	if g.cf.MaxBytes > 0 && sum > g.cf.MaxBytes {
		g.viol("bound|maxbytes-exceeded|"+g.cf.backend(), fmt.Sprintf("%d keys hit at one instant, their bodies total %d B, MaxBytes=%d", n, sum, g.cf.MaxBytes), nil)
	}
	return n, sum, true
}

// checkVstoreBound reports the largest "_body" sum seen after any storage operation.
func (g *rig) checkVstoreBound() {
	g.mu.Lock()
	bm, bo := g.boundMax, g.boundOp
	g.mu.Unlock()
	if g.vs != nil && g.cf.MaxBytes > 0 && bm > g.cf.MaxBytes {
		g.viol("bound|maxbytes-exceeded|vstore", fmt.Sprintf("storage held %d B of bodies after %s, MaxBytes=%d", bm, bo, g.cf.MaxBytes), nil)
	}
}
