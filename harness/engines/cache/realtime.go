package cache

import (
	"runtime"
	"strconv"
	"strings"
	"time"
)

// Real-time (race build) guards. A wall-clock deadline is never a verdict: when it fires the case
// is inconclusive. A deadlock is only reported when it is confirmed WITHOUT a clock, from a
// stop-the-world goroutine dump: some request goroutine waits for the middleware's mutex (blocked
// in sync.(*RWMutex).Lock / (*Mutex).Lock called directly from the handler closure of
// middleware/cache) while NO other goroutine has a frame of middleware/cache on its stack. The
// holder of that mutex would have to be inside the handler closure (every critical section begins
// and ends there; callbacks and storage calls made inside it keep the closure's frame on the
// stack), and a waiter that has been handed the mutex is made runnable before the releasing
// Unlock returns - so "waiting, and nobody else in the package" means the lock was leaked (a
// return or a panic left it locked) and the waiter can never proceed. The predicate has to hold
// in two consecutive dumps. Only goroutines that ran requests of THIS rig are looked at (earlier,
// abandoned rigs may have left blocked goroutines behind), and only stacks on the request path
// (a frame of fiber's App below the middleware), so the middleware's own clock goroutine does not
// count as "inside".

const (
	rtGuard = 90 * time.Second // generous: practically never fires on a healthy tree, even under load
	rtPoll  = 250 * time.Millisecond
)

const cachePkg = "github.com/gofiber/fiber/v3/middleware/cache."

// leakedLock evaluates the predicate on one dump: (waiters for the cache mutex, other goroutines
// inside middleware/cache).
func (g *rig) leakedLock() (waiters, inside int) {
	g.mu.Lock()
	mine := make(map[string]bool, len(g.gids))
	for id := range g.gids {
		mine[strconv.FormatUint(id, 10)] = true
	}
	g.mu.Unlock()
	buf := make([]byte, 1<<20)
	for {
		n := runtime.Stack(buf, true)
		if n < len(buf) {
			buf = buf[:n]
			break
		}
		if len(buf) >= 64<<20 {
			return 0, 1 // cannot see everything: never confirm
		}
		buf = make([]byte, 2*len(buf))
	}
	for _, gr := range strings.Split(string(buf), "\n\n") {
		lines := strings.Split(gr, "\n")
		if len(lines) < 2 || !strings.HasPrefix(lines[0], "goroutine ") {
			continue
		}
		if !strings.Contains(gr, cachePkg) || !strings.Contains(gr, "github.com/gofiber/fiber/v3.(*App).") {
			continue
		}
		state := lines[0]
		if f := strings.Fields(state); len(f) < 2 || !mine[f[1]] {
			continue
		}
		// first frame that is not runtime / sync plumbing
		first := ""
		for _, l := range lines[1:] {
			if l == "" || l[0] == '\t' {
				continue
			}
			if strings.HasPrefix(l, "sync.") || strings.HasPrefix(l, "runtime.") || strings.HasPrefix(l, "internal/") {
				continue
			}
			first = l
			break
		}
		blockedOnMutex := strings.Contains(state, "Mutex.Lock") || strings.Contains(state, "semacquire")
		if blockedOnMutex && strings.HasPrefix(first, cachePkg+"New.func") && strings.Contains(gr, "sync.(*RWMutex).Lock") {
			waiters++
		} else {
			inside++
		}
	}
	return waiters, inside
}

// waitRealtime waits for done. Returns "done", "deadlock" (confirmed by the clock-free predicate
// in two consecutive dumps) or "timeout" (the generous wall-clock guard fired: inconclusive).
func (g *rig) waitRealtime(done <-chan struct{}) string {
	start := time.Now()
	confirmed := 0
	tk := time.NewTicker(rtPoll)
	defer tk.Stop()
	for {
		select {
		case <-done:
			return "done"
		case <-tk.C:
		}
		if w, in := g.leakedLock(); w > 0 && in == 0 {
			confirmed++
			if confirmed >= 2 {
				return "deadlock"
			}
		} else {
			confirmed = 0
		}
		if time.Since(start) > rtGuard {
			return "timeout"
		}
	}
}

// curGoid is the id of the calling goroutine.
func curGoid() uint64 {
	var buf [64]byte
	n := runtime.Stack(buf[:], false)
	f := strings.Fields(string(buf[:n]))
	if len(f) < 2 {
		return 0
	}
	id, _ := strconv.ParseUint(f[1], 10, 64)
	return id
}
