package cache

import (
	"fmt"
	"sync"
	"sync/atomic"
	"time"

	"verifharness/internal/ev"
)

// cache.race: -race build, real time, all Ps. 32 goroutines hammer 3 keys for ~2.5 s with
// Expiration 1 s (entries expire continuously) and a small MaxBytes, memory backend and vstore.
// Judged: panics (and whether the middleware still answers afterwards), transparency of every
// hit, and - after the goroutines have stopped - the accounting monitor (fill check, bound).
// Freshness is not judged (real time). The driver collects the race detector's reports.

const raceWorkers = 32

func runRace(e *ev.Env) {
	setHook(nil)
	e.Cases("hammer", e.N(4, 16), func(c *ev.Case) {
		r := c.R
		cf := conf{Exp: 1, MaxBytes: []int{1000, 2000}[r.Intn(2)], VStore: r.Bool(), StoreHdr: r.Bool(), KeyGen: r.Intn(3),
			Inv: r.Bool(), ExpGen: true}
		varyExp := r.Chance(1, 3)
		// ExpirationGenerator is always configured: the workers' responses live 1 s (the configured
		// Expiration, or 1-2 s by header), the accounting monitor's fill responses ask for 30 s, so
		// that in real time none of them can expire between being stored and being probed
		cf.Polite = cf.VStore && cf.Inv // keep clear of the sequential invalidator-on-absent-entry defect
		g := newRig(e, c, cf)
		g.realtime = true
		g.concurrent = true
		g.inline = true // the workers are the request goroutines; their guard is the stop deadline below
		dur := time.Duration(e.N(2500, 3000)) * time.Millisecond
		var stop atomic.Bool
		var wg sync.WaitGroup
		var nreq, npanic atomic.Int64
		keys := []string{"A", "B", "C"}
		for w := 0; w < raceWorkers; w++ {
			wr := r.Split()
			wg.Add(1)
			go func() {
				defer wg.Done()
				for !stop.Load() {
					q := &rq{Method: "GET", Key: keys[wr.Intn(3)], Status: 200, Size: []int{0, 100, 300, 400, 600}[wr.Intn(5)]}
					if wr.Chance(1, 40) {
						q.Size = cf.MaxBytes + 1 // does not fit at all
					}
					if cf.Inv && wr.Chance(1, 10) {
						q.Inv = true
					}
					if wr.Chance(1, 20) {
						q.NoCache = true
						if wr.Bool() {
							q.CC = ccSpell(wr, "no-cache", false)
						}
					}
					if varyExp && wr.Bool() {
						q.ExpSec = wr.Range(1, 2)
					}
					g.do(q)
					nreq.Add(1)
					if q.Panic != "" {
						npanic.Add(1)
						stop.Store(true)
						g.reportPanic(q, g.panicClass(q), nil)
						return
					}
					g.judge(q)
					if wr.Chance(1, 8) {
						time.Sleep(time.Duration(wr.Range(1, 30)) * time.Millisecond)
					}
				}
			}()
		}
		// stop after dur (or as soon as a worker panicked); a worker blocked behind a mutex that
		// a panicking request left locked never returns: wait with a deadline
		deadline := time.After(dur)
		done := make(chan struct{})
		go func() { wg.Wait(); close(done) }()
		select {
		case <-deadline:
			stop.Store(true)
		case <-done:
		}
		// no wall-clock verdict: a confirmed leaked lock is a violation, a fired guard is inconclusive
		if res := g.waitRealtime(done); res != "done" {
			switch {
			case npanic.Load() != 0:
				// already reported by the panicking worker (panic + follow-up)
			case res == "deadlock":
				g.viol("deadlock|request-never-completes|"+g.hangClass("parallel-burst"), "workers wait for the middleware's mutex while no goroutine is inside the middleware (goroutine dump, twice): the lock was leaked", nil)
			default:
				e.Inconclusive("cache.race: workers did not finish within the real-time guard after the stop signal and no leaked lock was confirmed")
			}
			e.Stat("race-requests", nreq.Load())
			e.Stat("race-cases-ended-early", 1)
			if nreq.Load() >= 100 {
				e.Nontrivial("race", c.ID, cf.String())
			}
			return
		}
		g.inline = false // from here on sequential requests, each under the (real-time) guard
		e.Stat("race-requests", nreq.Load())
		e.Stat("race-cases-ran-full-duration", 1)
		e.Nontrivial("race", c.ID, cf.String())
		g.mu.Lock()
		g.trace = g.trace[:0] // keep the post-quiescence part as the witness
		g.mu.Unlock()
		g.checkVstoreBound()
		if npanic.Load() == 0 && !g.bad() {
			time.Sleep(1100 * time.Millisecond) // real time: let the one-second entries age past the fill's
			g.fillCheck(cf.backend() + "|race")
		}
		e.Sample("race", fmt.Sprintf("%s: %d requests", cf.String(), nreq.Load()))
	})
}
