package cache

import (
	"fmt"

	"verifharness/internal/ev"
	"verifharness/internal/gen"
)

// The `burst` family: sequential histories with MaxBytes > 0 that bring many (70-300) small
// entries into the cache at once, remove more than three quarters of them again (invalidation by
// requests whose own answer is not stored, eviction by a few large responses, or both), refill
// past the old size, invalidate early survivors and finally store a few mid-size responses.
// The expiry heap and its byte accounting go through growth, mass removal and re-growth; judged by
// the ordinary monitors: no panic / hang, the MaxBytes bound (storage contents after every
// operation with vstore, probe sweeps of all keys with both backends), the accounting fill check.

func runBurst(e *ev.Env, c *ev.Case) {
	r := c.R
	cf := conf{Exp: r.Range(2, 5), ExpGen: true, Inv: true, MaxBytes: []int{1024, 1024, 4096}[r.Intn(3)], StoreHdr: r.Chance(1, 3),
		KeyGen: r.Intn(3), VStore: r.Bool(), ReuseCtx: r.Bool()}
	cf.Polite = cf.VStore
	cf.KeepSlices = cf.VStore && r.Chance(1, 4)
	setHook(nil)
	onGrid()
	g := newRig(e, c, cf)
	g.tailTrace = true
	e.Stat("burst-histories", 1)

	n := r.Range(70, 300)
	maxSize := cf.MaxBytes / n // all of them fit at the same time
	if maxSize > 12 {
		maxSize = 12
	}
	if maxSize < 1 {
		maxSize = 1
	}
	// send runs one request and applies the per-response monitors; false = stop (panic / hang)
	send := func(q *rq) bool {
		g.do(q)
		if q.Hung {
			return false
		}
		if q.Panic != "" {
			e.Eval(1)
			g.reportPanic(q, g.panicClass(q), map[string]any{"during": "burst history"})
			return false
		}
		g.judge(q)
		g.checkVstoreBound()
		return true
	}
	store := func(key string, size int) bool {
		return send(&rq{Method: "GET", Key: key, Status: 200, Size: size, ExpSec: r.Range(5, 20)})
	}
	drop := func(key string) bool { // invalidates; the answer itself (503) is not stored
		return send(&rq{Method: "GET", Key: key, Status: 503, Size: 3, Inv: true})
	}
	sweep := func() (int, bool) {
		k, _, ok := g.probeBound(g.usedKeys())
		return k, ok
	}

	// 1. the burst
	keys := make([]string, n)
	for i := range keys {
		keys[i] = fmt.Sprintf("b%03d", i)
		if !store(keys[i], r.Range(1, maxSize)) {
			return
		}
	}
	live1, ok := sweep()
	if !ok {
		return
	}
	e.StatMax("burst-max-live-entries", int64(live1))

	// 2. mass removal: more than three quarters
	mode := r.Intn(3) // 0 invalidation, 1 eviction, 2 both
	order := make([]int, n)
	for i := range order {
		order[i] = i
	}
	if r.Bool() {
		gen.Shuffle(r, order[1:]) // the first entry (first heap handle) survives this phase
	}
	gone := map[int]bool{}
	if mode == 0 || mode == 2 {
		k := n * r.Range(78, 97) / 100
		if mode == 2 {
			k = n * r.Range(40, 60) / 100
		}
		for _, i := range order[n-k:] {
			if !drop(keys[i]) {
				return
			}
			gone[i] = true
		}
	}
	if mode == 1 || mode == 2 {
		// a few large responses push out whatever expires first
		for j, left := 0, cf.MaxBytes; j < 3 && left > 0; j++ {
			sz := left * r.Range(40, 70) / 100
			if j == 2 {
				sz = left
			}
			if !store(fmt.Sprintf("big%d", j), sz) {
				return
			}
			left -= sz
		}
		for j := 0; j < 3; j++ {
			if r.Bool() && !drop(fmt.Sprintf("big%d", j)) {
				return
			}
		}
	}
	live2, ok := sweep()
	if !ok {
		return
	}

	// 3. refill past the number of entries that were left
	m := r.Range(10, n)
	if r.Bool() {
		m = r.Range(live2+5, live2+60)
	}
	fillSize := cf.MaxBytes / (2 * (m + 1))
	if fillSize > 24 {
		fillSize = 24
	}
	if fillSize < 1 {
		fillSize = 1
	}
	for i := 0; i < m; i++ {
		if !store(fmt.Sprintf("r%03d", i), r.Range(1, fillSize)) {
			return
		}
	}

	// 4. early survivors go, then a few mid-size responses
	for _, i := range order[:min(len(order), r.Range(1, 6))] {
		if !gone[i] && !drop(keys[i]) {
			return
		}
	}
	for i := 0; i < r.Range(0, 5); i++ {
		if !drop(fmt.Sprintf("r%03d", r.Intn(m))) {
			return
		}
	}
	for j := 0; j < r.Range(2, 4); j++ {
		if !store(fmt.Sprintf("mid%d", j), cf.MaxBytes*r.Range(15, 24)/100) {
			return
		}
	}
	if _, ok := sweep(); !ok {
		return
	}
	if !g.bad() {
		g.fillCheck(cf.backend() + "|burst")
	}
	g.checkVstoreBound()
	if live1 > 64 && live2*4 < live1 {
		e.Nontrivial("burst", c.ID, cf.String())
		e.Stat("burst-histories-over-64-live-then-under-a-quarter", 1)
	}
	e.Sample("burst", fmt.Sprintf("%s: %d entries live, %d after removal (mode %d), refill %d", cf.String(), live1, live2, mode, m))
}
