package cache

import (
	"fmt"
	"strconv"
	"strings"

	"verifharness/internal/ev"
	"verifharness/internal/sched"
)

// fetchFirst is the schedule of the hypothesis in DESIGN 3.C14: every request is started, then
// every request fetches its entry (released from cache.afterGet in worker order) before any of
// them goes on; the rest runs in worker order.
func fetchFirst(step int, parked []sched.Parked) int {
	rank := func(p sched.Parked) int {
		switch p.Point {
		case "start":
			return 0
		case "cache.afterGet":
			return 1
		}
		return 2
	}
	best := 0
	for i, p := range parked {
		b := parked[best]
		if rank(p) < rank(b) || (rank(p) == rank(b) && p.Worker < b.Worker) {
			best = i
		}
	}
	return best
}

// replay releases the workers in the recorded order ("0:start 1:start 0:cache.afterGet ...").
func replay(schedule string) sched.Chooser {
	var seq []int
	for _, f := range strings.Fields(schedule) {
		w, _ := strconv.Atoi(f[:strings.IndexByte(f, ':')])
		seq = append(seq, w)
	}
	return func(step int, parked []sched.Parked) int {
		if step < len(seq) {
			for i, p := range parked {
				if p.Worker == seq[step] {
					return i
				}
			}
		}
		return 0
	}
}

func get(key string, size int) step {
	return step{Q: rq{Method: "GET", Key: key, Status: 200, Size: size}}
}

// corpus: the smallest witnesses of what the generated families found on the unchanged tree,
// plus positive controls. Seed-independent, shard 0 only.
func corpus(e *ev.Env) {
	// positive control: miss, hit, hit, expiry, miss; bound holds; fill check passes
	for _, vs := range []bool{false, true} {
		name := "control-memory"
		if vs {
			name = "control-vstore"
		}
		e.Corpus(name, func(c *ev.Case) {
			cf := conf{Exp: 2, MaxBytes: 1024, VStore: vs, StoreHdr: true, Inv: true, Polite: true}
			st := []step{get("a", 300), get("a", 300), get("b", 600), {Adv: 1, Q: rq{Method: "GET", Key: "a", Status: 200, Size: 10}},
				{Adv: 1, Q: rq{Method: "GET", Key: "a", Status: 200, Size: 400}}, get("c", 500), {Sweep: true},
				{Q: rq{Method: "GET", Key: "c", Status: 200, Size: 1, Inv: true}}, get("c", 1)}
			g := runHistory(e, c, cf, st, true)
			marks := ""
			for _, q := range g.reqs[:5] {
				marks += q.Mark + " "
			}
			if marks != "miss hit miss hit miss " {
				e.Inconclusive("control history did not behave as a cache: " + marks)
			}
		})
	}
	// request Cache-Control as a list: the directive first / middle / last, with and without the
	// optional white space after the comma
	for _, vs := range []bool{false, true} {
		name := "cache-control-lists-memory"
		if vs {
			name = "cache-control-lists-vstore"
		}
		e.Corpus(name, func(c *ev.Case) {
			cf := conf{Exp: 5, VStore: vs, StoreHdr: true}
			st := []step{get("a", 100), get("a", 100)}
			for _, v := range []string{"max-age=0,no-cache", "no-cache,max-age=0", "no-transform , no-cache", "only-if-cached,no-cache,max-age=0", "max-age=0, no-cache", "max-stale=5,\tno-cache"} {
				st = append(st, step{Q: rq{Method: "GET", Key: "a", Status: 200, Size: 100, NoCache: true, CC: v}}, get("a", 100))
			}
			for i, v := range []string{"no-transform,no-store", "no-store,max-age=0", "max-age=0 ,no-store", "no-transform, no-store", "only-if-cached,no-store,min-fresh=1"} {
				k := "s" + strconv.Itoa(i)
				st = append(st, step{Q: rq{Method: "GET", Key: k, Status: 200, Size: 100, NoStore: true, CC: v}}, get(k, 100), get(k, 100))
			}
			runHistory(e, c, cf, st, false)
		})
	}
	// one recycled RequestCtx: what the cache keeps of a response must not live in its buffers
	for _, vs := range []bool{false, true} {
		name := "reused-ctx-memory"
		if vs {
			name = "reused-ctx-vstore"
		}
		e.Corpus(name, func(c *ev.Case) {
			cf := conf{Exp: 5, VStore: vs, StoreHdr: true, ReuseCtx: true, MaxBytes: 4096}
			enc := func(k string, n int) step { return step{Q: rq{Method: "GET", Key: k, Status: 200, Size: n, Enc: true}} }
			st := []step{enc("a", 300), enc("b", 20), enc("c", 700), enc("a", 1), enc("b", 1), enc("c", 1),
				{Q: rq{Method: "GET", Key: "d", Status: 404, Size: 0, Enc: true}}, enc("a", 1), enc("d", 1), get("e", 50), enc("a", 1), enc("e", 1)}
			g := runHistory(e, c, cf, st, false)
			hits := 0
			for _, q := range g.reqs {
				if q.Mark == "hit" {
					hits++
				}
			}
			if hits < 6 {
				e.Inconclusive("reused-ctx control produced too few hits")
			}
		})
	}
	// an invalidating request whose own origin response is not stored (non-cacheable status, Next,
	// larger than MaxBytes), plain or with no-cache: the entry it invalidated must be gone afterwards
	for _, vs := range []bool{false, true} {
		name := "invalidation-without-restore-memory"
		if vs {
			name = "invalidation-without-restore-vstore"
		}
		e.Corpus(name, func(c *ev.Case) {
			cf := conf{Exp: 5, MaxBytes: 1024, VStore: vs, Inv: true, Next: true, StoreHdr: true}
			var st []step
			i := 0
			for _, nocache := range []bool{false, true} {
				for _, how := range []string{"status", "next", "oversized", "stored"} {
					k := "i" + strconv.Itoa(i)
					i++
					v := rq{Method: "GET", Key: k, Status: 200, Size: 100, Inv: true, NoCache: nocache}
					switch how {
					case "status":
						v.Status = 503
					case "next":
						v.Skip = true
					case "oversized":
						v.Size = 1025
					}
					if nocache && i%2 == 0 {
						v.CC = "max-age=0,no-cache"
					}
					st = append(st, get(k, 100), get(k, 100), step{Q: v}, get(k, 100), get(k, 100))
				}
			}
			runHistory(e, c, cf, st, false)
		})
	}
	// ExpirationGenerator answers 0 / 1 ms / 500 ms / 999 ms: zero whole seconds of lifetime; two
	// seconds later (and later still) the response must not be served
	for _, vs := range []bool{false, true} {
		name := "generated-subsecond-expiration-memory"
		if vs {
			name = "generated-subsecond-expiration-vstore"
		}
		e.Corpus(name, func(c *ev.Case) {
			cf := conf{Exp: 5, ExpGen: true, VStore: vs, StoreHdr: true, MaxBytes: 4096}
			var st []step
			for i, ms := range []string{"0", "1", "500", "999"} {
				k := "z" + strconv.Itoa(i)
				st = append(st, step{Q: rq{Method: "GET", Key: k, Status: 200, Size: 100, SubSec: ms}},
					step{Adv: 2, Q: rq{Method: "GET", Key: k, Status: 500, Size: 10}},
					step{Adv: 1, Q: rq{Method: "GET", Key: k, Status: 500, Size: 10}})
			}
			// control: a generated 3 s lifetime is served in between
			st = append(st, step{Q: rq{Method: "GET", Key: "c", Status: 200, Size: 100, ExpSec: 3}}, step{Adv: 2, Q: rq{Method: "GET", Key: "c", Status: 500, Size: 10}})
			g := runHistory(e, c, cf, st, false)
			mark := ""
			for _, q := range g.reqs {
				if q.Key == "c" && !q.Probe {
					mark = q.Mark
				}
			}
			if mark != "hit" {
				e.Inconclusive("generated-expiration control did not hit: " + mark)
			}
		})
	}
	// keys that end in _GET / _HEAD / _POST / _body: method and key spaces stay apart
	for _, vs := range []bool{false, true} {
		name := "keys-with-method-and-body-suffixes-memory"
		if vs {
			name = "keys-with-method-and-body-suffixes-vstore"
		}
		e.Corpus(name, func(c *ev.Case) {
			cf := conf{Exp: 5, VStore: vs, StoreHdr: true, Methods: []string{"GET", "HEAD", "POST"}, KeyGen: 1}
			m := func(method, key string, status, size int) step {
				return step{Q: rq{Method: method, Key: key, Status: status, Size: size, Enc: true}}
			}
			st := []step{m("GET", "r_HEAD", 203, 120), m("HEAD", "r", 200, 40), m("HEAD", "r", 200, 40), m("GET", "r_HEAD", 200, 1),
				m("GET", "r", 200, 300), m("GET", "r_body", 404, 77), m("GET", "r", 200, 1), m("GET", "r_body", 200, 1),
				m("POST", "r", 200, 55), m("GET", "r_POST", 410, 66), m("POST", "r", 200, 1), m("GET", "r_POST", 200, 1),
				m("GET", "r_GET", 200, 90), m("GET", "r_GET_body", 301, 30), m("GET", "r", 200, 1), m("GET", "r_GET", 200, 1), m("GET", "r_GET_body", 200, 1),
				m("HEAD", "r_body", 200, 10), m("GET", "r_body_HEAD", 200, 20), m("HEAD", "r_body", 200, 1)}
			runHistory(e, c, cf, st, false)
		})
	}
	// a storage that keeps the slices it is given: several keys with differing metadata
	e.Corpus("storage-keeps-slices", func(c *ev.Case) {
		cf := conf{Exp: 5, VStore: true, KeepSlices: true, StoreHdr: true, MaxBytes: 4096}
		m := func(key string, status, size int, enc bool) step {
			return step{Q: rq{Method: "GET", Key: key, Status: status, Size: size, Enc: enc}}
		}
		st := []step{m("aaaa", 200, 100, true), m("bbbb", 404, 300, false), m("cc", 203, 20, true), m("aaaa", 200, 1, false), m("bbbb", 200, 1, false),
			m("cc", 200, 1, false), m("dddddd", 410, 0, true), m("aaaa", 200, 1, false), m("cc", 200, 1, false), m("dddddd", 200, 1, false)}
		g := runHistory(e, c, cf, st, false)
		hits := 0
		for _, q := range g.reqs {
			if q.Mark == "hit" {
				hits++
			}
		}
		if hits < 6 {
			e.Inconclusive("storage-keeps-slices control produced too few hits")
		}
	})
	// keys that differ only in letter case, default and custom KeyGenerator
	for _, kg := range []int{0, 2} {
		for _, vs := range []bool{false, true} {
			name := fmt.Sprintf("keys-differing-in-case/keygen%d-%s", kg, conf{VStore: vs}.backend())
			e.Corpus(name, func(c *ev.Case) {
				cf := conf{Exp: 5, VStore: vs, StoreHdr: true, KeyGen: kg}
				st := []step{get("coupon/Ab12", 100), get("coupon/aB12", 100), get("coupon/Ab12", 1), get("coupon/aB12", 1), get("coupon/ab12", 50), get("COUPON/AB12", 60), get("coupon/ab12", 1), get("coupon/Ab12", 1)}
				runHistory(e, c, cf, st, false)
			})
		}
	}
	// StoreResponseHeaders: headers pre-set by a middleware in front of the cache and overridden /
	// left alone / deleted by the origin; header lines the origin adds twice
	for _, vs := range []bool{false, true} {
		vs := vs
		e.Corpus("pre-set-headers-"+conf{VStore: vs}.backend(), func(c *ev.Case) {
			cf := conf{Exp: 5, VStore: vs, StoreHdr: true, PreHdr: true}
			var st []step
			i := 0
			for a := 0; a < 3; a++ {
				for b := 0; b < 3; b++ {
					k := "h" + strconv.Itoa(i)
					i++
					st = append(st, step{Q: rq{Method: "GET", Key: k, Status: 200, Size: 50, Pre: [3]int{a, b, (a + b) % 3}}}, get(k, 1), get(k, 1))
				}
			}
			runHistory(e, c, cf, st, false)
		})
		e.Corpus("multi-valued-headers-"+conf{VStore: vs}.backend(), func(c *ev.Case) {
			cf := conf{Exp: 5, VStore: vs, StoreHdr: true}
			runHistory(e, c, cf, []step{{Q: rq{Method: "GET", Key: "m", Status: 200, Size: 50, Multi: true}}, get("m", 1), get("m", 1)}, false)
		})
	}
	// CacheInvalidator returns true for a key the external storage does not hold: manager.get
	// hands out a zero item (heapidx 0), the middleware marks it expired and removes heap index 0.
	e.Corpus("invalidator-absent-entry-empty-heap", func(c *ev.Case) {
		cf := conf{Exp: 2, MaxBytes: 1000, VStore: true, Inv: true}
		runHistory(e, c, cf, []step{{Q: rq{Method: "GET", Key: "a", Status: 200, Size: 10, Inv: true}}}, false)
	})
	e.Corpus("invalidator-absent-entry-foreign-heap-slot", func(c *ev.Case) {
		cf := conf{Exp: 5, MaxBytes: 1000, VStore: true, Inv: true}
		runHistory(e, c, cf, []step{get("a", 600), {Q: rq{Method: "GET", Key: "b", Status: 200, Size: 10, Inv: true}}, get("c", 600), {Sweep: true}}, false)
	})
	// an entry re-stored with an empty body: a conforming Storage ignores empty values, the
	// older body stays under <key>_body and is served with the new item
	e.Corpus("restore-with-empty-body", func(c *ev.Case) {
		cf := conf{Exp: 5, VStore: true}
		runHistory(e, c, cf, []step{get("a", 100), {Q: rq{Method: "GET", Key: "a", Status: 200, Size: 0, NoCache: true}}, get("a", 50)}, false)
	})
	// two requests fetch the same expired / invalidated entry before either takes the mutex
	for _, sc := range exhScenarios() {
		sc := sc
		if len(sc.Workers) != 2 {
			continue
		}
		switch sc.Name {
		case "exh/memory/2w/stale-same", "exh/vstore/2w/stale-same", "exh/memory/2w/inv-same", "exh/vstore/2w/inv-same":
			e.Corpus("fetch-first/"+sc.Name[4:], func(c *ev.Case) {
				r := runSchedule(e, c, sc, fetchFirst)
				e.Nontrivial("corpus", sc.Name, r.out.Key())
			})
		}
	}
	// three requests: further consequences of the entry being fetched before the mutex is taken
	// (schedules found by the exhaustive family; worker 3 of a clock scenario is the clock tick)
	for _, w := range []struct{ name, scen, schedule string }{
		{"race/hit-without-body", "exh/vstore/3w/stale-same", "0:start 1:start 0:cache.afterGet 0:handler 2:start 1:cache.afterGet 2:cache.afterGet 1:handler"},
		{"race/hit-item-and-body-mixed", "exh/vstore/3w/stale-same", "0:start 0:cache.afterGet 1:start 0:handler 1:cache.afterGet 2:start 1:handler 2:cache.afterGet"},
		{"race/bound-after-foreign-heap-slot-removed", "exh/vstore/3w/clock-mixed", "0:start 1:start 2:start 3:start 0:cache.afterGet 2:cache.afterGet 0:handler 2:handler 1:cache.afterGet 1:handler"},
	} {
		w := w
		for _, sc := range exhScenarios() {
			sc := sc
			if sc.Name == w.scen {
				e.Corpus(w.name, func(c *ev.Case) {
					r := runSchedule(e, c, sc, replay(w.schedule))
					e.Nontrivial("corpus", sc.Name, r.out.Key())
				})
			}
		}
	}
}
