package cache

import "verifharness/internal/ev"

func corpus(e *ev.Env)  {}
func runRace(e *ev.Env) {}
