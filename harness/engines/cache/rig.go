package cache

import (
	"fmt"
	"runtime"
	"runtime/debug"
	"strconv"
	"strings"
	"sync"
	"time"

	"github.com/gofiber/fiber/v3"
	fcache "github.com/gofiber/fiber/v3/middleware/cache"
	"github.com/gofiber/utils/v2"
	"github.com/valyala/fasthttp"

	"verifharness/internal/drive"
	"verifharness/internal/ev"
	"verifharness/internal/vstore"
	"verifharness/internal/vt"
)

// cacheable statuses as documented in docs/middleware/cache.md
var cacheable = map[int]bool{200: true, 203: true, 204: true, 206: true, 300: true, 301: true,
	404: true, 405: true, 410: true, 414: true, 418: true, 501: true}

var (
	okStatuses  = []int{200, 200, 200, 200, 203, 204, 206, 300, 301, 404, 405, 410, 414, 418, 501}
	badStatuses = []int{201, 202, 302, 303, 307, 400, 401, 403, 409, 429, 500, 502, 503}
)

// conf is the generated middleware configuration.
type conf struct {
	Exp      int      // Expiration, seconds
	ExpGen   bool     // ExpirationGenerator (reads the origin's X-Exp-Sec response header)
	Inv      bool     // CacheInvalidator (request header X-Inv: 1)
	Next     bool     // Next (request header X-Skip: 1)
	MaxBytes int      // 0 = unlimited
	StoreHdr bool     // StoreResponseHeaders
	KeyGen   int      // 0 nil (documented default), 1 explicit copy of the default, 2 custom (X-Key header)
	Methods  []string // nil = default (GET, HEAD)
	VStore   bool     // injected storage instead of the memory backend
	CacheCtl bool     // CacheControl
	// Polite is a workload switch, not middleware configuration: with the injected storage the
	// X-Inv header is only sent when the storage holds a live entry for the key at that moment
	// (keeps histories clear of the invalidator-on-absent-entry defect so that they reach further).
	Polite bool
	// ReuseCtx is a workload switch as well: every request of the (sequential) history is served
	// through ONE fasthttp.RequestCtx whose response is Reset() before each request, like the
	// connection serve loop does, so response header buffers are recycled between requests and
	// anything the cache kept by reference is overwritten by the next response.
	ReuseCtx bool
	// KeepSlices (workload switch, injected storage only): the storage retains the slices it is
	// given and returns them uncopied (keepStore), like fiber's own memory storage driver.
	KeepSlices bool
	// PreHdr (workload switch, with StoreResponseHeaders): the middleware in front of the cache
	// pre-sets response headers (constant defaults, like helmet does) which the origin handler
	// overrides, deletes or leaves alone, per request.
	PreHdr bool
	// KeyNames (workload switch): the logical keys of the history; nil = k0..k4. Used for key
	// sets whose members end in _GET / _HEAD / _POST / _body or extend one another by such a
	// suffix, which must still be kept apart per method and per key.
	KeyNames []string
}

func (cf conf) String() string {
	return fmt.Sprintf("exp=%d expgen=%v inv=%v next=%v max=%d hdr=%v keygen=%d methods=%v vstore=%v cc=%v polite=%v reusectx=%v keepslices=%v keys=%v prehdr=%v",
		cf.Exp, cf.ExpGen, cf.Inv, cf.Next, cf.MaxBytes, cf.StoreHdr, cf.KeyGen, cf.Methods, cf.VStore, cf.CacheCtl, cf.Polite, cf.ReuseCtx, cf.KeepSlices, cf.KeyNames, cf.PreHdr)
}

func (cf conf) backend() string {
	if cf.VStore {
		return "vstore"
	}
	return "memory"
}

func (cf conf) methodOK(m string) bool {
	ms := cf.Methods
	if len(ms) == 0 {
		ms = []string{"GET", "HEAD"}
	}
	for _, x := range ms {
		if x == m {
			return true
		}
	}
	return false
}

// rq is one request and everything observed about it.
type rq struct {
	ID      int
	Method  string
	Key     string // logical key name
	NoCache bool
	NoStore bool
	CC      string // Cache-Control header value as sent ("" = derived from NoCache / NoStore)
	// CCLoose: the directive in CC is spelled in upper / mixed case. RFC 9111 compares directives
	// case-insensitively, the middleware's documentation only shows the lower-case spelling: such
	// requests carry no expectation (NoCache / NoStore stay false), what happens is only counted.
	CCLoose string
	Inv     bool // carries X-Inv: 1
	Skip    bool // carries X-Skip: 1
	Status  int  // what the origin answers if reached
	Size    int
	ExpSec  int // origin sets X-Exp-Sec (ExpirationGenerator input); 0 = header absent
	// SubSec: origin sets X-Exp-Ms instead ("0", "1", "500", "999"): the generator returns that many
	// milliseconds, i.e. a lifetime below one second (zero whole seconds). "" = header absent.
	SubSec string
	Enc    bool   // origin sets a Content-Encoding
	Pre    [3]int // per pre-set header (preNames): 0 leave alone, 1 override, 2 delete
	Multi  bool   // origin adds two Link and two Set-Cookie header lines
	Sleep  int    // origin sleeps that many virtual seconds (vt, sequential only)
	Probe  bool   // bound probe (origin answers 500, so a miss stores nothing)

	// observed
	S, E     int64 // logical ticks at start / end
	T0, T1   time.Duration
	InvTrue  bool // CacheInvalidator returned true during this request
	NextTrue bool
	Exec     *exec // origin execution caused by this request
	Resp     *drive.Resp
	Mark     string
	Panic    string
	Done     bool
	Absent   bool // vstore only: no live entry under this request's storage key when it started
	Hung     bool // the request never completed (deadlock guard fired), or the rig was already abandoned
}

// preNames / preDefaults: what the middleware in front of the cache puts on every response
var (
	preNames    = [3]string{"X-Frame-Options", "X-Pre-A", "Vary"}
	preDefaults = [3]string{"DENY", "outer-default", "Accept-Encoding"}
)

func (q *rq) mkey() string { return q.Method + " " + q.Key }

// invalidates: the request is an invalidation of its method+key. That is a property of the
// request, not of what the middleware chose to do with it: CacheInvalidator is configured, it
// returns true for this request (it is a pure function of the X-Inv header), and the request goes
// through the cache (configured method, not bypassed by no-store). Whether the middleware actually
// consulted the callback is recorded separately (InvTrue); a mixed-case no-store spelling leaves
// it open whether the request bypasses, so there only an observed call counts.
func (q *rq) invalidates(cf conf) bool {
	if q.InvTrue {
		return true
	}
	return q.Inv && cf.Inv && cf.methodOK(q.Method) && !q.NoStore && q.CCLoose != "no-store"
}

// spec renders the immutable part of the request (safe to call from any goroutine).
func (q *rq) spec() string {
	s := fmt.Sprintf("#%d %s %s", q.ID, q.Method, q.Key)
	if q.NoCache {
		s += " no-cache"
	}
	if q.NoStore {
		s += " no-store"
	}
	if q.CC != "" {
		s += fmt.Sprintf(" cc=%q", q.CC)
	}
	if q.Inv {
		s += " inv"
	}
	if q.Skip {
		s += " skip"
	}
	if q.Probe {
		s += " probe"
	}
	s += fmt.Sprintf(" [origin: %d, %dB", q.Status, q.Size)
	if q.ExpSec > 0 {
		s += fmt.Sprintf(", exp=%ds", q.ExpSec)
	}
	if q.SubSec != "" {
		s += fmt.Sprintf(", exp=%sms", q.SubSec)
	}
	if q.Pre != [3]int{} {
		s += fmt.Sprintf(", pre-set headers %v", q.Pre)
	}
	if q.Multi {
		s += ", 2xLink 2xSet-Cookie"
	}
	if q.Sleep > 0 {
		s += fmt.Sprintf(", sleeps %ds", q.Sleep)
	}
	return s + "]"
}

// String adds what was observed (only for the goroutine that ran the request, or at quiescence).
func (q *rq) String() string {
	s := q.spec()
	if q.Done {
		s += fmt.Sprintf(" @%.3fs -> %d %q", q.T0.Seconds(), q.Resp.Status, q.Mark)
		if q.Exec != nil {
			s += " exec " + q.Exec.IDs
		} else if len(q.Resp.Body) >= idLen {
			s += " body-of " + string(q.Resp.Body[:idLen-1])
		}
	}
	if q.Panic != "" {
		s += " PANIC"
	}
	return s
}

// exec is one execution of the origin handler.
type exec struct {
	ID     int
	IDs    string
	Rq     *rq
	Method string
	Key    string
	Status int
	Body   []byte
	Ctype  string
	Cenc   string
	Hdr    map[string]string
	Multi  map[string][]string // header lines the origin added more than once
	At     time.Duration
	Done   time.Duration
	DoneTk int64
	ExpSec int // effective expiration in seconds for this execution
}

const idLen = 8 // "E000123;"

func idStr(id int) string { return fmt.Sprintf("E%06d;", id) }

func mkBody(id, size int) []byte {
	b := make([]byte, size)
	ids := idStr(id)
	for i := range b {
		if i < len(ids) {
			b[i] = ids[i]
		} else {
			b[i] = byte('a' + (id*7+i)%26)
		}
	}
	return b
}

type rig struct {
	e   *ev.Env
	c   *ev.Case
	cf  conf
	app *fiber.App
	d   *drive.Direct
	vs  *vstore.Store

	mu    sync.Mutex
	reqs  []*rq
	execs []*exec
	clk   int64
	start time.Time

	realtime             bool            // race mode: no freshness, no virtual clock
	yield                func(string)    // scheduler boundary (nil = sequential)
	mask                 map[string]bool // enabled boundaries (nil = all)
	trace                []string        // rendered requests, for witnesses
	sigs                 map[string]bool // signatures already reported in this rig (one record per rig)
	boundMax             int             // largest vstore "_body" sum seen
	boundOp              string
	invMu                map[string][]*rq     // mkey -> requests for which the invalidator returned true
	fctx                 *fasthttp.RequestCtx // the one reused context (conf.ReuseCtx)
	extra                map[string]any       // scenario / schedule, merged into every violation detail
	concurrent           bool                 // requests overlapped at some point in this rig's life
	inline               bool                 // requests run on the caller's goroutine (parallel workers of cache.race)
	followUpInconclusive bool
	tailTrace            bool            // witness keeps the tail of a long history
	gids                 map[uint64]bool // real-time build: goroutines that ran requests of this rig
	dead                 bool            // a request never completed: the rig is abandoned, nothing more is sent
}

func (g *rig) now() time.Duration {
	if g.realtime {
		return time.Since(g.start)
	}
	return vt.Since()
}

func (g *rig) tick() int64 {
	g.mu.Lock()
	g.clk++
	t := g.clk
	g.mu.Unlock()
	return t
}

// y is a scheduler boundary inside a configuration callback / the origin handler.
func (g *rig) y(point string) {
	if g.yield == nil {
		return
	}
	if g.mask != nil && !g.mask[point] {
		return
	}
	g.yield(point)
}

func (g *rig) lookup(c fiber.Ctx) *rq {
	n, err := strconv.Atoi(c.Get("X-Rq"))
	g.mu.Lock()
	defer g.mu.Unlock()
	if err != nil || n < 0 || n >= len(g.reqs) {
		return nil
	}
	return g.reqs[n]
}

func newRig(e *ev.Env, c *ev.Case, cf conf) *rig {
	g := &rig{e: e, c: c, cf: cf, sigs: map[string]bool{}, invMu: map[string][]*rq{}, start: time.Now()}
	cc := fcache.Config{
		Expiration:           time.Duration(cf.Exp) * time.Second,
		MaxBytes:             uint(cf.MaxBytes),
		StoreResponseHeaders: cf.StoreHdr,
		CacheControl:         cf.CacheCtl,
	}
	if cf.Methods != nil {
		cc.Methods = append([]string(nil), cf.Methods...)
	}
	if cf.VStore {
		g.vs = vstore.New()
		g.vs.Yield = func(p string) { g.y(p) }
		if cf.MaxBytes > 0 {
			g.vs.AfterOp = func(op vstore.Op) {
				sum := g.vs.SumSuffix("_body")
				g.mu.Lock()
				if sum > g.boundMax {
					g.boundMax = sum
					g.boundOp = fmt.Sprintf("%s %s (%d B)", op.Kind, op.Key, op.Size)
				}
				g.mu.Unlock()
			}
		}
		cc.Storage = g.vs
		if cf.KeepSlices {
			cc.Storage = newKeepStore(g.vs)
		}
	}
	switch cf.KeyGen {
	case 1:
		cc.KeyGenerator = func(c fiber.Ctx) string {
			g.y("KeyGenerator")
			return utils.CopyString(c.Path())
		}
	case 2:
		cc.KeyGenerator = func(c fiber.Ctx) string {
			g.y("KeyGenerator")
			return "ck:" + c.Get("X-Key")
		}
	}
	if cf.Inv {
		cc.CacheInvalidator = func(c fiber.Ctx) bool {
			g.y("CacheInvalidator")
			v := c.Get("X-Inv") == "1"
			if v {
				if q := g.lookup(c); q != nil {
					g.mu.Lock()
					q.InvTrue = true
					g.mu.Unlock()
				}
			}
			return v
		}
	}
	if cf.Next {
		cc.Next = func(c fiber.Ctx) bool {
			g.y("Next")
			v := c.Get("X-Skip") == "1"
			if v {
				if q := g.lookup(c); q != nil {
					q.NextTrue = true
				}
			}
			return v
		}
	}
	if cf.ExpGen {
		cc.ExpirationGenerator = func(c fiber.Ctx, cfg *fcache.Config) time.Duration {
			g.y("ExpirationGenerator")
			if ms, err := strconv.Atoi(c.GetRespHeader("X-Exp-Ms", "")); err == nil && ms >= 0 {
				return time.Duration(ms) * time.Millisecond
			}
			n, err := strconv.Atoi(c.GetRespHeader("X-Exp-Sec", ""))
			if err != nil || n <= 0 {
				return cfg.Expiration
			}
			return time.Duration(n) * time.Second
		}
	}
	app := fiber.New()
	// A middleware in front of the cache (a logger, say): the response of a request is what is
	// there when the whole chain has returned, not what the cache had set when it returned. Under
	// the scheduler a request can be parked here ("afterCache") while others go through the cache;
	// in the real-time build hits linger here for a moment.
	app.Use(func(c fiber.Ctx) error {
		if cf.PreHdr && cf.StoreHdr {
			for i, name := range preNames {
				c.Set(name, preDefaults[i])
			}
		}
		err := c.Next()
		g.y("afterCache")
		if g.realtime && g.inline && string(c.Response().Header.Peek("X-Cache")) == "hit" {
			runtime.Gosched()
			time.Sleep(200 * time.Microsecond)
		}
		return err
	})
	app.Use(fcache.New(cc))
	app.All("/*", g.origin)
	g.app = app
	g.d = drive.NewDirect(app)
	return g
}

func (g *rig) origin(c fiber.Ctx) error {
	q := g.lookup(c)
	if q == nil {
		return c.Status(500).SendString("harness: unknown request")
	}
	g.y("handler")
	g.mu.Lock()
	id := len(g.execs) + 1
	x := &exec{ID: id, IDs: idStr(id), Rq: q, Method: q.Method, Key: q.Key, Status: q.Status, At: g.now()}
	if q.Probe {
		x.Status = 500
	}
	x.Body = mkBody(id, q.Size)
	// values of different lengths from execution to execution: a value kept by reference in a
	// recycled header buffer shows up truncated or with a foreign tail
	x.Ctype = fmt.Sprintf("application/x-e%06d%s", id, strings.Repeat("+v", (id*3)%5))
	if q.Enc {
		x.Cenc = []string{"gzip", "deflate", "br", "zstd", "identity", "compress"}[id%6] + strings.Repeat("x", (id*5)%4) + "-" + strconv.Itoa(id)
	}
	x.Hdr = map[string]string{"X-U1": fmt.Sprintf("u1-%06d", id), "X-U2": fmt.Sprintf("u2-%06d-%s", id, q.Key)}
	x.ExpSec = g.cf.Exp
	if q.SubSec != "" {
		x.Hdr["X-Exp-Ms"] = q.SubSec
		if g.cf.ExpGen {
			x.ExpSec = 0 // a lifetime of zero whole seconds
		}
	} else if q.ExpSec > 0 {
		x.Hdr["X-Exp-Sec"] = strconv.Itoa(q.ExpSec)
		if g.cf.ExpGen {
			x.ExpSec = q.ExpSec
		}
	}
	if g.cf.PreHdr && g.cf.StoreHdr {
		// what the origin response carries for the pre-set headers when the handler is done
		for i, name := range preNames {
			switch q.Pre[i] {
			case 0:
				x.Hdr[name] = preDefaults[i]
			case 1:
				x.Hdr[name] = fmt.Sprintf("%s-by-origin-%d", []string{"SAMEORIGIN", "inner", "Origin"}[i], id)
			}
		}
	}
	if q.Multi {
		x.Multi = map[string][]string{
			"Link":       {fmt.Sprintf("</a%d>; rel=preload", id), fmt.Sprintf("</b%d>; rel=preload", id)},
			"Set-Cookie": {fmt.Sprintf("a=%d; path=/", id), fmt.Sprintf("b=%d; path=/", id)},
		}
	}
	g.execs = append(g.execs, x)
	q.Exec = x
	g.mu.Unlock()
	if q.Sleep > 0 && !g.realtime {
		time.Sleep(time.Duration(q.Sleep) * time.Second) // stays on the k s + 501 ms grid
	}
	c.Status(x.Status)
	c.Set("Content-Type", x.Ctype)
	if x.Cenc != "" {
		c.Set("Content-Encoding", x.Cenc)
	}
	for _, k := range []string{"X-U1", "X-U2", "X-Exp-Sec", "X-Exp-Ms"} {
		if v, ok := x.Hdr[k]; ok {
			c.Set(k, v)
		}
	}
	if g.cf.PreHdr && g.cf.StoreHdr {
		for i, name := range preNames {
			switch q.Pre[i] {
			case 1:
				c.Set(name, x.Hdr[name])
			case 2:
				c.Response().Header.Del(name)
			}
		}
	}
	for name, vs := range x.Multi {
		for _, v := range vs {
			c.Response().Header.Add(name, v)
		}
	}
	c.Response().SetBody(x.Body)
	g.mu.Lock()
	x.Done = g.now()
	g.clk++
	x.DoneTk = g.clk
	g.mu.Unlock()
	return nil
}

// build turns the spec into a direct-drive request and registers it.
func (g *rig) build(q *rq) *drive.Req {
	g.mu.Lock()
	q.ID = len(g.reqs)
	g.reqs = append(g.reqs, q)
	g.mu.Unlock()
	dr := &drive.Req{Method: q.Method}
	if g.cf.KeyGen == 2 {
		dr.URI = "/p/" + strconv.Itoa(q.ID%7)
		dr.Hdr = append(dr.Hdr, drive.H{K: "X-Key", V: q.Key})
	} else {
		dr.URI = "/" + q.Key
	}
	dr.Hdr = append(dr.Hdr, drive.H{K: "X-Rq", V: strconv.Itoa(q.ID)})
	switch {
	case q.CC != "":
		dr.Hdr = append(dr.Hdr, drive.H{K: "Cache-Control", V: q.CC})
	case q.NoStore:
		dr.Hdr = append(dr.Hdr, drive.H{K: "Cache-Control", V: "no-store"})
	case q.NoCache:
		dr.Hdr = append(dr.Hdr, drive.H{K: "Cache-Control", V: "no-cache"})
	}
	if q.Inv {
		dr.Hdr = append(dr.Hdr, drive.H{K: "X-Inv", V: "1"})
	}
	if q.Skip {
		dr.Hdr = append(dr.Hdr, drive.H{K: "X-Skip", V: "1"})
	}
	return dr
}

// skey is the storage key the middleware uses for q.
func (g *rig) skey(q *rq) string {
	if g.cf.KeyGen == 2 {
		return "ck:" + q.Key + "_" + q.Method
	}
	return "/" + q.Key + "_" + q.Method
}

// panicClass names the situation of a request that panicked, from recorded facts only:
// the sequential defect "CacheInvalidator returned true for a key the external storage does not
// hold" (or a later consequence of it), a request that overlapped with others (the entry is
// fetched before the mutex is taken), or a purely sequential history.
func (g *rig) panicClass(q *rq) string {
	switch {
	case q.InvTrue && g.vs != nil && q.Absent:
		return "invalidator-on-absent-entry"
	case g.suspect() == "|after-invalidator-on-absent-entry":
		return "after-invalidator-on-absent-entry"
	case g.overlapped(q):
		return "entry-fetched-before-lock-race"
	case g.concurrent:
		return "after-concurrent-requests"
	case q.InvTrue:
		return "sequential|invalidator|" + g.cf.backend()
	}
	return "sequential|expired-entry|" + g.cf.backend()
}

// do runs one request under the deadlock guard. Scheduler workers and the parallel workers of
// cache.race are their own guard (sched.Outcome.Deadlock, the burst's stop deadline): there the
// request runs on the caller's goroutine. Everywhere else (timed histories, seeding, bound
// probes, fills, corpus) the request runs on its own goroutine and the caller waits for it with a
// virtual-time limit: under the fake clock a timer only fires when every goroutine is blocked, and
// nothing on the request path waits on a timer except the origin's scripted sleep, so a request
// that has not completed when the timer fires never will. (In the real-time race build there is
// no such clock: see realtime.go - a deadlock is only reported when a goroutine dump confirms a
// leaked lock, a fired guard alone is inconclusive.) The rig is then abandoned (the goroutine
// is leaked, nothing more is sent through it) and the violation is reported; the process goes on.
func (g *rig) do(q *rq) {
	g.mu.Lock()
	dead := g.dead
	g.mu.Unlock()
	if dead {
		q.Hung = true
		return
	}
	if g.yield != nil || g.inline {
		g.doInline(q)
		return
	}
	done := make(chan struct{})
	go func() {
		g.doInline(q)
		close(done)
	}()
	if g.realtime {
		// race build: no wall-clock verdicts (see realtime.go)
		switch g.waitRealtime(done) {
		case "done":
			return
		case "timeout":
			g.mu.Lock()
			g.dead = true
			g.mu.Unlock()
			q.Hung = true
			g.e.Inconclusive("cache.race: a sequential request did not complete within the real-time guard and no leaked lock was confirmed (" + q.spec() + ")")
			return
		}
	} else {
		t := time.NewTimer(time.Duration(q.Sleep)*time.Second + 50*time.Millisecond)
		select {
		case <-done:
			t.Stop()
			return
		case <-t.C:
		}
	}
	g.mu.Lock()
	g.dead = true
	if len(g.trace) < 80 {
		g.trace = append(g.trace, q.spec()+" NEVER COMPLETES")
	}
	panicked := false
	for _, r := range g.reqs {
		if r != q && r.Panic != "" {
			panicked = true
		}
	}
	g.mu.Unlock()
	q.Hung = true
	g.e.Eval(1)
	if panicked {
		g.viol("deadlock|mutex-held-after-panic", "after the panic a further request never completes (the middleware's mutex is still locked)", map[string]any{"request": q.spec()})
		return
	}
	g.viol("deadlock|request-never-completes|"+g.hangClass(""), "a request never completes: every goroutine is blocked and no timer is pending on the request path (the middleware's mutex is held by nobody who will release it)", map[string]any{"request": q.spec()})
}

// hangClass names the situation of a request that never completed, from recorded facts: the
// family (sequential history, or after / during concurrent requests) and, when it applies, the
// one event known to matter: an earlier origin response that was larger than MaxBytes.
func (g *rig) hangClass(family string) string {
	class := "sequential"
	if family != "" {
		class = family
	} else if g.realtime {
		class = "parallel-burst"
	} else if g.concurrent {
		class = "after-concurrent-requests"
	}
	g.mu.Lock()
	defer g.mu.Unlock()
	if g.cf.MaxBytes > 0 {
		for _, x := range g.execs {
			if len(x.Body) > g.cf.MaxBytes {
				return class + "|after-response-larger-than-maxbytes"
			}
		}
	}
	return class
}

// doInline runs the request on the calling goroutine; a panic is captured in q.Panic.
func (g *rig) doInline(q *rq) {
	if g.realtime {
		id := curGoid()
		g.mu.Lock()
		if g.gids == nil {
			g.gids = map[uint64]bool{}
		}
		g.gids[id] = true
		g.mu.Unlock()
	}
	if g.vs != nil {
		_, ok := g.vs.Peek(g.skey(q))
		q.Absent = !ok
		if g.cf.Polite && q.Absent {
			q.Inv = false
		}
	}
	dr := g.build(q)
	g.mu.Lock()
	g.clk++
	q.S = g.clk
	g.mu.Unlock()
	q.T0 = g.now()
	func() {
		defer func() {
			if r := recover(); r != nil {
				q.Panic = fmt.Sprintf("%v\n%s", r, debug.Stack())
			}
		}()
		if g.cf.ReuseCtx && g.yield == nil && !g.concurrent {
			if g.fctx == nil {
				g.fctx = &fasthttp.RequestCtx{}
			}
			g.fctx.Response.Reset()
			q.Resp = g.d.DoCtx(g.fctx, dr)
			g.e.Stat("requests-through-reused-ctx", 1)
		} else {
			q.Resp = g.d.Do(dr)
		}
	}()
	g.mu.Lock()
	g.clk++
	q.E = g.clk
	q.T1 = g.now()
	if q.Panic == "" && q.invalidates(g.cf) {
		g.invMu[q.mkey()] = append(g.invMu[q.mkey()], q)
	}
	g.mu.Unlock()
	if q.Panic == "" {
		q.Done = true
		q.Mark = q.Resp.Get("X-Cache")
	}
	g.mu.Lock()
	if len(g.trace) < 80 {
		g.trace = append(g.trace, q.String())
	} else if g.tailTrace {
		// long histories: keep the first 20 and the most recent 59 requests
		if g.trace[20] != "..." {
			g.trace[20] = "..."
		}
		g.trace = append(g.trace[:21], g.trace[22:]...)
		g.trace = append(g.trace, q.String())
	}
	g.mu.Unlock()
}

func (g *rig) detail(extra map[string]any) map[string]any {
	g.mu.Lock()
	tr := append([]string(nil), g.trace...)
	g.mu.Unlock()
	d := map[string]any{"config": g.cf.String(), "history": tr}
	for k, v := range g.extra {
		d[k] = v
	}
	for k, v := range extra {
		d[k] = v
	}
	return d
}

// suspect names an earlier recorded event that is known to corrupt the byte accounting, so that
// bound / accounting violations downstream of it get their own signature.
func (g *rig) suspect() string {
	g.mu.Lock()
	defer g.mu.Unlock()
	for _, q := range g.reqs {
		if q.InvTrue && g.vs != nil && q.Absent {
			return "|after-invalidator-on-absent-entry"
		}
	}
	if g.concurrent {
		return "|after-concurrent-requests"
	}
	return ""
}

// overlapped: some other request was in flight while q was.
func (g *rig) overlapped(q *rq) bool {
	g.mu.Lock()
	defer g.mu.Unlock()
	for _, r := range g.reqs {
		if r != q && r.S != 0 && r.S < q.E && (r.E == 0 || r.E > q.S) {
			return true
		}
	}
	return false
}

// viol reports a signature once per rig.
func (g *rig) viol(sig, what string, extra map[string]any) {
	if strings.HasPrefix(sig, "bound|maxbytes-exceeded|") || strings.HasPrefix(sig, "accounting|") {
		sig += g.suspect()
	}
	g.mu.Lock()
	seen := g.sigs[sig]
	g.sigs[sig] = true
	g.mu.Unlock()
	if seen {
		return
	}
	g.e.Violation(g.c, sig, what, g.detail(extra))
}

func (g *rig) bad() bool {
	g.mu.Lock()
	defer g.mu.Unlock()
	return len(g.sigs) > 0
}

// panicSig classifies a panic inside the middleware by the heap operation it died in.
func panicSite(stack string) string {
	switch {
	case strings.Contains(stack, "cache.(*indexedHeap).removeFirst"):
		return "heap-removeFirst-on-empty-heap"
	case strings.Contains(stack, "cache.(*indexedHeap).remove("):
		return "heap-remove-stale-index"
	case strings.Contains(stack, "cache.(*indexedHeap).put"):
		return "heap-put"
	}
	return ev.PanicSite(stack)
}

func firstLine(s string) string {
	if i := strings.IndexByte(s, '\n'); i >= 0 {
		return s[:i]
	}
	return s
}

func trimStack(s string) string {
	// keep the frames from the panic downwards
	if i := strings.Index(s, "\npanic("); i >= 0 {
		s = s[i+1:]
	}
	if len(s) > 1400 {
		return s[:1400]
	}
	return s
}
