package cache

import (
	"fmt"
	"sort"
	"strings"
	"time"

	fcache "github.com/gofiber/fiber/v3/middleware/cache"

	"verifharness/internal/ev"
	"verifharness/internal/gen"
	"verifharness/internal/sched"
	"verifharness/internal/vt"
)

func setHook(f func(string)) { fcache.SetVerifYield(f) }

// scen is one concurrent scenario: sequential seeding, then the workers run under the
// deterministic scheduler. "clock" is a pseudo-worker: when the schedule picks it, the virtual
// clock advances by one second while every request is parked at a boundary.
type scen struct {
	Name    string
	Cf      conf
	Seeds   []rq
	Adv     int // seconds between seeding and the concurrent phase
	Workers []rq
	Clock   bool
	Mask    []string // enabled boundaries (besides the implicit "start")
}

func (sc *scen) String() string {
	var sb strings.Builder
	fmt.Fprintf(&sb, "%s | %s | seeds:", sc.Name, sc.Cf.String())
	for i := range sc.Seeds {
		q := &sc.Seeds[i]
		fmt.Fprintf(&sb, " %s %s %dB sleep=%d;", q.Method, q.Key, q.Size, q.Sleep)
	}
	fmt.Fprintf(&sb, " adv=%d clock=%v mask=%v | workers:", sc.Adv, sc.Clock, sc.Mask)
	for i := range sc.Workers {
		q := &sc.Workers[i]
		fmt.Fprintf(&sb, " w%d=%s %s %dB st=%d", i, q.Method, q.Key, q.Size, q.Status)
		if q.Inv {
			sb.WriteString(" inv")
		}
		if q.NoCache {
			sb.WriteString(" no-cache")
		}
		if q.Skip {
			sb.WriteString(" skip")
		}
		sb.WriteString(";")
	}
	return sb.String()
}

type schedRun struct {
	out *sched.Outcome
	g   *rig
	ws  []*rq
}

// runSchedule executes the scenario once from a fresh app under the given chooser and judges it.
func runSchedule(e *ev.Env, c *ev.Case, sc *scen, ch sched.Chooser) *schedRun {
	setHook(nil)
	onGrid()
	g := newRig(e, c, sc.Cf)
	g.extra = map[string]any{"scenario": sc.String()}
	for i := range sc.Seeds {
		q := sc.Seeds[i]
		g.do(&q)
		if q.Hung {
			return &schedRun{out: &sched.Outcome{}, g: g}
		}
		if q.Panic != "" {
			e.Eval(1)
			g.reportPanic(&q, g.panicClass(&q), map[string]any{"during": "seeding"})
			return &schedRun{out: &sched.Outcome{}, g: g}
		}
		g.judge(&q)
	}
	advance(sc.Adv)
	s := sched.New()
	s.DeadlockCap = 50 * time.Millisecond // nothing on the request path waits on a timer
	mask := map[string]bool{}
	for _, m := range sc.Mask {
		mask[m] = true
	}
	g.mask = mask
	g.concurrent = true
	g.yield = s.Yield
	fetched := map[int]bool{} // workers that are past manager.get
	setHook(func(p string) {
		fetched[s.WorkerIndex()] = true
		if mask[p] {
			s.Yield(p)
		}
	})
	// inLock: the worker is parked at a boundary inside one of the middleware's critical sections
	inLock := func(p sched.Parked) bool {
		switch p.Point {
		case "CacheInvalidator", "Next", "ExpirationGenerator", "storage.set", "storage.delete":
			return true
		case "storage.get":
			return fetched[p.Worker]
		}
		return false
	}
	ws := make([]*rq, len(sc.Workers))
	for i := range sc.Workers {
		q := sc.Workers[i]
		ws[i] = &q
		s.Go(fmt.Sprintf("w%d", i), func() { g.do(ws[i]) })
	}
	if sc.Clock {
		s.Go("clock", func() {})
	}
	ticked := false
	out := s.Run(func(step int, parked []sched.Parked) int {
		k := ch(step, parked)
		if k < 0 || k >= len(parked) {
			k = 0
		}
		if parked[k].Name == "clock" && !ticked {
			// The second only passes while no request is parked inside a critical section: a
			// callback or storage call that itself takes a second is a different situation (a
			// hit decided fresh whose separately stored body has expired by the time it is read
			// is then served with an empty body) and is not judged here.
			stalled := false
			for _, p := range parked {
				if inLock(p) {
					stalled = true
				}
			}
			if stalled {
				e.Stat("clock-ticks-skipped-request-inside-critical-section", 1)
			} else {
				ticked = true
				time.Sleep(time.Second) // every request is parked: an atomic one-second tick
				vt.Barrier()
				e.Stat("clock-ticks", 1)
			}
		}
		return k
	})
	setHook(nil)
	g.yield = nil
	e.Stat("schedules", 1)
	for _, re := range out.Released {
		switch {
		case re.Point == "cache.afterGet":
			e.Stat("hook.cache.afterGet", 1)
		case strings.HasPrefix(re.Point, "storage."):
			e.Stat("boundary.storage", 1)
		case re.Point != "start":
			e.Stat("boundary."+re.Point, 1)
		}
	}
	det := map[string]any{"scenario": sc.String(), "schedule": out.Key()}
	g.extra["schedule"] = out.Key()
	res := &schedRun{out: out, g: g, ws: ws}
	panicked := false
	for _, q := range ws {
		if q.Panic == "" {
			continue
		}
		panicked = true
		e.Eval(1)
		class := g.panicClass(q)
		if !g.reportPanic(q, class, det) {
			return res
		}
	}
	if out.Deadlock {
		if !panicked {
			g.mu.Lock()
			g.dead = true
			g.mu.Unlock()
			g.viol("deadlock|request-never-completes|"+g.hangClass("concurrent-requests"), "concurrent requests never finished (no panic): "+strings.Join(out.Blocked, ","), det)
		}
		return res
	}
	for _, q := range ws {
		g.judge(q)
	}
	g.checkVstoreBound()
	if !panicked && !g.bad() {
		g.fillCheck(sc.Cf.backend() + "|concurrent")
	}
	if g.bad() {
		// attach the schedule to whatever the monitors found
		e.Sample("violating-schedule", det)
	}
	return res
}

// explore runs up to max schedules of a scenario: DFS when dfs is set, seeded random walks
// otherwise. Stops at the first violating schedule (the DFS order makes it the smallest one in
// choice-sequence order).
func explore(e *ev.Env, c *ev.Case, sc *scen, max int, dfs bool) (n int, exhausted, bad bool) {
	distinct := map[string]bool{}
	one := func(ch sched.Chooser) *sched.Outcome {
		r := runSchedule(e, c, sc, ch)
		distinct[r.out.Key()] = true
		e.Nontrivial("sched", sc.String(), r.out.Key())
		if r.g.bad() {
			bad = true
		}
		return r.out
	}
	if dfs {
		// sched.DFS has no early exit: wrap so that after a violation the remaining budget is cut
		budget := max
		n, exhausted = dfsUntil(budget, one, nil)
	} else {
		r := c.R.Split()
		for n < max {
			one(sched.RandomChooser(r.Intn))
			n++
		}
	}
	e.Stat("schedules-distinct", int64(len(distinct)))
	return n, exhausted, bad
}

// dfsUntil is sched.DFS with an early stop (same enumeration order).
func dfsUntil(max int, f func(ch sched.Chooser) *sched.Outcome, stop func() bool) (int, bool) {
	var prefix []int
	n := 0
	for {
		pos := 0
		cur := prefix
		ch := func(step int, parked []sched.Parked) int {
			k := 0
			if pos < len(cur) {
				k = cur[pos]
			}
			pos++
			return k
		}
		out := f(ch)
		n++
		var taken, opts []int
		for i, o := range out.Options {
			if o > 1 {
				taken = append(taken, out.Schedule[i])
				opts = append(opts, o)
			}
		}
		i := len(taken) - 1
		for i >= 0 && taken[i]+1 >= opts[i] {
			i--
		}
		if i < 0 {
			return n, true
		}
		prefix = append(append([]int(nil), taken[:i]...), taken[i]+1)
		if (max > 0 && n >= max) || (stop != nil && stop()) {
			return n, false
		}
	}
}

// ---------------------------------------------------------------------------------------------
// exh: fixed scenarios, enumerated exhaustively over the boundaries {start, cache.afterGet, handler}

func exhScenarios() []*scen {
	var out []*scen
	for _, vs := range []bool{false, true} {
		for _, nw := range []int{2, 3} {
			for _, kind := range []string{"stale-same", "stale-mixed", "clock-same", "clock-mixed", "inv-same", "inv-mixed", "fresh-mixed"} {
				cf := conf{Exp: 1, MaxBytes: 1000, VStore: vs, KeyGen: 1, StoreHdr: true}
				sc := &scen{Cf: cf, Mask: []string{"cache.afterGet", "handler"}}
				sc.Name = fmt.Sprintf("exh/%s/%dw/%s", cf.backend(), nw, kind)
				seed := func(key string, sleep int) {
					sc.Seeds = append(sc.Seeds, rq{Method: "GET", Key: key, Status: 200, Size: 400, Sleep: sleep})
				}
				keys := make([]string, nw)
				for i := range keys {
					keys[i] = "A"
				}
				if strings.HasSuffix(kind, "-mixed") {
					keys[nw-1] = "B"
				}
				switch {
				case strings.HasPrefix(kind, "stale"):
					// slow origin: the entry's cache expiry (lookup second + 1) passes while the
					// backend (TTL from the store instant) still returns it
					seed("A", 1)
					if keys[nw-1] == "B" {
						sc.Seeds = nil
						seed("B", 0)
						seed("A", 1)
					}
				case strings.HasPrefix(kind, "clock"):
					seed("A", 0)
					if keys[nw-1] == "B" {
						seed("B", 0)
					}
					sc.Clock = true
				case strings.HasPrefix(kind, "inv"):
					sc.Cf.Inv = true
					seed("A", 0)
					if keys[nw-1] == "B" {
						seed("B", 0)
					}
				default:
					seed("A", 0)
				}
				for i := 0; i < nw; i++ {
					w := rq{Method: "GET", Key: keys[i], Status: 200, Size: 300}
					if sc.Cf.Inv && (i < 2) {
						w.Inv = true
					}
					sc.Workers = append(sc.Workers, w)
				}
				out = append(out, sc)
			}
		}
	}
	// a hit that is still on its way out (parked in a middleware in front of the cache, after the
	// cache has returned) while other requests refresh the entry of the same key: by no-cache,
	// by invalidation, with a body of the same and of a different length
	for _, vs := range []bool{false, true} {
		for _, kind := range []string{"nocache", "inv"} {
			for _, nw := range []int{2, 3} {
				cf := conf{Exp: 5, MaxBytes: 4000, VStore: vs, KeyGen: 1, StoreHdr: true, Inv: kind == "inv"}
				sc := &scen{Cf: cf, Mask: []string{"afterCache", "handler"}}
				sc.Name = fmt.Sprintf("exh/%s/%dw/hit-in-flight-%s", cf.backend(), nw, kind)
				sc.Seeds = []rq{{Method: "GET", Key: "A", Status: 200, Size: 400}}
				sc.Workers = []rq{{Method: "GET", Key: "A", Status: 200, Size: 300}}
				for i, size := range []int{400, 150}[:nw-1] {
					w := rq{Method: "GET", Key: "A", Status: 200, Size: size, NoCache: kind == "nocache", Inv: kind == "inv"}
					if i == 1 {
						w.Enc = true
					}
					sc.Workers = append(sc.Workers, w)
				}
				out = append(out, sc)
			}
		}
	}
	return out
}

func runExh(e *ev.Env, c *ev.Case) {
	var idx int
	fmt.Sscanf(c.ID, "exh:%d", &idx)
	scs := exhScenarios()
	if idx < 0 || idx >= len(scs) {
		return
	}
	sc := scs[idx]
	max := e.N(800, 1500)
	n, exhausted, bad := explore(e, c, sc, max, true)
	e.Stat("exh-scenarios", 1)
	if exhausted {
		e.Stat("exh-scenarios-exhausted", 1)
	} else if !bad {
		e.Stat("exh-scenarios-truncated", 1)
	}
	e.Sample("exh", map[string]any{"scenario": sc.Name, "schedules": n, "exhausted": exhausted, "violation": bad})
}

// ---------------------------------------------------------------------------------------------
// sched: generated scenarios

func genScen(r *gen.Rand) *scen {
	cf := conf{Exp: r.Range(1, 2), MaxBytes: []int{1000, 2000}[r.Intn(2)], VStore: r.Bool(), StoreHdr: r.Bool(),
		KeyGen: r.Range(1, 2), Inv: r.Bool(), Next: r.Chance(1, 3), ExpGen: r.Chance(1, 3)}
	cf.Polite = cf.VStore && cf.Inv && r.Chance(2, 3)
	sc := &scen{Cf: cf, Name: "gen"}
	keys := []string{"A", "B", "C"}[:r.Range(1, 3)]
	stale := r.Chance(1, 2)
	for _, k := range keys {
		if r.Chance(3, 4) {
			q := rq{Method: "GET", Key: k, Status: 200, Size: r.Range(1, 5) * 100}
			if stale && r.Chance(2, 3) {
				q.Sleep = cf.Exp
			}
			sc.Seeds = append(sc.Seeds, q)
		}
	}
	// slow seeds last, so that earlier seeds are not aged by them more than intended
	sort.SliceStable(sc.Seeds, func(i, j int) bool { return sc.Seeds[i].Sleep < sc.Seeds[j].Sleep })
	if !stale {
		sc.Adv = []int{0, 0, cf.Exp - 1, cf.Exp}[r.Intn(4)]
		sc.Clock = r.Chance(2, 3)
	}
	nw := r.Range(2, 4)
	for i := 0; i < nw; i++ {
		w := rq{Method: "GET", Key: gen.Pick(r, keys), Status: 200, Size: []int{0, 100, 300, 500, 700}[r.Intn(5)]}
		if r.Chance(1, 12) {
			w.Size = cf.MaxBytes + 1 // does not fit at all
		}
		if r.Chance(1, 8) {
			w.Status = gen.Pick(r, badStatuses)
		}
		if r.Chance(1, 10) {
			w.Method = "HEAD"
		}
		if cf.Inv && r.Chance(1, 3) {
			w.Inv = true
		}
		if r.Chance(1, 10) {
			w.NoCache = true
			if r.Bool() {
				w.CC = ccSpell(r, "no-cache", false)
			}
		}
		if cf.Next && r.Chance(1, 4) {
			w.Skip = true
		}
		if cf.ExpGen && r.Bool() {
			w.ExpSec = r.Range(1, 3)
		}
		sc.Workers = append(sc.Workers, w)
	}
	sc.Mask = []string{"cache.afterGet"}
	for _, p := range []string{"handler", "KeyGenerator", "CacheInvalidator", "Next", "ExpirationGenerator", "afterCache"} {
		if r.Chance(1, 2) {
			sc.Mask = append(sc.Mask, p)
		}
	}
	if cf.VStore && r.Bool() {
		sc.Mask = append(sc.Mask, "storage.get", "storage.set", "storage.delete")
	}
	return sc
}

func runSched(e *ev.Env, c *ev.Case) {
	sc := genScen(c.R)
	dfs := len(sc.Workers) <= 3
	n, exhausted, _ := explore(e, c, sc, schedPerCase(e), dfs)
	e.Stat("sched-scenarios", 1)
	if exhausted {
		e.Stat("sched-scenarios-exhausted", 1)
	}
	_ = n
}
