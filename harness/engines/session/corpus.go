package session

import (
	"strings"
	"time"

	"verifharness/internal/ev"
)

// cstep is one step of a hand-written history. Ids are symbolic: "@jar" (the id the client was
// last told to use), "@first" (the first id it ever held), "@prev" (the one before the current),
// "" (nothing), anything else literally.
type cstep struct {
	adv     time.Duration // advance the clock first
	client  int
	mw      bool
	present string
	cookie  string
	ops     []op
	conn    int  // 1, 2: serve on that reused RequestCtx ("connection"); 0: a fresh one
	outer   bool // store API in a handler in front of the middleware: pre, (ops inside), post
	pre     []op
	post    []op
	fault   string // "get-first" / "get-outage": Storage.Get fails during this request (vstore only)
}

func (h *hist) resolve(ci int, ref string) string {
	cl := h.clients[ci]
	switch ref {
	case "@jar":
		return cl.jar
	case "@first":
		if len(cl.held) > 0 {
			return cl.held[0]
		}
		return ""
	case "@prev":
		if len(cl.held) > 1 {
			return cl.held[len(cl.held)-2]
		}
		return ""
	}
	if strings.HasPrefix(ref, "@c") && len(ref) >= 4 { // "@c1jar": another client's current id
		o := int(ref[2] - '0')
		if o >= 0 && o < len(h.clients) {
			return h.clients[o].jar
		}
	}
	return ref
}

// runFixed runs a hand-written history through the same executor and oracle.
func runFixed(e *ev.Env, c *ev.Case, cfg cfgT, nclients int, steps []cstep) *hist {
	if !cfg.VStore {
		cfg.Gran = time.Second
	}
	startClock()
	kinds := make([]string, nclients)
	for i := range kinds {
		kinds[i] = "scripted"
	}
	h := newHist(e, c, cfg, kinds, "c0ffee")
	defer h.close()
	h.useConns(2, nil)
	if h.vs != nil && keepKeyRef {
		h.vs.KeepKeyRef = true
	}
	for _, s := range steps {
		if s.adv > 0 {
			time.Sleep(s.adv)
			h.trace = append(h.trace, "advance to "+stamp(time.Now()))
			if !cfg.VStore && !tickSafe(time.Now()) {
				e.Inconclusive("corpus step of " + c.ID + " coincides with a tick of the coarse clock")
			}
		}
		h.nextConn = s.conn
		rq := &request{Client: s.client, MW: s.mw, Presented: h.resolve(s.client, s.present), Class: "scripted", Cookie: h.resolve(s.client, s.cookie), Fault: s.fault,
			Outer: s.outer, Pre: s.pre, Post: s.post}
		if s.outer {
			rq.MW = true
		}
		if s.present == "" {
			rq.Class = "none"
		}
		for _, o := range s.ops {
			o.Tgt = h.resolve(s.client, o.Tgt)
			rq.Ops = append(rq.Ops, o)
		}
		if !h.do(rq) {
			break
		}
	}
	h.finish()
	return h
}

// keepKeyRef: fixed vstore histories keep the caller's key strings by reference.
var keepKeyRef = true

const (
	sec = time.Second
	ms  = time.Millisecond
)

func set(k, v string) op { return op{K: "set", Key: k, Val: v} }
func get(k string) op    { return op{K: "get", Key: k} }
func k(kind string) op   { return op{K: kind} }

// corpus: witnesses of the findings on the unchanged tree (smallest known), and the canonical
// scenario of every clause so that a regression is seen independent of the seed.
func corpus(e *ev.Env) {
	for _, src := range [][2]string{{"cookie", "sid"}, {"header", "X-Session-Id"}, {"query", "sid"}} {
		src := src
		for _, vst := range []bool{true, false} {
			vst := vst
			name := src[0] + map[bool]string{true: "-vstore", false: "-memory"}[vst]
			base := cfgT{Source: src[0], Name: src[1], VStore: vst}

			// FINDING: a session created by Reset() has no absolute deadline.
			e.Corpus("reset-loses-absolute-timeout-mw-"+name, func(c *ev.Case) {
				cfg := base
				cfg.Idle, cfg.Abs = 3*sec, 3*sec
				runFixed(e, c, cfg, 1, []cstep{
					{mw: true, ops: []op{k("reset")}},
					{adv: 1400 * ms, mw: true, present: "@jar"},
					{adv: 1400 * ms, mw: true, present: "@jar"},
					{adv: 1400 * ms, mw: true, present: "@jar"}, // 4.2 s after creation, abs = 3 s
				})
			})
			e.Corpus("reset-loses-absolute-timeout-store-"+name, func(c *ev.Case) {
				cfg := base
				cfg.Idle, cfg.Abs = 3*sec, 3*sec
				runFixed(e, c, cfg, 1, []cstep{
					{ops: []op{k("reset"), k("save")}},
					{adv: 1400 * ms, present: "@jar", ops: []op{k("save")}},
					{adv: 1400 * ms, present: "@jar", ops: []op{k("save")}},
					{adv: 1400 * ms, present: "@jar", ops: []op{k("save")}},
				})
			})
			e.Corpus("reset-loses-absolute-timeout-byid-"+name, func(c *ev.Case) {
				cfg := base
				cfg.Idle, cfg.Abs = 3*sec, 3*sec
				runFixed(e, c, cfg, 1, []cstep{
					{mw: true, ops: []op{k("reset")}},
					{adv: 1400 * ms, ops: []op{{K: "byid", Tgt: "@jar", Save: true}}},
					{adv: 1400 * ms, ops: []op{{K: "byid", Tgt: "@jar", Save: true}}},
					{adv: 1400 * ms, ops: []op{{K: "byid", Tgt: "@jar"}}},
				})
			})
			// absolute timeout of an ordinary session: alive just before, gone after, both APIs
			e.Corpus("absolute-timeout-"+name, func(c *ev.Case) {
				cfg := base
				cfg.Idle, cfg.Abs = 2*sec, 3*sec
				runFixed(e, c, cfg, 1, []cstep{
					{mw: true, ops: []op{set("k0", "v0.1")}},
					{adv: 1400 * ms, mw: true, present: "@jar", ops: []op{get("k0")}},
					{adv: 1400 * ms, present: "@jar", ops: []op{get("k0"), k("save")}},    // 2.8 s
					{adv: 300 * ms, mw: true, present: "@jar", ops: []op{get("k0")}},      // 3.1 s: gone
					{present: "@first", ops: []op{{K: "byid", Tgt: "@first"}, k("save")}}, // old id: fresh
				})
			})
			// looking the session up twice per request (Release, Store.Get again) and saving it must
			// not move the absolute deadline
			e.Corpus("absolute-timeout-reget-"+name, func(c *ev.Case) {
				cfg := base
				cfg.Idle, cfg.Abs = 3*sec, 4*sec
				again := []op{get("k0"), k("release"), k("reget"), get("k0"), k("save")}
				runFixed(e, c, cfg, 1, []cstep{
					{ops: []op{set("k0", "v0.1"), k("save")}},
					{adv: 1400 * ms, present: "@jar", ops: again},
					{adv: 1400 * ms, present: "@jar", ops: again},                      // 2.8 s
					{adv: 1400 * ms, present: "@jar", ops: []op{get("k0"), k("save")}}, // 4.2 s: gone
					{present: "@first", ops: []op{{K: "byid", Tgt: "@first"}, k("save")}},
				})
			})
			// Regenerate changes the id, not the age: the absolute deadline still counts from creation
			e.Corpus("absolute-timeout-regenerate-"+name, func(c *ev.Case) {
				cfg := base
				cfg.Idle, cfg.Abs = 3*sec, 4*sec
				for _, mw := range []bool{true, false} {
					fin := func(ops ...op) []op {
						if !mw {
							ops = append(ops, k("save"))
						}
						return ops
					}
					runFixed(e, c, cfg, 1, []cstep{
						{mw: mw, ops: fin(set("k0", "v0.1"))},
						{adv: 1400 * ms, mw: mw, present: "@jar", ops: fin(get("k0"), k("regen"), set("k1", "v0.2"))},
						{adv: 1400 * ms, mw: mw, present: "@jar", ops: fin(get("k0"), get("k1"))}, // 2.8 s: alive
						{adv: 1400 * ms, ops: []op{{K: "byid", Tgt: "@jar"}}},                     // 4.2 s: gone (GetByID)
						{mw: mw, present: "@jar", ops: fin(get("k0"), get("k1"))},                 // gone (request path)
					})
				}
			})
			// GetByID past the absolute deadline (entry still within its idle timeout)
			e.Corpus("absolute-timeout-getbyid-"+name, func(c *ev.Case) {
				cfg := base
				cfg.Idle, cfg.Abs = 3*sec, 4*sec
				runFixed(e, c, cfg, 1, []cstep{
					{mw: true, ops: []op{set("k0", "v0.1")}},
					{adv: 2000 * ms, ops: []op{{K: "byid", Tgt: "@jar", Set: true, Key: "k1", Val: "v0.2", Save: true}}},
					{adv: 1800 * ms, mw: true, ops: []op{{K: "byid", Tgt: "@first"}}}, // 3.8 s: alive
					{adv: 500 * ms, mw: true, ops: []op{{K: "byid", Tgt: "@first"}}},  // 4.3 s: gone
				})
			})
			// idle timeout: alive well before, gone well after
			e.Corpus("idle-timeout-"+name, func(c *ev.Case) {
				cfg := base
				cfg.Idle = 2 * sec
				runFixed(e, c, cfg, 1, []cstep{
					{mw: true, ops: []op{set("k0", "v0.1")}},
					{adv: 900 * ms, mw: true, present: "@jar", ops: []op{get("k0")}},
					{adv: 3100 * ms, mw: true, present: "@jar", ops: []op{get("k0")}},
					{present: "@first", ops: []op{{K: "byid", Tgt: "@first"}}},
				})
			})
			// timeouts below one second (Config.IdleTimeout and SetIdleTimeout): whatever the
			// storage rounds them to, seconds later the session is over
			e.Corpus("subsecond-idle-timeout-"+name, func(c *ev.Case) {
				for _, d := range []time.Duration{500 * ms, ms, 999 * ms} {
					cfg := base
					cfg.Idle = d
					runFixed(e, c, cfg, 1, []cstep{
						{mw: true, ops: []op{set("k0", "v0.1")}},
						{adv: 3400 * ms, mw: true, present: "@jar", ops: []op{get("k0")}},
						{present: "@first", ops: []op{{K: "byid", Tgt: "@first"}}},
					})
					cfg.Idle = 3 * sec
					runFixed(e, c, cfg, 1, []cstep{
						{ops: []op{set("k0", "v0.1"), {K: "idle", Dur: d}, k("save")}},
						{adv: 3400 * ms, ops: []op{{K: "byid", Tgt: "@jar"}}},
						{present: "@jar", ops: []op{get("k0"), k("save")}},
					})
				}
			})
			// forged ids are never adopted
			e.Corpus("forged-id-"+name, func(c *ev.Case) {
				cfg := base
				cfg.Idle = 3 * sec
				runFixed(e, c, cfg, 1, []cstep{
					{mw: true, present: "attacker-chosen-1", ops: []op{set("k0", "v0.1")}},
					{present: "attacker-chosen-2", ops: []op{set("k0", "v0.2"), k("save")}},
					{mw: true, present: "attacker-chosen-1", ops: []op{get("k0")}},
					{present: strings.Repeat("A", 5000), ops: []op{k("save")}},
				})
			})
			// destroy / regenerate / reset end the previous id, in both APIs
			e.Corpus("old-id-after-destroy-regenerate-reset-"+name, func(c *ev.Case) {
				cfg := base
				cfg.Idle, cfg.Abs = 5*sec, 9*sec
				runFixed(e, c, cfg, 1, []cstep{
					{mw: true, ops: []op{set("k0", "v0.1")}},
					{mw: true, present: "@jar", ops: []op{k("regen"), set("k1", "v0.2")}},
					{mw: true, present: "@first", ops: []op{get("k0")}}, // old id: fresh; this creates another session
					{mw: true, present: "@prev", ops: []op{get("k0"), get("k1"), k("reset")}},
					{present: "@prev", ops: []op{get("k0"), {K: "byid", Tgt: "@prev"}}},
					{present: "@jar", ops: []op{set("k2", "v0.3"), k("save"), k("release"), k("reget"), k("destroy")}},
					{mw: true, present: "@prev", ops: []op{get("k2")}},
					{mw: true, present: "@jar", ops: []op{set("k3", "v0.4"), k("destroy")}},
					{present: "@prev", ops: []op{get("k3")}},
				})
			})
			// connection reuse: two clients alternate on two reused RequestCtx objects; an id that
			// aliased a request buffer would change under the storage's feet
			e.Corpus("requestctx-reuse-"+name, func(c *ev.Case) {
				cfg := base
				cfg.Idle = 5 * sec
				for _, mw := range []bool{true, false} {
					fin := func(ops ...op) []op {
						if !mw {
							ops = append(ops, k("save"))
						}
						return ops
					}
					runFixed(e, c, cfg, 2, []cstep{
						{client: 0, conn: 1, mw: mw, ops: fin(set("k0", "v0.1"))},
						{client: 1, conn: 2, mw: mw, ops: fin(set("k0", "v1.1"))},
						{client: 0, conn: 1, mw: mw, present: "@jar", ops: fin(get("k0"), set("k1", "v0.2"))},
						{client: 1, conn: 1, mw: mw, present: "@jar", ops: fin(get("k0"), get("k1"), set("k2", "v1.2"))},
						{client: 0, conn: 2, mw: mw, present: "@jar", ops: fin(get("k0"), get("k1"), get("k2"))},
						{client: 1, conn: 2, mw: mw, present: "@jar", ops: fin(get("k0"), get("k2"))},
						{client: 0, conn: 1, mw: mw, present: "@jar", ops: fin(get("k0"), get("k1"))},
					})
				}
			})
			// pooled Session objects: unsaved changes and other sessions' data never reappear
			e.Corpus("release-reuse-"+name, func(c *ev.Case) {
				cfg := base
				cfg.Idle = 5 * sec
				runFixed(e, c, cfg, 2, []cstep{
					{client: 0, ops: []op{set("k0", "v0.1"), k("save"), set("k1", "v0.2"), k("release"), k("reget"), get("k1")}},
					{client: 1, ops: []op{get("k0"), get("k1"), set("k2", "v1.1")}}, // not saved
					{client: 0, present: "@jar", ops: []op{get("k2"), k("release"), {K: "byid", Tgt: "@jar", Set: true, Key: "k3", Val: "v0.3"}, k("reget"), get("k3")}},
					{client: 1, mw: true, ops: []op{get("k3"), k("destroy"), set("k0", "v1.2")}},
					{client: 0, mw: true, present: "@jar", ops: []op{get("k0")}},
				})
			})
		}
	}
	for _, src := range [][2]string{{"cookie", "sid"}, {"header", "X-Session-Id"}, {"query", "sid"}} {
		src := src
		// keys of every comparable type belong to the handler: never-set keys are absent on a fresh
		// session, writing or deleting them does not touch the session's deadlines
		e.Corpus("typed-keys-"+src[0], func(c *ev.Case) {
			for _, vst := range []bool{true, false} {
				cfg := cfgT{Source: src[0], Name: src[1], VStore: vst, Idle: 3 * sec, Abs: 4 * sec}
				all := []op{get("#int:0"), get("#int:1"), get("#uint:0"), get("#bool:false"), get("#string:"), get("#struct:zero"), get("#int64:0"), get("#float64:0")}
				runFixed(e, c, cfg, 1, []cstep{
					{mw: true, ops: append(append([]op{}, all...), set("#int:0", "v0.1"), set("#bool:false", "v0.2"), set("#struct:zero", "v0.3"), set("#string:", "v0.4"))},
					{adv: 1400 * ms, present: "@jar", ops: append(append([]op{}, all...), op{K: "del", Key: "#int:0"}, set("#uint:0", "v0.5"), k("save"))},
					{adv: 1400 * ms, mw: true, present: "@jar", ops: append(append([]op{}, all...), set("#int:0", "v0.6"))}, // 2.8 s
					{adv: 1400 * ms, mw: true, present: "@jar", ops: all},                                                   // 4.2 s: gone
					{ops: append(append([]op{}, all...), op{K: "byid", Tgt: "@first"})},
				})
			}
		})
		// a storage that keeps the slices it is given: sessions saving alternately keep their own data
		e.Corpus("retaining-storage-"+src[0], func(c *ev.Case) {
			cfg := cfgT{Source: src[0], Name: src[1], VStore: true, Retain: true, Idle: 5 * sec, Abs: 9 * sec}
			for _, mw := range []bool{true, false} {
				fin := func(ops ...op) []op {
					if !mw {
						ops = append(ops, k("save"))
					}
					return ops
				}
				runFixed(e, c, cfg, 3, []cstep{
					{client: 0, mw: mw, ops: fin(set("k0", "v0.1"), set("k1", "v0.2"))},
					{client: 1, mw: mw, ops: fin(set("k0", "v1.1"))},
					{client: 0, mw: mw, present: "@jar", ops: fin(get("k0"), get("k1"), set("k2", "v0.3"))},
					{client: 2, mw: !mw, ops: []op{set("k3", "v2.1"), set("#int:1", "v2.2"), k("save")}},
					{client: 1, mw: mw, present: "@jar", ops: fin(get("k0"), get("k1"), set("k0", "v1.2"))},
					{client: 0, mw: mw, present: "@jar", ops: fin(get("k0"), get("k2"))},
					{client: 2, mw: mw, present: "@jar", ops: fin(get("k3"), get("#int:1"))},
					{client: 1, mw: !mw, present: "@jar", ops: []op{get("k0"), {K: "byid", Tgt: "@c0jar"}, k("save")}},
				})
			}
		})
		// ids as real KeyGenerators produce them (base64 with + / =, base64url, hex, UUID, literal %)
		for _, style := range idStyles[1:] {
			style := style
			e.Corpus("id-alphabet-"+style+"-"+src[0], func(c *ev.Case) {
				for _, vst := range []bool{true, false} {
					cfg := cfgT{Source: src[0], Name: src[1], VStore: vst, IDs: style, Idle: 5 * sec}
					runFixed(e, c, cfg, 1, []cstep{
						{mw: true, ops: []op{set("k0", "v0.1")}},
						{mw: true, present: "@jar", ops: []op{get("k0"), set("k1", "v0.2")}},
						{present: "@jar", ops: []op{get("k0"), get("k1"), k("regen"), set("k2", "v0.3"), k("save")}},
						{present: "@jar", ops: []op{get("k2"), {K: "byid", Tgt: "@jar"}, {K: "byid", Tgt: "@first"}}},
						{mw: true, present: "@first", ops: []op{get("k0")}},
					})
				}
			})
		}
	}
	// KeyLookup names with upper-case letters: the id presented under the configured name is found
	for _, nm := range [][2]string{{"cookie", "Session_ID"}, {"query", "SID"}, {"header", "X-SESSION-Id"}} {
		nm := nm
		e.Corpus("name-case-"+nm[0], func(c *ev.Case) {
			for _, vst := range []bool{true, false} {
				cfg := cfgT{Source: nm[0], Name: nm[1], VStore: vst, Idle: 5 * sec}
				runFixed(e, c, cfg, 1, []cstep{
					{mw: true, ops: []op{set("k0", "v0.1")}},
					{mw: true, present: "@jar", ops: []op{get("k0"), set("k1", "v0.2")}},
					{present: "@jar", ops: []op{get("k0"), get("k1"), set("k2", "v0.3"), k("save")}},
					{mw: true, present: "@jar", ops: []op{get("k2")}},
				})
			}
		})
	}
	// both APIs in one request: the store API in a handler in front of the middleware, same store;
	// what was saved last under the id is what the next request sees
	for _, src := range [][2]string{{"cookie", "sid"}, {"header", "X-Session-Id"}, {"query", "sid"}} {
		src := src
		e.Corpus("store-api-around-middleware-"+src[0], func(c *ev.Case) {
			for _, vst := range []bool{true, false} {
				cfg := cfgT{Source: src[0], Name: src[1], VStore: vst, Idle: 5 * sec, Abs: 9 * sec}
				runFixed(e, c, cfg, 1, []cstep{
					{mw: true, ops: []op{set("k0", "v0.1")}},
					// saved after the middleware returned: the outer copy wins
					{outer: true, present: "@jar", pre: []op{get("k0"), set("k1", "v0.2")}, ops: []op{get("k0"), set("k2", "v0.3")}, post: []op{set("k3", "v0.4"), k("save")}},
					{mw: true, present: "@jar", ops: []op{get("k1"), get("k2"), get("k3")}},
					// saved before the middleware ran: the middleware loads it and saves last
					{outer: true, present: "@jar", pre: []op{set("k0", "v0.5"), k("save")}, ops: []op{get("k0"), set("k2", "v0.6"), k("sget")}, post: []op{get("k0")}},
					{present: "@jar", ops: []op{get("k0"), get("k2"), k("save")}},
					// a new client: both mechanisms create a session
					{outer: true, pre: []op{set("k0", "v0.7")}, ops: []op{set("k1", "v0.8")}, post: []op{set("k2", "v0.9"), k("save")}},
					{mw: true, present: "@jar", ops: []op{get("k0"), get("k1"), get("k2")}},
				})
			}
		})
	}
	// storage read errors: no adoption of a presented id, no loss of saved data
	for _, src := range [][2]string{{"cookie", "sid"}, {"header", "X-Session-Id"}, {"query", "sid"}} {
		src := src
		e.Corpus("storage-read-error-"+src[0], func(c *ev.Case) {
			cfg := cfgT{Source: src[0], Name: src[1], VStore: true, Idle: 5 * sec, Abs: 9 * sec}
			for _, fault := range []string{"get-first", "get-outage"} {
				for _, mw := range []bool{false, true} {
					fin := func(ops ...op) []op {
						if !mw {
							ops = append(ops, k("save"))
						}
						return ops
					}
					runFixed(e, c, cfg, 2, []cstep{
						{client: 0, mw: mw, ops: fin(set("k0", "v0.1"), set("k1", "v0.2"))},
						{client: 0, mw: mw, present: "@jar", fault: fault, ops: fin(set("k1", "v0.3"))},
						{client: 0, mw: mw, present: "@jar", ops: fin(get("k0"), get("k1"))},
						{client: 1, mw: mw, present: "id-chosen-by-the-client", fault: fault, ops: fin(set("k0", "v1.1"))},
						{client: 1, mw: mw, present: "id-chosen-by-the-client", ops: fin(get("k0"))},
						{client: 0, mw: !mw, present: "@first", ops: []op{get("k0"), get("k1"), {K: "byid", Tgt: "@first"}}},
					})
				}
			}
		})
	}
	// an id counts only through the configured source: every ordered pair (configured, other),
	// other source carrying a live id next to / instead of / a forged id next to the configured one
	names := map[string]string{"cookie": "session_id", "header": "X-Session-Id", "query": "session_id"}
	for _, src := range []string{"cookie", "header", "query"} {
		for _, alt := range []string{"cookie", "header", "query"} {
			if alt == src {
				continue
			}
			src, alt := src, alt
			name := alt + "-consulted-" + src // "cookie-consulted-header": the fixed finding of round 0
			e.Corpus(name, func(c *ev.Case) {
				for variant := 0; variant < 3; variant++ {
					runSourceFixed(e, c, cfgT{Source: src, Name: names[src], Idle: 5 * sec, VStore: variant != 1}, variant, alt)
				}
			})
		}
	}
	for _, src := range [][2]string{{"cookie", "sid"}, {"header", "X-Session-Id"}, {"query", "sid"}} {
		src := src
		// ids of every length a KeyGenerator may produce are the server's own ids
		e.Corpus("id-length-"+src[0], func(c *ev.Case) {
			for i, n := range idLengths {
				cfg := cfgT{Source: src[0], Name: src[1], VStore: i%2 == 0, IDs: idStyles[i%len(idStyles)], IDLen: n, Idle: 5 * sec}
				runFixed(e, c, cfg, 1, []cstep{
					{mw: true, ops: []op{set("k0", "v0.1")}},
					{mw: true, present: "@jar", ops: []op{get("k0"), set("k1", "v0.2")}},
					{present: "@jar", ops: []op{get("k0"), get("k1"), {K: "byid", Tgt: "@jar"}, k("save")}},
				})
			}
		})
		// New(Config{Store: store}): the sessions live by the timeouts the store was built with
		e.Corpus("ready-made-store-"+src[0], func(c *ev.Case) {
			for _, vst := range []bool{true, false} {
				cfg := cfgT{Source: src[0], Name: src[1], VStore: vst, Ready: true, Idle: 2 * sec, Abs: 4 * sec}
				runFixed(e, c, cfg, 1, []cstep{
					{mw: true, ops: []op{set("k0", "v0.1")}},
					{adv: 600 * ms, mw: true, present: "@jar", ops: []op{get("k0")}},
					{adv: 3400 * ms, mw: true, present: "@jar", ops: []op{get("k0")}}, // idle 2 s over
					{ops: []op{{K: "byid", Tgt: "@first"}}},
					{mw: true, ops: []op{set("k0", "v0.2")}},
					{adv: 1400 * ms, mw: true, present: "@jar", ops: []op{get("k0")}},
					{adv: 1400 * ms, mw: true, present: "@jar", ops: []op{get("k0")}},
					{adv: 1400 * ms, ops: []op{{K: "byid", Tgt: "@jar"}}}, // 4.2 s: absolute timeout over
					{mw: true, present: "@jar", ops: []op{get("k0")}},
				})
			}
		})
		// a second lookup in the request that regenerated the session must not give it a new age
		e.Corpus("regenerate-then-second-get-"+src[0], func(c *ev.Case) {
			for _, vst := range []bool{true, false} {
				cfg := cfgT{Source: src[0], Name: src[1], VStore: vst, Idle: 3 * sec, Abs: 4 * sec}
				runFixed(e, c, cfg, 1, []cstep{
					{ops: []op{set("k0", "v0.1"), k("save")}},
					{adv: 1400 * ms, present: "@jar", ops: []op{get("k0"), k("regen"), k("save"), k("release"), k("reget"), get("k0"), k("save")}},
					{adv: 1400 * ms, present: "@jar", ops: []op{get("k0"), {K: "byid", Tgt: "@prev", Save: true}, k("save")}}, // 2.8 s
					{adv: 1400 * ms, present: "@jar", ops: []op{get("k0"), {K: "byid", Tgt: "@prev"}}},                        // 4.2 s
				})
				// the same through a handler in front of the middleware
				runFixed(e, c, cfg, 1, []cstep{
					{mw: true, ops: []op{set("k0", "v0.1")}},
					{adv: 1400 * ms, outer: true, present: "@jar", pre: []op{get("k0"), k("regen"), k("save")}, ops: []op{get("k0")}},
					{adv: 1400 * ms, mw: true, present: "@jar", ops: []op{get("k0"), {K: "byid", Tgt: "@prev", Save: true}}},
					{adv: 1400 * ms, mw: true, present: "@jar", ops: []op{get("k0"), {K: "byid", Tgt: "@prev"}}},
				})
			}
		})
	}
	// the storage cannot delete
	for _, src := range [][2]string{{"cookie", "sid"}, {"header", "X-Session-Id"}, {"query", "sid"}} {
		src := src
		// Destroy / Regenerate / Reset while Delete fails: if the call reports success the previous
		// id must be gone; if it reports the error the history ends without a verdict
		e.Corpus("delete-fault-"+src[0], func(c *ev.Case) {
			cfg := cfgT{Source: src[0], Name: src[1], VStore: true, Idle: 5 * sec, Abs: 9 * sec}
			for _, kind := range []string{"regen", "destroy", "reset"} {
				for _, mw := range []bool{true, false} {
					fin := func(ops ...op) []op {
						if !mw && kind != "destroy" {
							ops = append(ops, k("save"))
						}
						return ops
					}
					runFixed(e, c, cfg, 1, []cstep{
						{mw: mw, ops: []op{set("k0", "v0.1"), k("save")}},
						{mw: mw, present: "@jar", fault: "delete-outage", ops: fin(get("k0"), k(kind), set("k1", "v0.2"))},
						{mw: mw, present: "@first", ops: []op{get("k0"), k("save")}},
						{mw: !mw, present: "@first", ops: []op{{K: "byid", Tgt: "@first"}}},
					})
				}
			}
		})
		// GetByID of a session past its absolute timeout while Delete fails, then two sessions in use
		// at the same time (one held by the request, one loaded by GetByID): they stay separate
		e.Corpus("delete-fault-getbyid-expired-"+src[0], func(c *ev.Case) {
			cfg := cfgT{Source: src[0], Name: src[1], VStore: true, Idle: 3 * sec, Abs: 4 * sec}
			runFixed(e, c, cfg, 2, []cstep{
				{client: 0, mw: true, ops: []op{set("k0", "v0.1")}},
				{client: 0, adv: 1400 * ms, ops: []op{{K: "byid", Tgt: "@jar", Save: true}}},
				{client: 0, adv: 1400 * ms, ops: []op{{K: "byid", Tgt: "@jar", Save: true}}},               // 2.8 s: idle renewed
				{client: 1, adv: 1400 * ms, fault: "delete-outage", ops: []op{{K: "byid", Tgt: "@c0jar"}}}, // 4.2 s: past abs
				{client: 1, mw: true, ops: []op{set("k0", "v1.1")}},
				{client: 1, mw: true, ops: []op{set("k0", "v1.2"), set("k1", "v1.3")}},
				{client: 1, present: "@jar", ops: []op{get("k0"), {K: "byid", Tgt: "@prev"}, get("k0"), get("k1"), set("k2", "v1.4"), k("save")}},
				{client: 1, mw: true, present: "@prev", ops: []op{get("k0"), get("k1"), get("k2")}},
				{client: 1, mw: true, present: "@jar", ops: []op{get("k0"), get("k1"), get("k2")}},
			})
		})
	}
	// a Save that fails (value of a type nobody registered) must not leave anything behind that
	// damages what other sessions save next
	for _, src := range [][2]string{{"cookie", "sid"}, {"header", "X-Session-Id"}, {"query", "sid"}} {
		src := src
		e.Corpus("failed-save-"+src[0], func(c *ev.Case) {
			for _, vst := range []bool{true, false} {
				for _, mw := range []bool{false, true} {
					cfg := cfgT{Source: src[0], Name: src[1], VStore: vst, Idle: 5 * sec, Abs: 9 * sec}
					fin := func(ops ...op) []op {
						if !mw {
							ops = append(ops, k("save"))
						}
						return ops
					}
					runFixed(e, c, cfg, 2, []cstep{
						{client: 0, mw: mw, ops: fin(set("k0", "v0.1"))},
						{client: 1, mw: mw, ops: fin(set("k0", "v1.1"))},
						{client: 0, mw: mw, present: "@jar", ops: fin(get("k0"), set("k1", badVal))}, // cannot be saved
						{client: 1, mw: mw, present: "@jar", ops: fin(get("k0"), set("k1", "v1.2"))}, // the next save
						{client: 1, mw: mw, present: "@jar", ops: fin(get("k0"), get("k1"))},
						{client: 0, mw: mw, present: "@jar", ops: fin(get("k0"), get("k1"), set("k2", "v0.2"))},
						{client: 0, mw: !mw, present: "@jar", ops: []op{get("k0"), get("k2"), {K: "byid", Tgt: "@jar"}, k("save")}},
					})
				}
			}
		})
	}
}
