package session

import (
	"fmt"
	"sort"
	"strings"
	"time"

	"github.com/anishathalye/porcupine"

	"verifharness/internal/drive"
	"verifharness/internal/ev"
	"verifharness/internal/sched"
	"verifharness/internal/vstore"
)

// The `conc` family: two requests of ONE client, both presenting the same live id, interleaved
// by the deterministic scheduler at every storage call. Each stored id is a register whose
// value is the whole session data: a lookup reads it, a save writes it, destroy / regenerate /
// reset write "absent". The recorded history must be linearizable ("last save wins"), every
// save must carry exactly the data the saving handler held, and the final storage contents must
// be the last write.

const absent = "<absent>"

func render(m map[string]string) string {
	ks := make([]string, 0, len(m))
	for k := range m {
		ks = append(ks, k)
	}
	sort.Strings(ks)
	var sb strings.Builder
	sb.WriteByte('{')
	for _, k := range ks {
		sb.WriteString(k + "=" + m[k] + " ")
	}
	sb.WriteByte('}')
	return sb.String()
}

type regOp struct {
	write bool
	val   string
}

func regModel(init string) porcupine.Model {
	return porcupine.Model{
		Init: func() any { return init },
		Step: func(state, input, output any) (bool, any) {
			in := input.(regOp)
			if in.write {
				return true, in.val
			}
			return output.(string) == state.(string), state
		},
		DescribeOperation: func(input, output any) string {
			in := input.(regOp)
			if in.write {
				return "write " + in.val
			}
			return "read -> " + output.(string)
		},
	}
}

type concRec struct {
	clock   int64
	pending map[int]int64 // worker -> call time of the storage op it is parked on
	ops     map[string][]porcupine.Operation
	gets    map[int][]string // worker -> keys of its storage.get calls, in order
	sets    map[int][]setRec
	readOps map[int][2]any
}

type setRec struct {
	key  string
	data map[string]string
	odd  string
}

func (h *hist) concWorker(s *sched.Sched, name string, rq *request, ob *reqObs) func() {
	return func() {
		dr := h.buildReq(rq)
		dr.Hdr = append(dr.Hdr, drive.H{K: "X-Script", V: name})
		h.d.Do(dr)
	}
}

func runConc(e *ev.Env, c *ev.Case) {
	r := c.R
	cfg := genCfg(r)
	cfg.VStore, cfg.Gran = true, 0
	cfg.Idle = time.Duration(r.Range(2, 5)) * time.Second
	if cfg.Abs > 0 {
		cfg.Abs = cfg.Idle + 3*time.Second
	}
	menu := [][]string{{"set"}, {"set"}, {"get"}, {"set", "regen"}, {"regen", "set"}, {"destroy"}, {"reset", "set"}, {"del"}, {}}
	pick := func() (bool, []string) { return r.Bool(), menu[r.Intn(len(menu))] }
	mwA, kA := pick()
	mwB, kB := pick()
	tag := r.StringFrom("0123456789abcdef", 6)
	mk := func(ci int, mw bool, kinds []string, n *int) []op {
		var ops []op
		for _, kd := range kinds {
			switch kd {
			case "set":
				*n++
				ops = append(ops, set("r", mkVal(0, 100*(ci+1)+*n)))
			case "get":
				ops = append(ops, get("r"))
			case "del":
				ops = append(ops, op{K: "del", Key: "r"})
			default:
				ops = append(ops, k(kd))
			}
		}
		if !mw && !(len(kinds) == 1 && kinds[0] == "destroy") {
			ops = append(ops, k("save"))
		}
		return ops
	}
	desc := fmt.Sprintf("%s | A %v %v | B %v %v", cfg.String(), mwA, kA, mwB, kB)
	bad := false
	nsched, exhausted := sched.DFS(e.N(150, 400), func(ch sched.Chooser) *sched.Outcome {
		startClock()
		h := newHist(e, c, cfg, []string{"scripted"}, tag)
		defer h.close()
		// sequential setup: the session exists with r = v0.1
		if !h.do(&request{Client: 0, MW: true, Class: "none", Ops: []op{set("r", "v0.1")}}) {
			bad = true
			return &sched.Outcome{}
		}
		S := h.clients[0].jar
		var na, nb int
		rqA := &request{Client: 0, MW: mwA, Presented: S, Class: "jar", Ops: mk(0, mwA, kA, &na)}
		rqB := &request{Client: 0, MW: mwB, Presented: S, Class: "jar", Ops: mk(1, mwB, kB, &nb)}
		obA, obB := &reqObs{}, &reqObs{}
		h.scripts = map[string]*script{"A": {MW: mwA, Ops: rqA.Ops, Obs: obA}, "B": {MW: mwB, Ops: rqB.Ops, Obs: obB}}
		s := sched.New()
		rec := &concRec{pending: map[int]int64{}, ops: map[string][]porcupine.Operation{}, gets: map[int][]string{}, sets: map[int][]setRec{}, readOps: map[int][2]any{}}
		init := absent
		if b, ok := h.vs.Peek(S); ok {
			d, _, _ := decodeStored(b)
			init = render(d)
		}
		h.vs.Yield = func(p string) {
			wi := s.WorkerIndex()
			rec.clock++
			rec.pending[wi] = rec.clock
			s.Yield(p)
		}
		h.vs.AfterOp = func(o vstore.Op) {
			wi := s.WorkerIndex()
			rec.clock++
			po := porcupine.Operation{ClientId: wi, Call: rec.pending[wi], Return: rec.clock}
			switch o.Kind {
			case "get":
				rec.gets[wi] = append(rec.gets[wi], o.Key)
				if len(rec.gets[wi]) > 1 {
					return // only the session lookup is a judged read
				}
				po.Input, po.Output = regOp{}, "?"
				rec.ops[o.Key] = append(rec.ops[o.Key], po)
				rec.readOps[wi] = [2]any{o.Key, len(rec.ops[o.Key]) - 1}
				return
			case "set":
				b, _ := h.vs.Peek(o.Key)
				d, _, odd := decodeStored(b)
				rec.sets[wi] = append(rec.sets[wi], setRec{o.Key, d, odd})
				po.Input = regOp{write: true, val: render(d)}
			case "delete":
				po.Input = regOp{write: true, val: absent}
			default:
				return
			}
			rec.ops[o.Key] = append(rec.ops[o.Key], po)
		}
		s.Go("A", h.concWorker(s, "A", rqA, obA))
		s.Go("B", h.concWorker(s, "B", rqB, obB))
		out := s.Run(ch)
		h.vs.Yield, h.vs.AfterOp = nil, nil
		e.Eval(2)
		e.Stat("conc-schedules", 1)
		e.Nontrivial("conc", desc, out.Key())
		det := func() map[string]any {
			return map[string]any{"scenario": desc, "schedule": out.Key(), "A": fmt.Sprintf("%+v", obA.Start.View), "B": fmt.Sprintf("%+v", obB.Start.View)}
		}
		if out.Deadlock {
			bad = true
			e.Violation(c, "conc|deadlock", "two requests of one session never finished", det())
			return out
		}
		for n, p := range out.Panics {
			bad = true
			e.Violation(c, "conc|panic|"+ev.PanicSite(p), "worker "+n+" panicked", map[string]any{"scenario": desc, "schedule": out.Key(), "panic": p})
			return out
		}
		// the reads: what each handler saw at its start
		for wi, ob := range []*reqObs{obA, obB} {
			ref, okRef := rec.readOps[wi]
			if !okRef || ob.Fatal != "" {
				bad = true
				e.Violation(c, "conc|request-did-not-look-up-its-session", ob.Fatal, det())
				return out
			}
			po := &rec.ops[ref[0].(string)][ref[1].(int)]
			if ob.Start.View.ID == S {
				po.Output = render(ob.Start.View.Data)
			} else {
				po.Output = absent
				if !h.w.isIssued(ob.Start.View.ID) || len(ob.Start.View.Data) != 0 {
					bad = true
					e.Violation(c, "conc|fresh-session-not-empty-or-not-issued", fmt.Sprintf("%+v", ob.Start.View), det())
					return out
				}
			}
			// every save carries exactly what the saving handler held
			data := copyMap(ob.Start.View.Data)
			id := ob.Start.View.ID
			rq := []*request{rqA, rqB}[wi]
			si := 0
			check := func() bool {
				if si >= len(rec.sets[wi]) {
					e.Violation(c, "conc|save-did-not-reach-storage", fmt.Sprintf("worker %d", wi), det())
					return false
				}
				sr := rec.sets[wi][si]
				si++
				if sr.key != id || sr.odd != "" || render(sr.data) != render(data) {
					e.Violation(c, "conc|saved-data-differs-from-handler-data", fmt.Sprintf("worker %d saved %s=%s, handler held %s=%s", wi, sr.key, render(sr.data), id, render(data)), det())
					return false
				}
				return true
			}
			destroyed := false
			for i, o := range rq.Ops {
				switch o.K {
				case "set":
					data[o.Key] = o.Val
				case "del":
					delete(data, o.Key)
				case "destroy":
					data, destroyed = map[string]string{}, true
				case "reset":
					data = map[string]string{}
					id = ob.Ops[i].View.ID
				case "regen":
					id = ob.Ops[i].View.ID
				case "save":
					if !check() {
						bad = true
						return out
					}
				}
			}
			if rq.MW && !destroyed && !check() {
				bad = true
				return out
			}
		}
		// final contents = one more read after everything
		keys := make([]string, 0, len(rec.ops))
		for key := range rec.ops {
			keys = append(keys, key)
		}
		sort.Strings(keys)
		for _, key := range keys {
			rec.clock++
			fin := absent
			if b, ok := h.vs.Peek(key); ok {
				d, _, _ := decodeStored(b)
				fin = render(d)
			}
			ops := append(rec.ops[key], porcupine.Operation{ClientId: 2, Input: regOp{}, Output: fin, Call: rec.clock, Return: rec.clock + 1})
			rec.clock++
			ini := absent
			if key == S {
				ini = init
			}
			res := porcupine.CheckOperationsTimeout(regModel(ini), ops, 60*time.Second)
			switch res {
			case porcupine.Unknown:
				e.Inconclusive("porcupine timeout: " + desc)
			case porcupine.Illegal:
				bad = true
				var lines []string
				for _, o := range ops {
					lines = append(lines, fmt.Sprintf("w%d [%d,%d] %s", o.ClientId, o.Call, o.Return, regModel("").DescribeOperation(o.Input, o.Output)))
				}
				d := det()
				d["register"] = key
				d["ops"] = lines
				e.Violation(c, "conc|not-linearizable|last-save-wins", "per-id register history has no linearization", d)
				return out
			}
			e.Stat("conc-registers-checked", 1)
		}
		return out
	})
	_ = bad
	e.Stat("conc-scenarios", 1)
	if exhausted {
		e.Stat("conc-scenarios-exhausted", 1)
	}
	e.StatMax("conc-max-schedules", int64(nsched))
}
