package session

import (
	"fmt"
	"sync"
	"sync/atomic"
	"time"

	"github.com/gofiber/fiber/v3"
	fsess "github.com/gofiber/fiber/v3/middleware/session"
	"github.com/valyala/fasthttp"

	"verifharness/internal/drive"
	"verifharness/internal/ev"
	"verifharness/internal/gen"
	"verifharness/internal/vstore"
)

// session.race: real time, -race build, all Ps. 16 clients hammer ONE store (middleware and
// store API, memory storage or vstore). Every client only ever presents ids it was given itself
// (or ids that never lived), so each client's sessions evolve sequentially and the sequential
// specification applies per client; across clients the oracles are: no session id is ever handed
// to two clients, no value written by client A is observed by client B. Nothing depends on time
// (idle timeout one hour, no absolute timeout). The race detector's reports are collected by the
// driver from GORACE log_path.

const raceClients = 16

func runRace(e *ev.Env) {
	e.Cases("hammer", e.N(6, 40), func(c *ev.Case) {
		r := c.R
		cfg := genCfg(r)
		cfg.Idle, cfg.Abs, cfg.Gran = time.Hour, 0, 0
		nreq := e.N(150, 400)
		cfg.IDs = gen.Pick(r, idStyles)
		if r.Bool() {
			cfg.IDLen = gen.Pick(r, idLengths)
		}
		tag := r.StringFrom("0123456789abcdef", 6)

		var issued sync.Map // id -> *int32 owner (-1 = not yet seen by a client)
		var ctr atomic.Int64
		claim := func(id string, client int) (bool, bool) {
			v, ok := issued.Load(id)
			if !ok {
				return false, false
			}
			if client < 0 {
				return true, false
			}
			return true, v.(*atomic.Int32).CompareAndSwap(-1, int32(client))
		}
		conf := fsess.Config{
			KeyLookup:    cfg.Source + ":" + cfg.Name,
			IdleTimeout:  cfg.Idle,
			ErrorHandler: quietErrorHandler,
			KeyGenerator: func() string {
				n := int(ctr.Add(1))
				id := sizedID(cfg.IDs, n, tag, cfg.IDLen)
				o := &atomic.Int32{}
				o.Store(-1)
				issued.Store(id, o)
				return id
			},
		}
		if cfg.VStore {
			if r.Chance(1, 3) {
				cfg.Retain = true
				conf.Storage = newRefStore() // keeps the slices it is given
			} else {
				vs := vstore.New()
				vs.KeepKeyRef = r.Bool()
				conf.Storage = vs
			}
		}
		mw, store := fsess.NewWithStore(conf)
		store.RegisterType(HKey{}) // custom key type, registered the documented way
		parent := &hist{e: e, c: c, cfg: cfg, store: store, scripts: map[string]*script{}, sigs: map[string]bool{}}
		app := fiber.New()
		app.Use("/mw", mw)
		run := func(fc fiber.Ctx) error {
			parent.smu.RLock()
			sc := parent.scripts[fc.Get("X-Script")]
			parent.smu.RUnlock()
			runScript(fc, store, sc, zeroIssuer{})
			return fc.SendString("ok")
		}
		app.Get("/mw", run)
		app.Get("/st", run)
		parent.app = app
		parent.d = drive.NewDirect(app)
		// like the server: a pool of RequestCtx objects shared by all connections
		parent.pool = make(chan *fasthttp.RequestCtx, 8)
		for i := 0; i < cap(parent.pool); i++ {
			parent.pool <- &fasthttp.RequestCtx{}
		}
		defer parent.close()

		var wg sync.WaitGroup
		var done atomic.Int64
		for ci := 0; ci < raceClients; ci++ {
			ci := ci
			cr := r.Split()
			wg.Add(1)
			go func() {
				defer wg.Done()
				w := newWorld(cfg)
				w.claim = claim
				h := &hist{e: e, c: c, cfg: cfg, w: w, d: parent.d, parent: parent, name: fmt.Sprint("c", ci), noReset: true,
					sigs: map[string]bool{}, tag: tag}
				kind := []string{"honest", "honest", "replayer", "forger"}[ci%4]
				for i := 0; i < raceClients; i++ {
					h.clients = append(h.clients, &client{kind: kind})
				}
				for i := 0; i < nreq; i++ {
					id, class := h.pickPresented(cr, ci)
					if class == "forged-lookalike" || class == "forged-unsaved" {
						// could coincide with an id another client is about to receive
						id, class = cr.StringFrom(forgeAlph, cr.Range(1, 40)), "forged-random"
					}
					mwReq := cr.Bool()
					rq := &request{Client: ci, MW: mwReq, Presented: id, Class: class}
					rq.Ops = h.genOps(cr, ci, mwReq, id, cr.Range(0, 5))
					if len(h.trace) > 12 {
						h.trace = h.trace[len(h.trace)-12:] // keep the tail for the witness
					}
					if !h.do(rq) {
						e.Stat("race-clients-stopped-by-violation", 1)
						return
					}
					done.Add(1)
				}
			}()
		}
		wg.Wait()
		n := int(ctr.Load())
		e.Stat("race-requests", done.Load())
		e.Stat("race-ids-issued", int64(n))
		e.Nontrivial("race", c.ID, cfg.String())
		// id uniqueness of the generator as the store used it: every id has at most one owner
		// (enforced at claim time); count how many ids were handed to clients at all
		owned := 0
		issued.Range(func(_, v any) bool {
			if v.(*atomic.Int32).Load() >= 0 {
				owned++
			}
			return true
		})
		e.Stat("race-ids-owned", int64(owned))
	})
}

// zeroIssuer: in race mode freshness of an id is decided by claiming it, not by its position
// in an ordered issue list.
type zeroIssuer struct{}

func (zeroIssuer) count() int { return 0 }
