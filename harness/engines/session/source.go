package session

import (
	"fmt"
	"time"

	"verifharness/internal/ev"
)

// The `source` family: KeyLookup names ONE source. A request that presents a live session id
// through that source must get that session, whatever another source (`alt`: cookie, header or
// query parameter of the same name) says; a request that presents nothing through the configured
// source gets a fresh session. All ordered pairs (configured, alt) are run; query + cookie is
// only counted (see below).
//
// variant 0: source carries live S2, cookie carries live S1 (both sessions of the same client)
// variant 1: source carries live S2, cookie carries an id the server never issued
// variant 2: source carries nothing, cookie carries live S1
func runSourceFixed(e *ev.Env, c *ev.Case, cfg cfgT, variant int, alt string) {
	if !cfg.VStore {
		cfg.Gran = time.Second
	}
	startClock()
	h := newHist(e, c, cfg, []string{"scripted"}, "50c0de")
	defer h.close()
	mw := variant%2 == 0
	if c.R != nil && c.R.Bool() {
		mw = !mw
	}
	fin := func(ops ...op) []op {
		if !mw {
			ops = append(ops, op{K: "save"})
		}
		return ops
	}
	if !h.do(&request{Client: 0, MW: mw, Class: "none", Ops: fin(set("k0", "v0.1"))}) {
		return
	}
	s1 := h.clients[0].jar
	if !h.do(&request{Client: 0, MW: mw, Class: "none", Ops: fin(set("k0", "v0.2"))}) {
		return
	}
	s2 := h.clients[0].jar
	if s1 == "" || s2 == "" || s1 == s2 {
		e.Inconclusive("source: could not create two sessions")
		return
	}
	rq := &request{Client: 0, MW: mw, Presented: s2, Class: "jar", Cookie: s1, AltSrc: alt, Ops: fin(get("k0"))}
	switch variant {
	case 1:
		rq.Cookie = "cookie-chosen-by-client"
	case 2:
		rq.Presented, rq.Class = "", "none"
	}
	// pre-judge the one thing this family is about, with its own signature
	h.w.now = time.Now()
	if st1, _ := h.w.status(s1); st1 != stAlive {
		e.Stat("source-probes-skipped(session not surely alive)", 1)
		return
	}
	if st2, _ := h.w.status(s2); st2 != stAlive {
		e.Stat("source-probes-skipped(session not surely alive)", 1)
		return
	}
	probe := &reqObs{}
	h.cur = &script{MW: rq.MW, Ops: nil, Obs: probe}
	line := fmt.Sprintf("%s c0 %s present=%s:%s +%s %s=%s", stamp(h.w.now), map[bool]string{true: "mw", false: "store"}[mw], cfg.Source, rq.Presented, alt, cfg.Name, rq.Cookie)
	h.trace = append(h.trace, line)
	rq2 := *rq
	rq2.Ops = nil
	if e.Guard(c, "panic|session", h.detail(), func() { h.d.Do(h.buildReq(&rq2)) }) {
		return
	}
	e.Eval(1)
	e.Stat("source-probes", 1)
	e.Nontrivial("source", cfg.Source, alt, fmt.Sprint(variant), fmt.Sprint(mw), fmt.Sprint(cfg.VStore))
	got := probe.Start.View
	h.trace[len(h.trace)-1] += fmt.Sprintf(" -> id=%s fresh=%v data=%v", got.ID, got.Fresh, got.Data)
	bad := ""
	switch variant {
	case 0:
		if got.ID == s1 {
			bad = fmt.Sprintf("the %s presents live session %q, the handler got session %q named by the "+alt, cfg.Source, s2, s1)
		} else if got.ID != s2 {
			bad = fmt.Sprintf("the %s presents live session %q, the handler got %q", cfg.Source, s2, got.ID)
		}
	case 1:
		if got.ID != s2 {
			bad = fmt.Sprintf("the %s presents live session %q; because the %s carries an unknown id under the same name the handler got fresh session %q", cfg.Source, s2, alt, got.ID)
		}
	case 2:
		if got.ID == s1 {
			bad = fmt.Sprintf("nothing presented through the %s, yet the handler got session %q named by the "+alt, cfg.Source, s1)
		}
	}
	if bad != "" && cfg.Source == "query" && alt == "cookie" {
		// With KeyLookup "query:<name>" the server itself hands the id out in a Set-Cookie of that
		// name (session.go setSession), so honouring the cookie is not clearly against the
		// configuration: observed and counted, not judged.
		e.Stat("query-source-cookie-consulted(not judged)", 1)
		bad = ""
	}
	if bad != "" {
		e.Violation(c, "source|"+alt+"-consulted-though-source-is-"+cfg.Source, bad, h.detail())
	}
}

func runSource(e *ev.Env, c *ev.Case) {
	r := c.R
	cfg := genCfg(r)
	// this family is not about expiry: both sessions must be alive at the probe
	cfg.Idle = time.Duration(r.Range(2, 5)) * time.Second
	if cfg.Abs > 0 {
		cfg.Abs = cfg.Idle + time.Duration(r.Range(0, 3))*time.Second
	}
	alts := []string{"cookie", "header", "query"}
	alt := alts[r.Intn(3)]
	for alt == cfg.Source {
		alt = alts[r.Intn(3)]
	}
	runSourceFixed(e, c, cfg, r.Intn(3), alt)
}
