package session

import (
	"fmt"
	"strings"
)

// Session keys are `any`: handlers may use keys of every comparable type. In the specification a
// key is a token; plain tokens are string keys, "#…" tokens stand for a key of another type —
// among them the zero values of the basic types, which a library that keeps bookkeeping inside
// the user's data map is most likely to collide with.

// HKey is a struct key (registered with Store.RegisterType, as the documentation asks for
// custom types).
type HKey struct {
	A int
	B string
}

var typedKeys = map[string]any{
	"#int:0":       int(0),
	"#int:1":       int(1),
	"#int:-1":      int(-1),
	"#uint:0":      uint(0),
	"#int64:0":     int64(0),
	"#uint8:0":     uint8(0),
	"#bool:false":  false,
	"#bool:true":   true,
	"#float64:0":   float64(0),
	"#string:":     "",
	"#struct:zero": HKey{},
	"#struct:a1":   HKey{A: 1, B: "x"},
}

// keyPool: what scripts pick keys from (strings twice as likely as each typed key group).
var keyPool = []string{"k0", "k1", "k2", "k3", "k0", "k1", "k2", "k3",
	"#int:0", "#int:1", "#int:-1", "#uint:0", "#int64:0", "#uint8:0", "#bool:false", "#bool:true",
	"#float64:0", "#string:", "#struct:zero", "#struct:a1", "#int:0", "#int:1"}

// keyOf turns a token into the key handed to the session API.
func keyOf(token string) any {
	if k, ok := typedKeys[token]; ok {
		return k
	}
	return token
}

// tokenOf is the inverse; ok=false for a key of a type no handler of the harness ever used.
func tokenOf(k any) (string, bool) {
	switch x := k.(type) {
	case string:
		if x == "" {
			return "#string:", true
		}
		if strings.HasPrefix(x, "#") {
			return "", false
		}
		return x, true
	case int:
		return fmt.Sprintf("#int:%d", x), true
	case uint:
		return fmt.Sprintf("#uint:%d", x), true
	case int64:
		return fmt.Sprintf("#int64:%d", x), true
	case uint8:
		return fmt.Sprintf("#uint8:%d", x), true
	case bool:
		return fmt.Sprintf("#bool:%v", x), true
	case float64:
		return fmt.Sprintf("#float64:%v", x), true
	case HKey:
		if x == (HKey{}) {
			return "#struct:zero", true
		}
		return fmt.Sprintf("#struct:a%d", x.A), true
	}
	return "", false
}

// privVal is a value type that is NEVER registered with the store: a session holding one cannot
// be encoded, so its Save fails. badVal is its token in scripts and in the specification.
type privVal struct{ N int }

const badVal = "!unregistered"

func valOf(token string) any {
	if token == badVal {
		return privVal{N: 1}
	}
	return token
}
