package session

import (
	"fmt"
	"time"

	"github.com/gofiber/fiber/v3"
	fsess "github.com/gofiber/fiber/v3/middleware/session"
)

// op is one scripted handler operation. Kinds:
//
//	get set del idle save destroy regen reset      on the session held by the request
//	release reget                                   store API only (Session.Release / Store.Get again)
//	byid                                            Store.GetByID(Tgt) [+ set Key=Val] [+ Save] + Release
//	sdel sreset                                     Store.Delete(Tgt) / Store.Reset()
//	sget                                            Store.Get(c) while the middleware holds the session
type op struct {
	K    string
	Key  string
	Val  string
	Dur  time.Duration
	Tgt  string
	Set  bool // byid: set Key=Val on the loaded session
	Save bool // byid: call Save before Release
}

func (o op) String() string {
	switch o.K {
	case "get", "del":
		return o.K + " " + o.Key
	case "set":
		return "set " + o.Key + "=" + o.Val
	case "idle":
		return "idle " + o.Dur.String()
	case "byid":
		s := "byid " + short(o.Tgt)
		if o.Set {
			s += " set " + o.Key + "=" + o.Val
		}
		if o.Save {
			s += " save"
		}
		return s
	case "sdel":
		return "sdel " + short(o.Tgt)
	}
	return o.K
}

func short(s string) string {
	if len(s) > 40 {
		return fmt.Sprintf("%s…(%d bytes)", s[:16], len(s))
	}
	return s
}

// view is what the handler sees of a session at one instant.
type view struct {
	Held  bool
	ID    string
	Fresh bool
	Data  map[string]string
	Abs   time.Time // value stored under the (non-string) absolute-expiration key, if any
	Odd   []string  // keys/values that are not harness strings
}

// opObs is the observation of one op ("start" is op -1: the session the request begins with).
type opObs struct {
	Err   string
	Got   string
	GotOK bool
	View  view  // session held by the request after the op
	ByID  *view // byid: the loaded session before modification (nil = not found)
	IssLo int   // ids issued before the op
	IssHi int   // ids issued after the op
	Panic string
}

type reqObs struct {
	Start opObs
	Ops   []opObs
	Fatal string
}

func snap(s *fsess.Session) view {
	v := view{Held: true, Data: map[string]string{}}
	if s == nil {
		v.Held = false
		return v
	}
	v.ID = s.ID()
	v.Fresh = s.Fresh()
	for _, k := range s.Keys() {
		val := s.Get(k)
		ks, ok := tokenOf(k)
		if !ok {
			// a key type of the library itself: its bookkeeping (absolute expiration)
			if t, ok := val.(time.Time); ok {
				v.Abs = t
			} else {
				v.Odd = append(v.Odd, fmt.Sprintf("key %T", k))
			}
			continue
		}
		if vs, ok := val.(string); ok {
			v.Data[ks] = vs
		} else if _, ok := val.(privVal); ok {
			v.Data[ks] = badVal
		} else {
			v.Data[ks] = fmt.Sprintf("%T", val)
			v.Odd = append(v.Odd, fmt.Sprintf("key %s holds a %T no handler stored", ks, val))
		}
	}
	return v
}

// script is what the handler of the current request executes.
type script struct {
	MW  bool
	Ops []op
	Obs *reqObs
	// Outer: a handler in front of the session middleware uses the store API on the same store
	// (Store.Get, Pre ops, c.Next() through the middleware and the inner script, Post ops,
	// Release). OuterObs: Start = the Store.Get, Ops = Pre then Post.
	Outer    bool
	Pre      []op
	Post     []op
	OuterObs *reqObs
}

// issuer is the harness KeyGenerator: every id the server generates is recorded.
type issuer interface {
	count() int
}

// runScript executes the script inside a real handler. st is the store of the app.
func runScript(c fiber.Ctx, st *fsess.Store, sc *script, iss issuer) {
	ob := sc.Obs
	var m *fsess.Middleware
	var sess *fsess.Session
	ob.Start.IssLo = 0
	if sc.MW {
		m = fsess.FromContext(c)
		if m == nil || m.Session == nil {
			ob.Fatal = "session.FromContext returned nil behind the middleware"
			return
		}
		sess = m.Session
		ob.Start.IssHi = iss.count()
	} else {
		s, err := st.Get(c)
		ob.Start.IssHi = iss.count()
		if err != nil {
			ob.Start.Err = err.Error()
			ob.Fatal = "Store.Get failed: " + err.Error()
			return
		}
		sess = s
	}
	ob.Start.View = snap(sess)
	execOps(c, st, m, &sess, sc.Ops, ob, iss)
	if m == nil && sess != nil {
		sess.Release() // the documented `defer sess.Release()`
	}
}

// runOuter is the handler in front of the session middleware: store API around c.Next().
func runOuter(c fiber.Ctx, st *fsess.Store, sc *script, iss issuer) error {
	ob := sc.OuterObs
	sess, err := st.Get(c)
	ob.Start.IssHi = iss.count()
	if err != nil {
		ob.Start.Err = err.Error()
		ob.Fatal = "Store.Get failed: " + err.Error()
		return c.Next()
	}
	ob.Start.View = snap(sess)
	execOps(c, st, nil, &sess, sc.Pre, ob, iss)
	nextErr := c.Next()
	execOps(c, st, nil, &sess, sc.Post, ob, iss)
	if sess != nil {
		sess.Release()
	}
	return nextErr
}

// execOps runs ops on the session held (m != nil: through the middleware object).
func execOps(c fiber.Ctx, st *fsess.Store, m *fsess.Middleware, psess **fsess.Session, ops []op, ob *reqObs, iss issuer) {
	sess := *psess
	defer func() { *psess = sess }()
	destroyed := false
	for _, o := range ops {
		var r opObs
		r.IssLo = iss.count()
		needs := o.K != "byid" && o.K != "sdel" && o.K != "sreset" && o.K != "reget" && o.K != "sget"
		if needs && sess == nil {
			r.Err = "skipped: no session held"
			ob.Ops = append(ob.Ops, r)
			continue
		}
		switch o.K {
		case "get":
			var v any
			if m != nil {
				v = m.Get(keyOf(o.Key))
			} else {
				v = sess.Get(keyOf(o.Key))
			}
			if v != nil {
				r.GotOK = true
				if s, ok := v.(string); ok {
					r.Got = s
				} else if _, ok := v.(privVal); ok {
					r.Got = badVal
				} else {
					r.Got = fmt.Sprintf("%T", v) // not a value any handler stored
				}
			}
		case "set":
			if m != nil {
				m.Set(keyOf(o.Key), valOf(o.Val))
			} else {
				sess.Set(keyOf(o.Key), valOf(o.Val))
			}
		case "del":
			if m != nil {
				m.Delete(keyOf(o.Key))
			} else {
				sess.Delete(keyOf(o.Key))
			}
		case "idle":
			sess.SetIdleTimeout(o.Dur)
		case "save":
			if err := sess.Save(); err != nil {
				r.Err = err.Error()
			}
		case "destroy":
			var err error
			if m != nil {
				err = m.Destroy()
			} else {
				err = sess.Destroy()
			}
			if err != nil {
				r.Err = err.Error()
			}
			destroyed = true
		case "regen":
			if err := sess.Regenerate(); err != nil {
				r.Err = err.Error()
			}
		case "reset":
			var err error
			if m != nil {
				err = m.Reset()
			} else {
				err = sess.Reset()
			}
			if err != nil {
				r.Err = err.Error()
			}
		case "release":
			sess.Release()
			sess = nil
		case "reget":
			if m != nil || sess != nil {
				r.Err = "skipped: session still held"
				break
			}
			s, err := st.Get(c)
			if err != nil {
				r.Err = err.Error()
			} else {
				sess = s
			}
		case "sget":
			s, err := st.Get(c)
			if err != nil {
				r.Err = err.Error()
			}
			if s != nil {
				r.GotOK = true
				s.Release()
			}
		case "byid":
			s, err := st.GetByID(o.Tgt)
			if err != nil {
				r.Err = err.Error()
			}
			if s != nil {
				v := snap(s)
				r.ByID = &v
				if o.Set {
					s.Set(keyOf(o.Key), o.Val)
				}
				if o.Save {
					if err := s.Save(); err != nil {
						r.Err = "save: " + err.Error()
					}
				}
				s.Release()
			}
		case "sdel":
			if err := st.Delete(o.Tgt); err != nil {
				r.Err = err.Error()
			}
		case "sreset":
			if err := st.Reset(); err != nil {
				r.Err = err.Error()
			}
		}
		r.IssHi = iss.count()
		if sess != nil {
			r.View = snap(sess)
		}
		ob.Ops = append(ob.Ops, r)
	}
	_ = destroyed
}
