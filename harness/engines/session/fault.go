package session

import (
	"fmt"
	"sort"
	"strings"
	"time"

	"verifharness/internal/drive"
	"verifharness/internal/gen"
	"verifharness/internal/vstore"
)

// Storage read faults inside a history (instrumented storage only): the request that presents an
// id meets a failing Storage.Get — once ("get-first") or for the whole request ("get-outage") —
// while writes keep working; afterwards the storage is healthy again and the history goes on
// under the ordinary oracle.
//
// What the faulted request itself answers (error, 500, panic of the middleware, a fresh session
// under a NEW id) is not judged. Judged, right after it and by everything that follows:
//
//	(i)  an id the server did not issue is never adopted: not handed to the handler as session
//	     id, not emitted to the client, not used as a storage key;
//	(ii) every saved session still has exactly the data last successfully saved: the faulted
//	     request may have saved nothing, or (had the read been retried successfully) the stored
//	     data with the handler's own writes applied — it must not replace it by anything else,
//	     nor bring back an id that had ended.
//
// Scripts of faulted requests only get / set / delete keys and save.

const faultClass = "storage-read-error"

func genFaultOps(r *gen.Rand, cl *client, ci int, mw bool) []op {
	var ops []op
	for n := r.Range(0, 3); n > 0; n-- {
		switch r.PickW(2, 4, 1) {
		case 0:
			ops = append(ops, op{K: "get", Key: gen.Pick(r, keyPool)})
		case 1:
			cl.seq++
			ops = append(ops, op{K: "set", Key: gen.Pick(r, keyPool), Val: mkVal(ci, cl.seq)})
		default:
			ops = append(ops, op{K: "del", Key: gen.Pick(r, keyPool)})
		}
	}
	if !mw && r.Chance(4, 5) {
		ops = append(ops, op{K: "save"})
	}
	return ops
}

// genSimpleOps: n ops that only read / write / delete keys (sget: also Store.Get under the
// middleware, which must be refused).
func genSimpleOps(r *gen.Rand, cl *client, ci, n int, sget bool) []op {
	var ops []op
	for ; n > 0; n-- {
		switch r.PickW(2, 4, 1, 1) {
		case 0:
			ops = append(ops, op{K: "get", Key: gen.Pick(r, keyPool)})
		case 1:
			cl.seq++
			ops = append(ops, op{K: "set", Key: gen.Pick(r, keyPool), Val: mkVal(ci, cl.seq)})
		case 2:
			ops = append(ops, op{K: "del", Key: gen.Pick(r, keyPool)})
		default:
			if sget {
				ops = append(ops, op{K: "sget"})
			} else {
				ops = append(ops, op{K: "get", Key: gen.Pick(r, keyPool)})
			}
		}
	}
	return ops
}

func applyOps(data map[string]string, ops []op) map[string]string {
	out := copyMap(data)
	for _, o := range ops {
		switch o.K {
		case "set":
			out[o.Key] = o.Val
		case "del":
			delete(out, o.Key)
		}
	}
	return out
}

func sameData(a, b map[string]string) bool {
	if len(a) != len(b) {
		return false
	}
	for k, v := range a {
		if w, ok := b[k]; !ok || w != v {
			return false
		}
	}
	return true
}

// doFaulted runs one request under a read-fault plan and judges clauses (i) and (ii).
func (h *hist) doFaulted(rq *request) bool {
	e, w := h.e, h.w
	cl := h.clients[rq.Client]
	w.now = time.Now()
	via := map[bool]string{true: "mw", false: "store"}[rq.MW]
	base := h.vs.Calls("get")
	n := 1
	if rq.Fault == "get-outage" {
		n = 64
	}
	h.vs.Faults = nil
	for i := 1; i <= n; i++ {
		h.vs.Faults = append(h.vs.Faults, vstore.Fault{Kind: "get", N: base + i})
	}
	issuedBefore := w.count()
	ob := &reqObs{}
	h.cur = &script{MW: rq.MW, Ops: rq.Ops, Obs: ob}
	ops := make([]string, len(rq.Ops))
	for i, o := range rq.Ops {
		ops[i] = o.String()
	}
	h.trace = append(h.trace, fmt.Sprintf("%s c%d(%s) %s FAULT=%s present=%s:%s ops=[%s]", stamp(w.now), rq.Client, cl.kind, via, rq.Fault, rq.Class, short(rq.Presented), strings.Join(ops, "; ")))
	var resp *drive.Resp
	conn, panicked := "-", ""
	func() {
		defer func() {
			if r := recover(); r != nil {
				panicked = fmt.Sprint(r)
			}
		}()
		resp, conn = h.drive(h.buildReq(rq))
	}()
	failedReads := h.vs.Calls("get") - base
	h.vs.Faults = nil
	e.Eval(1)
	e.Stat("requests", 1)
	e.Stat("fault-requests|"+rq.Fault+"|"+via, 1)
	if failedReads == 0 {
		e.Stat("fault-requests-without-a-read", 1)
	}
	out := "no response (panic: " + panicked + ")"
	var em []seen
	if resp != nil {
		em = h.emissions(resp, w.now)
		h.otherName = nil
		out = fmt.Sprintf("status=%d id=%s fresh=%v data=%v emitted=%s", resp.Status, ob.Start.View.ID, ob.Start.View.Fresh, ob.Start.View.Data, fmtSeen(em))
	} else {
		e.Stat("fault-requests-panicked(not judged)", 1)
	}
	h.trace[len(h.trace)-1] += " conn=" + conn + " -> " + out
	var viol *vio
	fail := func(v *vio) {
		if viol == nil {
			viol = v
		}
	}
	// (i) the handler
	if v := ob.Start.View; v.Held && !w.isIssued(v.ID) {
		if v.ID == rq.Presented {
			fail(&vio{"adopt|client-chosen-id|" + w.cfg.Source + "|" + via + "|" + faultClass,
				fmt.Sprintf("Storage.Get failed; the handler got a session under the presented id %q, which the server never issued", short(v.ID))})
		} else {
			fail(&vio{"adopt|unissued-id-as-new-session|" + w.cfg.Source + "|" + via + "|" + faultClass,
				fmt.Sprintf("Storage.Get failed; the handler got a session under id %q, which the server never generated", short(v.ID))})
		}
	}
	// (i) the client
	for _, s := range em {
		if s.bad == "" && s.value != "" && !w.isIssued(s.value) {
			fail(&vio{"adopt|emitted-id-not-issued|" + w.cfg.Source + "|" + faultClass,
				fmt.Sprintf("Storage.Get failed; the response tells the client to use id %q, which the server never generated", short(s.value))})
		}
	}
	// (i) + (ii) the storage
	inLive := map[string]bool{}
	for _, key := range h.vs.Live() {
		inLive[key] = true
		if viol != nil {
			break
		}
		if !w.isIssued(key) {
			fail(&vio{"adopt|storage-key-not-issued|" + w.cfg.Source + "|" + faultClass,
				fmt.Sprintf("Storage.Get failed; the storage now holds key %q, which the server never generated", short(key))})
			break
		}
		b, _ := h.vs.Peek(key)
		data, _, odd := decodeStored(b)
		if odd != "" {
			fail(&vio{"data-mismatch|storage-content|" + faultClass, fmt.Sprintf("storage entry %q: %s", key, odd)})
			break
		}
		ent := w.store[key]
		if ent == nil {
			if w.issuedIdx[key] < issuedBefore {
				cause := w.dead[key]
				if cause == "" {
					cause = "never-saved"
				}
				fail(&vio{"stale-id-in-storage|after-" + cause + "|" + faultClass,
					fmt.Sprintf("Storage.Get failed; id %q, which ended by %s, is back in the storage with %v", key, cause, data)})
				break
			}
			// a new session under an id generated during this request: it can only hold what
			// this handler wrote
			if exp := applyOps(map[string]string{}, rq.Ops); !sameData(data, exp) {
				fail(w.cmpData(exp, data, rq.Client, -1, "storage", "new session "+key+" after a storage read error"))
				break
			}
			w.lineages++
			ne := &entry{data: data, origin: "new", lineage: w.lineages}
			if w.cfg.Abs > 0 {
				ne.hasAbs, ne.absLo, ne.absHi = true, w.now.Add(w.cfg.Abs), w.now.Add(w.cfg.Abs)
			}
			w.setIdle(ne, w.cfg.Idle)
			for _, v := range data {
				w.valLin[v] = ne.lineage
			}
			w.store[key] = ne
			delete(w.dead, key)
			continue
		}
		switch {
		case sameData(data, ent.data):
		case key == rq.Presented && sameData(data, applyOps(ent.data, rq.Ops)):
			// as if the read had been retried successfully
			ent.data = data
			for _, v := range data {
				if _, ok := w.valLin[v]; !ok {
					w.valLin[v] = ent.lineage
				}
			}
		default:
			fail(&vio{"data-mismatch|stored-data-replaced|" + via + "|" + faultClass,
				fmt.Sprintf("Storage.Get failed once; session %q had %v saved, the storage now holds %v (handler wrote %v)", key, ent.data, data, applyOps(map[string]string{}, rq.Ops))})
		}
		if dl, ok := h.vs.Deadline(key); ok && dl.Equal(w.now.Add(w.cfg.Idle)) {
			w.setIdle(ent, w.cfg.Idle) // it was saved by this request
		}
	}
	if viol == nil {
		ids := make([]string, 0, len(w.store))
		for id := range w.store {
			ids = append(ids, id)
		}
		sort.Strings(ids)
		for _, id := range ids {
			if !inLive[id] && w.idleStatus(w.store[id]) == stAlive {
				fail(&vio{"not-persistent|saved-session-missing-from-storage|" + faultClass,
					fmt.Sprintf("Storage.Get failed once; session %q, saved and within its idle timeout, is gone from the storage", id)})
				break
			}
		}
	}
	if viol != nil {
		if !h.sigs[viol.sig] {
			h.sigs[viol.sig] = true
			det := h.detail()
			det["request"] = len(h.trace) - 1
			e.Violation(h.c, viol.sig, viol.what, det)
		}
		h.stopped = true
		return false
	}
	h.faulted = true
	// client side: as always
	for _, s := range em {
		switch {
		case s.bad != "":
		case s.expired || s.value == "":
			if h.cfg.Source != "header" {
				cl.jar = ""
			}
		default:
			cl.jar = s.value
			if n := len(cl.held); n == 0 || cl.held[n-1] != s.value {
				cl.held = append(cl.held, s.value)
			}
		}
	}
	return true
}
