package session

import (
	"fmt"
	"sort"
	"strconv"
	"strings"
	"time"
)

// cfgT is the configuration of one history.
type cfgT struct {
	Source string // cookie | header | query
	Name   string
	Idle   time.Duration
	Abs    time.Duration
	VStore bool
	Retain bool   // with VStore: the retaining storage (refStore) instead of vstore
	IDs    string // id alphabet of the KeyGenerator ("" = plain)
	IDLen  int    // the KeyGenerator pads its ids to this length (0: natural length)
	Ready  bool   // the middleware is built as New(Config{Store: store}) around a ready-made store
	// Gran is the ambiguity window around an idle deadline: 0 for vstore (exact TTL), 1 s for the
	// bundled memory storage (whole-second TTLs on a coarse clock: may end up to 1 s early).
	Gran time.Duration
}

func (c cfgT) String() string {
	st := "memory"
	if c.VStore {
		st = "vstore"
		if c.Retain {
			st = "retaining"
		}
	}
	ids := c.IDs
	if ids == "" {
		ids = "plain"
	}
	if c.IDLen > 0 {
		ids += fmt.Sprintf("/len%d", c.IDLen)
	}
	if c.Ready {
		st += " middleware=New(Config{Store})"
	}
	return fmt.Sprintf("source=%s:%s idle=%s abs=%s storage=%s ids=%s", c.Source, c.Name, c.Idle, c.Abs, st, ids)
}

// entry is store[id] of the specification.
type entry struct {
	data    map[string]string
	idleDL  time.Time // nominal: last save + idle timeout
	idleLo  time.Time // alive is required strictly before idleLo
	idleHi  time.Time // gone is required strictly after idleHi
	hasAbs  bool
	absLo   time.Time // alive is required strictly before absLo (idle permitting)
	absHi   time.Time // gone is required strictly after absHi
	origin  string    // how the lineage began: new | reset
	regen   bool      // the session went through Regenerate since
	lineage int
}

const (
	stAlive = iota
	stEither
	stDead
)

type vio struct {
	sig, what string
}

// world is the state-machine specification shared by all clients of a history.
type world struct {
	cfg       cfgT
	now       time.Time
	issued    []string
	issuedIdx map[string]int
	store     map[string]*entry
	dead      map[string]string // id -> why it ended (destroy, regenerate, reset, store-delete, …)
	lineages  int
	valLin    map[string]int // value -> lineage it was written into
	// race mode: ids are claimed by clients instead of being looked up in an ordered issue list
	claim func(id string, client int) (issued bool, mine bool)
}

func newWorld(cfg cfgT) *world {
	return &world{cfg: cfg, issuedIdx: map[string]int{}, store: map[string]*entry{}, dead: map[string]string{}, valLin: map[string]int{}}
}

// issue is called by the KeyGenerator.
func (w *world) issue(id string) {
	w.issuedIdx[id] = len(w.issued)
	w.issued = append(w.issued, id)
}
func (w *world) count() int { return len(w.issued) }

func (w *world) isIssued(id string) bool {
	if w.claim != nil {
		ok, _ := w.claim(id, -1)
		return ok
	}
	_, ok := w.issuedIdx[id]
	return ok
}

// status of an id at w.now, and why it is (or may be) dead.
func (w *world) status(id string) (int, string) {
	e := w.store[id]
	if e == nil {
		if id == "" {
			return stDead, "empty"
		}
		if !w.isIssued(id) {
			return stDead, "not-issued"
		}
		if c, ok := w.dead[id]; ok {
			return stDead, c
		}
		return stDead, "never-saved"
	}
	st, why := stAlive, ""
	switch {
	case w.now.Before(e.idleLo):
	case w.now.After(e.idleHi):
		return stDead, "idle"
	default:
		st, why = stEither, "idle"
	}
	if e.hasAbs {
		switch {
		case w.now.Before(e.absLo):
		case w.now.After(e.absHi):
			return stDead, "abs"
		default:
			if st == stAlive {
				st, why = stEither, "abs"
			}
		}
	}
	return st, why
}

// idleStatus ignores the absolute deadline (storage contents are only removed lazily for it).
func (w *world) idleStatus(e *entry) int {
	switch {
	case w.now.Before(e.idleLo):
		return stAlive
	case w.now.After(e.idleHi):
		return stDead
	}
	return stEither
}

// setIdle restarts the idle timeout of an entry saved now with timeout d.
//
// Exact storage (vstore, Gran 0): alive strictly before now+d, gone strictly after.
// Whole-second storage (bundled memory, Gran 1 s): the TTL is truncated to whole seconds and
// counted on a coarse clock, so the entry may end early — by up to a second for a whole-second
// timeout, at once for a sub-second one. Only the unambiguous sides are judged: alive is required
// before now + floor(d) - 1 s (never, for d < 1 s), gone is required after now + ceil(d) + 1 s.
func (w *world) setIdle(e *entry, d time.Duration) {
	e.idleDL = w.now.Add(d)
	if w.cfg.Gran == 0 {
		e.idleLo, e.idleHi = e.idleDL, e.idleDL
		return
	}
	fl := d.Truncate(time.Second)
	ce := fl
	if ce < d {
		ce += time.Second
	}
	e.idleLo = w.now.Add(fl - w.cfg.Gran)
	e.idleHi = w.now.Add(ce + w.cfg.Gran)
}

func (w *world) kill(id, cause string) {
	if id == "" {
		return
	}
	delete(w.store, id)
	w.dead[id] = cause
}

func copyMap(m map[string]string) map[string]string {
	o := make(map[string]string, len(m))
	for k, v := range m {
		o[k] = v
	}
	return o
}

// value encoding: "v<client>.<seq>" — self-describing, so a value identifies its writer.
func mkVal(client, seq int) string { return "v" + strconv.Itoa(client) + "." + strconv.Itoa(seq) }

func valWriter(v string) int {
	if !strings.HasPrefix(v, "v") {
		return -1
	}
	i := strings.IndexByte(v, '.')
	if i < 0 {
		return -1
	}
	n, err := strconv.Atoi(v[1:i])
	if err != nil {
		return -1
	}
	return n
}

// cmpData classifies the first difference between expected and observed data.
func (w *world) cmpData(exp, obs map[string]string, observer, lineage int, via, where string) *vio {
	keys := make([]string, 0, len(obs)+len(exp))
	for k := range obs {
		keys = append(keys, k)
	}
	for k := range exp {
		if _, ok := obs[k]; !ok {
			keys = append(keys, k)
		}
	}
	sort.Strings(keys)
	// foreign values first: they are the most specific diagnosis
	for _, k := range keys {
		ov, ok := obs[k]
		if !ok || exp[k] == ov {
			continue
		}
		if wr := valWriter(ov); wr >= 0 && wr != observer {
			return &vio{"mix|other-client-value|" + via,
				fmt.Sprintf("%s: client %d observes %s=%s written by client %d (expected %q)", where, observer, k, ov, wr, exp[k])}
		}
	}
	for _, k := range keys {
		ov, ook := obs[k]
		ev, eok := exp[k]
		if ook && eok && ov == ev {
			continue
		}
		if !ook {
			return &vio{"data-mismatch|saved-value-missing|" + via,
				fmt.Sprintf("%s: expected %s=%s, key absent (observed %v)", where, k, ev, obs)}
		}
		class := "value-never-written"
		if lin, known := w.valLin[ov]; known {
			if lin == lineage {
				class = "stale-or-unsaved-value-of-this-session"
			} else {
				class = "value-of-another-session"
			}
		}
		if !eok {
			return &vio{"data-mismatch|" + class + "|" + via,
				fmt.Sprintf("%s: unexpected %s=%s (expected data %v, observed %v)", where, k, ov, exp, obs)}
		}
		return &vio{"data-mismatch|" + class + "|" + via,
			fmt.Sprintf("%s: %s=%s, expected %s", where, k, ov, ev)}
	}
	return nil
}

// request is one client request of a history.
type request struct {
	Client    int
	MW        bool
	Presented string // id presented through the configured source ("" = nothing presented)
	Class     string // how the id was chosen (jar, old, forged-random, …)
	Cookie    string // an id additionally presented through a source that is NOT the configured one
	AltSrc    string // which one: "" / "cookie", "header", "query" (always under the configured name)
	Outer     bool   // store API in a handler in front of the middleware: Pre, (MW + Ops), Post
	Pre       []op
	Post      []op
	Fault     string // "get-first", "get-outage": Storage.Get fails; "delete-outage": Storage.Delete fails
	Ops       []op
}

const (
	emNone = iota
	emExpired
	emID
)

type emission struct {
	kind int
	id   string
}

// curT is the session held by the running request, as the specification sees it.
type curT struct {
	held      bool
	id        string
	data      map[string]string
	hasAbs    bool
	absLo     time.Time
	absHi     time.Time
	origin    string
	regen     bool
	lineage   int
	idle      time.Duration
	destroyed bool
}

type judge struct {
	w       *world
	rq      *request
	mw      bool // the session currently judged is the middleware's
	via     string
	cur     curT
	created []string // ids of sessions created for this request by Store.Get / the middleware
	emit    emission
	vs      []vio
	stop    bool
	// what happened, for the non-triviality rule and statistics
	otherName  []string // "name=id" emitted under a differently-cased cookie name
	delFault   bool     // every Storage.Delete fails during this request
	unknown    bool     // an operation reported an error under that fault: state unknown, no verdict
	saveFailed bool     // a Save of this request could not encode the data (unregistered value type)
	usedDead   string   // cause of death of a dead id that was presented / looked up
	deadProbe  int
}

func (j *judge) fail(v *vio) {
	if v == nil {
		return
	}
	j.vs = append(j.vs, *v)
	j.stop = true
}

// giveUp: under a Delete outage an operation reported an error. What the storage then holds is not
// defined by the statement (the old id may or may not be gone): the history ends here, no verdict.
func (j *judge) giveUp() {
	j.unknown = true
	j.stop = true
}

// soft records a violation but keeps judging (the specification was re-synchronised).
func (j *judge) soft(v *vio) { j.vs = append(j.vs, *v) }

func (j *judge) freshIssued(id string, o *opObs) bool {
	w := j.w
	if w.claim != nil {
		issued, mine := w.claim(id, j.rq.Client)
		return issued && mine
	}
	i, ok := w.issuedIdx[id]
	return ok && i >= o.IssLo && i < o.IssHi
}

// deadSig maps "the server served a session under an id that the specification says is gone".
func (j *judge) deadSig(id, why string, e *entry, hasData bool, via string) (v *vio, resync bool) {
	src := j.w.cfg.Source
	switch why {
	case "not-issued":
		return &vio{"adopt|client-chosen-id|" + src + "|" + via,
			fmt.Sprintf("id %q was never issued by the server but the handler got a session with exactly that id", short(id))}, false
	case "empty":
		return &vio{"adopt|empty-id|" + via, "session with empty id"}, false
	case "never-saved":
		return &vio{"reuse|dead-id-readopted|never-saved|" + via,
			fmt.Sprintf("id %q was issued but its session was never saved; presenting it yields a session under that id instead of a new id", id)}, false
	case "idle", "abs":
		if e != nil && len(e.data) > 0 && !hasData {
			// the data did end, but the id was taken over for a new session
			return &vio{"reuse|dead-id-readopted|after-" + why + "-expired|" + via,
				fmt.Sprintf("id %q expired (%s timeout): presenting it yields an empty session under the same id instead of a fresh server-generated id", id, why)}, false
		}
	}
	switch why {
	case "idle":
		return &vio{"outlives|idle-timeout|" + via,
			fmt.Sprintf("session %q still served %s after its idle deadline %s (now %s)", id, j.w.now.Sub(e.idleDL), stamp(e.idleDL), stamp(j.w.now))}, true
	case "abs":
		org := e.origin
		if e.regen {
			org += "+regenerate"
		}
		return &vio{"outlives|absolute-timeout|" + org + "|" + via,
			fmt.Sprintf("session %q (created by %s) still served %s after its absolute deadline %s (now %s)", id, e.origin, j.w.now.Sub(e.absHi), stamp(e.absHi), stamp(j.w.now))}, true
	}
	if hasData {
		return &vio{"stale-id-yields-data|after-" + why + "|" + via,
			fmt.Sprintf("id %q ended by %s still yields data", id, why)}, false
	}
	return &vio{"reuse|dead-id-readopted|after-" + why + "|" + via,
		fmt.Sprintf("id %q ended by %s: presenting it yields a session under the same id instead of a fresh server-generated id", id, why)}, false
}

var epoch time.Time

func stamp(t time.Time) string {
	if epoch.IsZero() {
		return t.Format("15:04:05.000")
	}
	return "t+" + t.Sub(epoch).String()
}

func (j *judge) loadFrom(id string, e *entry) {
	j.cur = curT{held: true, id: id, data: copyMap(e.data), hasAbs: e.hasAbs, absLo: e.absLo, absHi: e.absHi,
		origin: e.origin, regen: e.regen, lineage: e.lineage}
}

func (j *judge) newCur(id, origin string) {
	w := j.w
	w.lineages++
	j.cur = curT{held: true, id: id, data: map[string]string{}, origin: origin, lineage: w.lineages}
	if w.cfg.Abs > 0 {
		j.cur.hasAbs = true
		j.cur.absLo = w.now.Add(w.cfg.Abs)
		j.cur.absHi = j.cur.absLo
	}
}

// acquire judges Store.Get / the middleware's session lookup.
func (j *judge) acquire(o *opObs, first bool, where string) {
	w := j.w
	v := o.View
	if !v.Held {
		if j.delFault {
			j.giveUp() // the lookup had to delete (absolute timeout over) and said it could not
			return
		}
		j.fail(&vio{"api|no-session|" + j.via, where + ": no session: " + o.Err})
		return
	}
	if len(v.Odd) > 0 {
		j.fail(&vio{"data-mismatch|non-harness-content|" + j.via, where + ": " + strings.Join(v.Odd, ",")})
		return
	}
	if alt := j.rq.Cookie; first && alt != "" && alt != j.rq.Presented && v.ID == alt {
		src := j.rq.AltSrc
		if src == "" {
			src = "cookie"
		}
		j.fail(&vio{"source|" + src + "-consulted-though-source-is-" + w.cfg.Source,
			fmt.Sprintf("%s: KeyLookup is %s:%s; the request presents %q there and id %q in the %s — the handler got the session named by the %s", where, w.cfg.Source, w.cfg.Name, short(j.rq.Presented), short(alt), src, src)})
		return
	}
	cands := []string{}
	if !first {
		for i := len(j.created) - 1; i >= 0; i-- {
			cands = append(cands, j.created[i])
		}
	}
	cands = append(cands, j.rq.Presented)
	for _, cand := range cands {
		if cand == "" || v.ID != cand {
			continue
		}
		st, why := w.status(cand)
		e := w.store[cand]
		if st == stDead {
			j.usedDead = why
			viol, resync := j.deadSig(cand, why, e, len(v.Data) > 0, j.via)
			if !resync || e == nil {
				j.fail(viol)
				return
			}
			j.soft(viol)
			// re-synchronise: the server treats it as alive; forget the missed deadline
			if why == "abs" {
				e.hasAbs = false
			} else {
				w.setIdle(e, time.Hour)
			}
		}
		j.loadFrom(cand, e)
		if first && v.Fresh {
			j.soft(&vio{"fresh|existing-session-reported-fresh|" + j.via, where + ": Fresh()=true for a stored session"})
		}
		j.fail(w.cmpData(j.cur.data, v.Data, j.rq.Client, j.cur.lineage, j.via, where))
		return
	}
	// the server created a new session
	if st, _ := w.status(j.rq.Presented); st == stAlive {
		j.fail(&vio{"not-persistent|live-session-replaced|" + j.via,
			fmt.Sprintf("%s: presented id %q is saved, unexpired and not destroyed, but the handler got session %q (fresh=%v)", where, j.rq.Presented, v.ID, v.Fresh)})
		return
	}
	if !j.freshIssued(v.ID, o) {
		if !w.isIssued(v.ID) {
			j.fail(&vio{"adopt|unissued-id-as-new-session|" + w.cfg.Source + "|" + j.via,
				fmt.Sprintf("%s: new session has id %q which the server never generated (presented %q)", where, short(v.ID), short(j.rq.Presented))})
		} else {
			j.fail(&vio{"id|previously-issued-id-reused-for-new-session|" + j.via,
				fmt.Sprintf("%s: new session has id %q, generated before this lookup", where, v.ID)})
		}
		return
	}
	if first {
		if st, why := w.status(j.rq.Presented); w.store[j.rq.Presented] != nil && st != stAlive {
			// the server considered it expired (either-window or dead): it ends here
			if why == "abs" && j.delFault {
				// it could not be deleted; past its absolute deadline it stays refused anyway
			} else if why == "abs" {
				w.kill(j.rq.Presented, "abs-expired")
			} else {
				w.kill(j.rq.Presented, "idle-expired")
			}
			j.usedDead = why
		} else if j.rq.Presented != "" {
			_, why := w.status(j.rq.Presented)
			j.usedDead = why
		}
	}
	origin := "new"
	j.newCur(v.ID, origin)
	j.created = append(j.created, v.ID)
	if !v.Fresh {
		j.soft(&vio{"fresh|new-session-not-fresh|" + j.via, where + ": Fresh()=false for a session created in this request"})
	}
	j.fail(w.cmpData(j.cur.data, v.Data, j.rq.Client, j.cur.lineage, j.via, where))
}

func (j *judge) persist() {
	w := j.w
	c := &j.cur
	for _, v := range c.data {
		if v == badVal {
			// the data cannot be encoded: this save fails and stores nothing; what the request
			// answers is not judged, the id may or may not have been handed to the client
			j.saveFailed = true
			j.emit = emission{kind: emNone}
			return
		}
	}
	idle := c.idle
	if idle <= 0 {
		idle = w.cfg.Idle
	}
	ne := &entry{data: copyMap(c.data), hasAbs: c.hasAbs, absLo: c.absLo, absHi: c.absHi,
		origin: c.origin, regen: c.regen, lineage: c.lineage}
	w.setIdle(ne, idle)
	w.store[c.id] = ne
	delete(w.dead, c.id)
	j.emit = emission{emID, c.id}
}

// changeID judges Regenerate / Reset producing a new id.
func (j *judge) changeID(o *opObs, what string) bool {
	old := j.cur.id
	nid := o.View.ID
	if nid == old {
		j.fail(&vio{"id|unchanged-after-" + what + "|" + j.via, fmt.Sprintf("%s left the session id %q unchanged", what, old)})
		return false
	}
	if !j.freshIssued(nid, o) {
		j.fail(&vio{"id|not-freshly-generated-after-" + what + "|" + j.via, fmt.Sprintf("%s: new id %q was not generated by this call", what, short(nid))})
		return false
	}
	j.w.kill(old, what)
	j.cur.id = nid
	j.created = append(j.created, nid) // a later lookup of this request may find it
	return true
}

// run judges one request against the specification and advances it.
func (w *world) judgeRequest(rq *request, ob *reqObs) *judge {
	j := &judge{w: w, rq: rq, via: "store", delFault: rq.Fault == "delete-outage"}
	if rq.Outer {
		return j
	}
	if rq.MW {
		j.via, j.mw = "mw", true
	}
	if ob.Fatal != "" && j.delFault {
		j.giveUp()
		return j
	}
	if ob.Fatal != "" {
		j.fail(&vio{"api|handler-could-not-run|" + j.via, ob.Fatal})
		return j
	}
	j.acquire(&ob.Start, true, "start")
	if j.stop {
		return j
	}
	for i := range rq.Ops {
		if i >= len(ob.Ops) {
			j.fail(&vio{"harness|missing-observation", "script shorter than observations"})
			return j
		}
		j.step(rq.Ops[i], &ob.Ops[i], i)
		if j.stop {
			return j
		}
	}
	if rq.MW && j.cur.held && !j.cur.destroyed {
		j.persist()
	}
	return j
}

// judgeOuter judges a request in which a handler in front of the session middleware uses the
// store API on the same store. Events in order: Store.Get, Pre ops, the middleware's lookup,
// inner ops, the middleware's save, Post ops, Release. Both sessions are independent copies;
// whatever is saved last under an id is what the next request presenting that id sees.
func (w *world) judgeOuter(rq *request, outer, inner *reqObs) *judge {
	j := &judge{w: w, rq: rq, via: "store"}
	if outer.Fatal != "" {
		j.fail(&vio{"api|handler-could-not-run|store", outer.Fatal})
		return j
	}
	j.acquire(&outer.Start, true, "outer start")
	k := 0
	run := func(ops []op, obs *reqObs, base *int, label string) {
		for i := range ops {
			if j.stop {
				return
			}
			if *base >= len(obs.Ops) {
				j.fail(&vio{"harness|missing-observation", label + " script longer than observations"})
				return
			}
			j.step(ops[i], &obs.Ops[*base], *base)
			*base++
		}
	}
	run(rq.Pre, outer, &k, "outer")
	if j.stop {
		return j
	}
	curO := j.cur
	// the middleware
	j.via, j.mw = "mw", true
	if inner.Fatal != "" {
		j.fail(&vio{"api|handler-could-not-run|mw", inner.Fatal})
		return j
	}
	j.acquire(&inner.Start, false, "middleware start")
	ki := 0
	run(rq.Ops, inner, &ki, "inner")
	if j.stop {
		return j
	}
	if j.cur.held && !j.cur.destroyed {
		j.persist()
	}
	// back in the outer handler
	j.via, j.mw = "store", false
	j.cur = curO
	run(rq.Post, outer, &k, "outer")
	return j
}

func (j *judge) step(o op, r *opObs, idx int) {
	w := j.w
	where := fmt.Sprintf("op %d (%s)", idx, o.String())
	c := &j.cur
	needs := o.K != "byid" && o.K != "sdel" && o.K != "sreset" && o.K != "reget" && o.K != "sget"
	if needs && !c.held {
		return // generator never does this; handler skipped it as well
	}
	switch o.K {
	case "get":
		ev, eok := c.data[o.Key]
		if r.GotOK != eok || r.Got != ev {
			obs := map[string]string{}
			if r.GotOK {
				obs[o.Key] = r.Got
			}
			exp := map[string]string{}
			if eok {
				exp[o.Key] = ev
			}
			j.fail(w.cmpData(exp, obs, j.rq.Client, c.lineage, j.via, where))
			return
		}
	case "set":
		c.data[o.Key] = o.Val
		w.valLin[o.Val] = c.lineage
	case "del":
		delete(c.data, o.Key)
	case "idle":
		c.idle = o.Dur
	case "save":
		poisoned := false
		for _, v := range c.data {
			poisoned = poisoned || v == badVal
		}
		if r.Err != "" && !(poisoned && !j.mw) {
			j.fail(&vio{"api|save-error|" + j.via, where + ": " + r.Err})
			return
		}
		if !j.mw {
			j.persist()
		}
	case "destroy":
		if r.Err != "" && j.delFault {
			j.giveUp()
			return
		}
		if r.Err != "" {
			j.fail(&vio{"api|destroy-error|" + j.via, where + ": " + r.Err})
			return
		}
		w.kill(c.id, "destroy")
		c.data = map[string]string{}
		c.destroyed = true
		j.emit = emission{kind: emExpired}
	case "regen":
		if r.Err != "" && j.delFault {
			j.giveUp()
			return
		}
		if r.Err != "" {
			j.fail(&vio{"api|regenerate-error|" + j.via, where + ": " + r.Err})
			return
		}
		if !j.changeID(r, "regenerate") {
			return
		}
		// Regenerate keeps the session — its data and its absolute deadline (AbsoluteTimeout is the
		// maximum duration of the session "regardless of activity") — only the id changes.
		// Reset, below, starts a new session with a deadline of its own.
		c.regen = true
	case "reset":
		if r.Err != "" && j.delFault {
			j.giveUp()
			return
		}
		if r.Err != "" {
			j.fail(&vio{"api|reset-error|" + j.via, where + ": " + r.Err})
			return
		}
		if !j.changeID(r, "reset") {
			return
		}
		id := c.id
		destroyed := c.destroyed
		j.newCur(id, "reset")
		j.cur.destroyed = destroyed
		c = &j.cur
		j.emit = emission{kind: emExpired}
	case "release":
		c.held = false
	case "reget":
		if r.Err != "" {
			if strings.HasPrefix(r.Err, "skipped") {
				return
			}
			j.fail(&vio{"api|store-get-error|" + j.via, where + ": " + r.Err})
			return
		}
		j.acquire(r, false, where)
		return
	case "sget":
		if r.Err == "" || r.GotOK {
			j.fail(&vio{"api|store-get-while-middleware-holds-session", where + ": Store.Get succeeded although the middleware already loaded the session"})
			return
		}
	case "byid":
		j.byID(o, r, where)
		if j.stop {
			return
		}
	case "sdel":
		if o.Tgt == "" {
			if r.Err == "" {
				j.fail(&vio{"api|delete-empty-id-accepted", where})
			}
			return
		}
		if r.Err != "" && j.delFault {
			j.giveUp()
			return
		}
		if r.Err != "" {
			j.fail(&vio{"api|store-delete-error", where + ": " + r.Err})
			return
		}
		if w.store[o.Tgt] != nil || w.isIssued(o.Tgt) {
			w.kill(o.Tgt, "store-delete")
		}
	case "sreset":
		ids := make([]string, 0, len(w.store))
		for id := range w.store {
			ids = append(ids, id)
		}
		for _, id := range ids {
			w.kill(id, "store-reset")
		}
	}
	if c.held {
		v := r.View
		if !v.Held {
			j.fail(&vio{"harness|no-view", where})
			return
		}
		if !c.destroyed && v.ID != c.id {
			j.fail(&vio{"id|changed-unexpectedly|" + j.via, fmt.Sprintf("%s: ID()=%q, expected %q", where, short(v.ID), c.id)})
			return
		}
		if viol := w.cmpData(c.data, v.Data, j.rq.Client, c.lineage, j.via, where); viol != nil {
			j.fail(viol)
			return
		}
	}
}

func (j *judge) byID(o op, r *opObs, where string) {
	w := j.w
	st, why := w.status(o.Tgt)
	e := w.store[o.Tgt]
	if r.ByID == nil {
		if st == stAlive {
			j.fail(&vio{"not-persistent|live-session-not-found|byid", fmt.Sprintf("%s: GetByID(%q) failed (%s) for a saved, unexpired session", where, o.Tgt, r.Err)})
			return
		}
		if r.Err == "" {
			j.fail(&vio{"api|getbyid-nil-without-error", where})
			return
		}
		if e != nil {
			if why == "abs" && j.delFault {
				// GetByID answered "not found" as it must; the entry could not be deleted
			} else if why == "abs" {
				w.kill(o.Tgt, "abs-expired")
			} else if st == stDead {
				w.kill(o.Tgt, "idle-expired")
			}
			// either+idle and not found: storage dropped it
			if st == stEither && why == "idle" {
				w.kill(o.Tgt, "idle-expired")
			}
		}
		if st == stDead {
			j.usedDead = why
			j.deadProbe++
		}
		return
	}
	v := *r.ByID
	if v.ID != o.Tgt {
		j.fail(&vio{"id|getbyid-returned-other-id", fmt.Sprintf("%s: got %q", where, short(v.ID))})
		return
	}
	if st == stDead {
		j.usedDead = why
		viol, resync := j.deadSig(o.Tgt, why, e, len(v.Data) > 0, "byid")
		if !resync || e == nil {
			j.fail(viol)
			return
		}
		j.soft(viol)
		if why == "abs" {
			e.hasAbs = false
		} else {
			w.setIdle(e, time.Hour)
		}
	}
	if viol := w.cmpData(e.data, v.Data, j.rq.Client, e.lineage, "byid", where); viol != nil {
		j.fail(viol)
		return
	}
	if o.Set && o.Save {
		// Save of a context-less session: data persisted, idle timeout restarted
		if strings.HasPrefix(r.Err, "save:") {
			j.fail(&vio{"api|save-error|byid", where + ": " + r.Err})
			return
		}
		e.data[o.Key] = o.Val
		w.valLin[o.Val] = e.lineage
		w.setIdle(e, w.cfg.Idle)
		// if the request holds the same session, its in-memory copy is independent (documented
		// collision): nothing to do, the later save wins
	} else if o.Save {
		w.setIdle(e, w.cfg.Idle)
	}
}

// judgeEmission compares what the response told the client with the specification.
type seen struct {
	value   string
	expired bool
	bad     string // strict parser's complaint
	raw     string
}

func (j *judge) judgeEmission(obs []seen) {
	w := j.w
	if j.stop {
		return
	}
	if len(obs) > 1 {
		j.fail(&vio{"emit|several-ids-emitted|" + w.cfg.Source, fmt.Sprintf("%d emissions of %s: %v", len(obs), w.cfg.Name, obs)})
		return
	}
	live := ""
	for _, s := range obs {
		if s.bad != "" {
			j.fail(&vio{"emit|set-cookie-not-rfc6265|" + s.bad, "Set-Cookie: " + s.raw})
			return
		}
		if !s.expired && s.value != "" {
			live = s.value
		}
	}
	switch {
	case live != "" && !w.isIssued(live):
		j.fail(&vio{"adopt|emitted-id-not-issued|" + w.cfg.Source, fmt.Sprintf("response tells the client to use id %q which the server never generated", short(live))})
	case live != "" && j.emit.kind == emID && live != j.emit.id:
		j.fail(&vio{"emit|wrong-id|" + w.cfg.Source, fmt.Sprintf("response carries id %q, the session was saved under %q", live, j.emit.id)})
	case live != "" && j.emit.kind != emID && j.saveFailed:
		// the save failed after the id had been written to the response: not judged
	case live != "" && j.emit.kind != emID:
		if _, dead := w.dead[live]; dead && w.store[live] == nil {
			j.fail(&vio{"emit|dead-id-emitted|after-" + w.dead[live] + "|" + w.cfg.Source, fmt.Sprintf("response carries id %q which ended by %s", live, w.dead[live])})
		}
	case live == "" && j.emit.kind == emID && j.emit.id != j.rq.Presented && len(j.otherName) > 0:
		j.fail(&vio{"emit|id-under-differently-cased-name|" + w.cfg.Source,
			fmt.Sprintf("KeyLookup names %q; the new id %q is handed out as %v — cookie names are case-sensitive, the client cannot return it under the configured name", w.cfg.Name, j.emit.id, j.otherName)})
	case live == "" && j.emit.kind == emID && j.emit.id != j.rq.Presented:
		j.fail(&vio{"emit|new-id-not-emitted|" + w.cfg.Source, fmt.Sprintf("session saved under new id %q but the response does not carry it (%v)", j.emit.id, obs)})
	}
}
