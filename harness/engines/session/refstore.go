package session

import (
	"sort"
	"sync"
	"time"
)

// refStore is a fiber.Storage that RETAINS what it is given: Set keeps the caller's []byte and
// key string without copying, Get returns the stored slice itself — which the fiber.Storage
// contract allows and fiber's own in-memory drivers do. Whoever hands Set a slice it reuses
// afterwards (a pooled buffer) corrupts the stored sessions. TTL on the process clock (virtual
// under vt), exact like vstore.
type refStore struct {
	mu sync.Mutex
	m  map[string]refEntry
}

type refEntry struct {
	val []byte
	exp time.Time
}

func newRefStore() *refStore { return &refStore{m: map[string]refEntry{}} }

func (s *refStore) Get(key string) ([]byte, error) {
	s.mu.Lock()
	defer s.mu.Unlock()
	e, ok := s.m[key]
	if !ok {
		return nil, nil
	}
	if !e.exp.IsZero() && !time.Now().Before(e.exp) {
		delete(s.m, key)
		return nil, nil
	}
	return e.val, nil
}

func (s *refStore) Set(key string, val []byte, exp time.Duration) error {
	if key == "" || len(val) == 0 {
		return nil
	}
	e := refEntry{val: val}
	if exp > 0 {
		e.exp = time.Now().Add(exp)
	}
	s.mu.Lock()
	s.m[key] = e
	s.mu.Unlock()
	return nil
}

func (s *refStore) Delete(key string) error {
	s.mu.Lock()
	delete(s.m, key)
	s.mu.Unlock()
	return nil
}

func (s *refStore) Reset() error {
	s.mu.Lock()
	s.m = map[string]refEntry{}
	s.mu.Unlock()
	return nil
}

func (s *refStore) Close() error { return nil }

// introspection (storeView)

func (s *refStore) Live() []string {
	s.mu.Lock()
	defer s.mu.Unlock()
	now := time.Now()
	var ks []string
	for k, e := range s.m {
		if e.exp.IsZero() || now.Before(e.exp) {
			ks = append(ks, k)
		}
	}
	sort.Strings(ks)
	return ks
}

func (s *refStore) Peek(key string) ([]byte, bool) {
	s.mu.Lock()
	defer s.mu.Unlock()
	e, ok := s.m[key]
	if !ok || (!e.exp.IsZero() && !time.Now().Before(e.exp)) {
		return nil, false
	}
	return append([]byte(nil), e.val...), true
}

func (s *refStore) Deadline(key string) (time.Time, bool) {
	s.mu.Lock()
	defer s.mu.Unlock()
	e, ok := s.m[key]
	return e.exp, ok
}

// storeView is what the contents check needs from an injected storage.
type storeView interface {
	Live() []string
	Peek(key string) ([]byte, bool)
	Deadline(key string) (time.Time, bool)
}

// ---------------------------------------------------------------------------------------------
// id alphabets: what the configured KeyGenerator produces. Every style is unique per call and
// legal as a cookie value, a header value and (percent-encoded by the client) a query value.

var idStyles = []string{"plain", "b64std", "b64url", "hex", "uuid", "percent"}

// idLengths: lengths a KeyGenerator may produce (16 hex bytes … 32 random bytes in hex = 64 …).
var idLengths = []int{16, 36, 63, 64, 65, 128, 256}

// sizedID pads the styled id with characters legal in every alphabet up to length n (ids that
// are naturally longer stay as they are).
func sizedID(style string, n int, tag string, length int) string {
	id := styledID(style, n, tag)
	for i := 0; len(id) < length; i++ {
		id += string(tag[i%len(tag)])
	}
	return id
}

func styledID(style string, n int, tag string) string {
	switch style {
	case "b64std": // '+', '/', '=' as in base64.StdEncoding
		return "S" + pad3(n) + "+" + tag[:3] + "/" + tag[3:] + "+A=="
	case "b64url":
		return "S" + pad3(n) + "-" + tag[:3] + "_" + tag[3:] + "-A"
	case "hex":
		return "5e" + pad3(n) + tag + "00ff"
	case "uuid":
		return "5e55" + pad3(n) + "0-" + tag[:4] + "-4" + tag[3:] + "-8000-0000deadbeef"
	case "percent": // a literal that looks percent-encoded, and a stray '%'
		return "S" + pad3(n) + "%41" + tag[:3] + "%2B" + tag[3:] + "%zz%"
	}
	return "S" + pad3(n) + "-" + tag
}

func pad3(n int) string {
	s := itoa(n)
	for len(s) < 3 {
		s = "0" + s
	}
	return s
}

func itoa(n int) string {
	if n == 0 {
		return "0"
	}
	var b []byte
	for n > 0 {
		b = append([]byte{byte('0' + n%10)}, b...)
		n /= 10
	}
	return string(b)
}
