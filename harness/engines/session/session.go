// Package session is the runtime monitor for property C15 (sessions: persistent, isolated,
// expiring, never adopting a client-chosen id). See DESIGN.md 3.C15.
//
// "session"      vt build, GOMAXPROCS=1: histories of several clients against one store on the
//
//	virtual clock, judged request by request against a state-machine specification.
//
// "session.race" -race build, real time: 16 clients hammer one store; data-mixing and
//
//	id-uniqueness oracles only.
package session

import (
	"io"

	flog "github.com/gofiber/fiber/v3/log"
	"verifharness/internal/ev"
	"verifharness/internal/reg"
	"verifharness/internal/vt"
)

func init() {
	reg.Register("session", run)
	reg.Register("session.race", runRace)
}

func run(e *ev.Env) {
	vt.Require()
	vt.Start()
	flog.SetOutput(io.Discard) // fiber logs storage errors it swallows; the result file is the output
	corpus(e)
	e.Cases("hist", e.N(3000, 300000), func(c *ev.Case) { runGenerated(e, c) })
	e.Cases("source", e.N(200, 6000), func(c *ev.Case) { runSource(e, c) })
	e.Cases("conc", e.N(60, 1500), func(c *ev.Case) { runConc(e, c) })
}
