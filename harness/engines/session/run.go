package session

import (
	"bytes"
	"encoding/gob"
	"fmt"
	"net/url"
	"sort"
	"strings"
	"sync"
	"time"

	"github.com/gofiber/fiber/v3"
	fsess "github.com/gofiber/fiber/v3/middleware/session"
	"github.com/valyala/fasthttp"

	"verifharness/internal/drive"
	"verifharness/internal/ev"
	"verifharness/internal/gen"
	"verifharness/internal/strict"
	"verifharness/internal/vstore"
)

type client struct {
	kind string // honest | forger | replayer
	jar  string
	held []string // every id this client was ever told to use, oldest first
	seq  int
}

// hist is one history: one app, one store, several clients, one clock.
type hist struct {
	e       *ev.Env
	c       *ev.Case
	cfg     cfgT
	w       *world
	app     *fiber.App
	d       *drive.Direct
	store   *fsess.Store
	vs      *vstore.Store
	xr      *gen.Rand // extra stream of generated histories (nil elsewhere)
	sv      storeView // the injected storage, whichever it is (nil: bundled memory storage)
	clients []*client
	cur     *script
	scripts map[string]*script // concurrent requests name their script in X-Script
	smu     sync.RWMutex
	parent  *hist  // race mode: this history is one client's view of the parent's app
	name    string // race mode: script name of this client
	noReset bool   // race mode: Store.Reset would end other clients' sessions
	// conns are fasthttp.RequestCtx objects reused across requests exactly like the server reuses
	// one per keep-alive connection (and pools them between connections): request buffers are
	// overwritten in place, so anything that kept a reference into them is exposed.
	conns     []*fasthttp.RequestCtx
	connR     *gen.Rand                 // which conn serves the next request (nil: scripted via nextConn)
	nextConn  int                       // scripted: 1-based conn of the next request, 0 = fresh RequestCtx
	pool      chan *fasthttp.RequestCtx // race mode (on the parent): shared pool of reused RequestCtx
	trace     []string
	tag       string
	nid       int
	stopped   bool
	otherName []string // ids emitted under a name that differs from the configured one only in case
	faulted   bool     // a request ran under a storage read fault and the history went on
	nontriv   bool
	sigs      map[string]bool
}

func newHist(e *ev.Env, c *ev.Case, cfg cfgT, kinds []string, tag string) *hist {
	h := &hist{e: e, c: c, cfg: cfg, w: newWorld(cfg), tag: tag, sigs: map[string]bool{}}
	for _, k := range kinds {
		h.clients = append(h.clients, &client{kind: k})
	}
	conf := fsess.Config{
		KeyLookup:       cfg.Source + ":" + cfg.Name,
		IdleTimeout:     cfg.Idle,
		AbsoluteTimeout: cfg.Abs,
		ErrorHandler:    quietErrorHandler,
		KeyGenerator: func() string {
			h.nid++
			id := sizedID(cfg.IDs, h.nid, h.tag, cfg.IDLen)
			h.w.issue(id)
			return id
		},
	}
	if cfg.VStore {
		if cfg.Retain {
			rs := newRefStore()
			conf.Storage, h.sv = rs, rs
		} else {
			h.vs = vstore.New()
			conf.Storage, h.sv = h.vs, h.vs
		}
	}
	var mw fiber.Handler
	var store *fsess.Store
	if cfg.Ready {
		// a store of its own (its timeouts, storage, key lookup), handed to the middleware as is
		store = fsess.NewStore(conf)
		mw, _ = fsess.NewWithStore(fsess.Config{Store: store, ErrorHandler: quietErrorHandler})
	} else {
		mw, store = fsess.NewWithStore(conf)
	}
	store.RegisterType(HKey{}) // custom key type, registered the documented way
	h.store = store
	app := fiber.New()
	app.Use("/mw", mw)
	run := func(c fiber.Ctx) error {
		sc := h.cur
		if n := c.Get("X-Script"); n != "" {
			h.smu.RLock()
			sc = h.scripts[n]
			h.smu.RUnlock()
		}
		runScript(c, store, sc, h.w)
		return c.SendString("ok")
	}
	app.Get("/mw", run)
	app.Get("/st", run)
	// store API in a handler in FRONT of the session middleware, same store
	app.Use("/om", func(c fiber.Ctx) error { return runOuter(c, store, h.cur, h.w) })
	app.Use("/om", mw)
	app.Get("/om", run)
	h.app = app
	h.d = drive.NewDirect(app)
	return h
}

// useConns makes the history serve its requests through n reused RequestCtx objects.
func (h *hist) useConns(n int, r *gen.Rand) {
	h.conns = nil
	for i := 0; i < n; i++ {
		h.conns = append(h.conns, &fasthttp.RequestCtx{})
	}
	h.connR = r
}

func reuseCtx(fctx *fasthttp.RequestCtx) {
	// what fasthttp's serve loop does between two requests of a connection
	fctx.Response.Reset()
	fctx.ResetUserValues()
}

// drive runs the request on a fresh or on a reused RequestCtx; returns which one ("-" = fresh).
func (h *hist) drive(dr *drive.Req) (*drive.Resp, string) {
	if h.parent != nil && h.parent.pool != nil {
		fctx := <-h.parent.pool
		defer func() { h.parent.pool <- fctx }()
		reuseCtx(fctx)
		return h.d.DoCtx(fctx, dr), "pooled"
	}
	k := -1
	if len(h.conns) > 0 {
		if h.connR != nil {
			if !h.connR.Chance(1, 8) {
				k = h.connR.Intn(len(h.conns))
			}
		} else if h.nextConn > 0 && h.nextConn <= len(h.conns) {
			k = h.nextConn - 1
		}
	}
	if k < 0 {
		return h.d.Do(dr), "-"
	}
	h.e.Stat("requests-on-reused-requestctx", 1)
	reuseCtx(h.conns[k])
	return h.d.DoCtx(h.conns[k], dr), fmt.Sprint(k + 1)
}

// quietErrorHandler answers 500 like DefaultErrorHandler, without logging.
func quietErrorHandler(c fiber.Ctx, _ error) { _ = c.SendStatus(fiber.StatusInternalServerError) }

// altSources: the sources other than the configured one through which an id must NOT be taken.
// (query configured + cookie: the server itself hands the id out in a cookie of that name, so
// honouring it is not judged.)
var altSources = map[string][]string{
	"cookie": {"header", "query"},
	"header": {"cookie", "query"},
	"query":  {"header"},
}

func (h *hist) close() {
	if !h.cfg.VStore && h.store != nil && h.store.Storage != nil {
		_ = h.store.Storage.Close() // stops the gc goroutine of the bundled memory storage
	}
}

func sleepTo(t time.Time) {
	if d := time.Until(t); d > 0 {
		time.Sleep(d)
	}
}

// tickSafe: with the coarse clock of the memory storage, never act within 60 ms of a whole second.
func tickSafe(t time.Time) bool {
	ns := t.Nanosecond()
	return ns > 60e6 && ns < 940e6
}

func (h *hist) buildReq(rq *request) *drive.Req {
	dr := &drive.Req{Method: "GET", URI: "/st"}
	if rq.MW {
		dr.URI = "/mw"
	}
	if rq.Outer {
		dr.URI = "/om"
	}
	present := rq.Presented != "" || rq.Class == "empty"
	switch h.cfg.Source {
	case "cookie":
		if present {
			dr.Hdr = append(dr.Hdr, drive.H{K: "Cookie", V: h.cfg.Name + "=" + rq.Presented})
		}
	case "header":
		if present {
			name := h.cfg.Name // field names are case-insensitive: vary how the client spells it
			switch len(h.trace) % 3 {
			case 1:
				name = strings.ToLower(name)
			case 2:
				name = strings.ToUpper(name)
			}
			dr.Hdr = append(dr.Hdr, drive.H{K: name, V: rq.Presented})
		}
	case "query":
		if present {
			dr.URI += "?" + h.cfg.Name + "=" + url.QueryEscape(rq.Presented)
		}
	}
	if rq.Cookie != "" {
		switch rq.AltSrc {
		case "header":
			dr.Hdr = append(dr.Hdr, drive.H{K: h.cfg.Name, V: rq.Cookie})
		case "query":
			sep := "?"
			if strings.Contains(dr.URI, "?") {
				sep = "&"
			}
			dr.URI += sep + h.cfg.Name + "=" + url.QueryEscape(rq.Cookie)
		default:
			dr.Hdr = append(dr.Hdr, drive.H{K: "Cookie", V: h.cfg.Name + "=" + rq.Cookie})
		}
	}
	if h.name != "" {
		dr.Hdr = append(dr.Hdr, drive.H{K: "X-Script", V: h.name})
	}
	return dr
}

func (h *hist) emissions(resp *drive.Resp, now time.Time) []seen {
	var out []seen
	if h.cfg.Source == "header" {
		for _, v := range resp.All(h.cfg.Name) {
			out = append(out, seen{value: v, raw: v})
		}
		return out
	}
	for _, line := range resp.All("Set-Cookie") {
		sc, bad := strict.ParseSetCookie(line)
		if bad != "" {
			if strings.HasPrefix(line, h.cfg.Name+"=") {
				out = append(out, seen{bad: bad, raw: line})
			}
			continue
		}
		if sc.Name != h.cfg.Name {
			if strings.EqualFold(sc.Name, h.cfg.Name) && sc.Value != "" {
				// cookie names are case-sensitive: a client looking for the configured name misses it
				h.otherName = append(h.otherName, sc.Name+"="+sc.Value)
			}
			continue
		}
		// A non-empty value is an id handed to the client: Max-Age / Expires have whole-second
		// resolution and round a sub-second idle timeout to "already over"; only the empty value
		// (Destroy / Reset) is the instruction to drop the id.
		out = append(out, seen{value: sc.Value, expired: sc.Value == "", raw: line})
	}
	return out
}

func bucket(now, dl time.Time) string {
	d := now.Sub(dl)
	switch {
	case d < -time.Second:
		return "well-before"
	case d < 0:
		return "just-before"
	case d == 0:
		return "exactly-at"
	case d <= time.Second:
		return "just-after"
	}
	return "well-after"
}

// do executes one request, judges it and updates the client. Returns false when the history
// must stop (a violation that leaves the specification out of sync).
func (h *hist) do(rq *request) bool {
	if rq.Fault != "" && rq.Fault != "delete-outage" && h.vs != nil && h.parent == nil {
		return h.doFaulted(rq)
	}
	delFault := rq.Fault == "delete-outage" && h.vs != nil && h.parent == nil
	if rq.Fault == "delete-outage" && !delFault {
		rq.Fault = ""
	}
	e, w := h.e, h.w
	cl := h.clients[rq.Client]
	w.now = time.Now()
	if ent := w.store[rq.Presented]; ent != nil {
		e.Stat("probe-idle|"+bucket(w.now, ent.idleDL), 1)
		if ent.hasAbs {
			e.Stat("probe-abs|"+bucket(w.now, ent.absLo), 1)
		}
	}
	ob, oob := &reqObs{}, &reqObs{}
	if h.parent != nil {
		h.parent.smu.Lock()
		h.parent.scripts[h.name] = &script{MW: rq.MW, Ops: rq.Ops, Obs: ob}
		h.parent.smu.Unlock()
	} else {
		h.cur = &script{MW: rq.MW, Ops: rq.Ops, Obs: ob, Outer: rq.Outer, Pre: rq.Pre, Post: rq.Post, OuterObs: oob}
	}
	var resp *drive.Resp
	line := fmt.Sprintf("%s c%d(%s) %s present=%s:%s", stamp(w.now), rq.Client, cl.kind, map[bool]string{true: "mw", false: "store"}[rq.MW], rq.Class, short(rq.Presented))
	if rq.Cookie != "" {
		src := rq.AltSrc
		if src == "" {
			src = "cookie"
		}
		line += " +" + src + "=" + short(rq.Cookie)
	}
	ops := make([]string, len(rq.Ops))
	for i, o := range rq.Ops {
		ops[i] = o.String()
	}
	line += " ops=[" + strings.Join(ops, "; ") + "]"
	if rq.Outer {
		line += " OUTER(store API around the middleware) pre=" + fmtOps(rq.Pre) + " post=" + fmtOps(rq.Post)
	}
	h.trace = append(h.trace, line)
	conn := "-"
	if delFault {
		// every Storage.Delete of this request fails; reads and writes work
		h.trace[len(h.trace)-1] += " FAULT=delete-outage"
		base := h.vs.Calls("delete")
		h.vs.Faults = nil
		for i := 1; i <= 64; i++ {
			h.vs.Faults = append(h.vs.Faults, vstore.Fault{Kind: "delete", N: base + i})
		}
		panicked := ""
		func() {
			defer func() {
				if r := recover(); r != nil {
					panicked = fmt.Sprint(r)
				}
			}()
			resp, conn = h.drive(h.buildReq(rq))
		}()
		failed := h.vs.Calls("delete") - base
		h.vs.Faults = nil
		e.Stat("fault-requests|delete-outage", 1)
		if failed > 0 {
			e.Stat("fault-requests|delete-outage|with-a-failed-delete", 1)
		}
		if panicked != "" {
			// the middleware panics when its lookup fails: an error answer, state unknown
			e.Eval(1)
			e.Stat("histories-ended-without-verdict(error under delete fault)", 1)
			h.trace[len(h.trace)-1] += " -> panic: " + panicked
			h.stopped = true
			return false
		}
	} else if e.Guard(h.c, "panic|session", h.detail(), func() { resp, conn = h.drive(h.buildReq(rq)) }) {
		return false
	}
	if conn != "-" {
		h.trace[len(h.trace)-1] += " conn=" + conn
	}
	e.Eval(1)
	e.Stat("requests", 1)
	e.Stat("ops", int64(len(rq.Ops)))
	em := h.emissions(resp, w.now)
	h.trace[len(h.trace)-1] += fmt.Sprintf(" -> status=%d id=%s fresh=%v data=%v emitted=%s", resp.Status, ob.Start.View.ID, ob.Start.View.Fresh, ob.Start.View.Data, fmtSeen(em))
	preSt, preWhy := w.status(rq.Presented)
	var j *judge
	if rq.Outer {
		j = w.judgeOuter(rq, oob, ob)
		e.Stat("requests-store-api-around-middleware", 1)
	} else {
		j = w.judgeRequest(rq, ob)
	}
	if preSt == stEither && w.store != nil {
		// inside a window the statement does not decide (deadline instant, whole-second rounding
		// of the memory storage): observed and counted, not judged
		seenAlive := "gone"
		if ob.Start.View.ID == rq.Presented {
			seenAlive = "alive"
		}
		e.Stat("window-not-judged|"+preWhy+"|"+seenAlive, 1)
	}
	if j.unknown {
		e.Stat("histories-ended-without-verdict(error under delete fault)", 1)
		h.stopped = true
		return false
	}
	if j.saveFailed {
		e.Stat("requests-with-failed-save(answer not judged)", 1)
	}
	if resp.Status != 200 && !j.stop && !j.saveFailed {
		j.fail(&vio{"api|status-" + fmt.Sprint(resp.Status), "handler response status"})
	}
	j.otherName = h.otherName
	h.otherName = nil
	j.judgeEmission(em)
	if !j.stop && h.sv != nil {
		j.fail(h.checkStore())
	}
	if j.usedDead != "" {
		e.Stat("dead-id-use|"+j.usedDead, 1)
		switch j.usedDead {
		case "not-issued", "empty", "never-saved":
		default:
			h.nontriv = true
		}
	}
	for _, v := range j.vs {
		if !h.sigs[v.sig] {
			h.sigs[v.sig] = true
			det := h.detail()
			det["request"] = len(h.trace) - 1
			e.Violation(h.c, v.sig, v.what, det)
		}
	}
	if j.stop {
		h.stopped = true
		return false
	}
	// client side
	for _, s := range em {
		switch {
		case s.expired || s.value == "":
			if h.cfg.Source != "header" {
				cl.jar = ""
			}
		default:
			cl.jar = s.value
			if n := len(cl.held); n == 0 || cl.held[n-1] != s.value {
				cl.held = append(cl.held, s.value)
			}
		}
	}
	return true
}

func fmtOps(ops []op) string {
	p := make([]string, len(ops))
	for i, o := range ops {
		p[i] = o.String()
	}
	return "[" + strings.Join(p, "; ") + "]"
}

func fmtSeen(em []seen) string {
	if len(em) == 0 {
		return "-"
	}
	var p []string
	for _, s := range em {
		switch {
		case s.bad != "":
			p = append(p, "unparseable("+s.bad+")")
		case s.expired:
			p = append(p, "expired")
		default:
			p = append(p, s.value)
		}
	}
	return strings.Join(p, ",")
}

func (h *hist) detail() map[string]any {
	return map[string]any{"config": h.cfg.String(), "history": append([]string(nil), h.trace...)}
}

// decodeStored reads the bytes the middleware put into the storage.
func decodeStored(b []byte) (data map[string]string, abs time.Time, odd string) {
	var m map[any]any
	if err := gob.NewDecoder(bytes.NewReader(b)).Decode(&m); err != nil {
		return nil, abs, "undecodable: " + err.Error()
	}
	data = map[string]string{}
	for k, v := range m {
		ks, ok := tokenOf(k)
		if !ok {
			if t, ok := v.(time.Time); ok {
				abs = t
			} else {
				odd = fmt.Sprintf("key %T", k)
			}
			continue
		}
		vs, ok := v.(string)
		if !ok {
			odd = fmt.Sprintf("key %s holds a %T no handler stored", ks, v)
			continue
		}
		data[ks] = vs
	}
	return data, abs, odd
}

// checkStore: contents of the injected storage equal the specification.
func (h *hist) checkStore() *vio {
	w := h.w
	live := h.sv.Live()
	inLive := map[string]bool{}
	for _, k := range live {
		inLive[k] = true
		if !w.isIssued(k) {
			return &vio{"adopt|storage-key-not-issued|" + w.cfg.Source, fmt.Sprintf("storage holds key %q which the server never generated", short(k))}
		}
		ent := w.store[k]
		if ent == nil {
			cause := w.dead[k]
			if cause == "" {
				cause = "never-saved"
			}
			return &vio{"stale-id-in-storage|after-" + cause, fmt.Sprintf("storage still holds %q which ended by %s", k, cause)}
		}
		if w.idleStatus(ent) == stDead {
			dl, _ := h.sv.Deadline(k)
			return &vio{"outlives|idle-timeout|storage-ttl", fmt.Sprintf("storage entry %q lives until %s, idle deadline was %s", k, stamp(dl), stamp(ent.idleDL))}
		}
		b, _ := h.sv.Peek(k)
		data, _, odd := decodeStored(b)
		if odd != "" {
			return &vio{"data-mismatch|storage-content-" + strings.TrimSuffix(strings.SplitN(odd, " ", 2)[0], ":"), fmt.Sprintf("storage entry %q: %s", k, odd)}
		}
		if v := w.cmpData(ent.data, data, -2, ent.lineage, "storage", "storage entry "+k); v != nil {
			// observer -2: any harness value counts as foreign there; re-classify by owner instead
			v2 := w.cmpDataOwner(ent, data, k)
			return v2
		}
	}
	ids := make([]string, 0, len(w.store))
	for id := range w.store {
		ids = append(ids, id)
	}
	sort.Strings(ids)
	for _, id := range ids {
		if !inLive[id] && w.idleStatus(w.store[id]) == stAlive {
			return &vio{"not-persistent|saved-session-missing-from-storage", fmt.Sprintf("session %q was saved and its idle deadline %s has not passed, storage has no entry", id, stamp(w.store[id].idleDL))}
		}
	}
	return nil
}

// cmpDataOwner classifies a storage mismatch: values of a writer who never wrote into this
// session lineage are foreign.
func (w *world) cmpDataOwner(ent *entry, data map[string]string, id string) *vio {
	owner := -1
	for _, v := range ent.data {
		owner = valWriter(v)
		break
	}
	if owner < 0 {
		for _, v := range data {
			if lin, ok := w.valLin[v]; ok && lin == ent.lineage {
				owner = valWriter(v)
				break
			}
		}
	}
	if owner < 0 {
		// empty expected data and nothing of this lineage: every value is foreign to the session
		for k, v := range data {
			return &vio{"data-mismatch|value-of-another-session|storage", fmt.Sprintf("storage entry %q: unexpected %s=%s, expected empty data", id, k, v)}
		}
	}
	return w.cmpData(ent.data, data, owner, ent.lineage, "storage", "storage entry "+id)
}

// ---------------------------------------------------------------------------------------------
// generation

// sourceNames: KeyLookup names. Cookie and query-parameter names are case-sensitive (presented
// exactly as configured); header names are case-insensitive (presented in varying case).
var sourceNames = map[string][]string{
	"cookie": {"sid", "Session_ID", "SID", "appSess"},
	"query":  {"sid", "SID", "Sess_Id", "sessionToken"},
	"header": {"X-Session-Id", "x-session-id", "X-SESSION-ID", "X-Sid"},
}

// oddDurations: timeouts that are not whole seconds (boundary values of the timeout dimension).
var oddDurations = []time.Duration{time.Millisecond, 500 * time.Millisecond, 999 * time.Millisecond, 1500 * time.Millisecond, 2500 * time.Millisecond}

var (
	forgeAlph = gen.AlphaNum + "-_.~!*"
)

func (h *hist) deadIDs(notClient int) []string {
	w := h.w
	var out []string
	for id := range w.dead {
		if w.store[id] == nil {
			out = append(out, id)
		}
	}
	for id := range w.store {
		if st, _ := w.status(id); st == stDead {
			out = append(out, id)
		}
	}
	sort.Strings(out)
	return out
}

func (h *hist) unsavedIDs() []string {
	w := h.w
	var out []string
	for _, id := range w.issued {
		if _, dead := w.dead[id]; !dead && w.store[id] == nil {
			out = append(out, id)
		}
	}
	return out
}

// pickPresented chooses what the client presents.
func (h *hist) pickPresented(r *gen.Rand, ci int) (id, class string) {
	cl := h.clients[ci]
	honest := func() (string, string) {
		if cl.jar == "" {
			return "", "none"
		}
		return cl.jar, "jar"
	}
	replay := func() (string, string) {
		if len(cl.held) == 0 {
			return honest()
		}
		return gen.Pick(r, cl.held), "old"
	}
	forge := func() (string, string) {
		switch r.PickW(3, 4, 2, 1, 1, 1) {
		case 0:
			return r.StringFrom(forgeAlph, r.Range(1, 40)), "forged-random"
		case 1:
			if d := h.deadIDs(ci); len(d) > 0 {
				return gen.Pick(r, d), "forged-dead"
			}
			return r.StringFrom(forgeAlph, r.Range(1, 40)), "forged-random"
		case 2:
			if u := h.unsavedIDs(); len(u) > 0 {
				return gen.Pick(r, u), "forged-unsaved"
			}
			return fmt.Sprintf("S%03d-%s", h.nid+1+r.Intn(3), r.StringFrom("0123456789abcdef", 6)), "forged-lookalike"
		case 3:
			return "", "empty"
		case 4:
			return r.StringFrom(gen.AlphaNum, r.Range(2000, 9000)), "long"
		default:
			return fmt.Sprintf("S%03d-%s", r.Range(1, h.nid+2), r.StringFrom("0123456789abcdef", 6)), "forged-lookalike"
		}
	}
	switch cl.kind {
	case "forger":
		if r.Chance(7, 10) {
			return forge()
		}
	case "replayer":
		if r.Chance(6, 10) {
			return replay()
		}
	default:
		if r.Chance(1, 10) {
			return replay()
		}
		if r.Chance(1, 25) {
			return forge()
		}
	}
	return honest()
}

// ownOrDead picks a target for GetByID / Store.Delete that can never belong to another client's
// live session: own ids, ended ids, unknown ids.
func (h *hist) ownOrDead(r *gen.Rand, ci int, presented string) string {
	cl := h.clients[ci]
	switch r.PickW(3, 3, 2, 1) {
	case 0:
		if presented != "" {
			return presented // own, ended or never issued — never another client's live session
		}
	case 1:
		if len(cl.held) > 0 {
			return gen.Pick(r, cl.held)
		}
	case 2:
		if d := h.deadIDs(ci); len(d) > 0 {
			return gen.Pick(r, d)
		}
	}
	return r.StringFrom(forgeAlph, r.Range(1, 24))
}

// safeTarget: a presented id may be another client's id only when it is surely dead.
func (h *hist) genOps(r *gen.Rand, ci int, mw bool, presented string, n int) []op {
	cl := h.clients[ci]
	var ops []op
	held, destroyed, changed := true, false, false
	_ = changed // kept for readability of the script state; lookups after an id change are generated too
	val := func() string { cl.seq++; return mkVal(ci, cl.seq) }
	for len(ops) < n {
		if !held {
			switch r.PickW(5, 2, 1) {
			case 0:
				// also after Regenerate / Reset / Destroy: whichever session the second lookup of
				// the request finds must be right
				ops = append(ops, op{K: "reget"})
				held, destroyed = true, false
				continue
			case 1:
				o := op{K: "byid", Tgt: h.ownOrDead(r, ci, presented)}
				if r.Chance(1, 2) {
					o.Set, o.Key, o.Val, o.Save = true, gen.Pick(r, keyPool), val(), r.Chance(4, 5)
				}
				ops = append(ops, o)
			default:
				ops = append(ops, op{K: "sdel", Tgt: h.ownOrDead(r, ci, presented)})
			}
			continue
		}
		if destroyed {
			switch r.PickW(3, 3, 1, 1) {
			case 0:
				ops = append(ops, op{K: "get", Key: gen.Pick(r, keyPool)})
			case 1:
				ops = append(ops, op{K: "set", Key: gen.Pick(r, keyPool), Val: val()})
			case 2:
				ops = append(ops, op{K: "del", Key: gen.Pick(r, keyPool)})
			default:
				if !mw {
					ops = append(ops, op{K: "release"})
					held = false
					changed = true
				} else {
					ops = append(ops, op{K: "get", Key: gen.Pick(r, keyPool)})
				}
			}
			continue
		}
		saveW, relW, sgetW := 1, 0, 1
		if !mw {
			saveW, relW, sgetW = 8, 5, 0
		}
		switch r.PickW(8, 12, 4, saveW, 2, 4, 2, 2, relW, 4, 1, sgetW) {
		case 0:
			ops = append(ops, op{K: "get", Key: gen.Pick(r, keyPool)})
		case 1:
			o := op{K: "set", Key: gen.Pick(r, keyPool), Val: val()}
			if h.xr != nil && h.xr.Chance(1, 14) {
				o.Val = badVal // a value of a type nobody registered: the session cannot be saved
			}
			ops = append(ops, o)
		case 2:
			ops = append(ops, op{K: "del", Key: gen.Pick(r, keyPool)})
		case 3:
			ops = append(ops, op{K: "save"})
		case 4:
			ops = append(ops, op{K: "destroy"})
			destroyed = true
			changed = true
		case 5:
			ops = append(ops, op{K: "regen"})
			changed = true
		case 6:
			ops = append(ops, op{K: "reset"})
			changed = true
		case 7:
			d := time.Duration(r.Range(1, 5)) * time.Second
			if r.Chance(2, 5) {
				d = gen.Pick(r, oddDurations)
			}
			if h.parent != nil {
				d = time.Duration(r.Range(1, 5)) * time.Hour // real-time build: nothing may expire
			}
			ops = append(ops, op{K: "idle", Dur: d})
		case 8:
			ops = append(ops, op{K: "release"})
			held = false
		case 9:
			o := op{K: "byid", Tgt: h.ownOrDead(r, ci, presented)}
			if r.Chance(1, 2) {
				o.Set, o.Key, o.Val, o.Save = true, gen.Pick(r, keyPool), val(), r.Chance(4, 5)
			}
			ops = append(ops, o)
		case 10:
			if r.Chance(1, 8) && !h.noReset {
				ops = append(ops, op{K: "sreset"})
			} else if r.Chance(1, 10) {
				ops = append(ops, op{K: "sdel", Tgt: ""})
			} else {
				ops = append(ops, op{K: "sdel", Tgt: h.ownOrDead(r, ci, presented)})
			}
		case 11:
			ops = append(ops, op{K: "sget"})
		}
	}
	// the legacy API persists nothing without Save: usually end with one
	if !mw && held && !destroyed && r.Chance(3, 4) {
		ops = append(ops, op{K: "save"})
	}
	return ops
}

// advance moves the virtual clock, usually aimed at a deadline of the session about to be used.
func (h *hist) advance(r *gen.Rand, presented string) {
	now := time.Now()
	var target time.Time
	ent := h.w.store[presented]
	switch k := r.PickW(50, 15, 35); {
	case k == 0:
		return
	case k == 1 || ent == nil:
		d := time.Duration(r.Range(1, 3)) * time.Second
		if h.cfg.VStore {
			d += time.Duration(r.Intn(1000)) * time.Millisecond
		}
		target = now.Add(d)
	default:
		dl := ent.idleDL
		if ent.hasAbs && r.Bool() {
			dl = ent.absLo
		}
		offs := []time.Duration{-1400 * time.Millisecond, -400 * time.Millisecond, -time.Millisecond, 0,
			time.Millisecond, 400 * time.Millisecond, 1400 * time.Millisecond, 2400 * time.Millisecond}
		if h.cfg.VStore {
			offs = append(offs, -1, 1)
		}
		target = dl.Add(gen.Pick(r, offs))
	}
	if !target.After(now) {
		return
	}
	if !h.cfg.VStore && !tickSafe(target) {
		h.e.Stat("advance-skipped-near-tick", 1)
		return
	}
	sleepTo(target)
	h.trace = append(h.trace, fmt.Sprintf("advance to %s", stamp(time.Now())))
	h.e.Stat("advances", 1)
}

func genCfg(r *gen.Rand) cfgT {
	cfg := cfgT{}
	switch r.Intn(3) {
	case 0:
		cfg.Source, cfg.Name = "cookie", "sid"
	case 1:
		cfg.Source, cfg.Name = "header", "X-Session-Id"
	default:
		cfg.Source, cfg.Name = "query", "sid"
	}
	cfg.VStore = r.Bool()
	cfg.Idle = time.Duration(r.Range(1, 5)) * time.Second
	if r.Chance(1, 3) {
		cfg.Idle = gen.Pick(r, oddDurations) // sub-second and fractional, both storages
	}
	if r.Bool() {
		cfg.Abs = cfg.Idle + time.Duration(r.Range(0, 6))*time.Second
		if r.Chance(1, 3) {
			cfg.Abs = cfg.Idle + gen.Pick(r, []time.Duration{0, time.Millisecond, 500 * time.Millisecond, 1500 * time.Millisecond})
		}
	}
	if !cfg.VStore {
		cfg.Gran = time.Second
	}
	return cfg
}

func genKinds(r *gen.Rand) []string {
	n := r.Range(1, 4)
	kinds := []string{"honest"}
	for i := 1; i < n; i++ {
		kinds = append(kinds, []string{"honest", "forger", "replayer"}[r.PickW(2, 3, 3)])
	}
	if n == 1 && r.Chance(1, 3) {
		kinds[0] = "replayer"
	}
	return kinds
}

// startClock aligns a history to k s + 500 ms and makes stamps relative to it.
func startClock() {
	now := time.Now()
	t := now.Truncate(time.Second).Add(500 * time.Millisecond)
	if !t.After(now) {
		t = t.Add(time.Second)
	}
	sleepTo(t)
	epoch = time.Now()
}

func runGenerated(e *ev.Env, c *ev.Case) {
	r := c.R
	cfg := genCfg(r)
	startClock()
	// connection reuse, key retention, names, faults and mixed-API requests are drawn from their
	// own stream (c.R stays as it was)
	xr := gen.Derive(e.Seed, "session-conn", c.ID)
	cfg.Name = gen.Pick(xr, sourceNames[cfg.Source])
	if xr.Chance(3, 5) {
		cfg.IDs = gen.Pick(xr, idStyles)
	}
	if xr.Chance(1, 2) {
		cfg.IDLen = gen.Pick(xr, idLengths)
	}
	if xr.Chance(1, 3) {
		cfg.Ready = true // New(Config{Store: store}): the store's own timeouts count
		e.Stat("histories-middleware-around-ready-made-store", 1)
	}
	if cfg.VStore && xr.Chance(1, 3) {
		cfg.Retain = true // a storage that keeps the slices it is given
		e.Stat("histories-retaining-storage", 1)
	}
	h := newHist(e, c, cfg, genKinds(r), r.StringFrom("0123456789abcdef", 6))
	defer h.close()
	h.xr = xr
	if n := xr.PickW(4, 3, 3); n > 0 {
		h.useConns(n, xr.Split())
		e.Stat("histories-with-reused-requestctx", 1)
	}
	if h.vs != nil && xr.Bool() {
		h.vs.KeepKeyRef = true // keep the caller's key string like the bundled memory storage does
		e.Stat("histories-vstore-keepkeyref", 1)
	}
	apiBias := r.Intn(3) // 0 middleware only, 1 store API only, 2 mixed
	nreq := r.Range(1, 10)
	if r.Chance(1, 6) {
		nreq = r.Range(10, 25)
	}
	for i := 0; i < nreq; i++ {
		ci := r.Intn(len(h.clients))
		id, class := h.pickPresented(r, ci)
		h.advance(r, id)
		mw := apiBias == 0 || (apiBias == 2 && r.Bool())
		rq := &request{Client: ci, MW: mw, Presented: id, Class: class}
		if cl := h.clients[ci]; xr.Chance(1, 9) {
			// an id through a source that is not the configured one: it must not count
			rq.AltSrc = gen.Pick(xr, altSources[cfg.Source])
			if len(cl.held) > 0 && xr.Chance(3, 4) {
				rq.Cookie = gen.Pick(xr, cl.held)
			} else {
				rq.Cookie = xr.StringFrom(forgeAlph, xr.Range(1, 30))
			}
			if rq.Cookie == rq.Presented {
				rq.Cookie, rq.AltSrc = "", ""
			}
		}
		if xr.Chance(1, 7) {
			// both APIs in ONE request: a handler in front of the middleware uses the store API
			cl := h.clients[ci]
			rq.Outer, rq.MW = true, true
			rq.Pre = genSimpleOps(xr, cl, ci, xr.Range(0, 2), false)
			if xr.Chance(1, 5) {
				rq.Pre = append(rq.Pre, op{K: "regen"}) // the middleware's lookup comes second
			}
			if xr.Chance(1, 3) || (len(rq.Pre) > 0 && rq.Pre[len(rq.Pre)-1].K == "regen" && xr.Chance(2, 3)) {
				rq.Pre = append(rq.Pre, op{K: "save"})
			}
			rq.Ops = genSimpleOps(xr, cl, ci, xr.Range(0, 3), true)
			rq.Post = genSimpleOps(xr, cl, ci, xr.Range(0, 2), false)
			if xr.Chance(3, 4) {
				rq.Post = append(rq.Post, op{K: "save"})
			}
		} else if h.vs != nil && xr.Chance(1, 12) {
			// the storage cannot delete while this request runs (ordinary script: destroy,
			// regenerate, reset, Store.Delete, GetByID of sessions past their absolute timeout …)
			rq.Fault = "delete-outage"
			rq.Ops = h.genOps(r, ci, mw, id, r.Range(1, 5))
		} else if h.vs != nil && id != "" && xr.Chance(1, 8) {
			// the storage cannot be read while this request presents its id
			rq.Fault = []string{"get-first", "get-outage"}[xr.Intn(2)]
			rq.Ops = genFaultOps(xr, h.clients[ci], ci, mw)
		} else {
			rq.Ops = h.genOps(r, ci, mw, id, r.Range(0, 5))
		}
		e.Stat("class|"+class, 1)
		if !h.do(rq) {
			break
		}
	}
	h.finish()
}

func (h *hist) finish() {
	e := h.e
	e.Stat("histories", 1)
	e.StatMax("max-requests-in-history", int64(len(h.trace)))
	if h.faulted {
		e.Stat("histories-continued-after-storage-read-fault", 1)
	}
	if h.nontriv {
		e.Nontrivial(h.trace...)
		e.Stat("histories-nontrivial", 1)
	}
	if len(h.trace) > 3 {
		e.Sample("history", map[string]any{"config": h.cfg.String(), "history": h.trace})
	}
}
