// Package proxy decides property C10 (forwarding headers only count from trusted proxies) by
// runtime monitoring of the real accessors of /repo.
//
// Oracle (DESIGN.md 3.C10): paired requests. Twin A carries generated forwarding headers, twin B
// none; same app, peer, Host and TLS flag. Whether the peer is in the configured proxy set is
// decided by a reference built with net/netip on the parsed configuration. Untrusted peers must
// give identical, connection-derived vectors; trusted peers must give the forwarded value in the
// unambiguous cases only; always Secure() == (Scheme()=="https") and, with validation, IP() is a
// syntactically valid address.
package proxy

import (
	"bytes"
	"crypto/tls"
	"io"
	"net"
	"net/netip"
	"strings"

	"github.com/gofiber/fiber/v3"
	fiberlog "github.com/gofiber/fiber/v3/log"
	"github.com/valyala/fasthttp"

	"verifharness/internal/drive"
	"verifharness/internal/ev"
	"verifharness/internal/gen"
	"verifharness/internal/reg"
)

func init() { reg.Register("proxy", run) }

// vec is what a handler observes through the gated accessors.
type vec struct {
	Trusted    bool
	IP         string
	Host       string
	Hostname   string
	Scheme     string
	BaseURL    string
	Secure     bool
	Subdomains string
	ran        bool // the handler ran (a wire request can be refused by the server before)
	// BaseURL() read again in the same request: after other users of pooled buffers (Links, String,
	// JSONP) and, last, after a second request was served by the same app in between
	BaseURL2, BaseURL3 string
}

func (v *vec) m() map[string]any {
	return map[string]any{"IsProxyTrusted": v.Trusted, "IP": v.IP, "Host": v.Host, "Hostname": v.Hostname,
		"Scheme": v.Scheme, "BaseURL": v.BaseURL, "Secure": v.Secure, "Subdomains": v.Subdomains,
		"BaseURL_second_read": v.BaseURL2, "BaseURL_third_read": v.BaseURL3}
}

// diff names the accessors in which two vectors differ (fixed order).
func diff(a, b *vec) []string {
	var d []string
	if a.Trusted != b.Trusted {
		d = append(d, "IsProxyTrusted")
	}
	if a.IP != b.IP {
		d = append(d, "IP")
	}
	if a.Host != b.Host {
		d = append(d, "Host")
	}
	if a.Hostname != b.Hostname {
		d = append(d, "Hostname")
	}
	if a.Scheme != b.Scheme {
		d = append(d, "Scheme")
	}
	if a.BaseURL != b.BaseURL {
		d = append(d, "BaseURL")
	}
	if a.Secure != b.Secure {
		d = append(d, "Secure")
	}
	if a.Subdomains != b.Subdomains {
		d = append(d, "Subdomains")
	}
	return d
}

// ---------------------------------------------------------------------------------------------
// configuration and its reference

type config struct {
	proxies                      []string
	loopback, private, linkLocal bool
	proxyHeader                  string
	validate                     bool
	immutable                    bool
}

func (c *config) m() map[string]any {
	return map[string]any{"Proxies": c.proxies, "Loopback": c.loopback, "Private": c.private, "LinkLocal": c.linkLocal,
		"ProxyHeader": c.proxyHeader, "EnableIPValidation": c.validate, "Immutable": c.immutable}
}

// membership is the reference decision: the reasons the peer is in the configured set, and
// whether the question has no clear answer for this pair.
type membership struct {
	reasons   []string
	ambiguous string
}

var mapped96 = netip.MustParsePrefix("::ffff:0:0/96")

// paddedOnly: the peer is covered by no entry as written, only by entries that become an
// address/prefix after trimming surrounding whitespace.
const paddedOnly = "covered-only-by-padded-entry"

func reference(cfg *config, peer netip.Addr) membership {
	var m membership
	p := peer.Unmap().WithZone("")
	set := map[string]bool{}
	add := func(r string) {
		if !set[r] {
			set[r] = true
			m.reasons = append(m.reasons, r)
		}
	}
	if cfg.loopback && p.IsLoopback() {
		add("class-loopback")
	}
	if cfg.private && p.IsPrivate() {
		add("class-private")
	}
	if cfg.linkLocal && p.IsLinkLocalUnicast() {
		add("class-link-local")
	}
	// entry evaluates one Proxies entry as written: valid tells whether it is an address or a
	// prefix at all, reason why it covers the peer (if it does), amb why that cannot be said.
	entry := func(e string) (valid bool, reason, amb string) {
		if strings.Contains(e, "/") {
			pf, err := netip.ParsePrefix(e)
			if err != nil {
				return false, "", ""
			}
			if pf.Addr().Is6() && !pf.Addr().Is4In6() && p.Is4() && pf.Bits() <= 96 && pf.Masked().Contains(mapped96.Addr()) {
				// an IPv6 prefix that covers the IPv4-mapped block: whether it is meant to cover IPv4
				// peers is not stated anywhere
				return true, "", "ipv6-prefix-covering-mapped-block"
			}
			if pf.Addr().Is4In6() {
				if p.Is4() {
					return true, "", "ipv4-mapped-prefix"
				}
				return true, "", ""
			}
			if pf.Masked().Contains(p) {
				return true, "cidr", ""
			}
			return true, "", ""
		}
		a, err := netip.ParseAddr(e)
		if err != nil {
			return false, "", ""
		}
		if a.Zone() != "" {
			if a.WithZone("").Unmap() == p {
				return true, "", "listed-address-with-zone"
			}
			return true, "", ""
		}
		if a.Unmap() == p {
			if e == p.String() {
				return true, "listed-address", ""
			}
			return true, "listed-address-noncanonical-spelling", ""
		}
		return true, "", ""
	}
	padded := false
	for _, e := range cfg.proxies {
		valid, reason, amb := entry(e)
		if !valid {
			// Not an address or prefix as written. If it is one once surrounding whitespace is
			// removed, whether it lists that address is not fixed by the property: a peer it would
			// cover is neither inside nor outside the set on its account.
			if t := strings.Trim(e, " \t\r\n"); t != e {
				if v2, r2, a2 := entry(t); v2 && (r2 != "" || a2 != "") {
					padded = true
				}
			}
			continue
		}
		if amb != "" {
			m.ambiguous = amb
		}
		if reason != "" {
			add(reason)
		}
	}
	if padded && len(m.reasons) == 0 && m.ambiguous == "" {
		m.ambiguous = paddedOnly
	}
	return m
}

// ---------------------------------------------------------------------------------------------
// generators

var universe = []string{
	"127.0.0.1", "127.8.9.10", "::1",
	"10.0.0.1", "10.200.3.4", "172.16.0.0", "172.20.1.2", "172.31.255.255", "192.168.1.1", "192.168.255.254",
	"fc00::1", "fd12:3456:789a::1", "fdff:ffff:ffff:ffff:ffff:ffff:ffff:ffff",
	"169.254.0.1", "169.254.169.254", "fe80::1", "fe80::a:b:c:d", "febf::1",
	"100.64.0.1", "100.127.255.254", "172.15.255.255", "172.32.0.1", "128.0.0.1", "11.0.0.1", "9.255.255.255",
	"192.169.0.1", "169.255.0.1", "fec0::1", "fe00::1", "fbff::1", "::2", "126.255.255.255", "0.8.0.0", "1.1.1.1", "1.1.1.2", "1.1.1.4",
	"203.0.113.7", "203.0.113.8", "198.51.100.23", "8.8.8.8", "2001:db8::1", "2001:db8::2", "2001:db8:0:1::1", "2001:db8:85a3::8a2e:370:7334",
	"2a00:1450:4001:81b::200e", "255.255.255.255", "0.0.0.0", "::",
}

func genAddr(r *gen.Rand) netip.Addr {
	if r.Chance(5, 6) {
		return netip.MustParseAddr(gen.Pick(r, universe))
	}
	if r.Bool() {
		var b [4]byte
		copy(b[:], r.Bytes(4))
		return netip.AddrFrom4(b)
	}
	var b [16]byte
	copy(b[:], r.Bytes(16))
	a := netip.AddrFrom16(b)
	if a.Is4In6() {
		return a.Unmap()
	}
	return a
}

// spell writes an address in one of its valid spellings.
func spell(r *gen.Rand, a netip.Addr, canonical bool) string {
	if canonical {
		return a.String()
	}
	if a.Is4() {
		m := netip.AddrFrom16(a.As16())
		switch r.Intn(3) {
		case 0:
			return m.String() // ::ffff:a.b.c.d
		case 1:
			b := a.As4()
			const hx = "0123456789abcdef"
			return "::ffff:" + string([]byte{hx[b[0]>>4], hx[b[0]&15], hx[b[1]>>4], hx[b[1]&15]}) + ":" +
				string([]byte{hx[b[2]>>4], hx[b[2]&15], hx[b[3]>>4], hx[b[3]&15]})
		default:
			return "0:0:0:0:0:ffff:" + a.String()
		}
	}
	switch r.Intn(3) {
	case 0:
		return strings.ToUpper(a.String())
	case 1:
		return a.StringExpanded()
	default:
		// drop the leading zeros of each group of the expanded form, keep all eight groups
		gs := strings.Split(a.StringExpanded(), ":")
		for i := range gs {
			gs[i] = strings.TrimLeft(gs[i], "0")
			if gs[i] == "" {
				gs[i] = "0"
			}
		}
		return strings.Join(gs, ":")
	}
}

var invalidEntries = []string{"", "garbage", "256.1.1.1", "1.2.3.4/33", "10.0.0.0/", "1.2.3", "localhost", "2001:db8::/129",
	"01.1.1.1", " 1.1.1.1", "1.1.1.1 ", "/24", "::1/", "fe80::1%eth0", "1.1.1.1:80", "[::1]"}

func flipBit(a netip.Addr, bit int) netip.Addr {
	if a.Is4() {
		b := a.As4()
		b[bit/8] ^= 0x80 >> uint(bit%8)
		return netip.AddrFrom4(b)
	}
	b := a.As16()
	b[bit/8] ^= 0x80 >> uint(bit%8)
	return netip.AddrFrom16(b)
}

func genEntry(r *gen.Rand, peer netip.Addr) string {
	p := peer.Unmap().WithZone("")
	max := 32
	if p.Is6() {
		max = 128
	}
	switch r.PickW(16, 10, 16, 10, 8, 22, 8, 6, 4) {
	case 0: // the peer, canonical
		return p.String()
	case 1: // the peer, other spelling
		return spell(r, p, false)
	case 2: // a prefix containing the peer
		bits := r.Range(0, max)
		if r.Chance(1, 3) {
			bits = gen.Pick(r, []int{0, 8, 12, 16, 24, max - 1, max})
		}
		pf := netip.PrefixFrom(p, bits)
		if r.Bool() {
			return pf.String() // host bits left set: valid for ParseCIDR
		}
		return pf.Masked().String()
	case 3: // the sibling prefix: near miss
		bits := r.Range(1, max)
		return netip.PrefixFrom(flipBit(p, bits-1), bits).Masked().String()
	case 4: // neighbour address
		return flipBit(p, max-1-r.Intn(3)).String()
	case 5: // unrelated address or prefix
		a := genAddr(r)
		if r.Bool() {
			return spell(r, a, r.Chance(3, 4))
		}
		m := 32
		if a.Is6() {
			m = 128
		}
		return netip.PrefixFrom(a, r.Range(0, m)).Masked().String()
	case 6:
		if r.Chance(1, 3) {
			// the peer (or a prefix around it) with whitespace around the entry
			en := p.String()
			if r.Bool() {
				en = netip.PrefixFrom(p, r.Range(0, max)).Masked().String()
			}
			return gen.Pick(r, []string{" ", "\t", "  ", ""}) + en + gen.Pick(r, []string{" ", "\t", "\n", "\r\n", ""})
		}
		return gen.Pick(r, invalidEntries)
	case 7: // zone on the peer's address / IPv6 spellings of IPv4 blocks
		switch r.Intn(3) {
		case 0:
			return p.String() + "%eth0"
		case 1:
			return "::/0"
		default:
			if p.Is4() {
				return netip.PrefixFrom(netip.AddrFrom16(p.As16()), 96+r.Range(0, 32)).Masked().String()
			}
			return "::ffff:0:0/96"
		}
	default: // whole family
		if p.Is4() {
			return "0.0.0.0/0"
		}
		return "::/0"
	}
}

func genConfig(r *gen.Rand, peer netip.Addr) *config {
	c := &config{}
	n := r.PickW(12, 34, 28, 16, 10)
	for i := 0; i < n; i++ {
		c.proxies = append(c.proxies, genEntry(r, peer))
	}
	c.loopback = r.Chance(1, 4)
	c.private = r.Chance(1, 4)
	c.linkLocal = r.Chance(1, 4)
	c.proxyHeader = gen.Pick(r, []string{"", "X-Forwarded-For", "X-Forwarded-For", "X-Real-IP", "Cf-Connecting-Ip", "Fly-Client-IP"})
	c.validate = r.Bool()
	c.immutable = r.Chance(1, 6)
	return c
}

// ipElem is one element of a generated ProxyHeader list.
type ipElem struct {
	text  string
	class string // v4 | v6 | v6-dotted-tail | invalid | ambiguous
}

func genIPElem(r *gen.Rand) ipElem {
	switch r.PickW(30, 22, 8, 32, 8) {
	case 0:
		return ipElem{genV4(r).String(), "v4"}
	case 1:
		a := genV6(r)
		s := spell(r, a, r.Chance(2, 3))
		return ipElem{s, "v6"}
	case 2:
		v := genV4(r)
		return ipElem{gen.Pick(r, []string{"::ffff:", "64:ff9b::", "::"}) + v.String(), "v6-dotted-tail"}
	case 3:
		v := genV4(r).String()
		return ipElem{gen.Pick(r, []string{"unknown", "", "1.2.3", "256.0.0.1", "0" + v, v + ":8080", "[2001:db8::1]", "[2001:db8::1]:443",
			"1.2.3.4.5", "2001:db8:::1", "2001:db8::g", "12345::1", "_hidden", "for=" + v, "\"" + v + "\"", "1.2.3.-4", "1..2.3", ":", "::1::", "1:2:3:4:5:6:7:8:9", "0x7f.1.1.1", "1.2.3.4/32"}), "invalid"}
	default:
		return ipElem{gen.Pick(r, []string{"fe80::1%eth0", "\t" + genV4(r).String(), genV4(r).String() + "\t", "fe80::2%1"}), "ambiguous"}
	}
}

func genV4(r *gen.Rand) netip.Addr {
	for {
		a := genAddr(r)
		if a.Is4() {
			return a
		}
	}
}

func genV6(r *gen.Rand) netip.Addr {
	for {
		a := genAddr(r)
		if a.Is6() {
			return a
		}
	}
}

type fwd struct {
	name string
	val  string
}

const (
	hProto    = "X-Forwarded-Proto"
	hProtocol = "X-Forwarded-Protocol"
	hSsl      = "X-Forwarded-Ssl"
	hURL      = "X-Url-Scheme"
	hHost     = "X-Forwarded-Host"
)

var schemeVals = []string{"https", "https", "http", "HTTPS", "Https", "https, http", "http, https", "https,http", "https ,http", "wss", "", "on", "ftp", "https://evil.example", "javascript", " https"}
var sslVals = []string{"on", "on", "off", "ON", "On", "1", "true", "", "on, off"}
var hostVals = []string{"evil.example", "evil.example:8443", "a.b.evil.example", "h1.example, h2.example", "h1.example,h2.example",
	"h1.example ,h2.example", "[2001:db8::66]:80", "EVIL.example", "", "evil.example/path", "10.9.8.7", "10.9.8.7:81", "x"}

// first list element when the value is an unambiguous list ("a", "a,b", "a, b"): no OWS before a
// comma, no empty first element, no surrounding whitespace.
func firstElem(v string) (string, bool) {
	if v == "" || strings.TrimSpace(v) != v {
		return "", false
	}
	e := v
	if i := strings.IndexByte(v, ','); i >= 0 {
		e = v[:i]
	}
	if e == "" || strings.TrimSpace(e) != e || strings.ContainsAny(e, " \t") {
		return "", false
	}
	return e, true
}

// ---------------------------------------------------------------------------------------------

type pair struct {
	cfg     *config
	peer    netip.Addr // as on the connection (may be 4in6, may carry a zone)
	remote  *net.TCPAddr
	host    string
	tls     bool
	hdrs    []fwd
	ipElems []ipElem // structure of the ProxyHeader value, if sent
	ipSent  bool
	dup     bool

	jsonp    bool          // the handler also calls JSONP between two BaseURL() reads
	nested   bool          // the handler drives a second request through the app before the last BaseURL() read
	firstApp *drive.Direct // config-from-another-app: that other app, kept in service
	firstVec *vec
	http10   bool              // wire path: HTTP/1.0 request line
	wire     bool              // parsed from wire bytes (raw header block keeps the sent spelling) instead of direct drive
	extra    []fwd             // other request headers, sent with both twins
	likeOf   map[string]string // lower-cased look-alike header name in hdrs -> the documented name it resembles
	donor    *config           // the app is built from another app's Config() whose trust settings were then replaced by cfg
	app      *fiber.App
}

type tlsScript struct{ *drive.ScriptConn }

func (tlsScript) Handshake() error                     { return nil }
func (tlsScript) ConnectionState() tls.ConnectionState { return tls.ConnectionState{} }

func (p *pair) m() map[string]any {
	hs := make([]string, len(p.hdrs))
	for i, h := range p.hdrs {
		hs[i] = h.name + ": " + h.val
	}
	m := map[string]any{"config": p.cfg.m(), "peer": p.remote.String(), "peer_ip_bytes": len(p.remote.IP), "host_header": p.host, "tls": p.tls, "forwarding_headers": hs}
	m["transport"] = "direct"
	if p.wire {
		m["transport"] = "wire HTTP/1.1"
		if p.http10 {
			m["transport"] = "wire HTTP/1.0"
		}
	}
	if p.host == "" {
		m["host_header"] = nil
	}
	if len(p.extra) > 0 {
		xs := make([]string, len(p.extra))
		for i, h := range p.extra {
			xs[i] = h.name + ": " + h.val
		}
		m["other_headers"] = xs
	}
	if p.donor != nil {
		m["config_taken_from_app_with"] = p.donor.m()
	}
	return m
}

func fiberConfig(cfg *config) fiber.Config {
	return fiber.Config{
		TrustProxy: true,
		TrustProxyConfig: fiber.TrustProxyConfig{Proxies: append([]string(nil), cfg.proxies...),
			Loopback: cfg.loopback, Private: cfg.private, LinkLocal: cfg.linkLocal},
		ProxyHeader:        cfg.proxyHeader,
		EnableIPValidation: cfg.validate,
		Immutable:          cfg.immutable,
	}
}

func observe(p *pair) (*drive.Direct, *vec) {
	v := &vec{}
	cfg := p.cfg
	var app *fiber.App
	if p.donor == nil {
		app = fiber.New(fiberConfig(cfg))
	} else {
		// the documented way to derive one app's configuration from another's: take Config(), change
		// exported fields, pass it to New. Only the exported fields of what is passed count. The first
		// app stays in service: it is probed again after the second one was built.
		first := fiber.New(fiberConfig(p.donor))
		fv := &vec{}
		first.Get("/", func(c fiber.Ctx) error {
			fv.ran = true
			fv.Trusted = c.IsProxyTrusted()
			return nil
		})
		p.firstApp, p.firstVec = drive.NewDirect(first), fv
		fc := first.Config()
		fc.TrustProxyConfig.Proxies = nil
		if len(cfg.proxies) > 0 {
			fc.TrustProxyConfig.Proxies = append([]string(nil), cfg.proxies...)
		}
		fc.TrustProxyConfig.Loopback, fc.TrustProxyConfig.Private, fc.TrustProxyConfig.LinkLocal = cfg.loopback, cfg.private, cfg.linkLocal
		fc.ProxyHeader, fc.EnableIPValidation, fc.Immutable = cfg.proxyHeader, cfg.validate, cfg.immutable
		app = fiber.New(fc)
	}
	p.app = app
	var d *drive.Direct
	app.Get("/inner", func(c fiber.Ctx) error {
		_ = c.BaseURL()
		c.Links("https://inner.example/list?page=2", "next")
		return c.SendString(c.String())
	})
	app.Get("/", func(c fiber.Ctx) error {
		v.ran = true
		v.Trusted = c.IsProxyTrusted()
		v.IP = strings.Clone(c.IP())
		v.Host = strings.Clone(c.Host())
		v.Hostname = strings.Clone(c.Hostname())
		v.Scheme = strings.Clone(c.Scheme())
		v.BaseURL = strings.Clone(c.BaseURL())
		v.Secure = c.Secure()
		// Join returns a lone element as it is, and that may point into the request buffer, which the
		// server reuses for the next wire request: copy, as for every other accessor
		v.Subdomains = strings.Clone(strings.Join(c.Subdomains(), ","))
		// the rest of a handler's life: other helpers that borrow pooled buffers, then BaseURL() again
		c.Links("https://pooled.example/list?page=2", "next", "https://pooled.example/list?page=9", "last")
		_ = c.String()
		if p.jsonp {
			_ = c.JSONP(fiber.Map{"pooled": "buffer-user", "n": 123456789}, "callback")
		}
		v.BaseURL2 = strings.Clone(c.BaseURL())
		if p.nested {
			// a second request served by the same app while this one is still being handled
			d.Do(&drive.Req{Method: "GET", URI: "/inner", Host: "inner-request.example:8443", Remote: p.remote})
		}
		v.BaseURL3 = strings.Clone(c.BaseURL())
		return nil
	})
	d = drive.NewDirect(app)
	return d, v
}

func (p *pair) do(d *drive.Direct, v *vec, hdrs []fwd) vec {
	*v = vec{}
	if p.wire {
		var b bytes.Buffer
		if p.http10 {
			b.WriteString("GET / HTTP/1.0\r\n")
		} else {
			b.WriteString("GET / HTTP/1.1\r\n")
		}
		if p.host != "" {
			b.WriteString("Host: " + p.host + "\r\n")
		}
		for _, hs := range [][]fwd{p.extra, hdrs} {
			for _, h := range hs {
				b.WriteString(h.name + ": " + h.val + "\r\n")
			}
		}
		b.WriteString("\r\n")
		sc := drive.NewScriptConn(b.Bytes(), p.remote)
		var nc net.Conn = sc
		if p.tls {
			nc = tlsScript{sc}
		}
		_ = p.app.Server().ServeConn(nc)
		return *v
	}
	if p.host == "" {
		// a request without any Host header (the shared direct driver always supplies one)
		var req fasthttp.Request
		req.Header.SetMethod("GET")
		req.SetRequestURI("/")
		for _, hs := range [][]fwd{p.extra, hdrs} {
			for _, h := range hs {
				req.Header.Add(h.name, h.val)
			}
		}
		var fctx fasthttp.RequestCtx
		if p.tls {
			fctx.Init2(tlsScript{drive.NewScriptConn(nil, p.remote)}, nil, false)
			req.CopyTo(&fctx.Request)
		} else {
			fctx.Init(&req, p.remote, nil)
		}
		p.app.Handler()(&fctx)
		return *v
	}
	rq := &drive.Req{Method: "GET", URI: "/", Host: p.host, Remote: p.remote, TLS: p.tls}
	for _, hs := range [][]fwd{p.extra, hdrs} {
		for _, h := range hs {
			rq.Hdr = append(rq.Hdr, drive.H{K: h.name, V: h.val})
		}
	}
	d.Do(rq)
	return *v
}

// nameCase respells a field name (field names are case-insensitive).
func nameCase(r *gen.Rand, n string, style int) string {
	switch style {
	case 1:
		return strings.ToLower(n)
	case 2:
		return strings.ToUpper(n)
	case 3:
		b := []byte(strings.ToLower(n))
		for i := range b {
			if r.Bool() {
				b[i] = strings.ToUpper(string(b[i]))[0]
			}
		}
		return string(b)
	}
	return n
}

func nameStyle(n string) string {
	canon := false
	for _, k := range []string{hProto, hProtocol, hSsl, hURL, hHost, "X-Forwarded-For", "X-Real-IP", "Cf-Connecting-Ip", "Fly-Client-IP"} {
		if k == n {
			canon = true
		}
	}
	switch {
	case canon:
		return ""
	case n == strings.ToLower(n):
		return "lower"
	case n == strings.ToUpper(n):
		return "upper"
	}
	return "mixed"
}

// inputClass is the input class of a forwarded value that did not take effect: which header and
// value shape when the field name is in its canonical spelling, otherwise the spelling of the
// name (field names are case-insensitive) and the transport that preserved it.
func (p *pair) inputClass(name, class string) string {
	for _, h := range p.hdrs {
		if strings.EqualFold(h.name, name) && nameStyle(h.name) != "" {
			if p.wire {
				return "header-name-not-in-canonical-case|wire"
			}
			return "header-name-not-in-canonical-case|direct"
		}
	}
	return class
}

func peerClass(a netip.Addr, form string) string {
	u := a.Unmap().WithZone("")
	c := "public"
	switch {
	case u.IsLoopback():
		c = "loopback"
	case u.IsPrivate():
		c = "private"
	case u.IsLinkLocalUnicast():
		c = "link-local"
	case u.IsUnspecified():
		c = "unspecified"
	}
	return form + "-" + c
}

func genPair(r *gen.Rand) *pair {
	p := &pair{}
	a := genAddr(r)
	p.remote = &net.TCPAddr{Port: 1024 + r.Intn(60000)}
	if a.Is4() {
		if r.Chance(1, 3) {
			b := a.As16()
			p.remote.IP = net.IP(b[:]) // IPv4-mapped IPv6 form, as an AF_INET6 listener reports it
			p.peer = netip.AddrFrom16(b)
		} else {
			b := a.As4()
			p.remote.IP = net.IP(b[:])
			p.peer = a
		}
	} else {
		b := a.As16()
		p.remote.IP = net.IP(b[:])
		p.peer = a
		if a.IsLinkLocalUnicast() && r.Bool() {
			p.remote.Zone = "eth0"
			p.peer = a.WithZone("eth0")
		}
	}
	p.cfg = genConfig(r, p.peer)
	if r.Chance(1, 4) {
		// the app's configuration is taken from another app (which typically lists this peer) and
		// its trust settings are emptied / replaced / extended before it is passed to New
		p.donor = p.cfg
		d := p.donor
		switch r.PickW(50, 25, 25) {
		case 0:
			p.cfg = &config{loopback: d.loopback, private: d.private, linkLocal: d.linkLocal, proxyHeader: d.proxyHeader, validate: d.validate}
			if r.Chance(1, 3) {
				p.cfg.loopback, p.cfg.private, p.cfg.linkLocal = r.Chance(1, 4), r.Chance(1, 4), r.Chance(1, 4)
			}
		case 1:
			p.cfg = genConfig(r, genAddr(r))
		default:
			c2 := *d
			c2.proxies = append(append([]string(nil), d.proxies...), genEntry(r, genAddr(r)))
			if r.Bool() {
				c2.loopback, c2.private, c2.linkLocal = r.Chance(1, 4), r.Chance(1, 4), r.Chance(1, 4)
			}
			p.cfg = &c2
		}
	}
	p.wire = r.Chance(7, 20)
	if r.Chance(2, 5) {
		p.extra = append(p.extra, gen.Pick(r, []fwd{{"X-Request-Id", "abc123"}, {"Accept", "*/*"}, {"User-Agent", "probe/1"}, {"X-Trace", "1"}, {"Cache-Control", "no-cache"}}))
	}
	p.host = gen.Pick(r, []string{"example.com", "app.example.com:8080", "a.b.c.example.org", "localhost:3000", "10.1.2.3:80", "[2001:db8::1]:8080", "tobi.ferrets.example.com"})
	if r.Chance(1, 8) {
		p.host = "" // no Host header at all: HTTP/1.0 clients, health checkers
	}
	p.http10 = r.Chance(1, 4)
	p.jsonp, p.nested = r.Bool(), r.Chance(1, 3)
	p.tls = r.Chance(1, 4)

	// forwarding headers of twin A
	add := func(n, v string) { p.hdrs = append(p.hdrs, fwd{n, v}) }
	for len(p.hdrs) == 0 {
		if r.Chance(2, 5) {
			add(hProto, gen.Pick(r, schemeVals))
		}
		if r.Chance(1, 6) {
			add(hProtocol, gen.Pick(r, schemeVals))
		}
		if r.Chance(1, 5) {
			add(hSsl, gen.Pick(r, sslVals))
		}
		if r.Chance(1, 6) {
			add(hURL, gen.Pick(r, schemeVals))
		}
		if r.Chance(1, 2) {
			add(hHost, gen.Pick(r, hostVals))
		}
		if p.cfg.proxyHeader != "" && r.Chance(3, 4) {
			n := 1 + r.PickW(40, 30, 20, 10)
			var b strings.Builder
			for i := 0; i < n; i++ {
				e := genIPElem(r)
				p.ipElems = append(p.ipElems, e)
				if i > 0 {
					b.WriteString(gen.Pick(r, []string{",", ", ", ", ", " , ", ",  "}))
				}
				b.WriteString(e.text)
			}
			val := strings.Trim(b.String(), " \t")
			name := p.cfg.proxyHeader
			if r.Chance(1, 5) {
				name = strings.ToLower(name)
			}
			add(name, val)
			p.ipSent = true
		}
		if p.cfg.proxyHeader != "X-Forwarded-For" && r.Chance(1, 5) {
			add("X-Forwarded-For", genIPElem(r).text)
		}
	}
	if r.Chance(1, 3) {
		// look-alike field names: a documented name with something appended, cut short, or as the tail
		// of another name. Only the documented names count, so these must be ignored.
		p.likeOf = map[string]string{}
		for n := 1 + r.PickW(6, 3, 1); n > 0; n-- {
			base := gen.Pick(r, []string{hProto, hProto, hProtocol, hSsl, hURL, hHost, "X-Forwarded-For"})
			if p.cfg.proxyHeader != "" && r.Chance(1, 4) {
				base = p.cfg.proxyHeader
			}
			var name string
			switch r.PickW(50, 20, 30) {
			case 0:
				name = base + gen.Pick(r, []string{"-Version", "s", "x", "-Foo", "-Old", "name", "-Original", "col", "2"})
			case 1:
				name = base[:len(base)-1-r.Intn(2)]
			default:
				name = gen.Pick(r, []string{"Original-", "X", "My-", "Not-", "Real-"}) + base
			}
			known := false
			for _, k := range []string{hProto, hProtocol, hSsl, hURL, hHost, "X-Forwarded-For", p.cfg.proxyHeader} {
				if strings.EqualFold(k, name) {
					known = true
				}
			}
			if known || strings.HasSuffix(name, "-") {
				continue
			}
			var val string
			switch {
			case strings.EqualFold(base, hHost):
				val = gen.Pick(r, []string{"lookalike.example", "lookalike.example:444"})
			case strings.EqualFold(base, hSsl):
				val = "on"
			case strings.EqualFold(base, "X-Forwarded-For") || strings.EqualFold(base, p.cfg.proxyHeader):
				val = gen.Pick(r, []string{"6.6.6.6", "2001:db8::666", "6.6.6.6, 7.7.7.7"})
			default:
				val = gen.Pick(r, []string{"https", "https", "http", "wss", "https, http"})
			}
			p.likeOf[strings.ToLower(name)] = base
			add(name, val)
		}
	}
	if r.Chance(1, 12) {
		// a second instance of one header: which one counts is not stated
		h := p.hdrs[r.Intn(len(p.hdrs))]
		add(h.name, gen.Pick(r, []string{"https", "http", "evil2.example", "9.9.9.9", "on"}))
		p.dup = true
	}
	gen.Shuffle(r, p.hdrs)
	// field-name spelling: one style for the whole request, or one per header
	style := r.PickW(45, 35, 10, 10)
	perHeader := r.Chance(1, 4)
	for i := range p.hdrs {
		if perHeader {
			style = r.PickW(45, 35, 10, 10)
		}
		p.hdrs[i].name = nameCase(r, p.hdrs[i].name, style)
		if p.wire {
			// a server trims optional whitespace around a field value
			p.hdrs[i].val = strings.Trim(p.hdrs[i].val, " \t")
		}
	}
	return p
}

// probeFirstApp: the app whose Config() was reused keeps serving. Its own proxy set (the exported
// fields it was built from) must still decide, now that a second app was built from its Config()
// with other / more / fewer entries.
func (p *pair) probeFirstApp(e *ev.Env, c *ev.Case, input map[string]any) {
	probes := []netip.Addr{p.peer.Unmap().WithZone("")}
	for _, cf := range []*config{p.cfg, p.donor} {
		for _, en := range cf.proxies {
			if pf, err := netip.ParsePrefix(en); err == nil && !pf.Addr().Is4In6() {
				probes = append(probes, pf.Masked().Addr())
			} else if a, err := netip.ParseAddr(en); err == nil && a.Zone() == "" {
				probes = append(probes, a.Unmap())
			}
		}
	}
	if len(probes) > 7 {
		probes = probes[:7]
	}
	for _, a := range probes {
		ref := reference(p.donor, a)
		if ref.ambiguous != "" {
			continue
		}
		*p.firstVec = vec{}
		if e.Guard(c, "C10|panic", input, func() {
			p.firstApp.Do(&drive.Req{Method: "GET", URI: "/", Host: "first-app.example", Remote: tcp(a.String())})
		}) {
			return
		}
		e.Eval(1)
		e.Stat("first_app_probes_after_config_reuse", 1)
		want := len(ref.reasons) > 0
		if p.firstVec.Trusted == want {
			continue
		}
		second := "second-app-does-not-list-peer"
		if r2 := reference(p.cfg, a); len(r2.reasons) > 0 {
			second = "second-app-lists-peer"
		}
		detail := map[string]any{"input": input, "probe_peer": a.String(), "second_app": second, "first_app_IsProxyTrusted": p.firstVec.Trusted, "first_app_reference_reasons": ref.reasons}
		if want {
			e.Violation(c, "C10|trusted-peer-rejected|Ctx.IsProxyTrusted|first-app-after-its-config-was-reused",
				"the app whose Config() was passed to another New no longer trusts a peer of its own proxy set", detail)
		} else {
			e.Violation(c, "C10|untrusted-peer-trusted|Ctx.IsProxyTrusted|first-app-after-its-config-was-reused",
				"the app whose Config() was passed to another New now trusts a peer outside its own proxy set", detail)
		}
		return
	}
}

// documented returns twin A's headers without the look-alike ones.
func (p *pair) documented() []fwd {
	var out []fwd
	for _, h := range p.hdrs {
		if _, ok := p.likeOf[strings.ToLower(h.name)]; !ok {
			out = append(out, h)
		}
	}
	return out
}

func (p *pair) get(name string) (string, int) {
	n, v := 0, ""
	for _, h := range p.hdrs {
		if strings.EqualFold(h.name, name) {
			if n == 0 {
				v = h.val
			}
			n++
		}
	}
	return v, n
}

func hostOnly(h string) (string, bool) {
	if strings.ContainsAny(h, "[]/ ") || h == "" {
		return "", false
	}
	switch strings.Count(h, ":") {
	case 0:
		return h, true
	case 1:
		return h[:strings.IndexByte(h, ':')], true
	}
	return "", false
}

func judge(e *ev.Env, c *ev.Case, p *pair) {
	d, v := observe(p)
	var A, B, A0 vec
	input := p.m()
	// History: a request from a peer of the *other* trust class served first by the same app
	// (and, sequentially on one goroutine, by the same pooled context) must not leak its trust
	// decision into the judged pair.
	ref0 := reference(p.cfg, p.peer)
	warmed := ""
	if c.R.Bool() {
		for _, cand := range []string{"198.51.100.77", "127.0.0.1", "10.1.2.3", "169.254.9.9", "2001:db8:ffff::9", "::1", "fd00::7"} {
			a := netip.MustParseAddr(cand)
			ra := reference(p.cfg, a)
			if (len(ra.reasons) > 0) != (len(ref0.reasons) > 0) && ra.ambiguous == "" && ref0.ambiguous == "" {
				warmed = cand
				break
			}
		}
	}
	if e.Guard(c, "C10|panic", input, func() {
		if warmed != "" {
			w := *p
			w.remote = tcp(warmed)
			w.do(d, v, []fwd{{name: "X-Forwarded-For", val: "9.9.9.9"}, {name: "X-Forwarded-Host", val: "warm.example"}, {name: "X-Forwarded-Proto", val: "https"}})
			e.Stat("pairs_after_other_trust_class_history", 1)
		}
		A = p.do(d, v, p.hdrs)
		B = p.do(d, v, nil)
		if len(p.likeOf) > 0 {
			A0 = p.do(d, v, p.documented())
		}
	}) {
		return
	}
	if p.wire {
		e.Stat("pairs_wire", 1)
		if !A.ran || !B.ran {
			e.Stat("pairs_wire_request_refused_by_server", 1)
			return
		}
	}
	if p.donor != nil {
		e.Stat("pairs_config_from_other_app", 1)
	}
	if p.host == "" {
		e.Stat("pairs_without_host_header", 1)
	}
	if p.firstApp != nil {
		p.probeFirstApp(e, c, input)
	}
	e.Eval(2)
	if len(p.likeOf) > 0 && (!p.wire || A0.ran) {
		// only the documented field names count: the same request without the look-alike headers
		// must give the same vector (trusted or not)
		e.Stat("pairs_with_look_alike_headers", 1)
		if df := diff(&A, &A0); len(df) > 0 {
			like := "several"
			for _, h := range p.hdrs {
				base, ok := p.likeOf[strings.ToLower(h.name)]
				if !ok {
					continue
				}
				S := p.do(d, v, append(append([]fwd(nil), p.documented()...), h))
				if d1 := diff(&S, &A0); len(d1) > 0 && d1[0] == df[0] {
					like = base
					if strings.EqualFold(base, p.cfg.proxyHeader) {
						like = "ProxyHeader"
					}
					break
				}
			}
			e.Violation(c, "C10|look-alike-header-not-ignored|Ctx."+df[0]+"|resembles="+like,
				"a header whose name only resembles a documented forwarding header changed "+strings.Join(df, ","),
				map[string]any{"input": input, "with_look_alikes": A.m(), "without_look_alikes": A0.m(), "without_headers": B.m(), "differs": df})
		}
		A = A0 // the remaining clauses judge the documented headers alone
	}
	ref := reference(p.cfg, p.peer)
	form := "v6"
	if len(p.remote.IP) == 4 {
		form = "v4"
	} else if p.peer.Is4In6() {
		form = "v4-mapped"
	}
	if p.remote.Zone != "" {
		form += "-zoned"
	}
	pc := peerClass(p.peer, form)
	detail := func(extra map[string]any) map[string]any {
		m := map[string]any{"input": input, "with_headers": A.m(), "without_headers": B.m(), "reference_reasons": ref.reasons, "peer_class": pc}
		for k, x := range extra {
			m[k] = x
		}
		return m
	}

	// always: Secure iff Scheme == "https"
	for _, o := range []*vec{&A, &B} {
		if o.Secure != (o.Scheme == "https") {
			cl := "scheme-https-but-secure-false"
			if o.Secure {
				cl = "secure-true-but-scheme-not-https"
			}
			e.Violation(c, "C10|secure-iff-https|Ctx.Secure|"+cl, "Secure() != (Scheme()==\"https\")", detail(nil))
			break
		}
	}
	// always, with validation: IP() parses
	if p.cfg.validate {
		for _, o := range []*vec{&A, &B} {
			if _, err := netip.ParseAddr(o.IP); err != nil {
				e.Violation(c, "C10|ip-validation|Ctx.IP|not-a-valid-address", "EnableIPValidation is on but IP() is not a syntactically valid address", detail(nil))
				break
			}
		}
	}
	// always: BaseURL is scheme + host
	for _, o := range []*vec{&A, &B} {
		if o.BaseURL != o.Scheme+"://"+o.Host {
			e.Violation(c, "C10|base-url|Ctx.BaseURL|not-scheme-plus-host", "BaseURL() != Scheme()+\"://\"+Host()", detail(nil))
			break
		}
		if want := o.Scheme + "://" + o.Host; o.BaseURL2 != want || o.BaseURL3 != want {
			cl := "after-other-pooled-buffer-users"
			if o.BaseURL2 == want {
				cl = "after-another-request-was-served"
			}
			e.Violation(c, "C10|base-url|Ctx.BaseURL|later-read-in-same-request-differs|"+cl,
				"BaseURL() read again later in the same request is no longer Scheme()+\"://\"+Host()", detail(nil))
			break
		}
	}
	if A.Trusted != B.Trusted {
		e.Violation(c, "C10|trust-depends-on-headers|Ctx.IsProxyTrusted|any-peer", "IsProxyTrusted differs between the twins", detail(nil))
		return
	}
	if ref.ambiguous != "" {
		e.Stat("ambiguous_membership_"+ref.ambiguous, 1)
		if ref.ambiguous == paddedOnly {
			e.Stat("peer_covered_only_by_padded_entry", 1)
		}
		return
	}
	trusted := len(ref.reasons) > 0
	connScheme := "http"
	if p.tls {
		connScheme = "https"
	}
	peerU := p.peer.Unmap().WithZone("")

	if !trusted {
		e.Stat("pairs_untrusted", 1)
		if A.Trusted {
			if p.donor != nil {
				// input class: what of the other app's set covers the peer (a range in any spelling the
				// net package reads as a range containing it, else a listed address)
				inherited := ""
				for _, en := range p.donor.proxies {
					if !strings.Contains(en, "/") {
						continue
					}
					if _, n, err := net.ParseCIDR(en); err == nil && n.Contains(p.remote.IP) {
						inherited = "cidr-range"
					}
				}
				if inherited == "" {
					for _, rsn := range reference(p.donor, p.peer).reasons {
						if strings.HasPrefix(rsn, "listed-address") {
							inherited = "listed-address"
						}
					}
				}
				if inherited != "" {
					e.Violation(c, "C10|untrusted-peer-trusted|Ctx.IsProxyTrusted|config-taken-from-another-app|inherited="+inherited,
						"the peer is outside the proxy set passed to New, but inside the set of the app whose Config() was reused", detail(nil))
					return
				}
			}
			e.Violation(c, "C10|untrusted-peer-trusted|Ctx.IsProxyTrusted|peer="+peerClass(p.peer, "addr"), "peer is outside the configured proxy set but IsProxyTrusted() is true", detail(nil))
			return
		}
		e.Nontrivial("untrusted", c.ID)
		// connection-derived values of the twin without headers
		if a, err := netip.ParseAddr(B.IP); err != nil || a.Unmap() != peerU {
			e.Violation(c, "C10|connection-derived|Ctx.IP|peer-address", "IP() of an untrusted peer is not the peer address", detail(nil))
		}
		if B.Scheme != connScheme {
			e.Violation(c, "C10|connection-derived|Ctx.Scheme|tls="+connScheme, "Scheme() of an untrusted peer does not follow the connection", detail(nil))
		}
		if B.Host != p.host {
			e.Violation(c, "C10|connection-derived|Ctx.Host|host-header", "Host() of an untrusted peer is not the Host header", detail(nil))
		}
		if hn, ok := hostOnly(p.host); ok && B.Hostname != hn {
			e.Violation(c, "C10|connection-derived|Ctx.Hostname|host-header", "Hostname() of an untrusted peer is not the Host header's name", detail(nil))
		}
		// non-interference
		if df := diff(&A, &B); len(df) > 0 {
			// attribute to a single header where possible
			cause := "combination"
			seen := map[string]bool{}
			for _, h := range p.hdrs {
				k := strings.ToLower(h.name)
				if seen[k] {
					continue
				}
				seen[k] = true
				var one []fwd
				for _, h2 := range p.hdrs {
					if strings.EqualFold(h2.name, h.name) {
						one = append(one, h2)
					}
				}
				S := p.do(d, v, one)
				if d1 := diff(&S, &B); len(d1) > 0 && d1[0] == df[0] {
					cause = canonName(p, h.name)
					break
				}
			}
			if p.host == "" {
				// input class: the request carries no Host header at all
				cause += "|request-without-host-header"
			}
			e.Violation(c, "C10|untrusted-interference|Ctx."+df[0]+"|"+cause, "a forwarding header from an untrusted peer changed "+strings.Join(df, ","), detail(map[string]any{"differs": df}))
		}
		return
	}

	e.Stat("pairs_trusted", 1)
	for _, rsn := range ref.reasons {
		e.Stat("trusted_by_"+rsn, 1)
	}
	if !A.Trusted {
		e.Violation(c, "C10|trusted-peer-rejected|Ctx.IsProxyTrusted|"+strings.Join(ref.reasons, "+"),
			"peer is inside the configured proxy set but IsProxyTrusted() is false", detail(nil))
		return
	}
	if p.dup {
		e.Stat("trusted_duplicate_header_skipped", 1)
		return
	}
	asserted := false
	// scheme
	if !p.tls {
		var present []string
		for _, n := range []string{hProto, hProtocol, hSsl, hURL} {
			if _, k := p.get(n); k > 0 {
				present = append(present, n)
			}
		}
		switch len(present) {
		case 0:
			asserted = true
			if A.Scheme != "http" {
				e.Violation(c, "C10|trusted-forwarded-value|Ctx.Scheme|no-scheme-header", "no scheme header, plain connection: Scheme() must be http", detail(nil))
			}
		case 1:
			val, _ := p.get(present[0])
			want, ok := "", false
			switch present[0] {
			case hSsl:
				if val == "on" {
					want, ok = "https", true
				} else if val == "off" {
					want, ok = "http", true
				}
			case hURL:
				if !strings.Contains(val, ",") {
					want, ok = firstElem(val)
				}
			default:
				want, ok = firstElem(val)
			}
			if ok {
				asserted = true
				if A.Scheme != want {
					cl := "single-value"
					if strings.Contains(val, ",") {
						cl = "list-value"
					}
					e.Violation(c, "C10|trusted-forwarded-value|Ctx.Scheme|"+p.inputClass(present[0], present[0]+"|"+cl), "trusted peer: Scheme() is not the forwarded scheme",
						detail(map[string]any{"want": want}))
				}
			}
		}
	}
	// host
	if val, k := p.get(hHost); k == 1 {
		if want, ok := firstElem(val); ok {
			asserted = true
			if A.Host != want {
				cl := "single-value"
				if strings.Contains(val, ",") {
					cl = "list-value"
				}
				e.Violation(c, "C10|trusted-forwarded-value|Ctx.Host|"+p.inputClass(hHost, hHost+"|"+cl), "trusted peer: Host() is not the forwarded host", detail(map[string]any{"want": want}))
			} else if hn, ok := hostOnly(want); ok && A.Hostname != hn {
				e.Violation(c, "C10|trusted-forwarded-value|Ctx.Hostname|"+hHost, "trusted peer: Hostname() is not the forwarded host's name", detail(map[string]any{"want": hn}))
			}
		}
	} else if k == 0 {
		asserted = true
		if A.Host != p.host {
			e.Violation(c, "C10|trusted-forwarded-value|Ctx.Host|no-forwarded-host", "no X-Forwarded-Host: Host() must be the Host header", detail(nil))
		}
	}
	// client address
	if p.cfg.proxyHeader == "" {
		asserted = true
		if a, err := netip.ParseAddr(A.IP); err != nil || a.Unmap() != peerU {
			e.Violation(c, "C10|trusted-forwarded-value|Ctx.IP|no-proxy-header-configured", "no ProxyHeader configured: IP() must be the peer", detail(nil))
		}
	} else if val, k := p.get(p.cfg.proxyHeader); k == 1 && p.ipSent {
		if !p.cfg.validate {
			asserted = true
			if !sameClientIP(A.IP, val) {
				e.Violation(c, "C10|trusted-forwarded-value|Ctx.IP|"+p.inputClass(p.cfg.proxyHeader, "validation-off|raw-header-value"), "trusted peer, validation off: IP() must be the ProxyHeader value", detail(map[string]any{"want": val}))
			}
		} else {
			want, cls, ok := "", "none-valid", true
			emptyBefore, invalidBefore := false, false
			for _, el := range p.ipElems {
				if el.class == "ambiguous" {
					ok = false
					break
				}
				if el.class != "invalid" {
					want = strings.Trim(el.text, " ")
					switch {
					case el.class == "v6-dotted-tail":
						cls = "ipv6-with-dotted-ipv4-tail"
					case emptyBefore:
						cls = "after-empty-list-element"
					case invalidBefore:
						cls = el.class + "-after-invalid-element"
					default:
						cls = el.class
					}
					break
				}
				if strings.Trim(el.text, " ") == "" {
					emptyBefore = true
				} else {
					invalidBefore = true
				}
			}
			if ok {
				asserted = true
				if want == "" {
					if a, err := netip.ParseAddr(A.IP); err != nil || a.Unmap() != peerU {
						e.Violation(c, "C10|trusted-forwarded-value|Ctx.IP|validation-on|no-valid-element", "no valid address in the ProxyHeader: IP() must be the peer", detail(nil))
					}
				} else if !sameClientIP(A.IP, want) {
					e.Violation(c, "C10|trusted-forwarded-value|Ctx.IP|"+p.inputClass(p.cfg.proxyHeader, "validation-on|first-valid="+cls), "trusted peer, validation on: IP() is not the first syntactically valid address of the ProxyHeader",
						detail(map[string]any{"want": want}))
				}
			}
		}
	}
	if asserted {
		e.Nontrivial("trusted", c.ID)
		e.Stat("pairs_trusted_asserted", 1)
	}
}

// sameClientIP compares the reported client IP with the expected forwarded value. The property
// fixes which address is reported, not how it is spelled: when the expected value is an IP
// address the two are compared as addresses (IPv4-mapped IPv6 unmapped); anything else (validation
// off lets lists and garbage through) must come back exactly as sent.
func sameClientIP(got, want string) bool {
	if got == want {
		return true
	}
	w, err := netip.ParseAddr(want)
	if err != nil {
		return false
	}
	g, err := netip.ParseAddr(got)
	return err == nil && g.Unmap() == w.Unmap()
}

func canonName(p *pair, n string) string {
	for _, k := range []string{hProto, hProtocol, hSsl, hURL, hHost, "X-Forwarded-For"} {
		if strings.EqualFold(k, n) {
			if strings.EqualFold(n, p.cfg.proxyHeader) {
				return k + "(ProxyHeader)"
			}
			return k
		}
	}
	if strings.EqualFold(n, p.cfg.proxyHeader) {
		return "ProxyHeader"
	}
	return "other"
}

// ---------------------------------------------------------------------------------------------

func tcp(ip string) *net.TCPAddr {
	a := netip.MustParseAddr(ip)
	if a.Is4() {
		b := a.As4()
		return &net.TCPAddr{IP: net.IP(b[:]), Port: 40000}
	}
	b := a.As16()
	return &net.TCPAddr{IP: net.IP(b[:]), Port: 40000}
}

func run(e *ev.Env) {
	fiberlog.SetOutput(io.Discard) // invalid proxy entries are logged by fiber.New

	corpus := func(name string, p *pair) {
		e.Corpus(name, func(c *ev.Case) {
			judge(e, c, p)
			e.Sample("corpus", map[string]any{"name": name, "input": p.m()})
		})
	}
	mk := func(peer string, cfg *config, tls bool, hdrs ...fwd) *pair {
		r := tcp(peer)
		return &pair{cfg: cfg, peer: netip.MustParseAddr(peer), remote: r, host: "example.com", tls: tls, hdrs: hdrs}
	}
	// DESIGN 6.1: trusted peer, X-Forwarded-Proto: https -> Scheme https, Secure false
	corpus("secure-forwarded-https", mk("10.0.0.1", &config{proxies: []string{"10.0.0.1"}}, false, fwd{hProto, "https"}))
	corpus("secure-tls-connection", mk("203.0.113.7", &config{}, true, fwd{hProto, "http"}))
	// configured spelling vs. connection spelling
	corpus("listed-ipv6-uppercase", mk("2001:db8::1", &config{proxies: []string{"2001:DB8::1"}}, false, fwd{hProto, "https"}))
	corpus("listed-ipv6-expanded", mk("2001:db8::1", &config{proxies: []string{"2001:0db8:0000:0000:0000:0000:0000:0001"}}, false, fwd{hHost, "evil.example"}))
	corpus("listed-ipv4-mapped", mk("10.0.0.1", &config{proxies: []string{"::ffff:10.0.0.1"}}, false, fwd{hHost, "evil.example"}))
	// documentation example (docs/api/ctx.md IsProxyTrusted)
	corpus("docs-proxies-listed", mk("0.8.0.0", &config{proxies: []string{"0.8.0.0", "1.1.1.1/30"}}, false, fwd{hHost, "evil.example"}))
	corpus("docs-proxies-cidr", mk("1.1.1.2", &config{proxies: []string{"0.8.0.0", "1.1.1.1/30"}}, false, fwd{hProto, "https"}))
	corpus("docs-proxies-outside", mk("1.1.1.4", &config{proxies: []string{"0.8.0.0", "1.1.1.1/30"}, proxyHeader: "X-Forwarded-For"}, false,
		fwd{hProto, "https"}, fwd{hHost, "evil.example"}, fwd{"X-Forwarded-For", "9.9.9.9"}, fwd{hSsl, "on"}, fwd{hURL, "https"}, fwd{hProtocol, "https"}))
	corpus("empty-config-untrusted", mk("127.0.0.1", &config{proxyHeader: "X-Real-IP", validate: true}, false, fwd{"X-Real-IP", "9.9.9.9"}, fwd{hHost, "evil.example"}))
	{
		p := mk("127.0.0.1", &config{loopback: true, proxyHeader: "X-Forwarded-For", validate: true}, false, fwd{"X-Forwarded-For", "::ffff:9.9.9.9, 8.8.8.8"})
		p.ipElems, p.ipSent = []ipElem{{"::ffff:9.9.9.9", "v6-dotted-tail"}, {"8.8.8.8", "v4"}}, true
		corpus("validation-ipv6-dotted-tail", p)
		q := mk("127.0.0.1", &config{loopback: true, proxyHeader: "X-Forwarded-For", validate: true}, false, fwd{"X-Forwarded-For", ",8.8.8.8"})
		q.ipElems, q.ipSent = []ipElem{{"", "invalid"}, {"8.8.8.8", "v4"}}, true
		corpus("validation-empty-first-element", q)
	}

	{
		// configuration derived from another app's Config(): only what is passed to New counts
		p := mk("10.1.2.3", &config{}, false, fwd{hHost, "evil.example"}, fwd{hProto, "https"})
		p.donor = &config{proxies: []string{"10.1.2.3"}}
		corpus("config-from-other-app-listed-address", p)
		q := mk("10.1.2.3", &config{}, false, fwd{hHost, "evil.example"}, fwd{hProto, "https"})
		q.donor = &config{proxies: []string{"10.0.0.0/8"}}
		corpus("config-from-other-app-cidr", q)
		// field names are case-insensitive, also when parsed from the wire
		w := mk("10.0.0.1", &config{proxies: []string{"10.0.0.1"}}, false, fwd{"x-forwarded-proto", "https"})
		w.wire = true
		corpus("wire-lowercase-forwarded-proto", w)
		w2 := mk("10.0.0.1", &config{proxies: []string{"10.0.0.1"}}, false, fwd{"X-FORWARDED-SSL", "on"}, fwd{"x-forwarded-host", "front.example"})
		w2.wire = true
		corpus("wire-uppercase-forwarded-ssl", w2)
	}

	e.Cases("pairs", e.N(100000, 5000000), func(c *ev.Case) {
		p := genPair(c.R)
		judge(e, c, p)
		e.Sample("pair", p.m())
	})
}
