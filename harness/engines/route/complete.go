package route

import (
	"fmt"
	"strconv"
	"strings"

	"github.com/gofiber/fiber/v3"

	"verifharness/internal/drive"
	"verifharness/internal/ev"
	"verifharness/internal/gen"
	"verifharness/internal/reg"
)

func init() { reg.Register("route.complete", runComplete) }

// item alphabet of the bounded-exhaustive space (DESIGN 3.C03). The thorough tier adds "A", the
// upper-case twin of "a": patterns in which a literal recurs in another letter case.
var cItems = []string{"a", "b", "ab", "/", "-", ".", ":", ":?", "*", "+"}

func enumItems(e *ev.Env) []string {
	if e.Quick() {
		return cItems
	}
	return append(append([]string(nil), cItems...), "A")
}

// decodePattern turns an index into a pattern of exactly n items; ok=false if the item string
// is outside the delimited class (a parameter must be followed by end-of-pattern or a literal
// starting with '/', '-' or '.').
func decodeItems(items []string, idx, n int) []string {
	its := make([]string, n)
	for i := 0; i < n; i++ {
		its[i] = items[idx%len(items)]
		idx /= len(items)
	}
	return its
}

func itemsToPattern(its []string) (pattern, bool) {
	var toks []tok
	toks = append(toks, tok{Kind: tLit, Lit: "/"})
	nname := 0
	for _, it := range its {
		switch it {
		case ":", ":?", "*", "+":
			// must follow a literal (no adjacent parameters in the delimited class)
			if toks[len(toks)-1].Kind != tLit {
				return pattern{}, false
			}
			t := tok{}
			switch it {
			case ":":
				t.Kind = tNamed
			case ":?":
				t.Kind = tNamedOpt
			case "*":
				t.Kind = tStar
			case "+":
				t.Kind = tPlus
			}
			if t.Kind == tNamed || t.Kind == tNamedOpt {
				nname++
				t.Name = "x" + strconv.Itoa(nname)
			}
			toks = append(toks, t)
		default:
			last := &toks[len(toks)-1]
			if last.Kind == tLit {
				last.Lit += it
			} else {
				if it[0] != '/' && it[0] != '-' && it[0] != '.' {
					return pattern{}, false
				}
				toks = append(toks, tok{Kind: tLit, Lit: it})
			}
		}
	}
	// "//" inside literals: fasthttp does not normalise PathOriginal, but keep the space clean
	for _, t := range toks {
		if t.Kind == tLit && strings.Contains(t.Lit, "//") {
			return pattern{}, false
		}
	}
	return pattern{Toks: toks}, true
}

var cVals = []string{"", "x", "xy", "x-y", "x.y", "x/y"}

// legalFilling implements the statement's side condition.
func legalFilling(p pattern, vals []string) bool {
	for i, t := range p.Toks {
		if t.Kind == tLit {
			continue
		}
		v := vals[i]
		switch t.Kind {
		case tNamed:
			if v == "" || strings.Contains(v, "/") {
				return false
			}
		case tNamedOpt:
			if strings.Contains(v, "/") {
				return false
			}
		case tPlus:
			if v == "" {
				return false
			}
		}
	}
	for i, t := range p.Toks {
		if t.Kind == tLit || i+1 >= len(p.Toks) {
			continue
		}
		l := p.Toks[i+1].Lit
		// conservative: also no additional occurrence of the literal without its trailing slashes
		for _, lit := range []string{l, strings.TrimRight(l, "/")} {
			if lit == "" {
				continue
			}
			inPattern := 0
			for j := i + 1; j < len(p.Toks); j++ {
				if p.Toks[j].Kind == tLit {
					inPattern += countOv(p.Toks[j].Lit, lit)
				}
			}
			var sb strings.Builder
			for j := i; j < len(p.Toks); j++ {
				if p.Toks[j].Kind == tLit {
					sb.WriteString(p.Toks[j].Lit)
				} else {
					sb.WriteString(vals[j])
				}
			}
			if countOv(sb.String(), lit) != inPattern {
				return false
			}
			// letter case may be folded by the configuration: an occurrence up to case counts too
			// (conservative for CaseSensitive apps: the domain only shrinks)
			lowPat := 0
			for j := i + 1; j < len(p.Toks); j++ {
				if p.Toks[j].Kind == tLit {
					lowPat += countOv(strings.ToLower(p.Toks[j].Lit), strings.ToLower(lit))
				}
			}
			if countOv(strings.ToLower(sb.String()), strings.ToLower(lit)) != lowPat {
				return false
			}
		}
	}
	return true
}

// countOv counts occurrences including overlapping ones ("-x-x-" holds "-x-" twice): an
// overlapping occurrence is an additional place where the literal could be read.
func countOv(s, sub string) int {
	n := 0
	for i := 0; i+len(sub) <= len(s); i++ {
		if s[i:i+len(sub)] == sub {
			n++
		}
	}
	return n
}

type completeObs struct {
	ran  bool
	vals map[string]string
}

type completeRunner struct {
	e     *ev.Env
	c     *ev.Case
	p     pattern
	text  string
	keys  []string
	cfg   Cfg
	d     *drive.Direct
	obs   completeObs
	fcfg  fiber.Config
	exact bool   // enumerated (bounded-exhaustive) family
	via   string // registered on the app, through a group, or on a mounted sub-app
}

func newCompleteRunner(e *ev.Env, c *ev.Case, p pattern, cfg Cfg) *completeRunner {
	return newCompleteRunnerVia(e, c, p, cfg, 0)
}

// splitFirstLiteral cuts the pattern text at a '/' inside its first literal: prefix + rest spell
// the pattern ("/api" + "/v1/:x"). ok=false if the first literal has no inner '/'.
func splitFirstLiteral(p pattern, pick int) (prefix, rest string, ok bool) {
	lit := p.Toks[0].Lit
	var cuts []int
	for i := 1; i < len(lit); i++ {
		if lit[i] == '/' && lit[i-1] != '/' {
			cuts = append(cuts, i)
		}
	}
	if len(cuts) == 0 {
		return "", "", false
	}
	k := cuts[pick%len(cuts)]
	return escapeLit(lit[:k]), escapeLit(lit[k:]) + pattern{Toks: p.Toks[1:]}.String(), true
}

// via: how the pattern is registered — 0 app.Get(pattern); 1 app.Group(prefix).Get(rest);
// 2 sub.Get(rest) on an app of its own, mounted with app.Use(prefix, sub). prefix = leading
// segment(s) of the pattern's first literal; patterns without such a segment are registered
// directly.
func newCompleteRunnerVia(e *ev.Env, c *ev.Case, p pattern, cfg Cfg, via int) *completeRunner {
	cr := &completeRunner{e: e, c: c, p: p, text: p.String(), keys: p.paramKeys(), cfg: cfg, fcfg: cfg.FiberConfig()}
	app := cfg.NewApp()
	prefix, rest, split := splitFirstLiteral(p, via/3)
	if !split {
		via = 0
	}
	var sub *fiber.App
	ok := !e.Guard(c, "complete|register", map[string]any{"pattern": cr.text, "via": via % 3, "prefix": prefix, "rest": rest}, func() {
		var rt fiber.Router = app
		text := cr.text
		switch via % 3 {
		case 1:
			rt, text = app.Group(prefix), rest
			e.Stat("registered_through_group", 1)
		case 2:
			sub = cfg.NewApp()
			rt, text = sub, rest
			e.Stat("registered_on_mounted_sub_app", 1)
		}
		cr.via = []string{"app", "group", "mounted-sub-app"}[via%3]
		rt.Get(text, func(cx fiber.Ctx) error {
			cr.obs.ran = true
			cr.obs.vals = map[string]string{}
			for _, k := range cr.keys {
				if k != "" {
					cr.obs.vals[k] = strings.Clone(cx.Params(k))
				}
			}
			return cx.SendStatus(200)
		})
		if sub != nil {
			app.Use(prefix, sub)
		}
		cr.d = drive.NewDirect(app)
	})
	if !ok {
		return nil
	}
	return cr
}

func (cr *completeRunner) dispatch(path string) (ran bool, vals map[string]string, status int) {
	cr.obs = completeObs{}
	var resp *drive.Resp
	if cr.e.Guard(cr.c, "complete|dispatch", map[string]any{"pattern": cr.text, "path": path}, func() { resp = do(cr.d, "GET", path) }) {
		return false, nil, -1
	}
	return cr.obs.ran, cr.obs.vals, resp.Status
}

func pctEncodeAt(s string, i int) string {
	return s[:i] + fmt.Sprintf("%%%02X", s[i]) + s[i+1:]
}

func flipLiteralCase(p pattern, vals []string) (string, bool) {
	var sb strings.Builder
	changed := false
	for i, t := range p.Toks {
		if t.Kind == tLit {
			b := []byte(t.Lit)
			for j := range b {
				if b[j] >= 'a' && b[j] <= 'z' {
					b[j] -= 32
					changed = true
				}
			}
			sb.Write(b)
		} else {
			sb.WriteString(vals[i])
		}
	}
	return sb.String(), changed
}

// check one legal filling under one config.
func (cr *completeRunner) checkFilling(vals []string) {
	e, c := cr.e, cr.c
	path := cr.p.fill(vals)
	cfgs := cr.cfg.String()
	detail := func(extra map[string]any) map[string]any {
		m := map[string]any{"pattern": cr.text, "cfg": cfgs, "path": path, "values": vals, "registered_on": cr.via}
		for k, v := range extra {
			m[k] = v
		}
		return m
	}
	shape := patternShape(cr.p)
	if cr.via != "" && cr.via != "app" {
		shape += "|registered-on-" + cr.via
	}
	ran, got, status := cr.dispatch(path)
	if status == -1 {
		return
	}
	e.Eval(1)
	if cr.p.nParams() > 0 {
		e.Nontrivial(cr.text, path, cfgs)
	}
	if !ran {
		e.Violation(c, "complete|legal-filling-not-matched|"+shape,
			fmt.Sprintf("pattern %q does not match its legal filling %q", cr.text, path), detail(map[string]any{"status": status}))
		return
	}
	// Without StrictRouting a pattern ending in "<greedy>/" is the pattern "<greedy>" and the
	// trailing slash of the path is a legal part of the greedy value too: two legal fillings,
	// so the captured value is not asserted there.
	nt := len(cr.p.Toks)
	ambiguousTail := !cr.cfg.Strict && nt >= 2 && cr.p.Toks[nt-1].Kind == tLit && cr.p.Toks[nt-1].Lit == "/" &&
		(cr.p.Toks[nt-2].Kind == tStar || cr.p.Toks[nt-2].Kind == tPlus)
	for i, k := range cr.keys {
		if k == "" || (ambiguousTail && i == nt-2) {
			continue
		}
		if got[k] != vals[i] {
			e.Violation(c, "complete|captured-value-differs|"+shape,
				fmt.Sprintf("pattern %q path %q: Params(%q)=%q, filled with %q", cr.text, path, k, got[k], vals[i]), detail(map[string]any{"params": got}))
			return
		}
	}
	// RoutePatternMatch must agree with dispatch
	cr.checkRPM(path, ran, shape)

	// invariance: letter case of literals
	if !cr.cfg.CaseSensitive {
		if fp, changed := flipLiteralCase(cr.p, vals); changed {
			ran2, got2, _ := cr.dispatch(fp)
			e.Eval(1)
			if !ran2 {
				e.Violation(c, "complete|case-variant-not-matched|"+shape,
					fmt.Sprintf("CaseSensitive off: %q matches %q but not %q", cr.text, path, fp), detail(map[string]any{"variant": fp}))
			} else {
				for i, k := range cr.keys {
					if k != "" && got2[k] != vals[i] {
						e.Violation(c, "complete|case-variant-value-differs|"+shape,
							fmt.Sprintf("CaseSensitive off: %q on %q: Params(%q)=%q, filled with %q", cr.text, fp, k, got2[k], vals[i]), detail(map[string]any{"variant": fp, "params": got2}))
						break
					}
				}
			}
			cr.checkRPM(fp, ran2, shape)
		}
	}
	// letter case belongs to the values: the same filling with upper-cased values must match
	// with exactly those values (only the decision on literals ignores case)
	{
		up := make([]string, len(vals))
		changed := false
		for i, v := range vals {
			up[i] = strings.ToUpper(v)
			if up[i] != v {
				changed = true
			}
		}
		if changed && legalFilling(cr.p, up) {
			vp := cr.p.fill(up)
			ran2, got2, st := cr.dispatch(vp)
			if st != -1 {
				e.Eval(1)
				if !ran2 {
					e.Violation(c, "complete|upper-case-values-not-matched|"+shape,
						fmt.Sprintf("%q matches %q but not %q", cr.text, path, vp), detail(map[string]any{"variant": vp}))
				} else {
					for i, k := range cr.keys {
						if k != "" && !(ambiguousTail && i == nt-2) && got2[k] != up[i] {
							e.Violation(c, "complete|upper-case-value-not-returned-as-spelled|"+shape,
								fmt.Sprintf("%q on %q: Params(%q)=%q, filled with %q", cr.text, vp, k, got2[k], up[i]), detail(map[string]any{"variant": vp, "params": got2}))
							break
						}
					}
				}
				cr.checkRPM(vp, ran2, shape)
			}
		}
	}
	// invariance: trailing slash
	if !cr.cfg.Strict && !strings.HasSuffix(path, "/") {
		sp := path + "/"
		ran2, got2, _ := cr.dispatch(sp)
		e.Eval(1)
		if !ran2 {
			e.Violation(c, "complete|trailing-slash-variant-not-matched|"+shape,
				fmt.Sprintf("StrictRouting off: %q matches %q but not %q", cr.text, path, sp), detail(map[string]any{"variant": sp}))
		} else if cr.p.Toks[len(cr.p.Toks)-1].Kind == tLit {
			for i, k := range cr.keys {
				if k != "" && got2[k] != vals[i] {
					e.Violation(c, "complete|trailing-slash-variant-value-differs|"+shape,
						fmt.Sprintf("StrictRouting off: %q on %q: Params(%q)=%q, filled with %q", cr.text, sp, k, got2[k], vals[i]), detail(map[string]any{"variant": sp, "params": got2}))
					break
				}
			}
		}
		cr.checkRPM(sp, ran2, shape)
	}
	// percent-encoding of one literal letter (also of its upper-case form when case is folded):
	// decoded only with UnescapePath, where the decision and the values must not change;
	// RoutePatternMatch must agree with dispatch either way.
	{
		off := 0
		done := false
		for i, t := range cr.p.Toks {
			if t.Kind != tLit {
				off += len(vals[i])
				continue
			}
			for j := 0; j < len(t.Lit) && !done; j++ {
				ch := t.Lit[j]
				if !(ch >= 'a' && ch <= 'z' || ch >= 'A' && ch <= 'Z') {
					continue
				}
				done = true
				forms := []byte{ch}
				if !cr.cfg.CaseSensitive {
					forms = append(forms, ch^0x20)
				}
				for _, f := range forms {
					ep := path[:off+j] + fmt.Sprintf("%%%02X", f) + path[off+j+1:]
					ran2, got2, st := cr.dispatch(ep)
					if st == -1 {
						continue
					}
					e.Eval(1)
					if cr.cfg.Unescape {
						if !ran2 {
							e.Violation(c, "complete|percent-encoded-literal-not-matched|"+shape,
								fmt.Sprintf("UnescapePath on: %q matches %q but not %q", cr.text, path, ep), detail(map[string]any{"variant": ep}))
						} else {
							for i2, k := range cr.keys {
								if k != "" && !(ambiguousTail && i2 == nt-2) && got2[k] != vals[i2] {
									e.Violation(c, "complete|percent-encoded-literal-value-differs|"+shape,
										fmt.Sprintf("UnescapePath on: %q on %q: Params(%q)=%q, filled with %q", cr.text, ep, k, got2[k], vals[i2]), detail(map[string]any{"variant": ep, "params": got2}))
									break
								}
							}
						}
					}
					cr.checkRPM(ep, ran2, shape)
				}
			}
			off += len(t.Lit)
			if done {
				break
			}
		}
	}
	// One byte sent percent-encoded — a delimiter, an inner slash, a letter whose code has a hex
	// letter, the last byte, a trailing slash that is not there otherwise — with lower-case, upper-
	// case and mixed-case hex digits. With UnescapePath the request is the request with that byte
	// sent raw: same decision, same values. Either way RoutePatternMatch answers as the dispatch.
	{
		type variant struct {
			enc, raw, class string
			lower           bool
		}
		var vs []variant
		add := func(i int, class string, lower bool) {
			f := "%%%02X"
			if lower {
				f = "%%%02x"
			}
			vs = append(vs, variant{path[:i] + fmt.Sprintf(f, path[i]) + path[i+1:], path, class, lower})
		}
		if i := strings.IndexAny(path[1:], "-."); i >= 0 {
			add(i+1, "delimiter", true)
		}
		if i := strings.IndexByte(path[1:], '/'); i >= 0 {
			add(i+1, "slash", len(path)%2 == 0)
		}
		if i := strings.IndexAny(path, "jklmnoz"); i >= 0 {
			add(i, "letter", true)
		}
		if c := path[len(path)-1]; len(path) > 1 && c != '+' && c != ' ' {
			add(len(path)-1, "last-byte", len(path)%2 == 1)
		}
		if !strings.HasSuffix(path, "/") {
			low := cr.c.R.Bool()
			vs = append(vs, variant{path + map[bool]string{true: "%2f", false: "%2F"}[low], path + "/", "appended-trailing-slash", low})
		}
		for _, v := range vs {
			ranE, gotE, st := cr.dispatch(v.enc)
			if st == -1 {
				continue
			}
			e.Eval(1)
			if cr.cfg.Unescape {
				ranR, gotR, st2 := cr.dispatch(v.raw)
				if st2 != -1 {
					same := ranE == ranR
					if same && ranE {
						for _, k := range cr.keys {
							if k != "" && gotE[k] != gotR[k] {
								same = false
							}
						}
					}
					if !same {
						hexcase := onoff(v.lower, "lower-case-hex", "upper-case-hex")
						e.Violation(c, "complete|percent-encoded-byte-not-equivalent-to-raw-byte|"+v.class+"|"+hexcase,
							fmt.Sprintf("UnescapePath on: %q on %q: matched=%v params=%v, on %q: matched=%v params=%v", cr.text, v.enc, ranE, gotE, v.raw, ranR, gotR),
							detail(map[string]any{"variant": v.enc, "raw": v.raw}))
					}
				}
			}
			cr.checkRPM(v.enc, ranE, shape)
		}
	}
	// percent-encoding of one value byte
	for i, t := range cr.p.Toks {
		if t.Kind == tLit || vals[i] == "" || (ambiguousTail && i == nt-2) {
			continue
		}
		// encode the first byte of the value
		off := 0
		for j := 0; j < i; j++ {
			if cr.p.Toks[j].Kind == tLit {
				off += len(cr.p.Toks[j].Lit)
			} else {
				off += len(vals[j])
			}
		}
		if path[off] == '/' || path[off] == '-' || path[off] == '.' {
			continue
		}
		ep := pctEncodeAt(path, off)
		ran2, got2, _ := cr.dispatch(ep)
		e.Eval(1)
		want := vals[i]
		if !cr.cfg.Unescape {
			want = ep[off:off+3] + vals[i][1:]
		}
		k := cr.keys[i]
		if !ran2 {
			e.Violation(c, "complete|percent-variant-not-matched|"+shape+"|"+onoff(cr.cfg.Unescape, "unescape-on", "unescape-off"),
				fmt.Sprintf("%q matches %q but not %q", cr.text, path, ep), detail(map[string]any{"variant": ep}))
		} else if got2[k] != want {
			e.Violation(c, "complete|percent-variant-value|"+shape+"|"+onoff(cr.cfg.Unescape, "unescape-on", "unescape-off"),
				fmt.Sprintf("%q on %q: Params(%q)=%q, expected %q", cr.text, ep, k, got2[k], want), detail(map[string]any{"variant": ep, "params": got2}))
		}
		break
	}
}

// caseTwin flips the case of one or all ASCII letters of s ("" if s has none or does not start
// with a delimiter).
func caseTwin(r *gen.Rand, s string) string {
	if s == "" || (s[0] != '/' && s[0] != '-' && s[0] != '.') {
		return ""
	}
	b := []byte(s)
	var letters []int
	for i := range b {
		if b[i] >= 'a' && b[i] <= 'z' || b[i] >= 'A' && b[i] <= 'Z' {
			letters = append(letters, i)
		}
	}
	if len(letters) == 0 {
		return ""
	}
	if r.Bool() {
		letters = []int{gen.Pick(r, letters)}
	}
	for _, i := range letters {
		b[i] ^= 0x20
	}
	return string(b)
}

func onoff(b bool, on, off string) string {
	if b {
		return on
	}
	return off
}

// checkRPM compares RoutePatternMatch with the dispatch decision.
func (cr *completeRunner) checkRPM(path string, dispatched bool, shape string) {
	var rpm bool
	if cr.e.Guard(cr.c, "complete|RoutePatternMatch", map[string]any{"pattern": cr.text, "path": path}, func() {
		rpm = fiber.RoutePatternMatch(path, cr.text, cr.fcfg)
	}) {
		return
	}
	cr.e.Eval(1)
	if rpm != dispatched {
		cls := "plain"
		switch pct, plus := strings.Contains(path, "%"), strings.Contains(path, "+"); {
		case pct && plus:
			cls = "plus-and-percent-in-path"
		case plus:
			cls = "plus-in-path"
		case pct:
			cls = "percent-in-path"
		}
		cr.e.Violation(cr.c, fmt.Sprintf("complete|RoutePatternMatch-%v-dispatch-%v|%s|%s", rpm, dispatched, cls, onoff(cr.cfg.Unescape, "unescape-on", "unescape-off")),
			fmt.Sprintf("RoutePatternMatch(%q,%q)=%v but dispatching to an app holding only that route: matched=%v", path, cr.text, rpm, dispatched),
			map[string]any{"pattern": cr.text, "cfg": cr.cfg.String(), "path": path})
	}
}

// patternShape is the input class used in signatures: the sequence of token kinds.
func patternShape(p pattern) string {
	var sb strings.Builder
	for _, t := range p.Toks {
		switch t.Kind {
		case tLit:
			switch {
			case t.Lit == "/":
				sb.WriteString("/")
			case strings.HasPrefix(t.Lit, "/"):
				sb.WriteString("/L")
			case strings.HasPrefix(t.Lit, "-") || strings.HasPrefix(t.Lit, "."):
				sb.WriteString("dL")
			default:
				sb.WriteString("L")
			}
		case tNamed:
			sb.WriteString(":")
		case tNamedOpt:
			sb.WriteString(":?")
		case tStar:
			sb.WriteString("*")
		case tPlus:
			sb.WriteString("+")
		}
	}
	s := sb.String()
	if len(s) > 24 {
		s = s[:24] + "…"
	}
	return s
}

func forEachFilling(p pattern, f func(vals []string)) {
	vals := make([]string, len(p.Toks))
	var idx []int
	for i, t := range p.Toks {
		if t.Kind != tLit {
			idx = append(idx, i)
		}
	}
	var rec func(k int)
	rec = func(k int) {
		if k == len(idx) {
			if legalFilling(p, vals) {
				f(vals)
			}
			return
		}
		for _, v := range cVals {
			vals[idx[k]] = v
			rec(k + 1)
		}
	}
	rec(0)
}

func runComplete(e *ev.Env) {
	e.Corpus("docs-examples", func(c *ev.Case) {
		type ex struct {
			toks []tok
			vals []string
		}
		exs := []ex{
			{[]tok{{Kind: tLit, Lit: "/user/"}, {Kind: tNamed, Name: "name"}, {Kind: tLit, Lit: "/books/"}, {Kind: tNamed, Name: "title"}}, []string{"", "john", "", "go"}},
			{[]tok{{Kind: tLit, Lit: "/plantae/"}, {Kind: tNamed, Name: "genus"}, {Kind: tLit, Lit: "."}, {Kind: tNamed, Name: "species"}}, []string{"", "prunus", "", "persica"}},
			{[]tok{{Kind: tLit, Lit: "/flights/"}, {Kind: tNamed, Name: "from"}, {Kind: tLit, Lit: "-"}, {Kind: tNamed, Name: "to"}}, []string{"", "LAX", "", "SFO"}},
			{[]tok{{Kind: tLit, Lit: "/v1/"}, {Kind: tStar}, {Kind: tLit, Lit: "/shop/"}, {Kind: tStar}}, []string{"", "brand/4", "", "blue/xs"}},
			{[]tok{{Kind: tLit, Lit: "/user/"}, {Kind: tPlus}}, []string{"", "a/b"}},
			{[]tok{{Kind: tLit, Lit: "/user/"}, {Kind: tNamedOpt, Name: "name"}}, []string{"", ""}},
		}
		for _, x := range exs {
			for ci := 0; ci < 8; ci++ {
				cr := newCompleteRunner(e, c, pattern{Toks: x.toks}, cfg8(ci))
				if cr != nil && legalFilling(cr.p, x.vals) {
					cr.checkFilling(x.vals)
				}
			}
		}
	})
	maxItems := e.N(5, 6)
	items := enumItems(e)
	cNumItems := len(items)
	total := 0
	pow := 1
	for n := 1; n <= maxItems; n++ {
		pow *= cNumItems
		total += pow
	}
	e.Cases("enum", total, func(c *ev.Case) {
		// decode family index -> (n, idx)
		i, _ := strconv.Atoi(c.ID[strings.Index(c.ID, ":")+1:])
		n, p := 1, cNumItems
		for i >= p {
			i -= p
			n++
			p *= cNumItems
		}
		pat, ok := itemsToPattern(decodeItems(items, i, n))
		if !ok {
			e.Stat("enum_outside_class", 1)
			return
		}
		e.Stat("enum_patterns", 1)
		for ci := 0; ci < 8; ci++ {
			cr := newCompleteRunnerVia(e, c, pat, cfg8(ci), i+ci)
			if cr == nil {
				continue
			}
			cr.exact = true
			forEachFilling(pat, func(vals []string) {
				cr.checkFilling(append([]string(nil), vals...))
				e.Stat("enum_fillings", 1)
			})
			// mutated (mostly non-matching) paths: RoutePatternMatch must agree with dispatch
			base := pat.fill(make([]string, len(pat.Toks)))
			for _, mp := range []string{base + "x", base + "/x", strings.TrimRight(base, "/"), "/", "/x", base + "//", strings.ToUpper(base) + "x", "/%61"} {
				if mp == "" {
					mp = "/"
				}
				ran, _, st := cr.dispatch(mp)
				if st != -1 {
					cr.checkRPM(mp, ran, patternShape(pat))
				}
			}
		}
		if c.R.Chance(1, 500) {
			e.Sample("enumerated-pattern", map[string]any{"pattern": pat.String()})
		}
	})
	e.Stat("enum_space_complete", 1)
	e.Note("enum_bound", fmt.Sprintf("all item strings of length 1..%d over %v inside the delimited class x all legal fillings over %q x 8 configs", maxItems, items, cVals))

	// random larger patterns
	e.Cases("random", e.N(100000, 2000000), func(c *ev.Case) {
		r := c.R
		n := r.Range(3, 10)
		lits := []string{"a", "b", "ab", "/", "-", ".", "/api", "/v1/", "-x", ".json", "/Shop", "Ab", "/q", "/CAFÉ", "-Ärger", "/ΩΩ", "é"}
		var toks []tok
		toks = append(toks, tok{Kind: tLit, Lit: "/"})
		nn := 0
		for i := 0; i < n; i++ {
			last := &toks[len(toks)-1]
			if last.Kind == tLit && r.Chance(2, 5) {
				t := tok{Kind: []int{tNamed, tNamedOpt, tStar, tPlus}[r.PickW(50, 20, 15, 15)]}
				if t.Kind == tNamed || t.Kind == tNamedOpt {
					nn++
					t.Name = "x" + strconv.Itoa(nn)
				}
				toks = append(toks, t)
				continue
			}
			l := gen.Pick(r, lits)
			if last.Kind == tLit {
				if strings.HasSuffix(last.Lit, "/") && strings.HasPrefix(l, "/") {
					l = l[1:]
				}
				last.Lit += l
			} else {
				for l[0] != '/' && l[0] != '-' && l[0] != '.' {
					l = gen.Pick(r, lits)
				}
				toks = append(toks, tok{Kind: tLit, Lit: l})
			}
		}
		// the literal that follows a greedy parameter comes back later in the pattern, behind a
		// further parameter, in another letter case ("/*/a/:x/A", "/+.Tar/:b.tar")
		if r.Chance(1, 6) {
			for i := 0; i+1 < len(toks); i++ {
				if (toks[i].Kind == tStar || toks[i].Kind == tPlus) && toks[i+1].Kind == tLit && r.Chance(1, 2) {
					tw := caseTwin(r, strings.TrimRight(toks[i+1].Lit, "/"))
					if tw == "" {
						continue
					}
					if toks[len(toks)-1].Kind != tLit {
						toks = append(toks, tok{Kind: tLit, Lit: gen.Pick(r, []string{"/", "-", "."})})
					}
					nn++
					toks = append(toks, tok{Kind: []int{tNamed, tNamedOpt, tPlus}[r.PickW(60, 20, 20)], Name: "x" + strconv.Itoa(nn)}, tok{Kind: tLit, Lit: tw})
					if toks[len(toks)-2].Kind == tPlus {
						toks[len(toks)-2].Name = ""
					}
					e.Stat("random_patterns_with_case_twin_of_the_literal_behind_a_greedy_parameter", 1)
					break
				}
			}
		}
		pat := pattern{Toks: toks}
		if pat.nParams() > 25 {
			return
		}
		vpool := []string{"", "x", "xy", "x-y", "x.y", "x/y", "Xy", "hello", "a", "b", "ab", "é", "1", "x_y", "~"}
		cfg := cfg8(r.Intn(8))
		cfg.CustomCtx = r.Chance(1, 4)
		cr := newCompleteRunnerVia(e, c, pat, cfg, r.Intn(9))
		if cr == nil {
			return
		}
		for k := 0; k < 6; k++ {
			vals := make([]string, len(toks))
			for i, t := range toks {
				if t.Kind != tLit {
					vals[i] = gen.Pick(r, vpool)
				}
			}
			if !legalFilling(pat, vals) {
				continue
			}
			cr.checkFilling(vals)
		}
		if c.R.Chance(1, 2000) {
			e.Sample("random-pattern", map[string]any{"pattern": pat.String(), "cfg": cfg.String()})
		}
	})

	// Long patterns: 28, 29 and 30 parameters — 30 is the most a request context holds (a pattern
	// with 31 registers, but serving any request that reaches it panics with an index out of
	// range in the matcher, on the unchanged tree as well: not generated). Every filling is
	// dispatched on an app that has just served another filling of the same pattern, so a value
	// that is not written shows up as empty or as the previous request's.
	e.Cases("long", e.N(400, 8000), func(c *ev.Case) {
		r := c.R
		n := gen.Pick(r, []int{28, 29, 30, 30})
		seps := []string{"/", "/", "-", ".", "/a/", "-x-", ".v."}
		toks := []tok{{Kind: tLit, Lit: gen.Pick(r, []string{"/", "/api/", "/v1-"})}}
		nn := 0
		for i := 0; i < n; i++ {
			t := tok{Kind: []int{tNamed, tNamedOpt, tStar, tPlus}[r.PickW(80, 12, 4, 4)]}
			if t.Kind == tNamed || t.Kind == tNamedOpt {
				nn++
				t.Name = "p" + strconv.Itoa(nn)
			}
			toks = append(toks, t)
			if i < n-1 || r.Chance(1, 3) {
				toks = append(toks, tok{Kind: tLit, Lit: gen.Pick(r, seps)})
			}
		}
		pat := pattern{Toks: toks}
		cfg := cfg8(r.Intn(8))
		cfg.CustomCtx = r.Chance(1, 4)
		cr := newCompleteRunnerVia(e, c, pat, cfg, r.Intn(9))
		if cr == nil {
			return
		}
		vpool := []string{"x", "xy", "v1", "hello", "Q", "7", "zz9"}
		fill := func() []string {
			vals := make([]string, len(toks))
			for i, t := range toks {
				if t.Kind == tLit {
					continue
				}
				vals[i] = gen.Pick(r, vpool)
				if (t.Kind == tNamedOpt || t.Kind == tStar) && r.Chance(1, 3) {
					vals[i] = ""
				}
			}
			return vals
		}
		judged := 0
		for k := 0; k < 8 && judged < 3; k++ {
			warm, vals := fill(), fill()
			if !legalFilling(pat, warm) || !legalFilling(pat, vals) {
				continue
			}
			cr.dispatch(pat.fill(warm)) // the request before: other values in the context's slots
			cr.checkFilling(vals)
			judged++
		}
		e.Stat(fmt.Sprintf("long_patterns_with_%d_parameters", n), 1)
		if judged == 0 {
			e.Stat("long_patterns_without_legal_filling", 1)
		}
		if c.R.Chance(1, 100) {
			e.Sample("long-pattern", map[string]any{"pattern": pat.String(), "cfg": cfg.String(), "parameters": n})
		}
	})

	// '+' and blanks. With UnescapePath the framework decodes the path with a query-argument
	// decoder, which also turns '+' into a blank; the documentation only speaks of "encoded
	// characters", so what a '+' means under UnescapePath is not judged by construction. Judged
	// for every spelling, under all 8 configurations: RoutePatternMatch answers exactly as
	// dispatching the path to an app holding only that route. Without UnescapePath nothing is
	// decoded and a '+' is an ordinary byte: there the by-construction clause is judged too.
	e.Cases("plus", e.N(15000, 300000), func(c *ev.Case) {
		r := c.R
		n := r.Range(2, 7)
		lits := []string{"a", "b", "/", "-", ".", "/c++", "/a+b", "-x+", "/x y", "/v1/", ".json", "/q", "+", " ", "/Shop", "a b"}
		var toks []tok
		toks = append(toks, tok{Kind: tLit, Lit: "/"})
		nn := 0
		for i := 0; i < n; i++ {
			last := &toks[len(toks)-1]
			if last.Kind == tLit && r.Chance(2, 5) {
				t := tok{Kind: []int{tNamed, tNamedOpt, tStar, tPlus}[r.PickW(50, 20, 15, 15)]}
				if t.Kind == tNamed || t.Kind == tNamedOpt {
					nn++
					t.Name = "x" + strconv.Itoa(nn)
				}
				toks = append(toks, t)
				continue
			}
			l := gen.Pick(r, lits)
			if last.Kind == tLit {
				if strings.HasSuffix(last.Lit, "/") && strings.HasPrefix(l, "/") {
					l = l[1:]
				}
				last.Lit += l
			} else {
				for l[0] != '/' && l[0] != '-' && l[0] != '.' {
					l = gen.Pick(r, lits)
				}
				toks = append(toks, tok{Kind: tLit, Lit: l})
			}
		}
		pat := pattern{Toks: toks}
		vpool := []string{"", "x", "xy", "a+b", "+", "x y", "1+1", "a b c", "+x", "y+", "Xy"}
		cfg := cfg8(r.Intn(8))
		cfg.CustomCtx = r.Chance(1, 4)
		cr := newCompleteRunnerVia(e, c, pat, cfg, r.Intn(9))
		if cr == nil {
			return
		}
		shape := patternShape(pat)
		for k := 0; k < 6; k++ {
			vals := make([]string, len(toks))
			for i, t := range toks {
				if t.Kind != tLit {
					vals[i] = gen.Pick(r, vpool)
				}
			}
			if !legalFilling(pat, vals) {
				continue
			}
			logical := pat.fill(vals)
			if !cfg.Unescape && !strings.Contains(logical, " ") {
				cr.checkFilling(vals)
				e.Stat("plus_fillings_judged_by_construction_without_unescape", 1)
			}
			// wire spellings of the described text: a blank as '+' or %20, a '+' as itself or
			// %2B, possibly one more byte percent-encoded (a '%' elsewhere in the path)
			for j := 0; j < 3; j++ {
				var sb strings.Builder
				for i := 0; i < len(logical); i++ {
					switch ch := logical[i]; {
					case ch == ' ':
						sb.WriteString(gen.Pick(r, []string{"+", "%20"}))
					case ch == '+' && r.Chance(1, 4):
						sb.WriteString("%2B")
					case ch != '/' && ch != '+' && r.Chance(1, 12):
						fmt.Fprintf(&sb, "%%%02X", ch)
					default:
						sb.WriteByte(ch)
					}
				}
				sp := sb.String()
				ran, _, st := cr.dispatch(sp)
				if st == -1 {
					continue
				}
				cr.checkRPM(sp, ran, shape)
				if strings.Contains(sp, "+") {
					e.Nontrivial(cr.text, sp, cfg.String())
					if strings.Contains(sp, "%") {
						e.Stat("plus_paths_with_percent", 1)
					} else {
						e.Stat("plus_paths_without_percent", 1)
					}
					if ran {
						e.Stat("plus_paths_matched", 1)
					}
				}
			}
		}
		if c.R.Chance(1, 1000) {
			e.Sample("plus-pattern", map[string]any{"pattern": pat.String(), "cfg": cfg.String()})
		}
	})
}
