package route

import (
	"errors"
	"fmt"
	"regexp"
	"sort"
	"strings"

	"github.com/gofiber/fiber/v3"
	"github.com/gofiber/fiber/v3/middleware/rewrite"

	"verifharness/internal/drive"
	"verifharness/internal/ev"
	"verifharness/internal/gen"
	"verifharness/internal/reg"
)

func init() { reg.Register("route.dispatch", runDispatch) }

// handler effects
const (
	effNext = iota
	effStop
	effErr
	effPath   // c.Path(arg) then Next
	effMethod // c.Method(arg) then Next
	// c.Path(<string derived from the current c.Path() or c.OriginalURL()>) then Next: the
	// prefix-stripping idiom c.Path(strings.TrimPrefix(c.Path(), "/api")) — the new path is a
	// view of the string the context handed out
	effPathDerive
	// the framework's own rewrite middleware with one rule (arg "from=>to"): it overrides the
	// path when the rule applies and calls Next
	effRewrite
	// the fallback-page idiom: err := c.Next(); when the router answers 404/405 (nothing after
	// this handler matched) the handler overrides the path (arg) and calls Next again
	effFallback
)

// rewriteTarget gives the path the rewrite middleware sets for the rule "from=>to" on the
// current path, following the documented rule syntax ('*' captures, $1 $2 … in the target; the
// rule is matched against the end of the path). ok=false: the rule does not apply.
func rewriteTarget(cur, arg string) (string, bool) {
	i := strings.Index(arg, "=>")
	from, to := arg[:i], arg[i+2:]
	re := regexp.MustCompile(strings.ReplaceAll(regexp.QuoteMeta(from), `\*`, "(.*)") + "$")
	m := re.FindStringSubmatch(cur)
	if m == nil {
		return cur, false
	}
	for k := len(m) - 1; k >= 1; k-- {
		to = strings.ReplaceAll(to, fmt.Sprintf("$%d", k), m[k])
	}
	return to, true
}

var rewriteRules = []string{"/a=>/ab", "/ab=>/abc", "/abc=>/x", "/x=>/abc/d", "/ab/*=>/abc/$1", "/abc/*=>/$1", "/*/d=>/ab/$1", "/A=>/a", "/abcd=>/", "/=>/abc"}

// derivePath computes the override of an effPathDerive handler from the current path (cur) and
// the request URI as sent (orig). Pure string work, used by the handler and by the oracle. A
// result that is not a rooted path leaves the path as it is.
func derivePath(cur, orig, arg string) string {
	out := cur
	switch {
	case arg == "orig":
		out = orig
	case strings.HasPrefix(arg, "trim:"):
		out = strings.TrimPrefix(cur, arg[5:])
	case strings.HasPrefix(arg, "trimsuffix:"):
		out = strings.TrimSuffix(cur, arg[11:])
	case strings.HasPrefix(arg, "cut:"):
		n := int(arg[4] - '0')
		if n < len(cur) {
			out = cur[n:]
		}
	}
	if out == "" || out[0] != '/' {
		return cur
	}
	return out
}

var deriveArgs = []string{"trim:/a", "trim:/ab", "trim:/abc", "trim:/A", "trim:/x", "cut:2", "cut:3", "cut:4", "trimsuffix:/d", "trimsuffix:/", "trimsuffix:c", "orig"}

func isASCII(s string) bool {
	for i := 0; i < len(s); i++ {
		if s[i] >= 0x80 {
			return false
		}
	}
	return true
}

func hasNonASCIIUpper(s string) bool {
	for _, r := range s {
		if r >= 0x80 && strings.ToLower(string(r)) != string(r) {
			return true
		}
	}
	return false
}

func pctEncodeNonASCII(s string) string {
	var sb strings.Builder
	for i := 0; i < len(s); i++ {
		if s[i] >= 0x80 {
			fmt.Fprintf(&sb, "%%%02X", s[i])
		} else {
			sb.WriteByte(s[i])
		}
	}
	return sb.String()
}

// spellPath writes out the full path of `sub` registered under `prefix`: the prefix itself for
// an empty sub-path, otherwise prefix and sub-path joined by exactly one slash.
func spellPath(prefix, sub string) string {
	if sub == "" {
		return prefix
	}
	if prefix == "" {
		return sub
	}
	return strings.TrimRight(prefix, "/") + "/" + strings.TrimLeft(sub, "/")
}

// groupPrefix is the spelled-out prefix of group gid ("" for the app).
func (p *program) groupPrefix(gid int) string {
	if gid < 0 {
		return ""
	}
	g := p.Groups[gid]
	return spellPath(p.groupPrefix(g.Parent), g.Prefix)
}

// fullPath is the spelled-out path under which unit u registers its handlers.
func (p *program) fullPath(u *unit) string {
	if len(u.RoutePath) > 0 {
		acc := u.RoutePath[0]
		for _, s := range u.RoutePath[1:] {
			acc = spellPath(acc, s)
		}
		return acc
	}
	if u.Kind == "usenp" {
		return p.groupPrefix(u.Gid)
	}
	return spellPath(p.groupPrefix(u.Gid), u.Path)
}

type hspec struct {
	ID  int    `json:"id"`
	Eff int    `json:"eff"`
	Arg string `json:"arg,omitempty"`
}

// unit is one API call that registers handlers.
type unit struct {
	Gid     int      `json:"gid"`  // enclosing group (-1 = app)
	Kind    string   `json:"kind"` // get post … add all use usenp groupuse route.get route.all …
	Methods []string `json:"methods,omitempty"`
	Path    string   `json:"path"`
	Hs      []hspec  `json:"hs"`
	// multi-prefix Use: units produced by one Use([]string{…}) call share Multi (index of first)
	Multi    int      `json:"multi"`
	Prefixes []string `json:"prefixes,omitempty"`
	// route chains: Route(RoutePath[0]).Route(RoutePath[1])…
	RoutePath []string `json:"route_path,omitempty"`
}

type group struct {
	Parent int    `json:"parent"`
	Prefix string `json:"prefix"`
	Unit   int    `json:"unit"` // index of its groupuse unit or -1
}

type program struct {
	Cfg    Cfg     `json:"cfg"`
	Groups []group `json:"groups"`
	Units  []unit  `json:"units"`
}

// ---- generation

var litPool = []string{"/", "/a", "/ab", "/abc", "/abcd", "/ab/", "/abc/", "/abc/d", "/x", "/abx", "/abc/d/e", "/A", "/aB", "/ABC",
	// non-ASCII letters, upper-case ones included
	"/Ärzte", "/Ölçü/a", "/İ", "/ab/É", "/ärzte"}
var paramPool = []string{"/:p", "/a:p", "/ab:p", "/abc:p", "/ab*", "/+", "/*", "/:p?", "/abc/:p", "/abc/:p?", "/ab/*", "/a/:p/d", "/:p/:q", "/abc/+", "/:p-:q", "/ab.:p", `/a\:b`, "/ab/:p<int>", "/:p<maxLen(2)>"}

func genPath(r *gen.Rand) string {
	var p string
	if r.Chance(3, 5) {
		p = gen.Pick(r, litPool)
	} else {
		p = gen.Pick(r, paramPool)
	}
	if r.Chance(1, 8) && !strings.HasSuffix(p, "/") {
		p += "/"
	}
	return p
}

func genPrefix(r *gen.Rand) string {
	return gen.Pick(r, []string{"/", "/a", "/ab", "/abc", "/ab/", "/:v", "/abc/d", "", "/A", "/Ärzte", "/Ö"})
}

func genProgram(r *gen.Rand) *program {
	p := &program{Cfg: genCfg(r)}
	methods := p.Cfg.Methods()
	n := r.Range(1, 14)
	nextID := 0
	forceK := 0
	mkHs := func(allowEff bool) []hspec {
		k := 1
		if r.Chance(1, 4) {
			k = r.Range(2, 3)
		} else if r.Chance(1, 8) {
			k = r.Range(4, 7)
		}
		if forceK > 0 {
			k, forceK = forceK, 0
		}
		hs := make([]hspec, k)
		for i := range hs {
			hs[i] = hspec{ID: nextID}
			nextID++
		}
		// effects: mostly Next; the last handler of a unit may stop / err / rewrite
		if allowEff {
			last := &hs[k-1]
			switch r.PickW(50, 25, 5, 12, 8, 8, 8) {
			case 1:
				last.Eff = effStop
			case 2:
				last.Eff = effErr
			case 3:
				last.Eff = effPath
				last.Arg = fillSimple(r, genPath(r))
			case 4:
				last.Eff = effMethod
				last.Arg = gen.Pick(r, methods)
			case 5:
				last.Eff = effPathDerive
				last.Arg = gen.Pick(r, deriveArgs)
			case 6:
				last.Eff = effRewrite
				last.Arg = gen.Pick(r, rewriteRules)
			}
		}
		return hs
	}
	curG := -1
	for len(p.Units) < n {
		// open / close groups
		if r.Chance(1, 6) && len(p.Groups) < 4 {
			// the empty prefix included: grp.Group("", mw) attaches middleware to a part of a group
			g := group{Parent: curG, Prefix: genPrefix(r), Unit: -1}
			gid := len(p.Groups)
			if r.Bool() {
				g.Unit = len(p.Units)
				p.Units = append(p.Units, unit{Gid: curG, Kind: "groupuse", Path: g.Prefix, Hs: mkHs(true), Multi: -1})
			}
			p.Groups = append(p.Groups, g)
			curG = gid
			continue
		}
		if curG >= 0 && r.Chance(1, 4) {
			curG = p.Groups[curG].Parent
			continue
		}
		u := unit{Gid: curG, Multi: -1}
		switch r.PickW(40, 8, 6, 14, 10, 6, 8) {
		case 0:
			m := gen.Pick(r, methods)
			u.Kind = "m"
			u.Methods = []string{m}
			u.Path = genPath(r)
		case 1:
			u.Kind = "add"
			k := r.Range(1, 3)
			ms := append([]string(nil), methods...)
			gen.Shuffle(r, ms)
			u.Methods = ms[:k]
			u.Path = genPath(r)
		case 2:
			u.Kind = "all"
			u.Path = genPath(r)
		case 3:
			u.Kind = "use"
			u.Path = genPrefix(r)
			if r.Chance(1, 5) {
				u.Path = genPath(r)
			}
		case 4:
			u.Kind = "usenp"
		case 5:
			// multi prefix use → one unit per prefix, sharing handlers
			k := r.Range(2, 3)
			pf := make([]string, k)
			for i := range pf {
				pf[i] = genPrefix(r)
			}
			hs := mkHs(false)
			first := len(p.Units)
			for i := range pf {
				p.Units = append(p.Units, unit{Gid: curG, Kind: "use", Path: pf[i], Hs: hs, Multi: first, Prefixes: pf})
			}
			continue
		case 6:
			if curG >= 0 {
				continue // Route() chains hang off the app
			}
			u.RoutePath = []string{genPath(r)}
			for lvl := 0; lvl < 2 && r.Chance(1, 3); lvl++ {
				u.RoutePath = append(u.RoutePath, gen.Pick(r, []string{"/d", "/:q", "/", "", "/d/", "/abc/", "d"}))
			}
			if r.Chance(1, 4) {
				u.Kind = "route.all"
			} else {
				u.Kind = "route.m"
				u.Methods = []string{gen.Pick(r, methods)}
			}
		}
		// an empty sub-path on a group: grp.Get("", h) answers the group's prefix itself
		if curG >= 0 && (u.Kind == "m" || u.Kind == "add" || u.Kind == "all" || u.Kind == "use") && r.Chance(1, 6) {
			u.Path = ""
		}
		// same path registered again for single methods right behind a registration for several
		// methods (All / Add with a list, 1–7 handlers), with handlers of its own
		again := len(u.RoutePath) == 0 && (u.Kind == "all" || u.Kind == "add") && r.Chance(1, 3)
		if again {
			forceK = r.Range(1, 7)
		}
		u.Hs = mkHs(true)
		p.Units = append(p.Units, u)
		if again {
			ms := u.Methods
			if u.Kind == "all" {
				ms = methods
			}
			for j := 0; j < 2 && j < len(ms); j++ {
				t := unit{Gid: u.Gid, Kind: "m", Methods: []string{ms[(j+r.Intn(len(ms)))%len(ms)]}, Path: u.Path, Multi: -1}
				t.Hs = mkHs(true)
				p.Units = append(p.Units, t)
			}
			continue
		}
		// near-twin registered right behind: same call, path differing only in letter case,
		// trailing slash or escaping (the router folds *identical* consecutive registrations
		// into one route; near-twins must stay separate routes)
		if len(u.RoutePath) == 0 && u.Kind != "usenp" && u.Path != "" && r.Chance(1, 5) {
			t := u
			t.Path = twinPath(r, u.Path)
			t.Hs = mkHs(true)
			p.Units = append(p.Units, t)
		}
	}
	return p
}

func twinPath(r *gen.Rand, p string) string {
	switch r.Intn(4) {
	case 0: // flip the case of one letter
		b := []byte(p)
		for i := range b {
			j := (i + r.Intn(len(b))) % len(b)
			if b[j] >= 'a' && b[j] <= 'z' && (j == 0 || (b[j-1] != ':' && b[j-1] != '<')) {
				b[j] -= 32
				return string(b)
			}
		}
	case 1:
		if strings.HasSuffix(p, "/") && len(p) > 1 {
			return p[:len(p)-1]
		}
		return p + "/"
	case 2: // escaping
		if strings.Contains(p, `\`) {
			return strings.Replace(p, `\`, "", 1)
		}
		for _, ch := range []string{":", "*", "+"} {
			if i := strings.Index(p, ch); i >= 0 {
				return p[:i] + `\` + p[i:]
			}
		}
	}
	return p
}

// fillSimple turns a pattern from the pools into a concrete path.
func fillSimple(r *gen.Rand, pat string) string {
	vals := []string{"a", "ab", "abc", "x", "1", "12", "abcd", "d"}
	var sb strings.Builder
	for i := 0; i < len(pat); i++ {
		c := pat[i]
		switch c {
		case '\\':
			continue
		case ':':
			if i > 0 && pat[i-1] == '\\' {
				sb.WriteByte(c)
				continue
			}
			// skip name, constraint, '?'
			j := i + 1
			for j < len(pat) && (pat[j] >= 'a' && pat[j] <= 'z') {
				j++
			}
			if j < len(pat) && pat[j] == '<' {
				for j < len(pat) && pat[j] != '>' {
					j++
				}
				j++
			}
			opt := j < len(pat) && pat[j] == '?'
			if opt {
				j++
			}
			if !(opt && r.Chance(1, 3)) {
				sb.WriteString(gen.Pick(r, vals))
			}
			i = j - 1
		case '*':
			if r.Chance(2, 3) {
				sb.WriteString(gen.Pick(r, []string{"a", "a/b", "abc/d", "x"}))
			}
		case '+':
			sb.WriteString(gen.Pick(r, []string{"a", "a/b", "abc/d", "x"}))
		default:
			sb.WriteByte(c)
		}
	}
	s := sb.String()
	if s == "" || s[0] != '/' {
		s = "/" + s
	}
	return s
}

func mutatePath(r *gen.Rand, p string) string {
	switch r.Intn(9) {
	case 0: // case flip
		b := []byte(p)
		if len(b) > 1 {
			i := r.Range(1, len(b)-1)
			if b[i] >= 'a' && b[i] <= 'z' {
				b[i] -= 32
			} else if b[i] >= 'A' && b[i] <= 'Z' {
				b[i] += 32
			}
		}
		return string(b)
	case 1:
		return p + "/"
	case 2:
		if len(p) > 1 {
			return strings.TrimRight(p, "/")
		}
	case 3: // truncate to 0..4 bytes
		k := r.Range(1, 4)
		if len(p) > k {
			return p[:k]
		}
	case 4: // %xx encode one letter
		if len(p) > 1 {
			i := r.Range(1, len(p)-1)
			if p[i] != '/' {
				return p[:i] + fmt.Sprintf("%%%02X", p[i]) + p[i+1:]
			}
		}
	case 5:
		return p + gen.Pick(r, []string{"x", "/d", "d", "/e"})
	}
	return p
}

// ---- building

type builder struct {
	tr   *tracer
	solo bool
}

func (b *builder) handler(h hspec) fiber.Handler {
	tr := b.tr
	if b.solo {
		return func(c fiber.Ctx) error {
			tr.ids = append(tr.ids, h.ID)
			return c.Next()
		}
	}
	if h.Eff == effRewrite {
		i := strings.Index(h.Arg, "=>")
		rw := rewrite.New(rewrite.Config{Rules: map[string]string{h.Arg[:i]: h.Arg[i+2:]}})
		return func(c fiber.Ctx) error {
			tr.ids = append(tr.ids, h.ID)
			return rw(c)
		}
	}
	return func(c fiber.Ctx) error {
		tr.ids = append(tr.ids, h.ID)
		switch h.Eff {
		case effStop:
			return c.SendStatus(200)
		case effErr:
			return fiber.NewError(418, "teapot")
		case effPath:
			c.Path(h.Arg)
		case effPathDerive:
			c.Path(derivePath(c.Path(), c.OriginalURL(), h.Arg))
		case effMethod:
			c.Method(h.Arg)
		case effFallback:
			err := c.Next()
			var fe *fiber.Error
			// (a page that falls back to itself has nothing to override: without an override the
			// statement says nothing about a second Next)
			if errors.As(err, &fe) && (fe.Code == 404 || fe.Code == 405) && c.Path() != h.Arg {
				c.Path(h.Arg)
				return c.Next()
			}
			return err
		}
		return c.Next()
	}
}

func (b *builder) hs(u *unit) (fiber.Handler, []fiber.Handler) {
	out := make([]fiber.Handler, len(u.Hs))
	for i, h := range u.Hs {
		out[i] = b.handler(h)
	}
	return out[0], out[1:]
}

func anyHs(first fiber.Handler, rest []fiber.Handler) []any {
	out := []any{first}
	for _, h := range rest {
		out = append(out, h)
	}
	return out
}

// apply performs the unit's API call on router rt (the app or the enclosing group).
func (b *builder) apply(app *fiber.App, rt fiber.Router, u *unit, multiAll bool) fiber.Router {
	h0, hr := b.hs(u)
	switch u.Kind {
	case "m", "add":
		rt.Add(u.Methods, u.Path, h0, hr...)
	case "all":
		rt.All(u.Path, h0, hr...)
	case "use":
		if u.Multi >= 0 && multiAll {
			rt.Use(append([]any{u.Prefixes}, anyHs(h0, hr)...)...)
		} else {
			rt.Use(append([]any{u.Path}, anyHs(h0, hr)...)...)
		}
	case "usenp":
		rt.Use(anyHs(h0, hr)...)
	case "groupuse":
		return rt.Group(u.Path, append([]fiber.Handler{h0}, hr...)...)
	case "route.m", "route.all":
		rg := app.Route(u.RoutePath[0])
		for _, s := range u.RoutePath[1:] {
			rg = rg.Route(s)
		}
		if u.Kind == "route.all" {
			rg.All(h0, hr...)
		} else {
			rg.Add(u.Methods, h0, hr...)
		}
	}
	return nil
}

// fullBuilder registers a program on one app, possibly in several steps (routes added after the
// app has already served requests).
type fullBuilder struct {
	p       *program
	app     *fiber.App
	b       *builder
	routers map[int]fiber.Router
	done    int // units [0,done) are registered
}

func newFullBuilder(p *program, tr *tracer) *fullBuilder {
	app := p.Cfg.NewApp()
	return &fullBuilder{p: p, app: app, b: &builder{tr: tr}, routers: map[int]fiber.Router{-1: app}}
}

func (fb *fullBuilder) router(gid int) fiber.Router {
	if rt, ok := fb.routers[gid]; ok {
		return rt
	}
	g := fb.p.Groups[gid]
	// group without handlers (or whose groupuse unit has not been reached: cannot happen,
	// the unit precedes every member)
	rt := fb.router(g.Parent).Group(g.Prefix)
	fb.routers[gid] = rt
	return rt
}

// registerUpTo performs the API calls of units [done,upto).
func (fb *fullBuilder) registerUpTo(upto int) {
	p := fb.p
	for i := fb.done; i < upto; i++ {
		u := &p.Units[i]
		if u.Multi >= 0 && u.Multi != i {
			continue // registered by the first unit of the multi call
		}
		rt := fb.b.apply(fb.app, fb.router(u.Gid), u, true)
		if u.Kind == "groupuse" {
			for gid, g := range p.Groups {
				if g.Unit == i {
					fb.routers[gid] = rt
				}
			}
		}
	}
	fb.done = upto
}

// buildFull registers the whole program.
func buildFull(p *program, tr *tracer) *fiber.App {
	fb := newFullBuilder(p, tr)
	fb.registerUpTo(len(p.Units))
	return fb.app
}

// splitPoint moves a cut between units forward until it does not fall inside one multi-prefix
// Use call (whose units are registered together).
func splitPoint(p *program, k int) int {
	for k < len(p.Units) && p.Units[k].Multi >= 0 && p.Units[k].Multi != k {
		k++
	}
	return k
}

// buildSolo registers only unit i (groups re-created without their handlers).
func buildSolo(p *program, i int, tr *tracer) *fiber.App {
	app := p.Cfg.NewApp()
	b := &builder{tr: tr, solo: true}
	var router func(gid int) fiber.Router
	router = func(gid int) fiber.Router {
		if gid < 0 {
			return app
		}
		g := p.Groups[gid]
		return router(g.Parent).Group(g.Prefix)
	}
	u := &p.Units[i]
	b.apply(app, router(u.Gid), u, false)
	return app
}

// buildSpelledSolo registers only unit i, directly on the app, under its spelled-out full path
// (no Group, no Route chain).
func buildSpelledSolo(p *program, i int, tr *tracer) *fiber.App {
	app := p.Cfg.NewApp()
	b := &builder{tr: tr, solo: true}
	u := &p.Units[i]
	h0, hr := b.hs(u)
	full := p.fullPath(u)
	switch u.Kind {
	case "m", "add", "route.m":
		app.Add(u.Methods, full, h0, hr...)
	case "all":
		app.All(full, h0, hr...)
	case "use", "usenp", "groupuse", "route.all": // Route(path).All(h) registers a prefix middleware

		app.Use(append([]any{full}, anyHs(h0, hr)...)...)
	}
	return app
}

// prefixClass: input class of a unit registered through groups / Route chains.
func (p *program) prefixClass(u *unit) string {
	empty, slash := false, false
	note := func(s string) {
		if s == "" {
			empty = true
		}
		if len(s) > 1 && strings.HasSuffix(s, "/") {
			slash = true
		}
	}
	if len(u.RoutePath) > 0 {
		for _, s := range u.RoutePath[1:] {
			note(s)
		}
		if len(u.RoutePath) > 1 && len(u.RoutePath[0]) > 1 && strings.HasSuffix(u.RoutePath[0], "/") {
			slash = true
		}
	} else {
		if u.Kind == "usenp" {
			empty = true
		} else {
			note(u.Path)
		}
		for g := u.Gid; g >= 0; g = p.Groups[g].Parent {
			// prefixes of the enclosing groups: only their trailing slashes matter here
			if pf := p.Groups[g].Prefix; len(pf) > 1 && strings.HasSuffix(pf, "/") {
				slash = true
			}
		}
	}
	switch {
	case empty && slash:
		return "empty-sub-path-under-prefix-with-trailing-slash"
	case empty:
		return "empty-sub-path"
	case slash:
		return "trailing-slash-in-prefix-or-sub-path"
	}
	return "plain-prefix-and-sub-path"
}

// ---- oracle

type soloInfo struct {
	d        *drive.Direct
	endpoint bool
}

type oracle struct {
	p       *program
	tr      *tracer
	solos   []*soloInfo
	spelled []*soloInfo
	memo    map[string]bool
	e       *ev.Env
	c       *ev.Case
}

func (o *oracle) solo(i int, m, path string) bool {
	key := fmt.Sprintf("%d\x00%s\x00%s", i, m, path)
	if v, ok := o.memo[key]; ok {
		return v
	}
	s := o.solos[i]
	if s == nil {
		app := buildSolo(o.p, i, o.tr)
		s = &soloInfo{d: drive.NewDirect(app), endpoint: len(app.GetRoutes(true)) > 0}
		o.solos[i] = s
	}
	o.tr.reset()
	do(s.d, m, path)
	v := len(o.tr.ids) > 0
	o.memo[key] = v
	// Index-free cross-check: an endpoint registered directly on the app handles a path alone
	// exactly when RoutePatternMatch (which never consults the 3-byte lookup index) says the
	// pattern matches it.
	u := &o.p.Units[i]
	// A request spelled exactly as a literal route or middleware prefix was registered matches it,
	// whatever the routing options (with UnescapePath also when its non-ASCII bytes are
	// percent-encoded).
	if o.e != nil && validMethod(o.p.Cfg, m) && !strings.HasPrefix(u.Path, "//") {
		full := o.p.fullPath(u)
		if len(full) > 0 && full[0] == '/' && !strings.ContainsAny(full, `:*+?\<>()%`) && !strings.Contains(full, "//") {
			handles := u.Kind != "m" && u.Kind != "add" && u.Kind != "route.m"
			for _, um := range u.Methods {
				handles = handles || um == m
			}
			asRegistered := path == full || o.p.Cfg.Unescape && path != full && path == pctEncodeNonASCII(full)
			if handles && asRegistered {
				o.e.Eval(1)
				o.e.Stat("requests_spelled_exactly_as_registered", 1)
				if !v {
					cls := "ascii"
					switch {
					case hasNonASCIIUpper(full):
						cls = "non-ascii-upper-case-letter"
					case !isASCII(full):
						cls = "non-ascii"
					}
					if path != full {
						cls += "+percent-encoded"
					}
					o.e.Violation(o.c, "dispatch|path-spelled-as-registered-not-matched|"+u.Kind+"|"+cls,
						fmt.Sprintf("%s %s: the %s unit registered under %q (alone on an app) does not run", m, path, u.Kind, full),
						map[string]any{"cfg": o.p.Cfg.String(), "unit": u, "groups": o.p.Groups, "spelled_path": full, "method": m, "path": path})
				}
			}
		}
	}
	// Units registered through a group or a Route chain: the same handlers registered directly on
	// an app under the spelled-out full path handle exactly the same requests.
	// (a sub-path written with several leading slashes has no single spelled-out form: not compared)
	if o.e != nil && o.spelled != nil && (u.Gid >= 0 || len(u.RoutePath) > 1 || u.Kind == "groupuse") && !strings.HasPrefix(u.Path, "//") {
		sp := o.spelled[i]
		if sp == nil {
			sp = &soloInfo{d: drive.NewDirect(buildSpelledSolo(o.p, i, o.tr))}
			o.spelled[i] = sp
		}
		o.tr.reset()
		do(sp.d, m, path)
		w := len(o.tr.ids) > 0
		o.e.Eval(1)
		o.e.Stat("group_or_route_chain_units_compared_with_spelled_path", 1)
		if w != v {
			kind := "group"
			if len(u.RoutePath) > 0 {
				kind = "route-chain"
			}
			o.e.Violation(o.c, fmt.Sprintf("dispatch|%s-registration-differs-from-spelled-path|%s|%s", kind, u.Kind, o.p.prefixClass(u)),
				fmt.Sprintf("%s %s: unit %s registered through its %s runs=%v, registered directly under the spelled-out path %q runs=%v", m, path, u.Kind, kind, v, o.p.fullPath(u), w),
				map[string]any{"cfg": o.p.Cfg.String(), "unit": u, "groups": o.p.Groups, "spelled_path": o.p.fullPath(u), "method": m, "path": path})
		}
	}
	if o.e != nil && u.Gid < 0 && len(u.RoutePath) == 0 && (u.Kind == "m" || u.Kind == "add" || u.Kind == "all") && validMethod(o.p.Cfg, m) &&
		!strings.ContainsAny(path, "?#") {
		handles := u.Kind == "all"
		for _, um := range u.Methods {
			if um == m {
				handles = true
			}
		}
		if handles {
			rpm := fiber.RoutePatternMatch(path, u.Path, o.p.Cfg.FiberConfig())
			o.e.Eval(1)
			if rpm != v {
				o.e.Violation(o.c, fmt.Sprintf("dispatch|lookup-index-not-transparent|route-alone-%v-RoutePatternMatch-%v", v, rpm),
					fmt.Sprintf("%s %s on an app holding only %s %q: handler ran=%v, RoutePatternMatch=%v", m, path, u.Kind, u.Path, v, rpm),
					map[string]any{"cfg": o.p.Cfg.String(), "unit": u, "method": m, "path": path})
			}
		}
	}
	return v
}

type expectation struct {
	Trace     []int    `json:"trace"`
	Status    int      `json:"status"` // 0 = not asserted
	Allow     []string `json:"allow,omitempty"`
	PathOv    bool     `json:"path_override"`
	CrossBkt  bool     `json:"path_override_crosses_index_bucket"`
	MethodOv  bool     `json:"method_override"`
	FinalM    string   `json:"final_method"`
	FinalP    string   `json:"final_path"`
	Exhausted bool     `json:"exhausted"`
	// Ambiguous: a handler overrode the path/method and a later unit registers the very same
	// path with the same kind. Fiber folds consecutive identical registrations into one route
	// (like Get(path, h1, h2)); whether h2 is "a later-registered route" or "the next handler of
	// the same route" is not settled by the statement, so such requests are not judged.
	Ambiguous bool `json:"ambiguous"`
	// Derived: an override computed from the current path (a view of the context's own string)
	Derived bool `json:"path_override_derived_from_current_path"`
	// Rewrite: the override was made by the rewrite middleware
	Rewrite bool `json:"path_override_by_rewrite_middleware"`
	// Fallback: a handler called Next, got the router's 404/405 back because no later route
	// matched, then overrode the path and called Next again
	Fallback bool `json:"path_override_after_next_returned_not_found"`
}

func (o *oracle) laterTwin(i int) bool {
	u := &o.p.Units[i]
	isUse := func(k string) bool { return k == "use" || k == "usenp" || k == "groupuse" || k == "route.all" }
	for j := i + 1; j < len(o.p.Units); j++ {
		v := &o.p.Units[j]
		if isUse(u.Kind) != isUse(v.Kind) {
			continue
		}
		norm := func(x *unit) string {
			p := x.Path
			if len(x.RoutePath) > 0 {
				p = strings.Join(x.RoutePath, "/")
			}
			for g := x.Gid; g >= 0; g = o.p.Groups[g].Parent {
				p = o.p.Groups[g].Prefix + "/" + p
			}
			// conservative normal form: case, duplicate and trailing slashes ignored
			p = strings.ToLower(p)
			for strings.Contains(p, "//") {
				p = strings.ReplaceAll(p, "//", "/")
			}
			p = strings.TrimRight(p, "/")
			return p
		}
		if norm(u) == norm(v) {
			return true
		}
	}
	return false
}

// sameBucket reports (conservatively) whether two paths certainly select the same slice of the
// router's 3-byte lookup index. Only used to *classify* violations after a path override (a
// cursor kept across an override stays meaningful inside one bucket); never for a verdict.
func sameBucket(cfg Cfg, a, b string) bool {
	if strings.Contains(a, "%") || strings.Contains(b, "%") {
		return false
	}
	norm := func(s string) string {
		if !cfg.CaseSensitive {
			s = strings.ToLower(s)
		}
		if !cfg.Strict && len(s) > 1 {
			s = strings.TrimRight(s, "/")
		}
		if len(s) < 3 {
			return ""
		}
		return s[:3]
	}
	return norm(a) == norm(b)
}

func validMethod(cfg Cfg, m string) bool {
	ms := fiber.DefaultMethods
	if cfg.CustomMethods {
		ms = customMethodSet
	}
	for _, x := range ms {
		if x == m {
			return true
		}
	}
	return false
}

func allMethods(cfg Cfg) []string {
	if cfg.CustomMethods {
		return customMethodSet
	}
	return fiber.DefaultMethods
}

func (o *oracle) expect(m, path string) *expectation {
	ex := &expectation{}
	orig := path
	if !validMethod(o.p.Cfg, m) {
		ex.Status = 501
		return ex
	}
	endpointRan := false
	fbPending := false
	for i := range o.p.Units {
		u := &o.p.Units[i]
		if !o.solo(i, m, path) {
			continue
		}
		if o.solos[i].endpoint {
			endpointRan = true
		}
		for _, h := range u.Hs {
			ex.Trace = append(ex.Trace, h.ID)
			switch h.Eff {
			case effStop:
				ex.Status = 200
				return ex
			case effErr:
				ex.Status = 418
				return ex
			case effPath, effPathDerive, effRewrite:
				np := h.Arg
				if h.Eff == effRewrite {
					// the middleware reads c.Path(): same restrictions as for derived overrides
					if o.p.Cfg.Unescape && strings.ContainsAny(path+orig, "%+") || strings.ContainsAny(path+orig, "?#") {
						ex.Ambiguous = true
					}
					np, _ = rewriteTarget(path, h.Arg)
					if np != path {
						ex.Rewrite = true
					}
				}
				if h.Eff == effPathDerive {
					// the handler derives the new path from c.Path(), which is the decoded path
					// under UnescapePath: only judged where decoding changes nothing
					if o.p.Cfg.Unescape && strings.ContainsAny(path+orig, "%+") {
						ex.Ambiguous = true
					}
					// a request target with a query or fragment: c.Path() is only its path part and
					// c.OriginalURL() the whole target; the oracle works on the target as sent
					if strings.ContainsAny(path+orig, "?#") {
						ex.Ambiguous = true
					}
					np = derivePath(path, orig, h.Arg)
					ex.Derived = true
				}
				if np != path {
					if o.laterTwin(i) {
						ex.Ambiguous = true
					}
					if !sameBucket(o.p.Cfg, path, np) {
						ex.CrossBkt = true
					}
					path = np
					ex.PathOv = true
				}
			case effMethod:
				if h.Arg != m {
					if o.laterTwin(i) {
						ex.Ambiguous = true
					}
					m = h.Arg
					ex.MethodOv = true
				}
			case effFallback:
				later := false
				for j := i + 1; j < len(o.p.Units); j++ {
					if o.solo(j, m, path) {
						later = true
						break
					}
				}
				if later {
					// routes after this one run first; should they all pass on, the handler
					// overrides the path with the cursor wherever the first pass left it: which
					// routes are "later" then is not settled by the statement
					fbPending = true
					break
				}
				// nothing after this handler matches: Next returns the router's 404/405, the
				// handler overrides the path and the rest of the chain is the later-registered
				// routes matching the new path
				// the handler compares c.Path(), the decoded path without query, with its page
				if o.p.Cfg.Unescape && strings.ContainsAny(path+orig, "%+") || strings.ContainsAny(path+orig+h.Arg, "?#") {
					ex.Ambiguous = true
				}
				if h.Arg == path {
					// already on the fallback page: the handler returns the error as it is
					ex.Exhausted = true
					ex.Fallback = true
					if fbPending {
						// the error travels on to an earlier fallback handler
						ex.Ambiguous = true
					}
					return ex
				}
				ex.Fallback = true
				if o.laterTwin(i) {
					ex.Ambiguous = true
				}
				if !sameBucket(o.p.Cfg, path, h.Arg) {
					ex.CrossBkt = true
				}
				path = h.Arg
				ex.PathOv = true
			}
		}
	}
	if fbPending {
		ex.Ambiguous = true
	}
	ex.Exhausted = true
	ex.FinalM, ex.FinalP = m, path
	if endpointRan {
		// an endpoint matched and passed on: the statement fixes the trace only
		return ex
	}
	for _, om := range allMethods(o.p.Cfg) {
		if om == m {
			continue
		}
		for i := range o.p.Units {
			if o.solo(i, om, path) && o.solos[i].endpoint {
				ex.Allow = append(ex.Allow, om)
				break
			}
		}
	}
	if len(ex.Allow) > 0 {
		ex.Status = 405
	} else {
		ex.Status = 404
	}
	return ex
}

func runDispatch(e *ev.Env) {
	// regression corpus: canonical witnesses
	e.Corpus("rewrite-cursor", func(c *ev.Case) {
		p := &program{Cfg: Cfg{}, Units: []unit{
			{Gid: -1, Kind: "usenp", Hs: []hspec{{ID: 0}}, Multi: -1},
			{Gid: -1, Kind: "m", Methods: []string{"GET"}, Path: "/old1", Hs: []hspec{{ID: 1, Eff: effStop}}, Multi: -1},
			{Gid: -1, Kind: "m", Methods: []string{"GET"}, Path: "/old2", Hs: []hspec{{ID: 2, Eff: effStop}}, Multi: -1},
			{Gid: -1, Kind: "use", Path: "/old3", Hs: []hspec{{ID: 3, Eff: effPath, Arg: "/new"}}, Multi: -1},
			{Gid: -1, Kind: "m", Methods: []string{"GET"}, Path: "/new", Hs: []hspec{{ID: 4, Eff: effStop}}, Multi: -1},
			{Gid: -1, Kind: "m", Methods: []string{"GET"}, Path: "/old3", Hs: []hspec{{ID: 5, Eff: effStop}}, Multi: -1},
		}}
		checkProgram(e, c, p, [][2]string{{"GET", "/old3"}, {"GET", "/new"}, {"POST", "/new"}, {"GET", "/old1"}})
	})
	e.Corpus("custom-ctx-unknown-method", func(c *ev.Case) {
		p := &program{Cfg: Cfg{CustomCtx: true}, Units: []unit{
			{Gid: -1, Kind: "m", Methods: []string{"GET"}, Path: "/a", Hs: []hspec{{ID: 0, Eff: effStop}}, Multi: -1},
		}}
		checkProgram(e, c, p, [][2]string{{"FOO", "/a"}, {"GET", "/a"}, {"POST", "/a"}})
	})
	e.Corpus("method-override-cursor", func(c *ev.Case) {
		p := &program{Cfg: Cfg{}, Units: []unit{
			{Gid: -1, Kind: "m", Methods: []string{"GET"}, Path: "/a", Hs: []hspec{{ID: 0}}, Multi: -1},
			{Gid: -1, Kind: "m", Methods: []string{"POST"}, Path: "/zz", Hs: []hspec{{ID: 1, Eff: effStop}}, Multi: -1},
			{Gid: -1, Kind: "usenp", Hs: []hspec{{ID: 2, Eff: effMethod, Arg: "POST"}}, Multi: -1},
			{Gid: -1, Kind: "m", Methods: []string{"POST"}, Path: "/a", Hs: []hspec{{ID: 3, Eff: effStop}}, Multi: -1},
		}}
		checkProgram(e, c, p, [][2]string{{"GET", "/a"}, {"POST", "/a"}, {"PUT", "/a"}})
	})
	e.Corpus("all-then-same-path-per-method", func(c *ev.Case) {
		// app.All("/x", h0..h4); app.Get("/x", h5); app.Post("/x", h6)
		p := &program{Cfg: Cfg{}, Units: []unit{
			{Gid: -1, Kind: "all", Path: "/x", Hs: []hspec{{ID: 0}, {ID: 1}, {ID: 2}, {ID: 3}, {ID: 4}}, Multi: -1},
			{Gid: -1, Kind: "m", Methods: []string{"GET"}, Path: "/x", Hs: []hspec{{ID: 5, Eff: effStop}}, Multi: -1},
			{Gid: -1, Kind: "m", Methods: []string{"POST"}, Path: "/x", Hs: []hspec{{ID: 6, Eff: effStop}}, Multi: -1},
		}}
		checkProgram(e, c, p, [][2]string{{"GET", "/x"}, {"POST", "/x"}, {"PUT", "/x"}})
	})
	e.Cases("tables", e.N(4000, 150000), func(c *ev.Case) {
		r := c.R
		p := genProgram(r)
		checkProgram(e, c, p, genRequests(r, p, e.N(40, 60)))
	})
	// The same tables registered in two or three steps: part of the routes, some requests served
	// (the lookup index has been built), the rest of the routes added, the index rebuilt — by
	// RebuildTree(), the documented call for routes added at run time, or by asking the app for
	// its Handler() again. After each step the app has to answer like the table registered so far.
	e.Cases("incremental", e.N(1500, 60000), func(c *ev.Case) {
		r := c.R
		p := genProgram(r)
		for len(p.Units) < 2 {
			p = genProgram(r)
		}
		reqs := genRequests(r, p, e.N(40, 60))
		// short paths are looked up in the index bucket shared by all routes
		for i := 0; i < 6; i++ {
			reqs = append(reqs, [2]string{gen.Pick(r, p.Cfg.Methods()), "/" + r.StringFrom("abx1/", r.Range(0, 2))})
		}
		plan := &stagePlan{ViaHandler: r.Chance(1, 3)}
		cut := splitPoint(p, r.Range(1, len(p.Units)-1))
		if cut < len(p.Units) {
			plan.Cuts = append(plan.Cuts, cut)
			if r.Chance(1, 3) && cut+1 < len(p.Units) {
				if cut2 := splitPoint(p, r.Range(cut+1, len(p.Units)-1)); cut2 < len(p.Units) {
					plan.Cuts = append(plan.Cuts, cut2)
				}
			}
		}
		if len(plan.Cuts) == 0 {
			e.Stat("incremental_without_cut", 1)
		}
		checkProgramStaged(e, c, p, reqs, plan)
	})
	// Fallback pages: a handler calls Next, receives the router's 404/405 because nothing after
	// it matched, overrides the path and calls Next again. The rest of the chain has to be the
	// routes registered after that handler which match the new path.
	e.Cases("fallback", e.N(1500, 60000), func(c *ev.Case) {
		r := c.R
		p := genProgram(r)
		reqs := genRequests(r, p, e.N(30, 50))
		nfb := 0
		for i := range p.Units {
			u := &p.Units[i]
			last := &u.Hs[len(u.Hs)-1]
			mw := u.Kind == "use" || u.Kind == "usenp" || u.Kind == "groupuse"
			if !(mw && last.Eff == effNext && r.Chance(1, 2) || last.Eff == effPath && r.Chance(1, 2)) || nfb >= 3 {
				continue
			}
			nfb++
			last.Eff = effFallback
			// the page to fall back to: some registered path, spelled out
			t := p.Units[r.Intn(len(p.Units))]
			last.Arg = fillSimple(r, p.fullPath(&t))
			// (a page is a plain path: no query, fragment, escape or pattern character left over
			// from an escaped pattern)
			if t.Kind == "usenp" || last.Arg == "" || last.Arg[0] != '/' || strings.ContainsAny(last.Arg, "?#%+:*\\<>") {
				last.Arg = fillSimple(r, genPath(r))
			}
			// requests that nothing is registered for, in the fallback page's index bucket and
			// elsewhere, under the prefix the handler is mounted on
			base := strings.TrimRight(fillSimple(r, p.fullPath(u)), "/")
			if u.Kind == "usenp" {
				base = strings.TrimRight(p.groupPrefix(u.Gid), "/")
			}
			for k := 0; k < 6; k++ {
				path := base + "/" + r.StringFrom("abcx1", r.Range(1, 4))
				if k%2 == 0 && len(last.Arg) >= 3 {
					path = last.Arg[:3] + r.StringFrom("abcx1/", r.Range(0, 3))
				}
				reqs = append(reqs, [2]string{gen.Pick(r, p.Cfg.Methods()), path})
			}
		}
		if nfb == 0 {
			e.Stat("fallback_program_without_fallback_handler", 1)
		}
		checkProgram(e, c, p, reqs)
	})
}

func genRequests(r *gen.Rand, p *program, nreq int) [][2]string {
	methods := append(append([]string(nil), p.Cfg.Methods()...), "FOO")
	var reqs [][2]string
	for i := 0; i < nreq; i++ {
		var path string
		switch r.PickW(70, 15, 15) {
		case 0:
			u := p.Units[r.Intn(len(p.Units))]
			base := p.fullPath(&u)
			if u.Kind == "usenp" {
				base = spellPath(p.groupPrefix(u.Gid), genPath(r))
			}
			path = fillSimple(r, base)
			if u.Kind == "use" || u.Kind == "groupuse" || u.Kind == "usenp" {
				if r.Bool() {
					path = strings.TrimRight(path, "/") + fillSimple(r, genPath(r))
				}
			}
			if r.Chance(1, 3) {
				path = mutatePath(r, path)
			}
		case 1:
			path = fillSimple(r, genPath(r))
		case 2:
			path = "/" + r.StringFrom("abc/x", r.Range(0, 5))
		}
		if path == "" {
			path = "/" // an empty request target is not a request
		}
		if p.Cfg.Unescape && !isASCII(path) && r.Bool() {
			path = pctEncodeNonASCII(path)
		}
		m := gen.Pick(r, methods)
		if r.Chance(1, 25) {
			m = "FOO"
		}
		reqs = append(reqs, [2]string{m, path})
	}
	return reqs
}

// stagePlan describes a registration in several steps.
type stagePlan struct {
	Cuts       []int `json:"cuts"`        // ascending; units [0,Cuts[0]) first, then up to Cuts[1], … then the rest
	ViaHandler bool  `json:"via_handler"` // later steps re-run the startup process (app.Handler()) instead of RebuildTree()
}

func checkProgram(e *ev.Env, c *ev.Case, p *program, reqs [][2]string) {
	checkProgramStaged(e, c, p, reqs, nil)
}

func checkProgramStaged(e *ev.Env, c *ev.Case, p *program, reqs [][2]string, plan *stagePlan) {
	tr := &tracer{}
	fb := newFullBuilder(p, tr)
	stages := []int{len(p.Units)}
	if plan != nil {
		stages = append(append([]int(nil), plan.Cuts...), len(p.Units))
	}
	solos := make([]*soloInfo, len(p.Units))
	spelled := make([]*soloInfo, len(p.Units))
	memo := map[string]bool{}
	var full *drive.Direct
	for si, upto := range stages {
		if e.Guard(c, "dispatch|build", map[string]any{"program": p, "stages": plan, "stage": si}, func() {
			fb.registerUpTo(upto)
			switch {
			case full == nil:
				full = drive.NewDirect(fb.app)
			case plan.ViaHandler:
				full.Rebuild()
			default:
				fb.app.RebuildTree()
			}
		}) {
			return
		}
		// the table registered so far is the reference of this stage
		sp := p
		if upto < len(p.Units) {
			cp := *p
			cp.Units = p.Units[:upto]
			sp = &cp
		}
		sreqs := reqs
		if upto < len(p.Units) && len(sreqs) > 12 {
			// earlier stages serve a slice of the requests (the last dozen: it holds the short paths)
			sreqs = sreqs[len(sreqs)-12:]
		}
		o := &oracle{p: sp, tr: tr, solos: solos, spelled: spelled, memo: memo, e: e, c: c}
		judgeRequests(e, c, p, o, full, tr, sreqs, plan, si)
		if si > 0 {
			e.Stat("stages_after_late_registration", 1)
		}
	}
	e.Sample("table", map[string]any{"cfg": p.Cfg.String(), "units": len(p.Units), "first_request": reqs[0], "stages": stages})
}

func judgeRequests(e *ev.Env, c *ev.Case, p *program, o *oracle, full *drive.Direct, tr *tracer, reqs [][2]string, plan *stagePlan, stage int) {
	unitOf := map[int]int{}
	for i := range p.Units {
		for _, h := range p.Units[i].Hs {
			unitOf[h.ID] = i
		}
	}
	for _, rq := range reqs {
		m, path := rq[0], rq[1]
		var ex *expectation
		if e.Guard(c, "dispatch|solo", map[string]any{"program": p, "method": m, "path": path}, func() { ex = o.expect(m, path) }) {
			continue
		}
		tr.reset()
		var resp *drive.Resp
		if e.Guard(c, "dispatch|full", map[string]any{"program": p, "method": m, "path": path}, func() { resp = do(full, m, path) }) {
			continue
		}
		got := append([]int(nil), tr.ids...)
		if ex.Ambiguous {
			e.Stat("skipped_ambiguous_twin_after_override", 1)
			continue
		}
		e.Eval(1)
		ctxClass := "plain"
		if ex.PathOv && ex.MethodOv {
			ctxClass = "after-path-and-method-override"
		} else if ex.PathOv && ex.CrossBkt {
			ctxClass = "after-path-override-to-other-index-bucket"
		} else if ex.PathOv {
			ctxClass = "after-path-override-within-index-bucket"
		} else if ex.MethodOv {
			ctxClass = "after-method-override"
		}
		if ex.Rewrite {
			ctxClass += "+by-rewrite-middleware"
			e.Stat("overrides_by_rewrite_middleware", 1)
		}
		if ex.Fallback {
			ctxClass += "+after-next-returned-not-found"
			e.Stat("overrides_after_next_returned_not_found", 1)
		}
		if ex.Derived && ex.PathOv {
			ctxClass += "+new-path-derived-from-current-path"
			e.Stat("overrides_derived_from_current_path", 1)
		}
		if len(ex.Trace) >= 2 || len(path) <= 3 || ex.PathOv || ex.MethodOv || ex.Status == 405 {
			e.Nontrivial(p.Cfg.String(), fmt.Sprint(ex.Trace), m, path, fmt.Sprint(ex.Status))
		}
		if stage > 0 {
			// input class: routes were added after the app had served requests, index rebuilt
			ctxClass += "+routes-added-after-first-request"
		}
		detail := func() map[string]any {
			d := map[string]any{"program": p, "method": m, "path": path, "expected": ex,
				"got_trace": got, "got_status": resp.Status, "got_allow": resp.Get("Allow")}
			if plan != nil {
				d["registration_stages"] = plan
				d["stage"] = stage
				d["units_registered"] = len(o.p.Units)
			}
			return d
		}
		if !eqInts(got, ex.Trace) {
			what := "trace-differs"
			switch {
			case len(got) < len(ex.Trace) && eqInts(got, ex.Trace[:len(got)]):
				what = "trace-missing-handlers"
			case len(got) > len(ex.Trace) && eqInts(got[:len(ex.Trace)], ex.Trace):
				what = "trace-extra-handlers"
			}
			sig := "dispatch|" + what + "|" + ctxClass
			if ex.MethodOv {
				// one root cause (the route cursor is kept across Method(override) although it
				// indexes another method's route list): one signature
				sig = "dispatch|chain-after-method-override"
			} else {
				// the first handler that should not have run here: does it belong to a route
				// registered for other methods only?
				idx := 0
				for idx < len(got) && idx < len(ex.Trace) && got[idx] == ex.Trace[idx] {
					idx++
				}
				if idx < len(got) {
					if ui, ok := unitOf[got[idx]]; ok {
						u := &p.Units[ui]
						if u.Kind == "m" || u.Kind == "add" || u.Kind == "route.m" {
							own := false
							for _, um := range u.Methods {
								own = own || um == m
							}
							if !own {
								// one root cause, one signature (no context class)
								sig = "dispatch|handler-of-route-registered-for-another-method-ran"
							}
						}
					}
				}
			}
			e.Violation(c, sig,
				fmt.Sprintf("%s %s ran handlers %v, registration-order filter of individually matching routes gives %v", m, path, got, ex.Trace), detail())
			continue
		}
		if ex.Fallback && ex.Exhausted {
			// the first pass already produced a 404/405 (and possibly an Allow header): only the
			// chain is judged
			continue
		}
		if ex.Exhausted && ex.Status == 0 && resp.Status == 405 {
			e.Violation(c, "dispatch|status-405-although-endpoint-of-method-matched|"+ctxClass,
				fmt.Sprintf("%s %s: an endpoint of this method matched (and passed on), yet the reply is 405", m, path), detail())
			continue
		}
		if ex.Status != 0 && resp.Status != ex.Status {
			e.Violation(c, fmt.Sprintf("dispatch|status-%d-expected-%d|%s", resp.Status, ex.Status, ctxClass),
				fmt.Sprintf("%s %s answered %d, expected %d", m, path, resp.Status, ex.Status), detail())
			continue
		}
		if ex.Status == 405 {
			al := parseAllow(strings.Join(resp.All("Allow"), ","))
			sort.Strings(al)
			if !sameSet(al, ex.Allow) {
				e.Violation(c, "dispatch|allow-set|"+ctxClass,
					fmt.Sprintf("%s %s: Allow %v, methods with a matching endpoint %v", m, path, al, ex.Allow), detail())
			}
		}
		if ex.Status == 405 {
			e.Stat("status405", 1)
		}
		if ex.PathOv || ex.MethodOv {
			e.Stat("overrides", 1)
		}
	}
}
