package route

import (
	"regexp"
	"strconv"
	"strings"
	"time"

	"verifharness/internal/gen"
)

// Token kinds of a route pattern. Patterns are generated as token lists, so oracles never
// parse pattern text.
const (
	tLit = iota
	tNamed
	tNamedOpt
	tStar
	tPlus
)

type cons struct {
	Kind string   `json:"kind"`
	Args []string `json:"args,omitempty"`
	// Ovr: the app registers a custom constraint under this built-in name; the documentation
	// (guide/routing.md, "Custom Constraint") says the custom one is used instead of the built-in
	Ovr bool `json:"overridden_by_custom,omitempty"`
}

// overrideConstraint is a custom constraint registered under the name of a built-in one, with a
// predicate that disagrees with the built-in on some values.
type overrideConstraint struct {
	name string
	f    func(v string, args []string) bool
}

func (o overrideConstraint) Name() string                          { return o.name }
func (o overrideConstraint) Execute(v string, args ...string) bool { return o.f(v, args) }

func argN(args []string) int {
	if len(args) == 0 {
		return 0
	}
	n, _ := strconv.Atoi(args[0])
	return n
}

var overrideCatalogue = []overrideConstraint{
	// int: digits only, no sign
	{"int", func(v string, _ []string) bool {
		for i := 0; i < len(v); i++ {
			if v[i] < '0' || v[i] > '9' {
				return false
			}
		}
		return v != ""
	}},
	// bool: yes / no
	{"bool", func(v string, _ []string) bool { return v == "yes" || v == "no" }},
	// alpha: lower-case ASCII letters only
	{"alpha", func(v string, _ []string) bool {
		for i := 0; i < len(v); i++ {
			if v[i] < 'a' || v[i] > 'z' {
				return false
			}
		}
		return v != ""
	}},
	// maxLen(n): strictly shorter than n
	{"maxLen", func(v string, args []string) bool { return len(v) < argN(args) }},
	// minLen(n): strictly longer than n
	{"minLen", func(v string, args []string) bool { return len(v) > argN(args) }},
}

func overrideOf(kind string) *overrideConstraint {
	for i := range overrideCatalogue {
		if overrideCatalogue[i].name == kind {
			return &overrideCatalogue[i]
		}
	}
	return nil
}

// value pools of the overriding constraints (same names and arguments as in consPool)
var overridePool = map[string]consSpec{
	"int":    {c: cons{Kind: "int", Ovr: true}, good: []string{"0", "7", "42", "123456789"}, bad: []string{"-5", "+5", "-15", "a", "1a"}, dash: true},
	"bool":   {c: cons{Kind: "bool", Ovr: true}, good: []string{"yes", "no"}, bad: []string{"true", "false", "1", "maybe"}},
	"alpha":  {c: cons{Kind: "alpha", Ovr: true}, good: []string{"abc", "z"}, bad: []string{"Rick", "Z", "ab1"}},
	"maxLen": {c: cons{Kind: "maxLen", Args: []string{"3"}, Ovr: true}, good: []string{"a", "ab", "12"}, bad: []string{"abc", "abcd", "12345"}},
	"minLen": {c: cons{Kind: "minLen", Args: []string{"4"}, Ovr: true}, good: []string{"abcde", "12345678"}, bad: []string{"abcd", "abc", "a"}},
}

type tok struct {
	Kind int    `json:"k"`
	Lit  string `json:"lit,omitempty"`  // literal text as it must appear in the path
	Name string `json:"name,omitempty"` // for named params
	Cons []cons `json:"cons,omitempty"`
}

type pattern struct {
	Toks []tok `json:"toks"`
}

// escapeLit renders literal text inside a pattern (special characters backslash-escaped).
func escapeLit(s string) string {
	var sb strings.Builder
	for i := 0; i < len(s); i++ {
		switch s[i] {
		case ':', '*', '+', '?', '<', '>', '(', ')', ';', '\\':
			sb.WriteByte('\\')
		}
		sb.WriteByte(s[i])
	}
	return sb.String()
}

func (c cons) text() string {
	if len(c.Args) == 0 {
		return c.Kind
	}
	args := make([]string, len(c.Args))
	for i, a := range c.Args {
		if c.Kind == "datetime" {
			// docs: escape routing-specific characters inside datetime
			a = strings.NewReplacer("-", `\-`, ":", `\:`, "/", `\/`).Replace(a)
		}
		args[i] = a
	}
	return c.Kind + "(" + strings.Join(args, ",") + ")"
}

// String renders the pattern text handed to fiber.
func (p pattern) String() string {
	var sb strings.Builder
	for _, t := range p.Toks {
		switch t.Kind {
		case tLit:
			sb.WriteString(escapeLit(t.Lit))
		case tNamed, tNamedOpt:
			sb.WriteByte(':')
			sb.WriteString(t.Name)
			if len(t.Cons) > 0 {
				sb.WriteByte('<')
				for i, c := range t.Cons {
					if i > 0 {
						sb.WriteByte(';')
					}
					sb.WriteString(c.text())
				}
				sb.WriteByte('>')
			}
			if t.Kind == tNamedOpt {
				sb.WriteByte('?')
			}
		case tStar:
			sb.WriteByte('*')
		case tPlus:
			sb.WriteByte('+')
		}
	}
	return sb.String()
}

// paramKeys returns the key under which each parameter token is retrievable with Params():
// names for named ones, "*1", "*2", "+1"… for greedy ones; "" for literals.
func (p pattern) paramKeys() []string {
	keys := make([]string, len(p.Toks))
	star, plus := 0, 0
	for i, t := range p.Toks {
		switch t.Kind {
		case tNamed, tNamedOpt:
			keys[i] = t.Name
		case tStar:
			star++
			keys[i] = "*" + strconv.Itoa(star)
		case tPlus:
			plus++
			keys[i] = "+" + strconv.Itoa(plus)
		}
	}
	return keys
}

func (p pattern) nParams() int {
	n := 0
	for _, t := range p.Toks {
		if t.Kind != tLit {
			n++
		}
	}
	return n
}

// fill substitutes values (one per token; ignored for literals).
func (p pattern) fill(vals []string) string {
	var sb strings.Builder
	for i, t := range p.Toks {
		if t.Kind == tLit {
			sb.WriteString(t.Lit)
		} else {
			sb.WriteString(vals[i])
		}
	}
	return sb.String()
}

// ---------------------------------------------------------------------------------------------
// constraints: three-valued independent evaluators written from docs/guide/routing.md.
// +1 = certainly satisfied, -1 = certainly violated, 0 = the documentation does not settle it.

var (
	reIntSure   = regexp.MustCompile(`^-?[0-9]{1,15}$`)
	reIntMaybe  = regexp.MustCompile(`^[+-]?[0-9_]+$`)
	reFloatSure = regexp.MustCompile(`^-?[0-9]{1,15}(\.[0-9]{1,10})?$`)
	reFloatNo   = regexp.MustCompile(`[^0-9a-zA-Z+\-._]`)
	reGUIDSure  = regexp.MustCompile(`^[0-9a-fA-F]{8}-[0-9a-fA-F]{4}-[0-9a-fA-F]{4}-[0-9a-fA-F]{4}-[0-9a-fA-F]{12}$`)
	reAlphaSure = regexp.MustCompile(`^[a-zA-Z]+$`)
)

func atoiSure(s string) (int, bool) {
	if !reIntSure.MatchString(s) {
		return 0, false
	}
	n, err := strconv.Atoi(s)
	return n, err == nil
}

// hugeInt classifies v as a decimal integer (optional sign, digits only) whose magnitude is at
// least 2^64 — after dropping leading zeros either 21+ digits, or 20 digits not below
// 18446744073709551616. No Go integer type holds such a number, so it is not an "int" in any
// reading of the documentation. Returns +1 / -1 for a huge positive / negative value, 0 otherwise
// (values between MaxInt64 and 2^64 are deliberately left undecided).
func hugeInt(v string) int {
	sign := 1
	if v != "" && (v[0] == '+' || v[0] == '-') {
		if v[0] == '-' {
			sign = -1
		}
		v = v[1:]
	}
	if v == "" {
		return 0
	}
	for i := 0; i < len(v); i++ {
		if v[i] < '0' || v[i] > '9' {
			return 0
		}
	}
	v = strings.TrimLeft(v, "0")
	if len(v) > 20 || len(v) == 20 && v >= "18446744073709551616" {
		return sign
	}
	return 0
}

func evalCons(c cons, v string) int {
	tri := func(sure, no bool) int {
		if sure {
			return 1
		}
		if no {
			return -1
		}
		return 0
	}
	argInt := func(i int) int { n, _ := strconv.Atoi(c.Args[i]); return n }
	// the length constraints have a second, all-lower-case spelling (exported as
	// ConstraintMinLenLower, ConstraintMaxLenLower, ConstraintBetweenLenLower)
	switch c.Kind {
	case "minlen":
		c.Kind = "minLen"
	case "maxlen":
		c.Kind = "maxLen"
	case "betweenlen":
		c.Kind = "betweenLen"
	}
	if c.Ovr {
		if o := overrideOf(c.Kind); o != nil {
			return tri(o.f(v, c.Args), true)
		}
	}
	switch c.Kind {
	case "int":
		return tri(reIntSure.MatchString(v), !reIntMaybe.MatchString(v) || hugeInt(v) != 0)
	case "bool":
		return tri(v == "true" || v == "false", func() bool { _, err := strconv.ParseBool(v); return err != nil }())
	case "float":
		// letters could be exponents, inf, nan, hex floats: unsure. Anything with other bytes: no.
		if reFloatSure.MatchString(v) {
			return 1
		}
		if v == "" || reFloatNo.MatchString(v) {
			return -1
		}
		if _, err := strconv.ParseFloat(v, 64); err != nil {
			return -1
		}
		return 0
	case "alpha":
		if reAlphaSure.MatchString(v) {
			return 1
		}
		for i := 0; i < len(v); i++ {
			if v[i] < 0x80 && !(v[i] >= 'a' && v[i] <= 'z' || v[i] >= 'A' && v[i] <= 'Z') {
				return -1
			}
		}
		return 0 // empty or non-ASCII letters: the table says a-z, the code says unicode letters
	case "guid":
		if reGUIDSure.MatchString(v) {
			return 1
		}
		// other spellings (braces, urn:uuid:, no dashes) are accepted by some parsers: unsure
		hex := 0
		for i := 0; i < len(v); i++ {
			ch := v[i]
			if ch >= '0' && ch <= '9' || ch >= 'a' && ch <= 'f' || ch >= 'A' && ch <= 'F' {
				hex++
			}
		}
		if hex != 32 {
			return -1
		}
		return 0
	case "minLen":
		return tri(len(v) >= argInt(0), true)
	case "maxLen":
		return tri(len(v) <= argInt(0), true)
	case "len":
		return tri(len(v) == argInt(0), true)
	case "betweenLen":
		return tri(len(v) >= argInt(0) && len(v) <= argInt(1), true)
	case "min":
		n, ok := atoiSure(v)
		if ok {
			return tri(n >= argInt(0), true)
		}
		// "Integer value must be at least N": a number below -2^64 fails under every reading (not
		// an integer the framework can hold, and too small); a huge positive one is left undecided
		return tri(false, !reIntMaybe.MatchString(v) || hugeInt(v) < 0)
	case "max":
		n, ok := atoiSure(v)
		if ok {
			return tri(n <= argInt(0), true)
		}
		return tri(false, !reIntMaybe.MatchString(v) || hugeInt(v) > 0)
	case "range":
		n, ok := atoiSure(v)
		if ok {
			return tri(n >= argInt(0) && n <= argInt(1), true)
		}
		return tri(false, !reIntMaybe.MatchString(v) || hugeInt(v) != 0)
	case "datetime":
		_, err := time.Parse(c.Args[0], v)
		return tri(err == nil, true)
	case "regex":
		re := regexp.MustCompile(c.Args[0])
		return tri(re.MatchString(v), true)
	case "even": // custom constraint registered by the harness: even length
		return tri(len(v)%2 == 0, true)
	case "lower": // custom constraint registered by the harness: no upper-case ASCII letter
		return tri(v == strings.ToLower(v), true)
	case "Upper": // custom constraint with an upper-case letter in its name: no lower-case ASCII letter
		return tri(v == strings.ToUpper(v), true)
	}
	return 0
}

// consPool: constraints with sample values (good = certainly satisfied, bad = certainly violated,
// odd = unsettled by the documentation). Values avoid '/', and avoid '-' and '.' unless noted.
type consSpec struct {
	c    cons
	good []string
	bad  []string
	odd  []string
	dash bool // values contain '-' (cannot precede a literal starting with '-')
}

var consPool = []consSpec{
	{c: cons{Kind: "int"}, good: []string{"0", "7", "123456789", "42"}, bad: []string{"a", "1a", "x1", "12x", "１",
		// magnitude >= 2^64: digits only, yet no integer type holds them
		"18446744073709551616", "99999999999999999999", "123456789012345678901234", "+340282366920938463463374607431768211456", "000018446744073709551616"},
		odd: []string{"+5", "1_0", "9223372036854775808", "18446744073709551615", "0000000000000000000000042"}},
	{c: cons{Kind: "bool"}, good: []string{"true", "false"}, bad: []string{"yes", "2", "tru", "falsee"}, odd: []string{"1", "T", "TRUE", "0"}},
	{c: cons{Kind: "float"}, good: []string{"1", "12", "007"}, bad: []string{"abc", "1x2", "x", "1,5"}, odd: []string{"1e3", "inf", "NaN", "1e40", "0x1p2"}},
	{c: cons{Kind: "alpha"}, good: []string{"abc", "Z", "Rick"}, bad: []string{"ab1", "1", "a_b", "a1b",
		// an ASCII non-letter next to non-ASCII letters: not alphabetical under any reading
		"josé1", "zoë7", "é9", "ñ_x", "1é", "Ω2Ω"}, odd: []string{"é", "ＡＢ", "josé", "zoë"}},
	{c: cons{Kind: "guid"}, good: []string{"cd2c1638-1638-72d5-1638-deadbeef1638", "CD2C1638-1638-72D5-1638-DEADBEEF1638"}, bad: []string{"cd2c1638", "zd2c1638-1638-72d5-1638-deadbeef1638", "abc"}, odd: []string{"cd2c1638163872d51638deadbeef1638"}, dash: true},
	{c: cons{Kind: "minLen", Args: []string{"4"}}, good: []string{"abcd", "abcde", "12345678"}, bad: []string{"abc", "a", "12"}},
	{c: cons{Kind: "maxLen", Args: []string{"3"}}, good: []string{"a", "abc", "12"}, bad: []string{"abcd", "12345"}},
	{c: cons{Kind: "len", Args: []string{"2"}}, good: []string{"ab", "12"}, bad: []string{"a", "abc", "1234"}},
	{c: cons{Kind: "betweenLen", Args: []string{"2", "4"}}, good: []string{"ab", "abc", "abcd"}, bad: []string{"a", "abcde"}},
	// the lower-case spellings of the length constraints
	{c: cons{Kind: "minlen", Args: []string{"4"}}, good: []string{"abcd", "abcde", "12345678"}, bad: []string{"abc", "a", "12"}},
	{c: cons{Kind: "maxlen", Args: []string{"3"}}, good: []string{"a", "abc", "12"}, bad: []string{"abcd", "12345"}},
	{c: cons{Kind: "betweenlen", Args: []string{"2", "4"}}, good: []string{"ab", "abc", "abcd"}, bad: []string{"a", "abcde"}},
	{c: cons{Kind: "min", Args: []string{"18"}}, good: []string{"18", "19", "100"}, bad: []string{"17", "0", "abc", "1x"}, odd: []string{"+18", "18446744073709551616", "123456789012345678901234"}},
	{c: cons{Kind: "max", Args: []string{"120"}}, good: []string{"120", "91", "0"}, bad: []string{"121", "1000", "abc", "18446744073709551616", "123456789012345678901234"}, odd: []string{"+3", "9223372036854775808"}},
	{c: cons{Kind: "range", Args: []string{"18", "120"}}, good: []string{"18", "120", "91"}, bad: []string{"17", "121", "x", "9", "18446744073709551616", "123456789012345678901234"}, odd: []string{"9223372036854775808"}},
	{c: cons{Kind: "datetime", Args: []string{"2006-01-02"}}, good: []string{"2005-11-01", "1999-12-31"}, bad: []string{"2005-13-01", "20051101", "abcd", "2005-11-1"}, dash: true},
	// regex bodies stay inside what the docs show: no ',' ';' or routing characters
	{c: cons{Kind: "regex", Args: []string{`^[0-9]{4}$`}}, good: []string{"2022", "0001"}, bad: []string{"22", "abcd", "20222", "202x"}},
	{c: cons{Kind: "even"}, good: []string{"ab", "abcd", "12"}, bad: []string{"a", "abc", "12345"}},
	// a '?' inside the constraint's data (regex quantifier, argument of a custom constraint) is
	// data: it says nothing about the parameter being optional
	{c: cons{Kind: "regex", Args: []string{`^v[0-9][0-9]?$`}}, good: []string{"v1", "v12", "v07"}, bad: []string{"v", "v123", "x1", "1v"}},
	{c: cons{Kind: "regex", Args: []string{`^ab?c$`}}, good: []string{"ac", "abc"}, bad: []string{"abbc", "a", "abcd"}},
	{c: cons{Kind: "even", Args: []string{"a?"}}, good: []string{"ab", "abcd", "12"}, bad: []string{"a", "abc", "12345"}},
	// '<' and '>' inside the constraint's data: a named group, alternatives over comparison signs
	{c: cons{Kind: "regex", Args: []string{`^v(?<major>1|2|3)$`}}, good: []string{"v1", "v2", "v3"}, bad: []string{"v9", "latest", "v", "v12", "x1"}},
	{c: cons{Kind: "regex", Args: []string{`^(<|>|=|<=|>=)$`}}, good: []string{"=", "<=", ">=", "<", ">"}, bad: []string{"eq", "x", "==", "=>"}},
	// letter-case sensitive constraints: the value is judged as the client spelled it
	{c: cons{Kind: "regex", Args: []string{`^[a-z]{2}$`}}, good: []string{"ab", "xy"}, bad: []string{"AB", "Ab", "aB", "a1", "abc"}},
	{c: cons{Kind: "lower"}, good: []string{"ab", "x1", "news"}, bad: []string{"AB", "News", "xY"}},
	{c: cons{Kind: "regex", Args: []string{`^[A-Z]{2}$`}}, good: []string{"AB", "XY"}, bad: []string{"ab", "Ab", "aB", "A1", "ABC"}},
	{c: cons{Kind: "Upper"}, good: []string{"AB", "X1", "NEWS"}, bad: []string{"ab", "News", "xY"}},
	{c: cons{Kind: "datetime", Args: []string{"2006-01-02T15"}}, good: []string{"2005-11-01T09", "1999-12-31T23"}, bad: []string{"2005-11-01t09", "2005-11-01 09", "2005-11-01"}, dash: true},
}

// evenConstraint is the custom constraint the harness registers on every app of the
// sound/complete engines.
type evenConstraint struct{}

func (evenConstraint) Name() string { return "even" }
func (evenConstraint) Execute(param string, _ ...string) bool {
	return len(param)%2 == 0
}

// lowerConstraint: a second custom constraint, sensitive to letter case.
type lowerConstraint struct{}

func (lowerConstraint) Name() string { return "lower" }
func (lowerConstraint) Execute(param string, _ ...string) bool {
	return param == strings.ToLower(param)
}

// upperConstraint: custom constraint whose NAME contains an upper-case letter.
type upperConstraint struct{}

func (upperConstraint) Name() string { return "Upper" }
func (upperConstraint) Execute(param string, _ ...string) bool {
	return param == strings.ToUpper(param)
}

// genConsToken picks 1–2 compatible constraints and returns them with value pools that
// satisfy / violate the conjunction (as far as certainly known).
// ovr: the case registers the overriding custom constraints, so every constraint with an
// overridden name is the custom one.
func genCons(r *gen.Rand, ovr bool) (cs []cons, good, bad, odd []string, dash bool) {
	pick := func() consSpec {
		x := consPool[r.Intn(len(consPool))]
		if ovr {
			if o, ok := overridePool[x.c.Kind]; ok {
				return o
			}
		}
		return x
	}
	a := pick()
	cs = []cons{a.c}
	good, bad, odd, dash = a.good, a.bad, a.odd, a.dash
	if r.Chance(1, 4) {
		b := pick()
		// Not generated: '<'/'>' inside the data of the first constraint and, behind it in the same
		// list, one of the characters that can end a parameter (? : \ / - .). The unchanged parser
		// mis-reads such lists (the route then matches nothing), reported separately.
		if strings.ContainsAny(a.c.text(), "<>") && strings.ContainsAny(b.c.text(), `?:\/-.`) {
			b = a
		}
		if b.c.Kind != a.c.Kind {
			cs = append(cs, b.c)
			dash = dash || b.dash
			// recompute pools under the conjunction
			all := append(append(append(append(append([]string{}, a.good...), a.bad...), b.good...), b.bad...), a.odd...)
			all = append(all, b.odd...)
			good, bad, odd = nil, nil, nil
			for _, v := range all {
				x, y := evalCons(a.c, v), evalCons(b.c, v)
				switch {
				case x == 1 && y == 1:
					good = append(good, v)
				case x == -1 || y == -1:
					bad = append(bad, v)
				default:
					odd = append(odd, v)
				}
			}
			if len(good) == 0 {
				// incompatible pair: keep the first constraint only
				cs = cs[:1]
				good, bad, odd, dash = a.good, a.bad, a.odd, a.dash
			}
		}
	}
	return
}
