// Package route holds the engines for the routing properties C01–C04.
package route

import (
	"strings"

	"github.com/gofiber/fiber/v3"

	"verifharness/internal/drive"
	"verifharness/internal/gen"
)

// Cfg is one routing configuration.
type Cfg struct {
	CaseSensitive bool
	Strict        bool
	Unescape      bool
	CustomCtx     bool
	CustomMethods bool
}

func (c Cfg) String() string {
	b := func(x bool, s string) string {
		if x {
			return s
		}
		return "-"
	}
	return b(c.CaseSensitive, "C") + b(c.Strict, "S") + b(c.Unescape, "U") + b(c.CustomCtx, "X") + b(c.CustomMethods, "M")
}

func genCfg(r *gen.Rand) Cfg {
	return Cfg{CaseSensitive: r.Bool(), Strict: r.Bool(), Unescape: r.Bool(), CustomCtx: r.Chance(1, 3), CustomMethods: r.Chance(1, 4)}
}

// cfg8 enumerates the 8 routing configurations.
func cfg8(i int) Cfg {
	return Cfg{CaseSensitive: i&1 != 0, Strict: i&2 != 0, Unescape: i&4 != 0}
}

var customMethodSet = []string{"GET", "POST", "HEAD", "JOHN"}

func (c Cfg) Methods() []string {
	if c.CustomMethods {
		return customMethodSet
	}
	return []string{"GET", "POST", "HEAD", "PUT", "DELETE"}
}

func (c Cfg) FiberConfig() fiber.Config {
	fc := fiber.Config{CaseSensitive: c.CaseSensitive, StrictRouting: c.Strict, UnescapePath: c.Unescape}
	if c.CustomMethods {
		fc.RequestMethods = append([]string(nil), customMethodSet...)
	}
	return fc
}

type customCtx struct {
	fiber.DefaultCtx
}

// NewApp builds an app for the configuration.
func (c Cfg) NewApp() *fiber.App {
	app := fiber.New(c.FiberConfig())
	if c.CustomCtx {
		app.NewCtxFunc(func(a *fiber.App) fiber.CustomCtx {
			return &customCtx{DefaultCtx: *fiber.NewDefaultCtx(a)}
		})
	}
	return app
}

// tracer collects the handler ids that ran for the current request.
type tracer struct {
	ids    []int
	params []map[string]string
}

func (t *tracer) reset() { t.ids = t.ids[:0]; t.params = t.params[:0] }

func do(d *drive.Direct, method, path string) *drive.Resp {
	return d.Do(&drive.Req{Method: method, URI: path})
}

func parseAllow(v string) []string {
	var out []string
	for _, p := range strings.Split(v, ",") {
		p = strings.TrimSpace(p)
		if p != "" {
			out = append(out, p)
		}
	}
	return out
}

func sameSet(a, b []string) bool {
	m := map[string]int{}
	for _, x := range a {
		m[x] |= 1
	}
	for _, x := range b {
		m[x] |= 2
	}
	for _, v := range m {
		if v != 3 {
			return false
		}
	}
	return true
}

func eqInts(a, b []int) bool {
	if len(a) != len(b) {
		return false
	}
	for i := range a {
		if a[i] != b[i] {
			return false
		}
	}
	return true
}
