package route

import (
	"fmt"
	"sort"
	"strings"

	"github.com/gofiber/fiber/v3"

	"verifharness/internal/drive"
	"verifharness/internal/ev"
	"verifharness/internal/gen"
	"verifharness/internal/reg"
)

func init() { reg.Register("route.mount", runMount) }

type mstmt struct {
	Kind    string   `json:"kind"` // m use usenp usemulti all routechain | mount | group (Hs: Group(prefix, hs…)) | cons | rebuild
	Methods []string `json:"methods,omitempty"`
	Path    string   `json:"path,omitempty"`
	Hs      []hspec  `json:"hs,omitempty"`
	Prefix  string   `json:"prefix,omitempty"`
	Body    []mstmt  `json:"body,omitempty"`
	Late    []mstmt  `json:"late,omitempty"` // mount: routes added to the sub-app after it was mounted
	// usemulti: Use([]string{Prefixes...}, handlers...). Share > 0: the call is handed the slice
	// variable number Share-1 of the program (the same variable as every other call naming it)
	// instead of a slice literal of its own.
	Prefixes []string `json:"prefixes,omitempty"`
	Share    int      `json:"share,omitempty"`
	// mount: routing options of the mounted app's own Config (nil = the root's)
	Sub *subCfg `json:"sub_config,omitempty"`
	// custom constraint carried by Path: parameter name and constraint name
	ConsParam string `json:"cons_param,omitempty"`
	ConsKind  string `json:"cons_kind,omitempty"`
	// cons: RegisterCustomConstraint(<Name>) on the app that owns the enclosing router
	Name string `json:"name,omitempty"`
	// mount: the prefix is handed over as a list, Use([]string{…}, subApp). Prefix is its first entry.
	PrefixList []string `json:"prefix_list,omitempty"`
	// routechain: rt.Route(Chain[0]).Route(Chain[1])… then Add(Methods, hs…), or All(hs…) when
	// Methods is empty (Route(path).All registers a prefix middleware)
	Chain []string `json:"chain,omitempty"`
	// OnPrev: the call is chained onto the return value of the previous statement's call
	// (x := grp.Use("/users", sub); x.Get(…)) instead of being made on the enclosing router. The
	// reference composition always calls the enclosing router itself.
	OnPrev bool `json:"on_return_value_of_previous_call,omitempty"`
	// Tail > 0 (m, all): the call is rt.Add(methods, path, Hs[0], tail...) with the program's
	// handler tail number Tail-1
	Tail int `json:"handler_tail,omitempty"`
}

type subCfg struct {
	CaseSensitive bool `json:"case_sensitive"`
	Strict        bool `json:"strict"`
}

type mprog struct {
	Cfg Cfg `json:"cfg"`
	// Config.RequestMethods of every app of the program (nil = the default list)
	Methods []string `json:"request_methods,omitempty"`
	// RootCons: custom constraints the root registers before anything else. Further constraints
	// are registered by "cons" statements on the app that owns the enclosing router, interleaved
	// with the routes. A route only names a constraint that its own app has registered before the
	// route, or that is in RootCons. The reference composition has only the root app, which
	// registers the whole catalogue up front (same name = same predicate everywhere).
	RootCons []string `json:"root_custom_constraints,omitempty"`
	// Shared: prefix lists kept in one slice variable each and passed to several Use calls
	Shared [][]string `json:"shared_prefix_lists,omitempty"`
	// Tails: handler pipelines kept in one slice variable each (len < cap) and passed with `...`
	// behind the first handler of several registrations
	Tails [][]hspec `json:"shared_handler_tails,omitempty"`
	Root  []mstmt   `json:"root"`
	// LateRoot: registered on the serving app after it has answered requests, followed by
	// RebuildTree(); the requests are then served once more
	LateRoot []mstmt `json:"late_root,omitempty"`
}

// "api", "v1": prefixes spelled without their leading slash (the framework completes it)
var mountPrefixes = []string{"/", "/api", "/api/", "/:v", "/a/b", "/Api", "/ab", "/abc", "/:Ver", "api", "v1",
	// greedy parameters in the prefix: the mounted routes' own greedy parameters are numbered on
	"/a/*/api", "/x/+", "/+/ab"}
var mountPaths = []string{"/", "/a", "/ab", "/abc", "/x", "/:p", "/a/:p", "/*", "/abc/d", "/:p?", "/api", "/a/", "/:pId", "/a/:Key", `/a\:b`, `/x\*`, `/ab\+/:p`, "/Ab", "/abc/", "/x/Y/", "/ab/+", "/abc/*", "/+",
	// escaped special characters as the whole route: literal paths "/*", "/+", "/:p"
	`/\*`, `/\+`, `/\:p`}

// routes whose parameter carries a custom constraint; %s is the constraint's name
var mountConsPaths = []struct{ Path, Param string }{
	{"/:p<%s>", "p"}, {"/a/:p<%s>", "p"}, {"/ab/:q<%s>?", "q"}, {"/Ab/:p<%s>", "p"},
}

// predConstraint is a custom constraint of the catalogue: a name and a predicate.
type predConstraint struct {
	name string
	f    func(string) bool
}

func (p predConstraint) Name() string                       { return p.name }
func (p predConstraint) Execute(v string, _ ...string) bool { return p.f(v) }

// catalogue of custom constraints; a name means the same predicate on every app
var mountConsCatalogue = []predConstraint{
	{"even", func(v string) bool { return len(v)%2 == 0 }},
	{"Upper", func(v string) bool { return v == strings.ToUpper(v) }},
	{"startx", func(v string) bool { return strings.HasPrefix(v, "x") || strings.HasPrefix(v, "X") }},
	{"short", func(v string) bool { return len(v) <= 2 }},
	{"nodigit", func(v string) bool { return !strings.ContainsAny(v, "0123456789") }},
}

func mountConsNames() []string {
	out := make([]string, len(mountConsCatalogue))
	for i, c := range mountConsCatalogue {
		out[i] = c.name
	}
	return out
}

func registerCons(app *fiber.App, names []string) {
	for _, n := range names {
		for _, c := range mountConsCatalogue {
			if c.name == n {
				app.RegisterCustomConstraint(c)
			}
		}
	}
}

var extraMethods = []string{"PURGE", "LINK"}

// newApp builds one app of a composition: cfg's routing options, the program's method list, and
// the custom constraints it registers before anything else.
func (p *mprog) newApp(cfg Cfg, cons []string) *fiber.App {
	fc := cfg.FiberConfig()
	if p.Methods != nil {
		fc.RequestMethods = append([]string(nil), p.Methods...)
	}
	app := fiber.New(fc)
	if cfg.CustomCtx {
		app.NewCtxFunc(func(a *fiber.App) fiber.CustomCtx {
			return &customCtx{DefaultCtx: *fiber.NewDefaultCtx(a)}
		})
	}
	registerCons(app, cons)
	return app
}

// subApp builds a mounted app: the root's configuration except for the routing options the
// mount statement sets for it.
func (p *mprog) subApp(s *mstmt) *fiber.App {
	cfg := p.Cfg
	if s.Sub != nil {
		cfg.CaseSensitive, cfg.Strict = s.Sub.CaseSensitive, s.Sub.Strict
	}
	return p.newApp(cfg, nil)
}

// mctx holds the slice variables of one build: prefix lists handed to several Use calls (nil in
// the reference builds: every call gets a literal of its own) and handler tails.
type mctx struct {
	lists [][]string
	tails [][]fiber.Handler
}

// newCtx instantiates the program's slice variables for one build. A handler tail is one slice,
// grown by append (so it has spare capacity), passed with `...` behind the first handler of
// every registration that names it — in every composition, the reference included.
func (p *mprog) newCtx(tr *mtrace, lists bool) *mctx {
	cx := &mctx{}
	if lists {
		cx.lists = p.sharedLists()
	}
	for _, t := range p.Tails {
		var hs []fiber.Handler
		for _, h := range t {
			hs = append(hs, mHandler(tr, h))
		}
		cx.tails = append(cx.tails, hs)
	}
	return cx
}

// sharedLists instantiates the program's shared slice variables for one build.
func (p *mprog) sharedLists() [][]string {
	out := make([][]string, len(p.Shared))
	for i, l := range p.Shared {
		out[i] = append([]string(nil), l...)
	}
	return out
}

// methodPool: methods used by registrations and requests of the program.
func (p *mprog) methodPool() []string {
	if p.Methods == nil {
		return []string{"GET", "POST"}
	}
	return append([]string{"GET", "POST"}, extraMethods...)
}

type mgen struct {
	r      *gen.Rand
	nextID int
	mounts int
	budget int
	cfg    Cfg
	inSub  map[int]bool // handler ids living in a mounted app
	// handler ids of prefix-less Use(h) calls made directly on a mounted app
	subRootUse map[int]bool
	prog       *mprog
	// handler id -> {parameter, custom constraint} of its route
	consOf map[int][2]string
	// a mounted app registers a custom constraint of its own somewhere
	subCons bool
}

func newMgen(r *gen.Rand, p *mprog, budget int) *mgen {
	return &mgen{r: r, budget: budget, prog: p, inSub: map[int]bool{}, subRootUse: map[int]bool{}, consOf: map[int][2]string{}}
}

func (g *mgen) hs(inSub bool) []hspec {
	k := 1
	if g.r.Chance(1, 5) {
		k = 2
	}
	out := make([]hspec, k)
	for i := range out {
		out[i] = hspec{ID: g.nextID}
		if inSub {
			g.inSub[g.nextID] = true
		}
		g.nextID++
	}
	switch g.r.PickW(55, 35, 10) {
	case 1:
		out[k-1].Eff = effStop
	case 2:
		out[k-1].Eff = effErr
	}
	return out
}

var usePrefixPool = []string{"/", "/a", "/ab", "/api", "/:p", "/abc"}

// route generates one registration. known: the custom constraints a route may name here (those
// its app has registered so far, most recent last, and the root's initial ones).
func (g *mgen) route(inSub bool, known []string) mstmt {
	if g.r.Chance(1, 12) {
		return g.routeChain(inSub)
	}
	s := g.routeStmt(inSub)
	if (s.Kind == "m" || s.Kind == "all") && len(known) > 0 && g.r.Chance(1, 3) {
		g.constrain(&s, gen.Pick(g.r, known))
	}
	return s
}

// routeChain: nested Route() calls, 1–3 levels, with trailing slashes and empty paths at the
// inner levels.
func (g *mgen) routeChain(inSub bool) mstmt {
	r := g.r
	g.budget--
	s := mstmt{Kind: "routechain", Chain: []string{gen.Pick(r, []string{"/a", "/ab", "/api", "/abc/", "/:p", "/x/Y/", "/a/"})}}
	for lvl := 0; lvl < 2 && r.Chance(1, 2); lvl++ {
		s.Chain = append(s.Chain, gen.Pick(r, []string{"/d", "/users/", "", "/", "/:q", "x", "/abc/"}))
	}
	if r.Chance(3, 4) {
		s.Methods = []string{gen.Pick(r, g.prog.methodPool())}
	}
	s.Hs = g.hs(inSub)
	return s
}

// constrain gives the (endpoint) statement a path whose parameter carries the named constraint.
func (g *mgen) constrain(s *mstmt, name string) {
	cp := gen.Pick(g.r, mountConsPaths)
	s.Path, s.ConsParam, s.ConsKind = fmt.Sprintf(cp.Path, name), cp.Param, name
	for _, h := range s.Hs {
		g.consOf[h.ID] = [2]string{s.ConsParam, s.ConsKind}
	}
}

func (g *mgen) routeStmt(inSub bool) mstmt {
	r := g.r
	g.budget--
	s := mstmt{}
	switch r.PickW(46, 18, 13, 15, 12) {
	case 0:
		s.Kind = "m"
		pool := g.prog.methodPool()
		s.Methods = []string{gen.Pick(r, pool)}
		if r.Chance(1, 4) {
			// Add with a method list
			ms := append(append([]string(nil), pool...), "PUT")
			gen.Shuffle(r, ms)
			s.Methods = ms[:r.Range(2, 3)]
		}
		s.Path = gen.Pick(r, mountPaths)
	case 1:
		s.Kind = "use"
		s.Path = gen.Pick(r, usePrefixPool)
	case 2:
		s.Kind = "usenp"
	case 3:
		s.Kind = "all"
		s.Path = gen.Pick(r, mountPaths)
	case 4:
		// Use([]string{…}, h): a slice literal, or a slice variable shared with other calls
		s.Kind = "usemulti"
		p := g.prog
		if len(p.Shared) > 0 && r.Chance(2, 3) {
			k := r.Intn(len(p.Shared))
			s.Share = k + 1
			s.Prefixes = append([]string(nil), p.Shared[k]...)
		} else {
			n := r.Range(1, 3)
			for i := 0; i < n; i++ {
				s.Prefixes = append(s.Prefixes, gen.Pick(r, usePrefixPool))
			}
			if r.Chance(2, 3) {
				p.Shared = append(p.Shared, append([]string(nil), s.Prefixes...))
				s.Share = len(p.Shared)
			}
		}
	}
	s.Hs = g.hs(inSub)
	// a handler pipeline kept in one slice variable and passed behind a route-specific first
	// handler: grp.Get("/a", guardA, pipeline...), grp.Post("/b", guardB, pipeline...)
	if (s.Kind == "m" || s.Kind == "all") && r.Chance(1, 5) {
		p := g.prog
		if len(p.Tails) > 0 && r.Chance(3, 4) {
			s.Tail = r.Intn(len(p.Tails)) + 1
		} else {
			t := g.hsN(gen.Pick(r, []int{3, 3, 5, 2, 6}), inSub)
			if r.Chance(2, 3) {
				t[len(t)-1].Eff = effStop
			}
			p.Tails = append(p.Tails, t)
			s.Tail = len(p.Tails)
		}
		s.Hs = g.hsN(1, inSub) // the guard passes on to the pipeline
	}
	return s
}

// hsN: k handlers that all call Next.
func (g *mgen) hsN(k int, inSub bool) []hspec {
	out := make([]hspec, k)
	for i := range out {
		out[i] = hspec{ID: g.nextID}
		if inSub {
			g.inSub[g.nextID] = true
		}
		g.nextID++
	}
	return out
}

// samePathPair: a registration for several methods at once (All, or Add with a method list) whose
// 1–9 handlers all call Next, and directly behind it a mounted app whose first routes spell the
// same full path for single methods.
func (g *mgen) samePathPair(depth int, inSub bool) []mstmt {
	r := g.r
	prefix := gen.Pick(r, []string{"/api", "/ab", "/a/b", "/Api"})
	sub := gen.Pick(r, []string{"/a", "/x", "/abc/d", "/:p", "/item"})
	first := mstmt{Kind: "all", Path: joinPrefix(prefix, sub)}
	methods := append(append([]string(nil), g.prog.methodPool()...), "PUT")
	if r.Bool() {
		gen.Shuffle(r, methods)
		first = mstmt{Kind: "m", Methods: append([]string(nil), methods[:r.Range(2, len(methods))]...), Path: first.Path}
	}
	g.budget--
	first.Hs = g.hsN(gen.Pick(r, []int{5, 7, 9, 5, 7, r.Range(1, 9)}), inSub)
	m := g.mount(depth)
	m.Prefix, m.PrefixList = prefix, nil
	var head []mstmt
	gen.Shuffle(r, methods)
	for _, mm := range methods[:r.Range(2, 3)] {
		s := mstmt{Kind: "m", Methods: []string{mm}, Path: sub, Hs: g.hsN(1, true)}
		s.Hs[0].Eff = effStop
		head = append(head, s)
	}
	m.Body = append(head, m.Body...)
	return []mstmt{first, m}
}

// markSubRootUse notes middleware that a mounted app registers without any prefix of its own
// (Use(h), Group("", h)): the recorded strict-routing finding is about exactly these.
func (g *mgen) markSubRootUse(s *mstmt) {
	for _, h := range s.Hs {
		g.subRootUse[h.ID] = true
	}
}

// known: what a route of the app owning `own` may name.
func (g *mgen) known(own []string) []string {
	return append(append([]string(nil), g.prog.RootCons...), own...)
}

// unregistered picks a catalogue constraint the app has not registered yet ("" if none is left).
func (g *mgen) unregistered(own []string) string {
	var left []string
	for _, n := range mountConsNames() {
		has := false
		for _, o := range own {
			has = has || o == n
		}
		if !has {
			left = append(left, n)
		}
	}
	if len(left) == 0 {
		return ""
	}
	return gen.Pick(g.r, left)
}

// body generates the statements of one router. own: the constraints registered so far on the app
// that owns the router (shared by the app and its groups).
// subRoot: the router is a mounted app itself or a chain of ""-prefixed groups on it.
func (g *mgen) body(depth int, inSub bool, own *[]string, subRoot bool) []mstmt {
	r := g.r
	n := r.Range(1, 5)
	var out []mstmt
	for i := 0; i < n && g.budget > 0; i++ {
		switch {
		case depth < 3 && g.mounts < 4 && r.Chance(1, 10):
			g.mounts++
			out = append(out, g.samePathPair(depth, inSub)...)
		case depth < 3 && g.mounts < 4 && r.Chance(1, 3):
			g.mounts++
			out = append(out, g.mount(depth))
		case depth < 3 && r.Chance(1, 6):
			grp := mstmt{Kind: "group", Prefix: gen.Pick(r, mountPrefixes)}
			if r.Chance(1, 5) {
				grp.Prefix = ""
			}
			if r.Chance(1, 3) {
				grp.Hs = g.hs(inSub) // Group(prefix, middleware…)
				if subRoot && grp.Prefix == "" {
					g.markSubRootUse(&grp)
				}
			}
			grp.Body = g.body(depth+1, inSub, own, subRoot && grp.Prefix == "")
			out = append(out, grp)
		case r.Chance(1, 10):
			if name := g.unregistered(*own); name != "" {
				out = append(out, g.consStmt(name, inSub, own))
			}
		case !inSub && r.Chance(1, 10):
			// RebuildTree() on the serving app, the documented call after routes were added
			out = append(out, mstmt{Kind: "rebuild"})
		default:
			s := g.route(inSub, g.known(*own))
			if s.Kind == "usenp" && subRoot {
				g.markSubRootUse(&s)
			}
			out = append(out, s)
		}
	}
	// a mount closing the body sometimes gets a sibling chained onto its return value
	if len(out) > 0 && out[len(out)-1].Kind == "mount" && r.Chance(1, 3) {
		s := g.route(inSub, g.known(*own))
		if s.Kind == "usenp" && subRoot {
			g.markSubRootUse(&s)
		}
		out = append(out, s)
	}
	chainCalls(r, out)
	return out
}

// chainCalls lets some statements be called on the return value of the statement before them
// (grp.Use("/users", sub).Get("/health", h); x := grp.Get(…); x.Use(…)).
func chainCalls(r *gen.Rand, out []mstmt) {
	returnsRouter := func(k string) bool {
		return k == "mount" || k == "m" || k == "all" || k == "use" || k == "usenp" || k == "usemulti"
	}
	for i := 1; i < len(out); i++ {
		if !returnsRouter(out[i-1].Kind) || !(returnsRouter(out[i].Kind) || out[i].Kind == "group" || out[i].Kind == "routechain") {
			continue
		}
		if out[i-1].Kind == "mount" && r.Chance(1, 2) || r.Chance(1, 8) {
			out[i].OnPrev = true
		}
	}
}

func (g *mgen) consStmt(name string, inSub bool, own *[]string) mstmt {
	*own = append(*own, name)
	if inSub {
		g.subCons = true
	}
	return mstmt{Kind: "cons", Name: name}
}

// mount generates a mounted app. One in four registers its custom constraints one by one, each
// (mostly) followed by a route that names the constraint registered last.
func (g *mgen) mount(depth int) mstmt {
	r := g.r
	m := mstmt{Kind: "mount", Prefix: gen.Pick(r, mountPrefixes), Sub: g.subCfg()}
	if r.Chance(1, 5) {
		// the prefix handed over as a list; a list of several entries has no documented meaning
		// for a sub-app (such programs are counted, not judged)
		m.PrefixList = []string{m.Prefix}
		if r.Chance(1, 8) {
			m.PrefixList = append(m.PrefixList, gen.Pick(r, mountPrefixes))
		}
	}
	var own []string
	if r.Chance(1, 4) {
		k := r.Range(2, 5)
		for i := 0; i < k; i++ {
			name := g.unregistered(own)
			if name == "" {
				break
			}
			m.Body = append(m.Body, g.consStmt(name, true, &own))
			if r.Chance(3, 4) {
				s := mstmt{Kind: "m", Methods: []string{gen.Pick(r, g.prog.methodPool())}}
				if r.Chance(1, 4) {
					s = mstmt{Kind: "all"}
				}
				s.Hs = g.hs(true)
				g.constrain(&s, name)
				m.Body = append(m.Body, s)
			}
		}
	}
	m.Body = append(m.Body, g.body(depth+1, true, &own, true)...)
	if r.Chance(1, 3) {
		k := r.Range(1, 2)
		for j := 0; j < k; j++ {
			s := g.route(true, g.known(own))
			if s.Kind == "usenp" {
				g.markSubRootUse(&s)
			}
			m.Late = append(m.Late, s)
		}
	}
	return m
}

// subCfg: half of the mounted apps are created with routing options of their own (a sub-app is a
// fiber.New(...) of its own; the options of the app that serves the requests are the root's).
func (g *mgen) subCfg() *subCfg {
	if g.r.Bool() {
		return nil
	}
	return &subCfg{CaseSensitive: g.r.Bool(), Strict: g.r.Bool()}
}

type mrec struct {
	ID     int               `json:"id"`
	Params map[string]string `json:"params"`
}

type mtrace struct{ recs []mrec }

func mHandler(tr *mtrace, h hspec) fiber.Handler {
	return func(c fiber.Ctx) error {
		ps := map[string]string{}
		for _, n := range c.Route().Params {
			ps[n] = strings.Clone(c.Params(n))
		}
		tr.recs = append(tr.recs, mrec{ID: h.ID, Params: ps})
		switch h.Eff {
		case effStop:
			return c.SendString(fmt.Sprintf("h%d:%s", h.ID, c.Path()))
		case effErr:
			return fiber.NewError(418, fmt.Sprintf("teapot-%d", h.ID))
		}
		return c.Next()
	}
}

// mApplyRoute performs the statement's API call on rt. shared holds the build's slice variables
// (nil: every Use([]string…) call gets a slice literal of its own).
func mApplyRoute(rt fiber.Router, s *mstmt, tr *mtrace, cx *mctx) fiber.Router {
	shared := cx.lists
	hs := make([]fiber.Handler, len(s.Hs))
	for i, h := range s.Hs {
		hs[i] = mHandler(tr, h)
	}
	switch s.Kind {
	case "routechain":
		rg := rt.Route(s.Chain[0])
		for _, c := range s.Chain[1:] {
			rg = rg.Route(c)
		}
		if len(s.Methods) > 0 {
			rg.Add(s.Methods, hs[0], hs[1:]...)
		} else {
			rg.All(hs[0], hs[1:]...)
		}
	case "usemulti":
		pf := append([]string(nil), s.Prefixes...)
		if shared != nil && s.Share > 0 {
			pf = shared[s.Share-1]
		}
		return rt.Use(append([]any{pf}, anyHs(hs[0], hs[1:])...)...)
	case "m":
		if s.Tail > 0 {
			return rt.Add(s.Methods, s.Path, hs[0], cx.tails[s.Tail-1]...)
		}
		return rt.Add(s.Methods, s.Path, hs[0], hs[1:]...)
	case "all":
		if s.Tail > 0 {
			return rt.All(s.Path, hs[0], cx.tails[s.Tail-1]...)
		}
		return rt.All(s.Path, hs[0], hs[1:]...)
	case "use":
		return rt.Use(append([]any{s.Path}, anyHs(hs[0], hs[1:])...)...)
	case "usenp":
		return rt.Use(anyHs(hs[0], hs[1:])...)
	}
	return nil
}

// mGroup opens the group of a group statement, with its middleware if it has any.
func mGroup(rt fiber.Router, s *mstmt, tr *mtrace) fiber.Router {
	hs := make([]fiber.Handler, len(s.Hs))
	for i, h := range s.Hs {
		hs[i] = mHandler(tr, h)
	}
	return rt.Group(s.Prefix, hs...)
}

// mApplyMeta performs the statements that register no handlers. owner: the app owning the
// enclosing router (nil: constraints are not registered at their position because the app has
// registered the whole catalogue up front); root: the app that serves the requests.
func mApplyMeta(owner, root *fiber.App, s *mstmt) bool {
	switch s.Kind {
	case "cons":
		if owner != nil {
			registerCons(owner, []string{s.Name})
		}
		return true
	case "rebuild":
		root.RebuildTree()
		return true
	}
	return false
}

// buildMounted: composition (A) — real sub-apps attached with Use(prefix, subApp). allOnRoot: the
// root registers the whole constraint catalogue up front instead of RootCons only (used to name
// the input class of a difference, never for a verdict).
func buildMounted(p *mprog, tr *mtrace, allOnRoot bool) *fiber.App {
	shared := p.newCtx(tr, true)
	var late []func()
	rootCons := p.RootCons
	if allOnRoot {
		rootCons = mountConsNames()
	}
	app := p.newApp(p.Cfg, rootCons)
	var build func(rt fiber.Router, owner *fiber.App, body []mstmt)
	build = func(encl fiber.Router, owner *fiber.App, body []mstmt) {
		var prev fiber.Router // what the previous statement's call returned
		for i := range body {
			s := &body[i]
			rt := encl
			if s.OnPrev && prev != nil {
				rt = prev
			}
			prev = nil
			if mApplyMeta(owner, app, s) {
				continue
			}
			switch s.Kind {
			case "mount":
				sub := p.subApp(s)
				build(sub, sub, s.Body)
				if len(s.PrefixList) > 0 {
					prev = rt.Use(append([]string(nil), s.PrefixList...), sub)
				} else {
					prev = rt.Use(s.Prefix, sub)
				}
				if len(s.Late) > 0 {
					ls := s.Late
					late = append(late, func() {
						for j := range ls {
							mApplyRoute(sub, &ls[j], tr, shared)
						}
					})
				}
			case "group":
				build(mGroup(rt, s, tr), owner, s.Body)
			default:
				prev = mApplyRoute(rt, s, tr, shared)
			}
		}
	}
	build(app, app, p.Root)
	for _, f := range late {
		f()
	}
	return app
}

// buildFlat: composition (B) — the same handlers registered under Group(prefix) at the
// position of the mount.
func buildFlat(p *mprog, tr *mtrace) *fiber.App {
	ref := p.newCtx(tr, false)
	app := p.newApp(p.Cfg, mountConsNames())
	var build func(rt fiber.Router, body []mstmt)
	build = func(rt fiber.Router, body []mstmt) {
		for i := range body {
			s := &body[i]
			if mApplyMeta(nil, app, s) {
				continue
			}
			switch s.Kind {
			case "mount":
				g := rt.Group(s.Prefix)
				build(g, s.Body)
				for j := range s.Late {
					mApplyRoute(g, &s.Late[j], tr, ref)
				}
			case "group":
				build(mGroup(rt, s, tr), s.Body)
			default:
				mApplyRoute(rt, s, tr, ref)
			}
		}
	}
	build(app, p.Root)
	return app
}

// ---- second clause: Group/Route prefixes vs spelled-out full paths
// Domain kept unambiguous: prefixes without trailing slash, paths starting with '/'.

func buildGrouped(p *mprog, tr *mtrace) *fiber.App {
	shared := p.newCtx(tr, true)
	app := p.newApp(p.Cfg, p.RootCons)
	var build func(rt fiber.Router, body []mstmt)
	build = func(encl fiber.Router, body []mstmt) {
		var prev fiber.Router
		for i := range body {
			s := &body[i]
			rt := encl
			if s.OnPrev && prev != nil {
				rt = prev
			}
			prev = nil
			if mApplyMeta(app, app, s) {
				continue
			}
			if s.Kind == "group" {
				build(mGroup(rt, s, tr), s.Body)
			} else {
				prev = mApplyRoute(rt, s, tr, shared)
			}
		}
	}
	build(app, p.Root)
	return app
}

func buildSpelled(p *mprog, tr *mtrace) *fiber.App {
	ref := p.newCtx(tr, false)
	app := p.newApp(p.Cfg, mountConsNames())
	var build func(prefix string, body []mstmt)
	build = func(prefix string, body []mstmt) {
		for i := range body {
			s := body[i]
			if mApplyMeta(nil, app, &s) {
				continue
			}
			if s.Kind == "group" {
				full := joinPrefix(prefix, s.Prefix)
				if len(s.Hs) > 0 {
					// Group(prefix, mw…) = the middleware registered under the group's full prefix
					mApplyRoute(app, &mstmt{Kind: "use", Path: full, Hs: s.Hs}, tr, ref)
				}
				build(full, s.Body)
				continue
			}
			switch s.Kind {
			case "routechain":
				full := joinPrefix(prefix, s.Chain[0])
				for _, c := range s.Chain[1:] {
					full = joinPrefix(full, c)
				}
				if len(s.Methods) > 0 {
					s = mstmt{Kind: "m", Methods: s.Methods, Path: full, Hs: s.Hs}
				} else {
					s = mstmt{Kind: "use", Path: full, Hs: s.Hs}
				}
			case "usenp":
				if prefix != "" {
					s.Kind = "use"
					s.Path = prefix
				}
			case "usemulti":
				// a slice literal holding the full paths
				full := make([]string, len(s.Prefixes))
				for j, pf := range s.Prefixes {
					full[j] = joinPrefix(prefix, pf)
				}
				s.Prefixes = full
			default:
				s.Path = joinPrefix(prefix, s.Path)
			}
			mApplyRoute(app, &s, tr, ref)
		}
	}
	build("", p.Root)
	return app
}

// joinPrefix spells the full path of `path` under `prefix`: exactly one slash between them.
func joinPrefix(prefix, path string) string {
	if prefix == "" {
		return path
	}
	if path == "" {
		return prefix // an empty sub-path names the prefix itself, as written
	}
	return strings.TrimRight(prefix, "/") + "/" + strings.TrimLeft(path, "/")
}

func subTrace(ids []mrec, inSub map[int]bool) bool {
	for _, r := range ids {
		if inSub[r.ID] {
			return true
		}
	}
	return false
}

func recsEqual(a, b []mrec) (bool, string) {
	if len(a) != len(b) {
		return false, "trace"
	}
	for i := range a {
		if a[i].ID != b[i].ID {
			return false, "trace"
		}
	}
	for i := range a {
		if len(a[i].Params) != len(b[i].Params) {
			return false, "params"
		}
		for k, v := range a[i].Params {
			if w, ok := b[i].Params[k]; !ok || w != v {
				return false, "params"
			}
		}
	}
	return true, ""
}

func mountShape(p *mprog) string {
	// input class for signatures: which kinds of mount prefixes occur
	kinds := map[string]bool{}
	var walk func(b []mstmt, depth int)
	walk = func(b []mstmt, depth int) {
		for _, s := range b {
			if s.Kind == "mount" {
				switch {
				case s.Prefix == "/":
					kinds["root-prefix"] = true
				case strings.HasSuffix(s.Prefix, "/"):
					kinds["trailing-slash-prefix"] = true
				case strings.Contains(s.Prefix, ":"):
					kinds["param-prefix"] = true
				default:
					kinds["plain-prefix"] = true
				}
				if depth > 0 {
					kinds["nested"] = true
				}
				if len(s.Late) > 0 {
					kinds["late-routes"] = true
				}
				if s.Sub != nil && (s.Sub.CaseSensitive != p.Cfg.CaseSensitive || s.Sub.Strict != p.Cfg.Strict) {
					kinds["sub-app-with-other-routing-options"] = true
				}
				if len(s.PrefixList) > 0 {
					kinds["prefix-given-as-list"] = true
				}
				if !strings.HasPrefix(s.Prefix, "/") {
					kinds["prefix-without-leading-slash"] = true
				}
				walk(s.Body, depth+1)
			} else if s.Kind == "group" {
				walk(s.Body, depth)
			} else if s.Kind == "rebuild" {
				kinds["rebuildtree-during-registration"] = true
			}
		}
	}
	walk(p.Root, 0)
	var ks []string
	for k := range kinds {
		ks = append(ks, k)
	}
	sort.Strings(ks)
	return strings.Join(ks, "+")
}

// mountFeatures names what is particular about one mount statement.
func mountFeatures(p *mprog, s *mstmt, nested bool, kinds map[string]bool) {
	switch {
	case s.Prefix == "/":
		kinds["root-prefix"] = true
	case strings.HasSuffix(s.Prefix, "/"):
		kinds["trailing-slash-prefix"] = true
	case strings.ContainsAny(s.Prefix, "*+"):
		kinds["greedy-param-prefix"] = true
	case strings.Contains(s.Prefix, ":"):
		kinds["param-prefix"] = true
	default:
		kinds["plain-prefix"] = true
	}
	if nested {
		kinds["nested"] = true
	}
	if s.Sub != nil && (s.Sub.CaseSensitive != p.Cfg.CaseSensitive || s.Sub.Strict != p.Cfg.Strict) {
		kinds["sub-app-with-other-routing-options"] = true
	}
	if len(s.PrefixList) > 0 {
		kinds["prefix-given-as-list"] = true
	}
	if !strings.HasPrefix(s.Prefix, "/") {
		kinds["prefix-without-leading-slash"] = true
	}
}

// chainedHandlers: ids of handlers registered by calls chained onto a return value (and, for a
// chained mount or group, everything inside it).
func chainedHandlers(p *mprog) map[int]bool {
	out := map[int]bool{}
	var walk func(b []mstmt, in bool)
	walk = func(b []mstmt, in bool) {
		for i := range b {
			s := &b[i]
			on := in || s.OnPrev
			if on {
				for _, h := range s.Hs {
					out[h.ID] = true
				}
			}
			walk(s.Body, on)
			walk(s.Late, on)
		}
	}
	walk(p.Root, false)
	return out
}

// handlerShapes gives, for every handler living in a mounted app, the input class of the mount
// that owns it (features of that mount only, not of the whole program).
func handlerShapes(p *mprog) map[int]string {
	out := map[int]string{}
	var walk func(b []mstmt, chain []*mstmt, late bool)
	walk = func(b []mstmt, chain []*mstmt, late bool) {
		for i := range b {
			s := &b[i]
			switch s.Kind {
			case "mount":
				ch := append(append([]*mstmt(nil), chain...), s)
				walk(s.Body, ch, late)
				walk(s.Late, ch, true)
			case "group":
				walk(s.Body, chain, late)
				fallthrough // the group's own middleware
			default:
				if len(chain) == 0 || len(s.Hs) == 0 {
					continue
				}
				// the mount that owns the handler; outer mounts only add "nested"
				kinds := map[string]bool{}
				mountFeatures(p, chain[len(chain)-1], len(chain) > 1, kinds)
				if late {
					kinds["late-routes"] = true
				}
				var ks []string
				for k := range kinds {
					ks = append(ks, k)
				}
				sort.Strings(ks)
				for _, h := range s.Hs {
					out[h.ID] = strings.Join(ks, "+")
				}
			}
		}
	}
	walk(p.Root, nil, false)
	return out
}

// tailReused: some handler tail is named by two or more registrations.
func tailReused(p *mprog) bool {
	uses := map[int]int{}
	var walk func(b []mstmt)
	walk = func(b []mstmt) {
		for i := range b {
			if b[i].Tail > 0 {
				uses[b[i].Tail]++
			}
			walk(b[i].Body)
			walk(b[i].Late)
		}
	}
	walk(p.Root)
	for _, n := range uses {
		if n > 1 {
			return true
		}
	}
	return false
}

func hasKind(b []mstmt, kind string) bool {
	for _, s := range b {
		if s.Kind == kind || hasKind(s.Body, kind) {
			return true
		}
	}
	return false
}

// checkMounted builds both compositions of p and compares them on the requests.
func checkMounted(e *ev.Env, c *ev.Case, p *mprog, g *mgen, reqs [][2]string) {
	trA, trB := &mtrace{}, &mtrace{}
	var dA, dB *drive.Direct
	if e.Guard(c, "mount|build-mounted", p, func() { dA = drive.NewDirect(buildMounted(p, trA, false)) }) {
		return
	}
	if e.Guard(c, "mount|build-flat", p, func() { dB = drive.NewDirect(buildFlat(p, trB)) }) {
		return
	}
	// Programs in which a mounted app registers custom constraints of its own get a third
	// composition: the same mounted tree with the whole catalogue registered on the root as well. It
	// never decides whether a request is a violation; it only names the input class of a
	// difference between (A) and (B): the mounted tree answers this request differently once the
	// root knows the constraints too, i.e. the constraints of the mounted apps were not in force.
	trC := &mtrace{}
	var dC *drive.Direct
	if g.subCons {
		if e.Guard(c, "mount|build-mounted", p, func() { dC = drive.NewDirect(buildMounted(p, trC, true)) }) {
			return
		}
	}
	// input class of a difference: the mounts leading to the first handler that ran in only one
	// composition (or, when no handler of a mounted app is involved, what ran at all)
	stageClass := ""
	hshapes := handlerShapes(p)
	progClass := ""
	if hasKind(p.Root, "rebuild") {
		progClass = "+rebuildtree-during-registration"
	}
	if tailReused(p) {
		progClass += "+handler-tail-slice-passed-to-several-registrations"
	}
	chained := chainedHandlers(p)
	shapeOf := func(a, b []mrec) string {
		i := 0
		for i < len(a) && i < len(b) && a[i].ID == b[i].ID {
			i++
		}
		for _, recs := range [][]mrec{a, b} {
			if i < len(recs) && chained[recs[i].ID] {
				// the first handler that ran in one composition only was registered through a call
				// chained onto the return value of another call
				sh := hshapes[recs[i].ID]
				if sh == "" {
					sh = "handlers-outside-mounted-apps"
				}
				return sh + "+call-chained-on-return-value" + progClass + stageClass
			}
		}
		for _, recs := range [][]mrec{a, b} {
			if i < len(recs) {
				if sh, ok := hshapes[recs[i].ID]; ok {
					return sh + progClass + stageClass
				}
			}
		}
		for _, recs := range [][]mrec{a, b} {
			for j := len(recs) - 1; j >= 0; j-- {
				if sh, ok := hshapes[recs[j].ID]; ok {
					return sh + progClass + stageClass
				}
			}
		}
		if len(a) == 0 && len(b) == 0 {
			return "no-handler-ran" + progClass + stageClass
		}
		return "handlers-outside-mounted-apps" + progClass + stageClass
	}
	// Use([]string{a, b, …}, subApp) with several entries has no documented meaning: such
	// programs are run and their differences to the first-entry reading counted, not reported
	judged := !hasMultiEntryListMount(p.Root)
	if !judged {
		e.Stat("trees_mounting_with_a_multi_entry_prefix_list_not_judged", 1)
	}
	var runOne func(m, path string)
	run := func() {
		for _, rq := range reqs {
			runOne(rq[0], rq[1])
		}
	}
	runOne = func(m, path string) {
		for once := true; once; once = false {
			trA.recs, trB.recs = nil, nil
			var ra, rb *drive.Resp
			if e.Guard(c, "mount|dispatch-mounted", map[string]any{"program": p, "method": m, "path": path}, func() { ra = do(dA, m, path) }) {
				continue
			}
			if e.Guard(c, "mount|dispatch-flat", map[string]any{"program": p, "method": m, "path": path}, func() { rb = do(dB, m, path) }) {
				continue
			}
			if !judged {
				if ok, _ := recsEqual(trA.recs, trB.recs); !ok || ra.Status != rb.Status || string(ra.Body) != string(rb.Body) {
					e.Stat("multi_entry_prefix_list_mount_differs_from_first_entry_reading", 1)
				}
				continue
			}
			e.Eval(1)
			if subTrace(trB.recs, g.inSub) || subTrace(trA.recs, g.inSub) {
				e.Nontrivial(c.ID, m, path)
			}
			detail := func() map[string]any {
				return map[string]any{"program": p, "method": m, "path": path,
					"mounted": map[string]any{"trace": trA.recs, "status": ra.Status, "body": string(ra.Body)},
					"grouped": map[string]any{"trace": trB.recs, "status": rb.Status, "body": string(rb.Body)}}
			}
			consLost := func(what string) bool {
				if dC == nil {
					return false
				}
				trC.recs = nil
				var rc *drive.Resp
				if e.Guard(c, "mount|dispatch-mounted", map[string]any{"program": p, "method": m, "path": path, "constraints_on_root_too": true}, func() { rc = do(dC, m, path) }) {
					return false
				}
				// same mounted tree, same request: only the root's knowledge of the constraints differs
				if ok, _ := recsEqual(trC.recs, trA.recs); ok && rc.Status == ra.Status && string(rc.Body) == string(ra.Body) {
					return false
				}
				d := detail()
				d["mounted_with_constraints_registered_on_root_too"] = map[string]any{"trace": trC.recs, "status": rc.Status, "body": string(rc.Body)}
				e.Violation(c, "mount|custom-constraint-of-sub-app-not-enforced",
					fmt.Sprintf("%s %s: mounted composition and Group(prefix) composition differ in %s; a mounted app registers custom constraints of its own, and the mounted composition answers differently once the root registers them too", m, path, what), d)
				return true
			}
			if ok, what := recsEqual(trA.recs, trB.recs); !ok {
				// first handler on which the two traces part
				i := 0
				for i < len(trA.recs) && i < len(trB.recs) && trA.recs[i].ID == trB.recs[i].ID {
					i++
				}
				if consLost(what) {
					continue
				}
				if what == "params" && p.Cfg.Strict {
					// same handlers, other values: the first handler whose parameters differ is a
					// prefix-less middleware of a mounted app (registered as '<mount>/' instead of
					// '<mount>' under StrictRouting, so a parameter at the end of the mount prefix
					// ends at the slash) — the recorded finding
					j := 0
					for j < len(trA.recs) {
						if ok, _ := recsEqual(trA.recs[j:j+1], trB.recs[j:j+1]); !ok {
							break
						}
						j++
					}
					if j < len(trB.recs) && g.subRootUse[trB.recs[j].ID] {
						e.Violation(c, "mount|strict-routing|prefixless-use-of-mounted-app-requires-slash-after-mount-path",
							fmt.Sprintf("StrictRouting: %s %s: the mounted app's Use(h) middleware h%d sees other parameter values than under Group(prefix).Use(h)", m, path, trB.recs[j].ID), detail())
						continue
					}
				}
				if what == "trace" && p.Cfg.Strict {
					if i < len(trB.recs) && g.subRootUse[trB.recs[i].ID] {
						e.Violation(c, "mount|strict-routing|prefixless-use-of-mounted-app-requires-slash-after-mount-path",
							fmt.Sprintf("StrictRouting: %s %s skips the mounted app's Use(h) middleware h%d, which Group(prefix).Use(h) runs", m, path, trB.recs[i].ID), detail())
						continue
					}
					// the same registration ('<mount>/' instead of '<mount>') seen from the other side:
					// behind a mount prefix that ends in a parameter the slash moves the parameter's end,
					// and the mounted app's Use(h) runs where Group(prefix).Use(h) does not
					if i < len(trA.recs) && g.subRootUse[trA.recs[i].ID] {
						e.Violation(c, "mount|strict-routing|prefixless-use-of-mounted-app-requires-slash-after-mount-path",
							fmt.Sprintf("StrictRouting: %s %s runs the mounted app's Use(h) middleware h%d, which Group(prefix).Use(h) skips", m, path, trA.recs[i].ID), detail())
						continue
					}
				}
				e.Violation(c, "mount|"+what+"-differs|"+shapeOf(trA.recs, trB.recs),
					fmt.Sprintf("%s %s: mounted composition and Group(prefix) composition differ in %s", m, path, what), detail())
				continue
			}
			if ra.Status != rb.Status || string(ra.Body) != string(rb.Body) {
				if consLost("response") {
					continue
				}
				e.Violation(c, "mount|response-differs|"+shapeOf(trA.recs, trB.recs),
					fmt.Sprintf("%s %s: mounted composition answers %d %q, Group(prefix) composition %d %q", m, path, ra.Status, ra.Body, rb.Status, rb.Body), detail())
			}
		}
	}
	run()
	if len(p.LateRoot) == 0 || !judged {
		return
	}
	// routes added to the running app (the same calls on every composition), then RebuildTree()
	late := func(d *drive.Direct, tr *mtrace) bool {
		return e.Guard(c, "mount|late-registration-on-serving-app", p, func() {
			lateCtx := p.newCtx(tr, false)
			for i := range p.LateRoot {
				mApplyRoute(d.App, &p.LateRoot[i], tr, lateCtx)
			}
			d.App.RebuildTree()
		})
	}
	if late(dA, trA) || late(dB, trB) || (dC != nil && late(dC, trC)) {
		return
	}
	stageClass = "+routes-added-to-serving-app-after-start"
	e.Stat("trees_with_routes_added_after_start", 1)
	run()
}

func hasMultiEntryListMount(b []mstmt) bool {
	for _, s := range b {
		if s.Kind == "mount" && len(s.PrefixList) > 1 || hasMultiEntryListMount(s.Body) {
			return true
		}
	}
	return false
}

// genProgOptions draws the program-wide options: the configured method list and the custom
// constraints the root registers up front.
func genProgOptions(r *gen.Rand, p *mprog) {
	if r.Chance(1, 3) {
		p.Methods = append(append([]string(nil), fiber.DefaultMethods...), extraMethods...)
	}
	// the root starts with 0–5 custom constraints of the catalogue
	if r.Chance(1, 2) {
		names := mountConsNames()
		gen.Shuffle(r, names)
		p.RootCons = names[:r.Range(1, len(names))]
	}
}

func isExtraMethod(m string) bool {
	for _, x := range extraMethods {
		if x == m {
			return true
		}
	}
	return false
}

func genReqMethod(r *gen.Rand, p *mprog) string {
	if p.Methods != nil && r.Chance(1, 3) {
		return gen.Pick(r, extraMethods)
	}
	return gen.Pick(r, []string{"GET", "POST", "GET", "PUT"})
}

// groupsClass: input class of a groups-vs-full-paths program for signatures.
func groupsClass(p *mprog) string {
	uses := map[int]int{}
	var walk func(b []mstmt)
	walk = func(b []mstmt) {
		for _, s := range b {
			if s.Kind == "usemulti" && s.Share > 0 {
				uses[s.Share]++
			}
			walk(s.Body)
		}
	}
	walk(p.Root)
	class := "fresh-arguments"
	for _, n := range uses {
		if n > 1 {
			class = "prefix-slice-variable-passed-to-several-use-calls"
		}
	}
	if p.Methods != nil {
		class += "+custom-request-methods"
	}
	if tailReused(p) {
		class += "+handler-tail-slice-passed-to-several-registrations"
	}
	return class
}

// regUnit marks handler ids for the corpus programs.
func corpusGen(sub []int, rootUse []int) *mgen {
	g := newMgen(nil, nil, 0)
	for _, i := range sub {
		g.inSub[i] = true
	}
	for _, i := range rootUse {
		g.subRootUse[i] = true
	}
	return g
}

func runMount(e *ev.Env) {
	// regression corpus: witnesses of repaired defects and of the recorded finding
	e.Corpus("param-prefix-params", func(c *ev.Case) {
		p := &mprog{Cfg: Cfg{Strict: true}, Root: []mstmt{{Kind: "mount", Prefix: "/:v", Body: []mstmt{
			{Kind: "all", Path: "/:p", Hs: []hspec{{ID: 0, Eff: effStop}}}}}}}
		checkMounted(e, c, p, corpusGen([]int{0}, nil), [][2]string{{"GET", "/x/d"}, {"GET", "/x"}})
	})
	e.Corpus("same-prefix-nested-startup", func(c *ev.Case) {
		inner := func(id int) []mstmt {
			return []mstmt{{Kind: "mount", Prefix: "/api/", Body: []mstmt{{Kind: "m", Methods: []string{"GET"}, Path: "/abc", Hs: []hspec{{ID: id, Eff: effStop}}}}}}
		}
		p := &mprog{Cfg: Cfg{}, Root: []mstmt{
			{Kind: "mount", Prefix: "/api/", Body: inner(0)},
			{Kind: "mount", Prefix: "/api/", Body: inner(1)}}}
		checkMounted(e, c, p, corpusGen([]int{0, 1}, nil), [][2]string{{"GET", "/api/api/abc"}, {"GET", "/api/abc"}})
	})
	e.Corpus("star-at-root-mount", func(c *ev.Case) {
		p := &mprog{Cfg: Cfg{}, Root: []mstmt{{Kind: "mount", Prefix: "/", Body: []mstmt{
			{Kind: "m", Methods: []string{"POST"}, Path: "/*", Hs: []hspec{{ID: 0, Eff: effStop}}},
			{Kind: "m", Methods: []string{"GET"}, Path: "/", Hs: []hspec{{ID: 1, Eff: effStop}}}}}}}
		checkMounted(e, c, p, corpusGen([]int{0, 1}, nil), [][2]string{{"POST", "/api/ab//"}, {"GET", "/"}, {"POST", "/"}})
	})
	e.Corpus("strict-prefixless-use", func(c *ev.Case) {
		p := &mprog{Cfg: Cfg{Strict: true}, Root: []mstmt{{Kind: "mount", Prefix: "/a/b", Body: []mstmt{
			{Kind: "usenp", Hs: []hspec{{ID: 0, Eff: effStop}}}}}}}
		checkMounted(e, c, p, corpusGen([]int{0}, []int{0}), [][2]string{{"GET", "/a/b"}, {"GET", "/a/b/"}, {"GET", "/a/b/x"}, {"GET", "/a/bx"}})
	})
	e.Corpus("sub-app-custom-constraint", func(c *ev.Case) {
		// sub := fiber.New(); sub.RegisterCustomConstraint(even); sub.Get("/:p<even>", h0); app.Use("/ab", sub)
		p := &mprog{Cfg: Cfg{}, Root: []mstmt{{Kind: "mount", Prefix: "/ab", Body: []mstmt{
			{Kind: "cons", Name: "even"},
			{Kind: "m", Methods: []string{"GET"}, Path: "/:p<even>", Hs: []hspec{{ID: 0, Eff: effStop}}, ConsParam: "p", ConsKind: "even"}}}}}
		g := corpusGen([]int{0}, nil)
		g.subCons = true
		checkMounted(e, c, p, g, [][2]string{{"GET", "/ab/xy"}, {"GET", "/ab/xyz"}, {"POST", "/ab/xyz"}})
	})

	e.Cases("trees", e.N(3000, 150000), func(c *ev.Case) {
		r := c.R
		p := &mprog{Cfg: Cfg{CaseSensitive: r.Bool(), Strict: r.Bool(), Unescape: r.Chance(1, 4), CustomCtx: r.Chance(1, 4)}}
		genProgOptions(r, p)
		g := newMgen(r, p, 14)
		rootOwn := append([]string(nil), p.RootCons...)
		p.Root = g.body(0, false, &rootOwn, false)
		if g.mounts == 0 {
			g.mounts++
			p.Root = append(p.Root, g.mount(1))
		}
		// an application that calls RebuildTree() once its registration is complete
		if r.Chance(1, 4) {
			p.Root = append(p.Root, mstmt{Kind: "rebuild"})
		}
		// routes added to the running app: mostly parameterised paths that overlap mounted routes,
		// on any method
		if r.Chance(1, 3) {
			k := r.Range(1, 3)
			for i := 0; i < k; i++ {
				s := g.routeStmt(false)
				for s.Kind == "usemulti" || s.Kind == "usenp" {
					s = g.routeStmt(false)
				}
				if r.Chance(2, 3) {
					s.Path = gen.Pick(r, []string{"/api/:p", "/:v/:p", "/a/b/:p", "/ab/:p", "/abc/:p", "/api/*", "/:p/:q", "/:p", "/*", "/Api/:p", "/:p/a"})
				}
				if s.Kind == "m" && r.Chance(1, 2) {
					s.Methods = []string{gen.Pick(r, []string{"POST", "PUT", "POST", "GET"})}
				}
				p.LateRoot = append(p.LateRoot, s)
			}
		}
		nreq := e.N(40, 60)
		segs := []string{"", "/a", "/ab", "/abc", "/x", "/api", "/Api", "/a/b", "/v1", "/abc/d", "/", "/a:b", "/x*", "/ab+", "/Ab", "/AB", "/x/Y", "/*", "/+", "/:p"}
		var reqs [][2]string
		for i := 0; i < nreq; i++ {
			var sb strings.Builder
			k := r.Range(1, 4)
			for j := 0; j < k; j++ {
				sb.WriteString(gen.Pick(r, segs))
			}
			path := sb.String()
			if path == "" || path[0] != '/' {
				path = "/" + path
			}
			path = strings.ReplaceAll(path, "//", "/")
			if r.Chance(1, 6) {
				path = mutatePath(r, path)
			}
			reqs = append(reqs, [2]string{genReqMethod(r, p), path})
		}
		checkMounted(e, c, p, g, reqs)
		shape := mountShape(p)
		if strings.Contains(shape, "sub-app-with-other-routing-options") {
			e.Stat("trees_with_sub_app_of_other_routing_options", 1)
		}
		if g.subCons {
			e.Stat("trees_with_constraints_registered_by_mounted_apps", 1)
		}
		if strings.Contains(shape, "prefix-given-as-list") {
			e.Stat("trees_mounting_with_a_prefix_list", 1)
		}
		if strings.Contains(shape, "rebuildtree-during-registration") {
			e.Stat("trees_calling_rebuildtree_during_registration", 1)
		}
		if strings.HasPrefix(groupsClass(p), "prefix-slice-variable") {
			e.Stat("trees_passing_one_prefix_slice_to_several_use_calls", 1)
		}
		e.Sample("tree", map[string]any{"cfg": p.Cfg.String(), "shape": shape, "root_statements": len(p.Root)})
	})

	e.Cases("groups", e.N(2000, 100000), func(c *ev.Case) {
		r := c.R
		p := &mprog{Cfg: Cfg{CaseSensitive: r.Bool(), Strict: r.Bool(), CustomCtx: r.Chance(1, 4)}}
		genProgOptions(r, p)
		g := newMgen(r, p, 12)
		rootOwn := append([]string(nil), p.RootCons...)
		// groups only, prefixes without trailing slash, paths with leading slash
		var body func(depth int) []mstmt
		body = func(depth int) []mstmt {
			n := r.Range(1, 4)
			var out []mstmt
			for i := 0; i < n && g.budget > 0; i++ {
				if depth < 3 && r.Chance(1, 3) {
					grp := mstmt{Kind: "group", Prefix: gen.Pick(r, []string{"/api", "/:v", "/a/b", "/Api", "/ab", "/abc", "/api/", "/a/b/", "/:Ver", "", "/", "/v1/", "v1", "api"})}
					if r.Chance(1, 3) {
						grp.Hs = g.hs(true) // Group(prefix, middleware…)
					}
					grp.Body = body(depth + 1)
					out = append(out, grp)
					continue
				}
				if r.Chance(1, 12) {
					if name := g.unregistered(rootOwn); name != "" {
						out = append(out, g.consStmt(name, false, &rootOwn))
						continue
					}
				}
				if r.Chance(1, 12) {
					out = append(out, mstmt{Kind: "rebuild"})
					continue
				}
				s := g.route(depth > 0, rootOwn)
				// paths may be spelled without their leading slash ("users" under "/api/")
				if depth > 0 && len(s.Path) > 1 && s.Kind != "usemulti" && s.ConsKind == "" && r.Chance(1, 4) {
					s.Path = s.Path[1:]
				} else if depth > 0 && (s.Kind == "m" || s.Kind == "all" || s.Kind == "use") && s.ConsKind == "" && r.Chance(1, 6) {
					s.Path = "" // grp.Get("", h): the group's prefix itself
				}
				out = append(out, s)
			}
			chainCalls(r, out)
			return out
		}
		p.Root = body(0)
		trA, trB := &mtrace{}, &mtrace{}
		var dA, dB *drive.Direct
		if e.Guard(c, "mount|build-grouped", p, func() { dA = drive.NewDirect(buildGrouped(p, trA)) }) {
			return
		}
		if e.Guard(c, "mount|build-spelled", p, func() { dB = drive.NewDirect(buildSpelled(p, trB)) }) {
			return
		}
		class := groupsClass(p)
		if strings.HasPrefix(class, "prefix-slice-variable") {
			e.Stat("groups_passing_one_prefix_slice_to_several_use_calls", 1)
		}
		segs := []string{"", "/a", "/ab", "/abc", "/x", "/api", "/Api", "/a/b", "/v1", "/abc/d", "/", "/Ab", "/AB"}
		for i := 0; i < e.N(40, 60); i++ {
			var sb strings.Builder
			for j := 0; j < r.Range(1, 4); j++ {
				sb.WriteString(gen.Pick(r, segs))
			}
			path := strings.ReplaceAll("/"+strings.TrimLeft(sb.String(), "/"), "//", "/")
			m := genReqMethod(r, p)
			trA.recs, trB.recs = nil, nil
			var ra, rb *drive.Resp
			if e.Guard(c, "mount|dispatch-grouped", map[string]any{"program": p, "method": m, "path": path}, func() { ra = do(dA, m, path) }) {
				continue
			}
			if e.Guard(c, "mount|dispatch-spelled", map[string]any{"program": p, "method": m, "path": path}, func() { rb = do(dB, m, path) }) {
				continue
			}
			e.Eval(1)
			if subTrace(trA.recs, g.inSub) {
				e.Nontrivial(c.ID, m, path)
			}
			if isExtraMethod(m) && len(trB.recs) > 0 {
				e.Stat("groups_extra_method_requests_reaching_handlers", 1)
			}
			detail := func() map[string]any {
				return map[string]any{"program": p, "method": m, "path": path,
					"grouped": map[string]any{"trace": trA.recs, "status": ra.Status, "body": string(ra.Body)},
					"spelled": map[string]any{"trace": trB.recs, "status": rb.Status, "body": string(rb.Body)}}
			}
			rclass := class
			if isExtraMethod(m) {
				rclass += "+request-with-configured-extra-method"
			}
			if ok, what := recsEqual(trA.recs, trB.recs); !ok {
				e.Violation(c, "group-vs-fullpath|"+what+"-differs|"+rclass,
					fmt.Sprintf("%s %s: Group prefixes and spelled-out paths differ in %s", m, path, what), detail())
				continue
			}
			if ra.Status != rb.Status || string(ra.Body) != string(rb.Body) {
				e.Violation(c, "group-vs-fullpath|response-differs|"+rclass,
					fmt.Sprintf("%s %s: grouped %d %q, spelled-out %d %q", m, path, ra.Status, ra.Body, rb.Status, rb.Body), detail())
			}
		}
	})
}
