package route

import (
	"fmt"
	"strings"

	"github.com/gofiber/fiber/v3"

	"verifharness/internal/drive"
	"verifharness/internal/ev"
	"verifharness/internal/gen"
	"verifharness/internal/reg"
)

func init() { reg.Register("route.sound", runSound) }

// soundCase is a pattern plus per-parameter value pools.
type soundCase struct {
	Pat  pattern    `json:"pattern"`
	Use  bool       `json:"use"`
	Cfg  Cfg        `json:"cfg"`
	good [][]string // per token
	bad  [][]string
	odd  [][]string
	// Neigh, when set, is registered right before (NeighFirst) or after the judged route with a
	// handler that only calls Next: a neighbour must not change where the judged handler runs.
	Neigh      *pattern
	NeighFirst bool
	// Ovr: custom constraints named like built-ins (int, bool, alpha, maxLen, minLen) are registered
	Ovr bool `json:"builtin_names_overridden"`
	// Mount: the route is registered on a sub-app (under RegPat) which the serving app mounts;
	// Pat is then the pattern the requests have to fit: mount prefix + RegPat
	Mount  *soundMount `json:"mount,omitempty"`
	RegPat pattern     `json:"-"`
	// SharedMW: a middleware registered before the judged route, under the judged pattern's first
	// literal followed by one parameter that bears the NAME of a later parameter of the judged
	// pattern; it reads that parameter and calls Next
	SharedMW *sharedMW `json:"middleware_sharing_a_parameter_name,omitempty"`
	// Entry: the API call that registers the judged handler. Middleware (Use true): "use",
	// "route.all" (Route(p).All registers a prefix middleware). Route handlers (Use false): "get",
	// "all", "add" (Add with several methods), "route.get", "route.add", "route.nested.get"
	// (Route("/").Route(p).Get), "group.get", "group.all", "group.add" (on Group("") or Group("/")).
	Entry string `json:"entry_point"`
	// Method of the requests (one the entry point registers the handler for)
	Method string `json:"request_method"`
}

// entryPoints of route handlers with the methods a request may use
var handlerEntries = []struct {
	Name    string
	Methods []string
}{
	{"get", []string{"GET"}}, {"get", []string{"GET"}}, {"get", []string{"GET"}},
	{"all", []string{"GET", "POST", "DELETE", "PATCH"}},
	{"add", []string{"GET", "PUT"}},
	{"route.get", []string{"GET"}}, {"route.add", []string{"POST", "GET"}}, {"route.nested.get", []string{"GET"}},
	{"group.get", []string{"GET"}}, {"group.all", []string{"GET", "PUT", "HEAD"}}, {"group.add", []string{"DELETE", "GET"}},
	{"slashgroup.all", []string{"GET", "POST"}},
}

// register performs the entry point's call on rt for pattern text pt.
func (sc *soundCase) register(rt fiber.Router, pt string, h fiber.Handler) {
	addMethods := func(name string) []string {
		for _, en := range handlerEntries {
			if en.Name == name {
				return en.Methods
			}
		}
		return []string{"GET"}
	}
	switch sc.Entry {
	case "use":
		rt.Use(pt, h)
	case "route.all":
		rt.Route(pt).All(h)
	case "all":
		rt.All(pt, h)
	case "add":
		rt.Add(addMethods("add"), pt, h)
	case "route.get":
		rt.Route(pt).Get(h)
	case "route.add":
		rt.Route(pt).Add(addMethods("route.add"), h)
	case "route.nested.get":
		rt.Route("/").Route(pt).Get(h)
	case "group.get":
		rt.Group("").Get(pt, h)
	case "group.all":
		rt.Group("").All(pt, h)
	case "group.add":
		rt.Group("").Add(addMethods("group.add"), pt, h)
	case "slashgroup.all":
		rt.Group("/").All(pt, h)
	default:
		rt.Get(pt, h)
	}
}

type sharedMW struct {
	Pattern string `json:"pattern"`
	Name    string `json:"name"`
}

type soundMount struct {
	Prefix           string `json:"prefix"`
	SubCaseSensitive bool   `json:"sub_case_sensitive"`
	SubStrict        bool   `json:"sub_strict"`
	// where the custom constraints are registered: "parent" (the serving app only), "sub" (the
	// mounted app only), "both"
	ConsOn string `json:"custom_constraints_on"`
	// Interleaved: the mounted app registers its constraints in turns with routes
	Interleaved bool `json:"constraints_and_routes_registered_in_turns"`
}

// literalTwin replaces one parameter token by the literal spelling of its own pattern text
// ("/files/*" -> the constant route `/files/\*`).
func (sc *soundCase) literalTwin(r *gen.Rand) *soundCase {
	var idx []int
	for i, t := range sc.Pat.Toks {
		if t.Kind != tLit {
			idx = append(idx, i)
		}
	}
	if len(idx) == 0 {
		return nil
	}
	k := gen.Pick(r, idx)
	tw := &soundCase{Use: sc.Use, Cfg: sc.Cfg, Ovr: sc.Ovr, Entry: sc.Entry, Method: sc.Method}
	for i, t := range sc.Pat.Toks {
		if i == k {
			lit := ""
			switch t.Kind {
			case tNamed:
				lit = ":" + t.Name
			case tNamedOpt:
				lit = ":" + t.Name + "?"
			case tStar:
				lit = "*"
			case tPlus:
				lit = "+"
			}
			t = tok{Kind: tLit, Lit: lit}
			tw.good, tw.bad, tw.odd = append(tw.good, nil), append(tw.bad, nil), append(tw.odd, nil)
		} else {
			tw.good, tw.bad, tw.odd = append(tw.good, sc.good[i]), append(tw.bad, sc.bad[i]), append(tw.odd, sc.odd[i])
		}
		tw.Pat.Toks = append(tw.Pat.Toks, t)
	}
	return tw
}

var litsAfterParam = []string{"/", "/a", "/books", "-", ".", "-x", ".json", "/Edit", "/c++", "/a:b:c", "-x*y*", "/::x", ".v(1)+"}

func genSoundCase(r *gen.Rand) *soundCase {
	sc := &soundCase{Cfg: Cfg{CaseSensitive: r.Bool(), Strict: r.Bool(), Unescape: r.Chance(1, 3), CustomCtx: r.Chance(1, 3)}, Use: r.Chance(1, 4)}
	sc.Ovr = r.Chance(1, 4)
	sc.Entry, sc.Method = "use", gen.Pick(r, []string{"GET", "GET", "POST"})
	if sc.Use && r.Chance(1, 4) {
		sc.Entry = "route.all"
	}
	if !sc.Use {
		en := gen.Pick(r, handlerEntries)
		sc.Entry, sc.Method = en.Name, gen.Pick(r, en.Methods)
	}
	n := r.Range(1, 4) // number of params
	names := []string{"id", "name", "p", "q", "Key", "x1"}
	gen.Shuffle(r, names)
	var toks []tok
	first := gen.Pick(r, []string{"/", "/user/", "/a/", "/ab", "/api/v1/", "/Shop/", "/a-", "/f.", "/c++/", "/ns/a:b:c/", "/x*y*/", "/q(1)/"})
	toks = append(toks, tok{Kind: tLit, Lit: first})
	sc.good, sc.bad, sc.odd = [][]string{nil}, [][]string{nil}, [][]string{nil}
	for i := 0; i < n; i++ {
		t := tok{}
		var good, bad, odd []string
		dash := false
		switch r.PickW(55, 20, 12, 13) {
		case 0:
			t.Kind = tNamed
		case 1:
			t.Kind = tNamedOpt
		case 2:
			t.Kind = tStar
		case 3:
			t.Kind = tPlus
		}
		if t.Kind == tNamed || t.Kind == tNamedOpt {
			t.Name = names[i]
			if r.Chance(3, 4) {
				t.Cons, good, bad, odd, dash = genCons(r, sc.Ovr)
			} else {
				good = []string{"a", "ab", "john", "x1", "A", "é"}
			}
		} else {
			good = []string{"a", "ab", "a/b", "x/y/z", "1"}
		}
		toks = append(toks, t)
		sc.good = append(sc.good, good)
		sc.bad = append(sc.bad, bad)
		sc.odd = append(sc.odd, odd)
		last := i == n-1
		if !last && r.Chance(1, 8) && (t.Kind == tNamed || t.Kind == tNamedOpt) {
			continue // adjacent parameters ("/:sign:param" is documented)
		}
		if !last || r.Chance(1, 2) {
			pool := litsAfterParam
			lit := gen.Pick(r, pool)
			for dash && lit[0] == '-' {
				lit = gen.Pick(r, pool)
			}
			if !last && lit == "-" || lit == "." {
				// a bare delimiter between two params is fine
			}
			toks = append(toks, tok{Kind: tLit, Lit: lit})
			sc.good = append(sc.good, nil)
			sc.bad = append(sc.bad, nil)
			sc.odd = append(sc.odd, nil)
		} else if !last {
			// adjacent params (allowed by the docs: "/:sign:param")
		}
	}
	// adjacency is only kept between two named parameters (the documented "/:sign:param");
	// a named parameter directly followed by a greedy one has no unique reading
	for i := 0; i+1 < len(toks); i++ {
		if toks[i].Kind != tLit && toks[i+1].Kind != tLit &&
			!((toks[i].Kind == tNamed || toks[i].Kind == tNamedOpt) && (toks[i+1].Kind == tNamed || toks[i+1].Kind == tNamedOpt)) {
			toks = append(toks[:i+1], append([]tok{{Kind: tLit, Lit: "/"}}, toks[i+1:]...)...)
			sc.good = append(sc.good[:i+1], append([][]string{nil}, sc.good[i+1:]...)...)
			sc.bad = append(sc.bad[:i+1], append([][]string{nil}, sc.bad[i+1:]...)...)
			sc.odd = append(sc.odd[:i+1], append([][]string{nil}, sc.odd[i+1:]...)...)
		}
	}
	sc.Pat = pattern{Toks: toks}
	if r.Chance(1, 3) {
		// a middleware in front whose only parameter has the name of the judged pattern's second
		// or later named parameter (same name, other position)
		var later []string
		seen := 0
		for _, t := range toks {
			if t.Kind == tLit {
				continue
			}
			if seen > 0 && (t.Kind == tNamed || t.Kind == tNamedOpt) {
				later = append(later, t.Name)
			}
			seen++
		}
		if len(later) > 0 {
			name := gen.Pick(r, later)
			sc.SharedMW = &sharedMW{Name: name, Pattern: pattern{Toks: []tok{toks[0], {Kind: tNamed, Name: name}}}.String()}
		}
	}
	if r.Chance(1, 4) {
		// registered on a sub-app mounted by the serving app
		sc.Mount = &soundMount{Prefix: gen.Pick(r, []string{"/", "/", "/m", "/Mnt", "/m/"}), SubCaseSensitive: r.Bool(), SubStrict: r.Bool(),
			ConsOn: gen.Pick(r, []string{"parent", "sub", "both"}), Interleaved: r.Bool()}
		sc.RegPat = sc.Pat
		if r.Chance(1, 4) {
			// a mount prefix with a greedy parameter of its own: the greedy parameters of the
			// mounted route are numbered on behind it (*1 *2, +1 +2)
			g := tok{Kind: tPlus}
			if r.Bool() {
				g = tok{Kind: tStar}
			}
			pre := []tok{{Kind: tLit, Lit: gen.Pick(r, []string{"/t/", "/w/"})}, g}
			sc.Mount.Prefix = pattern{Toks: pre}.String()
			if r.Bool() {
				sc.Mount.Prefix += "/api"
				pre = append(pre, tok{Kind: tLit, Lit: "/api"})
			}
			vals := []string{"a", "acme", "x1", "a/b"}
			var eff []tok
			var good, bad, odd [][]string
			for _, t := range pre {
				eff = append(eff, t)
				if t.Kind == tLit {
					good, bad, odd = append(good, nil), append(bad, nil), append(odd, nil)
				} else {
					good, bad, odd = append(good, vals), append(bad, nil), append(odd, nil)
				}
			}
			rest := append([]tok(nil), toks...)
			if eff[len(eff)-1].Kind == tLit {
				// the prefix's last literal and the pattern's first one are one literal
				eff[len(eff)-1].Lit += rest[0].Lit
				rest = rest[1:]
				sc.good, sc.bad, sc.odd = sc.good[1:], sc.bad[1:], sc.odd[1:]
			}
			sc.Pat = pattern{Toks: append(eff, rest...)}
			sc.good, sc.bad, sc.odd = append(good, sc.good...), append(bad, sc.bad...), append(odd, sc.odd...)
			return sc
		}
		eff := append([]tok(nil), toks...)
		eff[0].Lit = strings.TrimRight(sc.Mount.Prefix, "/") + eff[0].Lit
		sc.Pat = pattern{Toks: eff}
	}
	return sc
}

// candidates reconstructs the set of paths the reported values describe: literals and values
// concatenated; the slash before an empty optional parameter may be dropped.
func (sc *soundCase) candidates(vals []string) []string {
	cands := []string{""}
	toks := sc.Pat.Toks
	for i, t := range toks {
		var piece []string
		if t.Kind == tLit {
			piece = []string{t.Lit}
			// optional slash: literal ending in '/' followed by an empty optional/wildcard value,
			// or (being last) by nothing
			if strings.HasSuffix(t.Lit, "/") && i+1 < len(toks) && (toks[i+1].Kind == tNamedOpt || toks[i+1].Kind == tStar) && vals[i+1] == "" {
				piece = append(piece, strings.TrimSuffix(t.Lit, "/"))
			}
		} else {
			piece = []string{vals[i]}
		}
		var next []string
		for _, c := range cands {
			for _, p := range piece {
				next = append(next, c+p)
			}
		}
		cands = next
		if len(cands) > 64 {
			cands = cands[:64]
		}
	}
	return cands
}

func (sc *soundCase) normalize(s string) string {
	if !sc.Cfg.CaseSensitive {
		s = strings.ToLower(s)
	}
	if !sc.Cfg.Strict && len(s) > 1 {
		s = strings.TrimRight(s, "/")
		if s == "" {
			s = "/"
		}
	}
	return s
}

type soundObs struct {
	ran    bool
	vals   map[string]string
	path   string
	route  string
	nCalls int
	// the route's parameters read through c.Route().Params: names and values
	rpNames, rpVals []string
	rot             int  // where the handler starts reading its parameters
	mwRan           bool // the middleware sharing a parameter name ran (and read that parameter)
}

func runSound(e *ev.Env) {
	e.Corpus("pattern-text-as-path", func(c *ev.Case) {
		sc := &soundCase{Pat: pattern{Toks: []tok{{Kind: tLit, Lit: "/user/"}, {Kind: tNamed, Name: "id", Cons: []cons{{Kind: "int"}}}}}}
		sc.good = [][]string{nil, {"1"}}
		sc.bad = [][]string{nil, {"ab"}}
		sc.odd = [][]string{nil, nil}
		checkSound(e, c, sc, []string{"/user/:id<int>", "/user/ab", "/user/12"})
	})
	e.Corpus("named-before-dot-spans-slash", func(c *ev.Case) {
		sc := &soundCase{Pat: pattern{Toks: []tok{{Kind: tLit, Lit: "/user/"}, {Kind: tNamed, Name: "q"}, {Kind: tLit, Lit: ".json"}}}}
		sc.good = [][]string{nil, {"a"}, nil}
		sc.bad = [][]string{nil, nil, nil}
		sc.odd = [][]string{nil, nil, nil}
		checkSound(e, c, sc, []string{"/user/a/b.json", "/user/a.json", "/user/a/b/c.json"})
	})
	e.Corpus("constraint-char-also-follows", func(c *ev.Case) {
		for _, cn := range []cons{{Kind: "regex", Args: []string{`^[0-9]{4}$`}}, {Kind: "datetime", Args: []string{"2006-01-02"}}} {
			sc := &soundCase{Cfg: Cfg{CaseSensitive: true, Strict: true}, Pat: pattern{Toks: []tok{{Kind: tLit, Lit: "/b"}, {Kind: tNamed, Name: "id", Cons: []cons{cn}}, {Kind: tLit, Lit: "-x"}}}}
			sc.good = [][]string{nil, {"2022"}, nil}
			sc.bad = [][]string{nil, nil, nil}
			sc.odd = [][]string{nil, nil, nil}
			checkSound(e, c, sc, []string{"/b2022", "/b2022-x", "/b2022-01-01", "/b2022-01-01-x"})
		}
	})
	e.Cases("long", e.N(150, 3000), func(c *ev.Case) {
		sc, paths := genLongSoundCase(c.R)
		checkSound(e, c, sc, paths)
	})
	e.Cases("patterns", e.N(30000, 600000), func(c *ev.Case) {
		r := c.R
		sc := genSoundCase(r)
		n := e.N(30, 40)
		var paths []string
		text := sc.Pat.String()
		paths = append(paths, text, strings.ToLower(text), strings.ReplaceAll(text, `\`, ""))
		for len(paths) < n {
			vals := make([]string, len(sc.Pat.Toks))
			// choose the token that gets a bad/odd value (or none)
			special := -1
			mode := r.PickW(35, 45, 20) // all good / one bad / one odd
			if mode != 0 {
				var idx []int
				for i := range sc.Pat.Toks {
					if mode == 1 && len(sc.bad[i]) > 0 || mode == 2 && len(sc.odd[i]) > 0 {
						idx = append(idx, i)
					}
				}
				if len(idx) > 0 {
					special = gen.Pick(r, idx)
				}
			}
			for i, t := range sc.Pat.Toks {
				if t.Kind == tLit {
					continue
				}
				switch {
				case i == special && mode == 1:
					vals[i] = gen.Pick(r, sc.bad[i])
				case i == special && mode == 2:
					vals[i] = gen.Pick(r, sc.odd[i])
				case (t.Kind == tNamedOpt || t.Kind == tStar) && r.Chance(1, 4):
					vals[i] = ""
				case t.Kind == tNamed && r.Chance(1, 12):
					vals[i] = "" // the request leaves the (required) value out
				case r.Chance(1, 20):
					vals[i] = gen.Pick(r, []string{"", "/", "a/b", "-", ".", "%2F", " ", ":x", "*"})
				default:
					vals[i] = gen.Pick(r, sc.good[i])
				}
			}
			p := sc.Pat.fill(vals)
			if sc.Use && r.Bool() {
				p += gen.Pick(r, []string{"/more", "/", "x", "/a/b"})
			} else if !sc.Use && r.Chance(1, 8) {
				// the path goes on behind what the pattern describes
				p += gen.Pick(r, []string{"/more", "/a/b", "/7"})
			}
			switch r.Intn(12) {
			case 0:
				p += "/"
			case 1:
				p = strings.ToUpper(p)
			case 2:
				p = strings.Replace(p, "/", "//", 1)
			case 3:
				if len(p) > 2 {
					p = p[:len(p)-1]
				}
			case 4:
				p = strings.ToLower(p)
			}
			if p == "" || p[0] != '/' {
				p = "/" + p
			}
			if sc.Cfg.Unescape && r.Chance(1, 3) {
				// every non-ASCII byte percent-encoded, as clients send them
				var sb strings.Builder
				for i := 0; i < len(p); i++ {
					if p[i] >= 0x80 {
						fmt.Fprintf(&sb, "%%%02X", p[i])
					} else {
						sb.WriteByte(p[i])
					}
				}
				p = sb.String()
			} else if sc.Cfg.Unescape && len(p) > 1 && r.Chance(1, 3) {
				// percent-encode one byte (not a slash): with UnescapePath the handler sees the decoded path
				i := r.Range(1, len(p)-1)
				if p[i] != '/' && p[i] != '%' && p[i] != '+' {
					p = p[:i] + fmt.Sprintf("%%%02X", p[i]) + p[i+1:]
				}
			}
			paths = append(paths, p)
		}
		checkSound(e, c, sc, paths)
		// the same route next to its literal twin (and the twin next to the route)
		if tw := sc.literalTwin(r); tw != nil && r.Chance(1, 3) {
			twText := tw.Pat.String()
			first := r.Bool()
			a := *sc
			a.Mount = nil // the pair is registered directly on the serving app
			a.Neigh, a.NeighFirst = &tw.Pat, first
			checkSound(e, c, &a, append([]string{twText, strings.ReplaceAll(twText, `\`, "")}, paths[:10]...))
			b := *tw
			b.Neigh, b.NeighFirst = &sc.Pat, !first
			checkSound(e, c, &b, append([]string{twText, strings.ReplaceAll(twText, `\`, "")}, paths[:10]...))
		}
	})
}

// genLongSoundCase: a route handler under a pattern with 29 or 30 named parameters (30 is the
// most a request context holds), separated by '/', '-' or '.'.
func genLongSoundCase(r *gen.Rand) (*soundCase, []string) {
	sc := &soundCase{Cfg: Cfg{CaseSensitive: r.Bool(), Strict: r.Bool(), Unescape: r.Chance(1, 3), CustomCtx: r.Chance(1, 3)}}
	en := gen.Pick(r, handlerEntries)
	sc.Entry, sc.Method = en.Name, gen.Pick(r, en.Methods)
	n := gen.Pick(r, []int{29, 30, 30})
	vals := []string{"a", "ab", "x1", "Q", "zz9"}
	toks := []tok{{Kind: tLit, Lit: "/"}}
	sc.good, sc.bad, sc.odd = [][]string{nil}, [][]string{nil}, [][]string{nil}
	for i := 0; i < n; i++ {
		toks = append(toks, tok{Kind: tNamed, Name: fmt.Sprintf("p%d", i+1)})
		sc.good, sc.bad, sc.odd = append(sc.good, vals), append(sc.bad, nil), append(sc.odd, nil)
		if i < n-1 {
			toks = append(toks, tok{Kind: tLit, Lit: gen.Pick(r, []string{"/", "/", "-", "."})})
			sc.good, sc.bad, sc.odd = append(sc.good, nil), append(sc.bad, nil), append(sc.odd, nil)
		}
	}
	sc.Pat = pattern{Toks: toks}
	var paths []string
	for k := 0; k < 6; k++ {
		vs := make([]string, len(toks))
		for i, t := range toks {
			if t.Kind != tLit {
				vs[i] = gen.Pick(r, vals)
			}
		}
		paths = append(paths, sc.Pat.fill(vs))
	}
	return sc, paths
}

func checkSound(e *ev.Env, c *ev.Case, sc *soundCase, paths []string) {
	if sc.Entry == "" { // corpus cases
		sc.Entry = "get"
		if sc.Use {
			sc.Entry = "use"
		}
	}
	method := sc.Method
	if method == "" {
		method = "GET"
	}
	e.Stat("entry_"+sc.Entry, 1)
	app := sc.Cfg.NewApp()
	registerAll := func(a *fiber.App) {
		a.RegisterCustomConstraint(evenConstraint{})
		a.RegisterCustomConstraint(lowerConstraint{})
		a.RegisterCustomConstraint(upperConstraint{})
		if sc.Ovr {
			for _, o := range overrideCatalogue {
				a.RegisterCustomConstraint(o)
			}
		}
	}
	// target: the app the route is registered on
	target := app
	var lateCons []fiber.CustomConstraint // registered on the mounted app after the judged route
	regText := sc.Pat.String()
	if sc.Mount != nil {
		subCfg := sc.Cfg
		subCfg.CaseSensitive, subCfg.Strict = sc.Mount.SubCaseSensitive, sc.Mount.SubStrict
		target = subCfg.NewApp()
		regText = sc.RegPat.String()
		// the serving app has a custom constraint of its own in any case
		app.RegisterCustomConstraint(predConstraint{"parentOwn", func(v string) bool { return v != "" }})
		if sc.Mount.ConsOn != "sub" {
			registerAll(app)
		}
		if sc.Mount.ConsOn != "parent" {
			if sc.Mount.Interleaved {
				// constraints and routes registered in turns on the mounted app: three constraints,
				// a route naming one of them, then the remaining constraints (first the ones the judged
				// pattern names), then — below — the judged route
				for _, n := range []string{"filler1", "filler2", "filler3"} {
					target.RegisterCustomConstraint(predConstraint{n, func(v string) bool { return len(v) < 3 }})
				}
				target.Get("/zz-filler/:f<filler2>", func(cx fiber.Ctx) error { return cx.Next() })
				used := map[string]bool{}
				for _, t := range sc.Pat.Toks {
					for _, cn := range t.Cons {
						used[cn.Kind] = true
					}
				}
				var first, rest []fiber.CustomConstraint
				all := []fiber.CustomConstraint{evenConstraint{}, lowerConstraint{}, upperConstraint{}}
				if sc.Ovr {
					for _, o := range overrideCatalogue {
						all = append(all, o)
					}
				}
				for _, cc := range all {
					if used[cc.Name()] {
						first = append(first, cc)
					} else {
						rest = append(rest, cc)
					}
				}
				for _, cc := range first {
					target.RegisterCustomConstraint(cc)
				}
				lateCons = rest
			} else {
				registerAll(target)
			}
		}
	} else {
		registerAll(app)
	}
	keys := sc.Pat.paramKeys()
	var obs soundObs
	h := func(cx fiber.Ctx) error {
		obs.ran = true
		obs.nCalls++
		obs.vals = map[string]string{}
		// the keys are read in an order that changes from request to request
		for j := range keys {
			if k := keys[(j+obs.rot)%len(keys)]; k != "" {
				obs.vals[k] = strings.Clone(cx.Params(k))
			}
		}
		for _, n := range cx.Route().Params {
			obs.rpNames = append(obs.rpNames, n)
			obs.rpVals = append(obs.rpVals, strings.Clone(cx.Params(n)))
		}
		obs.path = strings.Clone(cx.Path())
		obs.route = cx.Route().Path
		return cx.SendStatus(200)
	}
	text := sc.Pat.String()
	var d *drive.Direct
	if e.Guard(c, "sound|register", text, func() {
		reg := func(pt string, hh fiber.Handler) { sc.register(target, pt, hh) }
		pass := func(cx fiber.Ctx) error { return cx.Next() }
		if sc.SharedMW != nil {
			name := sc.SharedMW.Name
			target.Use(sc.SharedMW.Pattern, func(cx fiber.Ctx) error {
				obs.mwRan = true
				_ = cx.Params(name)
				return cx.Next()
			})
		}
		if sc.Neigh != nil && sc.NeighFirst {
			reg(sc.Neigh.String(), pass)
		}
		reg(regText, h)
		for _, cc := range lateCons {
			target.RegisterCustomConstraint(cc)
		}
		if sc.Neigh != nil && !sc.NeighFirst {
			reg(sc.Neigh.String(), pass)
		}
		if sc.Mount != nil {
			app.Use(sc.Mount.Prefix, target)
		}
		d = drive.NewDirect(app)
	}) {
		return
	}
	if sc.Neigh != nil {
		e.Stat("with_neighbour_route", 1)
	}
	if sc.Mount != nil {
		e.Stat("registered_on_mounted_sub_app", 1)
	}
	hasCons := false
	for _, t := range sc.Pat.Toks {
		if len(t.Cons) > 0 {
			hasCons = true
		}
	}
	for pi, p := range paths {
		if strings.ContainsAny(p, "?#") {
			continue
		}
		obs = soundObs{rot: pi}
		var resp *drive.Resp
		if e.Guard(c, "sound|dispatch", map[string]any{"pattern": text, "path": p}, func() { resp = do(d, method, p) }) {
			continue
		}
		e.Eval(1)
		detail := func() map[string]any {
			m := map[string]any{"pattern": text, "use": sc.Use, "entry_point": sc.Entry, "method": method, "cfg": sc.Cfg.String(), "path": p, "params": obs.vals,
				"ctx_path": obs.path, "status": resp.Status, "builtin_names_overridden": sc.Ovr}
			if sc.Mount != nil {
				m["mount"] = sc.Mount
				m["registered_on_sub_app_as"] = regText
			}
			if sc.Neigh != nil {
				m["neighbour_route"] = sc.Neigh.String()
				m["neighbour_registered_first"] = sc.NeighFirst
			}
			return m
		}
		if !obs.ran {
			e.Stat("not_run", 1)
			if resp.Status != 404 {
				e.Violation(c, fmt.Sprintf("sound|no-handler-but-status-%d", resp.Status),
					"handler did not run yet the reply is not the not-found handling", detail())
			}
			if hasCons {
				e.Nontrivial("neg", text, p)
			}
			continue
		}
		e.Stat("ran", 1)
		if hasCons {
			e.Nontrivial("pos", text, p)
		}
		isPatternText := p == text || p == strings.ToLower(text) || p == strings.ReplaceAll(text, `\`, "")
		class := "generated-path"
		if isPatternText && sc.Pat.nParams() > 0 {
			class = "path-spells-pattern-text"
		}
		if sc.Mount != nil {
			class += "+route-of-mounted-app"
		}
		if obs.mwRan {
			class += "+after-middleware-with-same-parameter-name-at-other-position"
			e.Stat("ran_after_middleware_sharing_a_parameter_name", 1)
		}
		// (c) structural rules
		vals := make([]string, len(sc.Pat.Toks))
		bad := false
		for i, t := range sc.Pat.Toks {
			if t.Kind == tLit {
				continue
			}
			v := obs.vals[keys[i]]
			vals[i] = v
			if (t.Kind == tNamed || t.Kind == tPlus) && v == "" {
				e.Violation(c, "sound|required-param-empty|"+class, "handler ran with an empty required parameter "+keys[i], detail())
				bad = true
			}
			if (t.Kind == tNamed || t.Kind == tNamedOpt) && strings.Contains(v, "/") {
				e.Violation(c, "sound|named-param-spans-slash|"+class, "named parameter "+keys[i]+" contains '/'", detail())
				bad = true
			}
			// (b) constraints
			if v == "" && t.Kind == tNamedOpt {
				continue // absent optional parameter: nothing to constrain
			}
			for _, cn := range t.Cons {
				if evalCons(cn, v) == -1 {
					kind := cn.Kind
					if cn.Ovr {
						kind += "-overridden-by-custom-constraint"
					}
					if custom := cn.Ovr || cn.Kind == "even" || cn.Kind == "lower" || cn.Kind == "Upper"; custom && sc.Mount != nil {
						kind += "|custom-constraints-registered-on-" + sc.Mount.ConsOn
					}
					e.Violation(c, "sound|constraint-violated|"+kind+"|"+class,
						fmt.Sprintf("handler ran with %s=%q violating %s", keys[i], v, cn.text()), detail())
					bad = true
				}
			}
		}
		if bad {
			continue
		}
		// the same values are reported under the names c.Route().Params lists, in pattern order
		{
			j, differs := 0, ""
			for i, k := range keys {
				if k == "" {
					continue
				}
				if j >= len(obs.rpVals) {
					differs = fmt.Sprintf("Route().Params lists %d names %q, the pattern has more parameters", len(obs.rpNames), obs.rpNames)
					break
				}
				if obs.rpVals[j] != vals[i] {
					differs = fmt.Sprintf("parameter %d: Params(%q)=%q, but Params(Route().Params[%d]=%q)=%q", j+1, k, vals[i], j, obs.rpNames[j], obs.rpVals[j])
					break
				}
				j++
			}
			if differs == "" && j != len(obs.rpVals) {
				differs = fmt.Sprintf("Route().Params lists %d names %q, the pattern has %d parameters", len(obs.rpNames), obs.rpNames, j)
			}
			if differs != "" {
				d := detail()
				d["route_params_names"] = obs.rpNames
				d["values_read_through_route_params"] = obs.rpVals
				e.Violation(c, "sound|values-read-through-route-params-differ|"+class, differs, d)
				continue
			}
		}
		// (a) reconstruction; with UnescapePath the request path is the decoded one the handler sees
		reqPath := p
		if sc.Cfg.Unescape {
			reqPath = obs.path
			if strings.Contains(p, "%") {
				e.Stat("ran_on_percent_encoded_path", 1)
			}
		}
		want := sc.normalize(reqPath)
		ok := false
		for _, cand := range sc.candidates(vals) {
			cn := sc.normalize(cand)
			if cn == want || (sc.Use && strings.HasPrefix(want, cn)) {
				ok = true
				break
			}
			// the pattern makes a trailing slash optional when it ends in one
			if strings.HasSuffix(cand, "/") && sc.normalize(strings.TrimRight(cand, "/")) == sc.normalize(strings.TrimRight(reqPath, "/")) {
				ok = true
				break
			}
		}
		if !ok {
			if sc.Entry != "get" && sc.Entry != "use" {
				class += "+registered-through-" + sc.Entry
			}
			e.Violation(c, "sound|params-do-not-reproduce-path|"+class,
				fmt.Sprintf("substituting Params into %q gives %q, request path %q", text, sc.candidates(vals), p), detail())
		}
	}
	e.Sample("pattern", map[string]any{"pattern": text, "use": sc.Use, "cfg": sc.Cfg.String(), "paths": paths[:min(4, len(paths))]})
}
