package ctxiso

import (
	"bytes"
	"fmt"
	"io"
	"runtime"
	"strconv"
	"strings"
	"sync"

	"github.com/gofiber/fiber/v3"

	"verifharness/internal/drive"
	"verifharness/internal/ev"
	"verifharness/internal/gen"
)

// ---------------------------------------------------------------------------------------------
// ctxiso.isolation.race — K connections served concurrently by one app. Every request carries a
// unique id "R<conn>n<index>s<salt>Z" inside every value it sends (path params, query, headers,
// cookies, flash messages, form fields). The handler collects everything it can observe and the
// oracle demands: every id token found in any observed value is the id of the current request,
// and the k-th response of a connection answers the k-th request of that connection.

const raceK = 8

// raceAlpha is the alphabet of all random filler in this engine: it contains neither 'R' nor 'Z',
// so an id token can never arise by accident.
const raceAlpha = gen.Lower + gen.Digits

// idTokens extracts every R<digits>n<digits>s<digits>Z token of s.
func idTokens(s string, into map[string]struct{}) {
	digits := func(j int) int {
		for j < len(s) && s[j] >= '0' && s[j] <= '9' {
			j++
		}
		return j
	}
	for i := 0; i < len(s); i++ {
		if s[i] != 'R' {
			continue
		}
		j := digits(i + 1)
		if j == i+1 || j >= len(s) || s[j] != 'n' {
			continue
		}
		k := digits(j + 1)
		if k == j+1 || k >= len(s) || s[k] != 's' {
			continue
		}
		l := digits(k + 1)
		if l == k+1 || l >= len(s) || s[l] != 'Z' {
			continue
		}
		into[s[i:l+1]] = struct{}{}
		i = l
	}
}

type raceObs struct {
	ptr   string
	idHdr string
	comps map[string]string // component -> rendered observation
}

type raceSink struct {
	mu   sync.Mutex
	obs  []raceObs
	ptrs map[string]map[string]struct{} // ctx pointer -> set of connections that used it
}

type raceBind struct {
	Q  string   `query:"q" form:"q"`
	Ql []string `query:"ql" form:"ql"`
	F  string   `form:"f"`
}

func raceBuild(custom bool, yield bool) (*fiber.App, *raceSink) {
	s := &raceSink{ptrs: map[string]map[string]struct{}{}}
	app := fiber.New(fiber.Config{
		Views:             &nullViews{},
		PassLocalsToViews: true,
	})
	if custom {
		app.NewCtxFunc(func(a *fiber.App) fiber.CustomCtx {
			return &customCtx{DefaultCtx: fiber.NewDefaultCtx(a)}
		})
	}
	pause := func() {
		if yield {
			runtime.Gosched()
		}
	}
	app.Use(func(c fiber.Ctx) error {
		id := c.Get("X-Rid")
		c.Locals("rid", "local-"+id)
		c.Locals(localKey{2}, "slocal-"+id)
		_ = c.ViewBind(fiber.Map{"vb": "vb-" + id})
		pause()
		return c.Next()
	})
	h := func(c fiber.Ctx) error {
		// NB: Immutable is off — everything kept beyond the handler must be a copy
		o := raceObs{ptr: ctxPtr(c), idHdr: strings.Clone(c.Get("X-Rid")), comps: map[string]string{}}
		pause()
		var pb strings.Builder
		for _, p := range c.Route().Params {
			pb.WriteString(p + "=" + c.Params(p) + ";")
		}
		o.comps["params"] = pb.String()
		o.comps["path"] = c.Path() + " " + c.OriginalURL()
		o.comps["query"] = c.Query("q") + " " + canon(c.Queries())
		o.comps["headers"] = c.Get("X-Val") + " " + c.Get("X-Rid")
		o.comps["cookies"] = c.Cookies("ck")
		o.comps["locals"] = fmt.Sprint(c.Locals("rid"), " ", c.Locals(localKey{2}))
		pause()
		o.comps["flash-messages"] = canon(c.Redirect().Messages()) + canon(c.Redirect().OldInputs())
		var bq raceBind
		_ = c.Bind().Query(&bq)
		o.comps["bind-query"] = fmt.Sprintf("%+v", bq)
		if c.Method() == "POST" {
			var bf raceBind
			_ = c.Bind().Form(&bf)
			o.comps["bind-form"] = fmt.Sprintf("%+v", bf)
			o.comps["body"] = string(c.Body()) + " " + c.FormValue("f")
		}
		m := map[string]string{}
		_ = c.Bind().Cookie(&m)
		o.comps["bind-cookie"] = canon(m)
		pause()
		bind := fiber.Map{}
		_ = c.Render("t", bind)
		o.comps["view-bind"] = canon(bind)
		c.Response().ResetBody()
		o.comps["base-url"] = c.BaseURL()
		for k, v := range o.comps {
			o.comps[k] = strings.Clone(v)
		}
		s.mu.Lock()
		s.obs = append(s.obs, o)
		s.mu.Unlock()
		// the response: a flash redirect for some, the id for all
		if c.Query("redir") == "1" {
			c.Set("X-Answer", o.idHdr)
			return c.Redirect().With("k-"+o.idHdr, "v-"+o.idHdr, 0x40).To("/next/" + o.idHdr)
		}
		c.Set("X-Answer", o.idHdr)
		return c.SendString("answer " + c.Params("id"))
	}
	app.Get("/r/:id/:a/:b?", h)
	app.Post("/rb/:id/*", h)
	// SendFile of an existing or of a missing file, all through one cached file handler
	dir := fileDir()
	app.Get("/sf/:id", func(c fiber.Ctx) error {
		c.Set("X-Answer", c.Get("X-Rid"))
		pause()
		err := c.SendFile(dir+"/"+fileNames[c.Query("f", "a")], fiber.SendFile{CacheDuration: -1})
		pause()
		return err
	})
	// the response body IS a value of the request, handed over without building a new string
	app.Get("/echo/:id", func(c fiber.Ctx) error {
		c.Set("X-Answer", c.Get("X-Rid"))
		switch c.Query("via") {
		case "path":
			return c.SendString(c.Path())
		case "query":
			return c.SendString(c.Query("q"))
		case "header":
			_, err := c.WriteString(c.Get("X-Val"))
			return err
		}
		return c.SendString(c.Params("id"))
	})
	app.Get("/fail/:id", func(c fiber.Ctx) error {
		c.Set("X-Answer", c.Get("X-Rid"))
		return fiber.NewError(418, "answer "+c.Params("id"))
	})
	return app, s
}

type nullViews struct{}

func (*nullViews) Load() error { return nil }
func (*nullViews) Render(w io.Writer, _ string, _ any, _ ...string) error {
	_, err := w.Write([]byte("x"))
	return err
}

type raceReq struct {
	id   string
	raw  []byte
	body string // expected body, "" = not judged
	want int    // expected status, 0 = not judged
	kind string // for the signature
}

func genRaceConn(r *gen.Rand, conn int, n int) []raceReq {
	var out []raceReq
	for i := 0; i < n; i++ {
		id := "R" + strconv.Itoa(conn) + "n" + strconv.Itoa(i) + "s" + strconv.Itoa(r.Intn(100000)) + "Z"
		q := &reqSpec{Host: id + ".example.com", Hdr: [][2]string{{"X-Rid", id}, {"X-Val", "hv-" + id + r.StringFrom(raceAlpha, r.Range(0, 30))}}}
		q.Other = "ck=ck-" + id
		switch r.PickW(30, 30, 10, 20, 10) {
		case 0:
			q.Cookie = encMsgs(genMsgs(r, id, r.Range(1, 4), raceAlpha))
		case 1:
			// none
		case 2:
			q.Cookie = genCookie(r, id, ckTruncated, raceAlpha)
		case 3:
			q.Cookie = genPartial(r, id, raceAlpha)
		case 4:
			q.Cookie = []byte{0x91, 0x80}
		}
		qs := "?q=q-" + id + "&ql=a-" + id + "&ql=b-" + id
		if r.Chance(1, 6) {
			qs += "&redir=1"
		}
		want, kind, wantBody := 0, "", ""
		switch r.PickW(6, 3, 1, 3, 4) {
		case 4:
			via := gen.Pick(r, []string{"params", "params", "path", "query", "header"})
			q.Target, want, kind = "/echo/"+id+"?via="+via+"&q=q-"+id, 200, "echo-"+via
			switch via {
			case "params":
				wantBody = id
			case "path":
				wantBody = "/echo/" + id
			case "query":
				wantBody = "q-" + id
			case "header":
				wantBody = q.Hdr[1][1]
			}
		case 3:
			if r.Bool() {
				q.Target, want, kind = "/sf/"+id+"?f="+gen.Pick(r, []string{"a", "b", "c"}), 200, "sendfile-existing"
			} else {
				q.Target, want, kind = "/sf/"+id+"?f=x", 404, "sendfile-missing"
			}
		case 0:
			q.Target = "/r/" + id + "/a-" + id + r.StringFrom(raceAlpha, r.Range(0, 40))
			if r.Bool() {
				q.Target += "/b-" + id
			}
			q.Target += qs
		case 1:
			q.Method = "POST"
			q.Target = "/rb/" + id + "/w-" + id + "/" + r.StringFrom(raceAlpha, r.Range(0, 20)) + qs
			q.CType = "application/x-www-form-urlencoded"
			q.Body = []byte("f=f-" + id + "&q=fq-" + id + "&pad=" + r.StringFrom(raceAlpha, r.Range(0, 200)))
		case 2:
			q.Target = "/fail/" + id
		}
		out = append(out, raceReq{id: id, raw: q.raw(), want: want, kind: kind, body: wantBody})
	}
	return out
}

func runRace(e *ev.Env) {
	e.Note("gomaxprocs", strconv.Itoa(runtime.GOMAXPROCS(0)))
	defer cleanupFiles()
	e.Cases("mix", e.N(60, 1200), func(c *ev.Case) {
		r := c.R
		custom := r.Chance(1, 3)
		yield := r.Chance(2, 3)
		app, s := raceBuild(custom, yield)
		w := drive.NewWire(app)
		perConn := r.Range(8, 40)
		conns := make([][]raceReq, raceK)
		for k := range conns {
			conns[k] = genRaceConn(r.Split(), k, perConn)
		}
		// Two thirds of the mixes first serve one request alone: the first Render of an app
		// initialises App.mountFields.appListKeys lazily and without a lock, and in the other third
		// that initialisation is left to the concurrent phase (the race detector reports it there).
		if r.Chance(2, 3) {
			warm := genRaceConn(r.Split(), 99, 1)
			_, _ = w.Serve(warm[0].raw, nil)
			e.Stat("warmed_mixes", 1)
		}
		outs := make([][]byte, raceK)
		var wg sync.WaitGroup
		start := make(chan struct{})
		for k := 0; k < raceK; k++ {
			k := k
			var in bytes.Buffer
			for _, q := range conns[k] {
				in.Write(q.raw)
			}
			wg.Add(1)
			go func() {
				defer wg.Done()
				<-start
				// delivered in pieces so that connections interleave at request granularity even
				// with a single P
				var chunks [][]byte
				b := in.Bytes()
				for len(b) > 0 {
					n := 700
					if n > len(b) {
						n = len(b)
					}
					chunks = append(chunks, b[:n])
					b = b[n:]
				}
				sc := drive.NewChunkedConn(chunks, nil)
				outs[k], _ = w.ServeConn(sc)
			}()
		}
		close(start)
		wg.Wait()
		e.Eval(raceK * perConn)

		// oracle 1: every observed id token is the current request's
		byID := map[string]raceObs{}
		for _, o := range s.obs {
			byID[o.idHdr] = o
			cur := map[string]struct{}{}
			idTokens(o.idHdr, cur)
			if len(cur) != 1 {
				e.Violation(c, "foreign-id|request-id-header", "the X-Rid header seen by the handler is not one id",
					map[string]any{"x-rid": o.idHdr, "custom_ctx": custom})
				continue
			}
			connOf := o.idHdr[1:strings.IndexByte(o.idHdr, 'n')]
			if s.ptrs[o.ptr] == nil {
				s.ptrs[o.ptr] = map[string]struct{}{}
			}
			s.ptrs[o.ptr][connOf] = struct{}{}
			for comp, val := range o.comps {
				toks := map[string]struct{}{}
				idTokens(val, toks)
				for t := range toks {
					if t != o.idHdr {
						e.Violation(c, "foreign-id|"+comp, "a handler observed a value carrying another request's id",
							map[string]any{"component": comp, "current": o.idHdr, "foreign": t, "observed": val, "custom_ctx": custom})
					}
				}
			}
		}
		// oracle 2: responses belong to their requests, in order
		for k := 0; k < raceK; k++ {
			rs, prob := splitResponses(outs[k])
			if prob != "" || len(rs) != len(conns[k]) {
				e.Inconclusive(fmt.Sprintf("%s: connection %d answered %d of %d requests (%s)", c.ID, k, len(rs), len(conns[k]), prob))
				continue
			}
			for i, rsp := range rs {
				if ws := conns[k][i].want; ws != 0 && rsp.Status != ws {
					e.Violation(c, "foreign-status|"+conns[k][i].kind, "the status of a response was decided by another request",
						map[string]any{"connection": k, "index": i, "want": ws, "got": rsp.Status, "request": string(conns[k][i].raw), "custom_ctx": custom})
				}
				if wb := conns[k][i].body; wb != "" && string(rsp.Body) != wb {
					e.Violation(c, "foreign-body|"+conns[k][i].kind, "a response body that echoes a value of its request carries something else",
						map[string]any{"connection": k, "index": i, "want": wb, "got": string(rsp.Body), "custom_ctx": custom})
				}
				want := conns[k][i].id
				toks := map[string]struct{}{}
				idTokens(string(rsp.Raw), toks)
				for t := range toks {
					if t != want {
						e.Violation(c, "foreign-id|response", "a response carries the id of another request",
							map[string]any{"connection": k, "index": i, "request": want, "foreign": t, "response": string(rsp.Raw), "custom_ctx": custom})
					}
				}
				if _, ok := toks[want]; !ok {
					e.Violation(c, "foreign-id|response-missing-own-id", "a response does not carry its request's id",
						map[string]any{"connection": k, "index": i, "request": want, "response": string(rsp.Raw)})
				}
			}
		}
		shared := 0
		for _, cs := range s.ptrs {
			if len(cs) > 1 {
				shared++
			}
		}
		e.Stat("ctx_objects", int64(len(s.ptrs)))
		e.Stat("ctx_objects_shared_between_connections", int64(shared))
		e.Stat("handler_runs", int64(len(s.obs)))
		if shared > 0 {
			e.Nontrivial(c.ID)
		}
	})
	e.Note("nontrivial_rule", "a mix in which at least one pooled context object served requests of two different connections")
}
