// Package ctxiso holds the monitors for C05 (requests are isolated despite context pooling) and
// C06 (Immutable: values taken from the context stay valid forever).
//
//	ctxiso.isolation       sequential differential: probe after a history vs probe on a fresh app
//	ctxiso.isolation.race  K=8 concurrent keep-alive connections, id-uniqueness oracle
//	ctxiso.immutable       value stability against a deep copy, with positive control
package ctxiso

import (
	"bufio"
	"bytes"
	"compress/gzip"
	"compress/zlib"
	"encoding/json"
	"fmt"
	"net"
	"net/http"
	"net/http/httptest"
	"runtime"
	"sort"
	"strconv"
	"strings"

	"github.com/gofiber/fiber/v3"
	"github.com/gofiber/fiber/v3/middleware/adaptor"

	"verifharness/internal/drive"
	"verifharness/internal/ev"
	"verifharness/internal/gen"
	"verifharness/internal/reg"
)

func init() {
	reg.Register("ctxiso.isolation", runIsolation)
	reg.Register("ctxiso.isolation.race", runRace)
	reg.Register("ctxiso.immutable", runImmutable)
}

// ---------------------------------------------------------------------------------------------
// request scripts

type wreq struct {
	Kind    string
	Raw     []byte
	Kills   bool // the server is expected to close the connection after answering this one
	Remote  int  // which peer the connection carrying this request comes from (see remoteAddr)
	EndConn bool // the client closes the connection after this request (the next one opens a new one)
	Head    bool
	Cookie  string // flash cookie class carried
}

type reqSpec struct {
	Method string
	Target string
	Host   string
	Hdr    [][2]string
	Cookie []byte // raw value of the flash cookie, nil = none
	Other  string // other cookies ("name=v; tag=w")
	CType  string
	Body   []byte
}

func (q *reqSpec) raw() []byte {
	var b bytes.Buffer
	m := q.Method
	if m == "" {
		m = "GET"
	}
	b.WriteString(m + " " + q.Target + " HTTP/1.1\r\n")
	h := q.Host
	if h == "" {
		h = "example.com"
	}
	b.WriteString("Host: " + h + "\r\n")
	for _, kv := range q.Hdr {
		b.WriteString(kv[0] + ": " + kv[1] + "\r\n")
	}
	if q.Cookie != nil || q.Other != "" {
		b.WriteString("Cookie: ")
		if q.Other != "" {
			b.WriteString(q.Other)
			if q.Cookie != nil {
				b.WriteString("; ")
			}
		}
		if q.Cookie != nil {
			b.WriteString("fiber_flash=")
			b.Write(q.Cookie)
		}
		b.WriteString("\r\n")
	}
	if q.CType != "" {
		b.WriteString("Content-Type: " + q.CType + "\r\n")
	}
	if q.Body != nil || m == "POST" || m == "PUT" || m == "PATCH" {
		b.WriteString("Content-Length: " + strconv.Itoa(len(q.Body)) + "\r\n")
	}
	b.WriteString("\r\n")
	b.Write(q.Body)
	return b.Bytes()
}

const pathAlpha = gen.AlphaNum + "-_.~"

var hosts = []string{"example.com", "a.example.com", "tenant-one.example.org:8080", "other.test", "EXAMPLE.com", "x.y.z.internal"}

func seg(r *gen.Rand, tag string) string {
	if r.Chance(1, 8) {
		return tag + r.StringFrom(pathAlpha, r.Range(60, 300)) // long
	}
	return tag + r.StringFrom(pathAlpha, r.Range(0, 12))
}

var acceptHeaders = []string{
	"text/html;level=1;q=0, application/json",
	"text/plain;format=flowed",
	"text/plain;format=flowed;q=0.5, text/html;level=1",
	"application/json;version=2;q=0, text/plain;format=flowed;charset=utf-8;q=0, */*;q=0.1",
	"text/html;level=1;q=0",
	"*/*",
	"text/*;q=0.3, text/html;level=2;q=0, text/plain;format=fixed",
	"application/json",
	"text/html;level=1, text/plain;format=flowed;q=0",
	"application/json;version=2, application/json;q=0.5",
	"text/plain;charset=utf-8;format=fixed;q=0, text/html",
}

// decorate adds what real clients and proxies add: forwarding headers and Accept* headers.
func decorate(r *gen.Rand, q *reqSpec) {
	if r.Chance(1, 2) {
		for _, h := range [][2]string{
			{"X-Forwarded-Proto", gen.Pick(r, []string{"https", "http", "wss"})},
			{"X-Forwarded-Ssl", "on"},
			{"X-Url-Scheme", gen.Pick(r, []string{"https", "custom"})},
			{"X-Forwarded-Host", gen.Pick(r, []string{"fwd.example.net", "shop.example.org:8443"})},
			{"X-Forwarded-For", gen.Pick(r, []string{"192.0.2.1", "192.0.2.77, 198.51.100.9", "not-an-ip, 192.0.2.5"})},
		} {
			if r.Chance(1, 3) {
				q.Hdr = append(q.Hdr, h)
			}
		}
	}
	if r.Chance(1, 2) {
		q.Hdr = append(q.Hdr, [2]string{"Accept", gen.Pick(r, acceptHeaders)})
		if r.Chance(1, 3) {
			q.Hdr = append(q.Hdr, [2]string{"Accept-Language", gen.Pick(r, []string{"de-CH, en;q=0.5", "fr;q=0, en", "*"})})
		}
		if r.Chance(1, 3) {
			q.Hdr = append(q.Hdr, [2]string{"Accept-Charset", gen.Pick(r, []string{"iso-8859-1;q=0, utf-8", "utf-8;q=0.3"})})
		}
		if r.Chance(1, 4) {
			q.Hdr = append(q.Hdr, [2]string{"Accept-Encoding", gen.Pick(r, []string{"br;q=0, gzip", "identity"})})
		}
	}
}

// genHistoryReq draws one history request. tag is unique per request of the case ("h3x"), and
// is embedded in every value the request carries.
func genHistoryReq(r *gen.Rand, tag string, custom bool) wreq {
	q := &reqSpec{Host: gen.Pick(r, hosts)}
	decorate(r.Split(), q)
	class := pickCookieClass(r)
	if class != ckNone {
		q.Cookie = genCookie(r, tag, class, flashAlpha)
	}
	if r.Chance(1, 3) {
		q.Other = "name=" + tag + "cn; tag=" + tag + "ct; n=" + gen.Pick(r, []string{"5", "x", ""})
	}
	kind := ""
	switch r.PickW(14, 12, 14, 10, 10, 6, 4, 5, 5, 4, 4, 6, 6, 10, 10, 10, 8, 8, 8) {
	case 0:
		kind = "many-params"
		var sb strings.Builder
		sb.WriteString("/many")
		for i := 0; i < 10; i++ {
			sb.WriteString("/" + seg(r, tag+"p"))
		}
		q.Target = sb.String()
	case 1:
		kind = "locals"
		q.Method = gen.Pick(r, []string{"GET", "POST", "PUT", "DELETE"})
		q.Target = "/locals/" + tag + "?do=" + gen.Pick(r, []string{"", "", "render", "next", "err", "rendernil", "renderfail", "renderfail"})
	case 2:
		kind = "redirect-with"
		q.Method = gen.Pick(r, []string{"GET", "POST"})
		q.Target = "/redir/" + tag + "?n=" + strconv.Itoa(r.Range(1, 4)) + "&lvl=" + strconv.Itoa(int(genLevel(r))) +
			"&input=" + gen.Pick(r, []string{"0", "1"}) + "&name=" + tag + "qn&tag=" + tag + "qt"
		if q.Method == "POST" {
			q.CType = "application/x-www-form-urlencoded"
			q.Body = []byte("name=" + tag + "fn&tag=" + tag + "ft&n=7")
		}
	case 3:
		kind = "flash-read"
		q.Method = gen.Pick(r, []string{"GET", "POST"})
		q.Target = "/flash"
		if q.Cookie == nil {
			class = gen.Pick(r, []string{ckValid, ckValid, ckPartial, ckTruncated})
			q.Cookie = genCookie(r, tag, class, flashAlpha)
		}
	case 4:
		kind = "bind"
		q.Method = "POST"
		q.Target = "/bind?a=" + gen.Pick(r, []string{"1", "x" + tag, ""}) + "&b=" + gen.Pick(r, []string{"2", "y"}) + "&c=" +
			gen.Pick(r, []string{"true", "maybe"}) + "&auto=" + gen.Pick(r, []string{"0", "1"}) + "&ret=" + gen.Pick(r, []string{"0", "1"}) +
			"&name=" + tag + "qn"
		q.Hdr = append(q.Hdr, [2]string{"Name", tag + "hn"}, [2]string{"N", gen.Pick(r, []string{"3", "zz"})}, [2]string{"L", tag + "l1," + tag + "l2"})
		switch r.Intn(4) {
		case 0:
			q.CType = "application/json"
			q.Body = []byte(`{"a":1,"b":"` + tag + `","c":true}`) // b fails
		case 1:
			q.CType = "application/x-www-form-urlencoded"
			q.Body = []byte("a=1&b=" + tag + "&c=true")
		case 2:
			q.CType = "application/json"
			q.Body = []byte(`{"a":1,"b":`) // truncated
		default:
			q.CType = "text/weird"
			q.Body = []byte(tag)
		}
	case 5:
		kind = "handler-error"
		q.Target = "/err/" + gen.Pick(r, []string{"0", "400", "418", "500", "503"})
	case 6:
		kind = "base-url"
		q.Target = "/base"
	case 7:
		kind = "404"
		q.Method = gen.Pick(r, []string{"GET", "POST", "DELETE"})
		q.Target = "/nothing/" + seg(r, tag) + "/" + seg(r, tag)
	case 8:
		kind = "405"
		q.Method = gen.Pick(r, []string{"POST", "PUT", "DELETE"})
		q.Target = gen.Pick(r, []string{"/getonly", "/base", "/err/400"})
	case 9:
		kind = "override"
		q.Target = "/override/" + tag
	case 10:
		kind = "unknown-method"
		q.Method = gen.Pick(r, []string{"FOO", "PURGE", "M-SEARCH"})
		if custom {
			// With a custom ctx an unknown method panics in customRequestHandler
			// (ctx.Method() indexes RequestMethods with -1) and takes the process down: that is a
			// C07 matter (reported), and must not end this engine's shard.
			kind = "unknown-method-avoided"
			q.Method = "OPTIONS"
		}
		q.Target = "/locals/" + tag
	case 13:
		return genHalfBind(r, tag, q, class)
	case 18:
		kind = "mutate-returned-values"
		q.Method = gen.Pick(r, []string{"GET", "GET", "POST"})
		q.Target = "/mutate/" + tag + gen.Pick(r, []string{"", "", "?page=7", "?x=" + tag})
		if q.Method == "POST" {
			q.Body = []byte{}
		}
	case 17:
		kind = "admin"
		q.Target = gen.Pick(r, []string{"/admin/reports/" + tag, "/admin/reports/" + tag, "/admin/fail/" + tag, "/admin/nothing/" + tag})
	case 14:
		return genXBind(r, tag, q, class, "")
	case 15:
		return genRedirFail(r, tag, q, class)
	case 16:
		kind = "sendfile"
		q.Target = "/file/" + strconv.Itoa(r.Intn(nSendFileVariants)) + "?f=" + gen.Pick(r, []string{"a", "a", "b", "c"})
		if r.Chance(1, 4) {
			q.Hdr = append(q.Hdr, [2]string{"Range", "bytes=0-9"})
		}
		if r.Chance(1, 4) {
			q.Hdr = append(q.Hdr, [2]string{"Accept-Encoding", "gzip"})
		}
	case 11:
		// malformed request line / header: the server error path acquires a context too
		kind = "malformed"
		raws := []string{
			"GET\r\n\r\n",
			"\x01\x02\x03 / HTTP/1.1\r\nHost: x\r\n\r\n",
			"GET /locals/" + tag + " HTTP/1.1\r\nHost: x\r\nBad Header Name: v\r\n\r\n",
			"GET /locals/" + tag + " HTTP/1.1\r\nHost: x\r\nX-Ctl: a\x01b\r\n\r\n",
			"POST /locals/" + tag + " HTTP/1.1\r\nHost: x\r\nContent-Length: abc\r\n\r\n",
			"GET /locals/" + tag + " HTTP/1.1\r\nHost: x\r\nCookie: fiber_flash=\x91\x80\x01\r\n\r\n",
			" / \r\n\r\n",
		}
		return wreq{Kind: kind, Raw: []byte(gen.Pick(r, raws)), Kills: true, Cookie: ckNone}
	case 12:
		kind = "oversized-header"
		q.Target = "/locals/" + tag
		q.Hdr = append(q.Hdr, [2]string{"X-Big", r.StringFrom(gen.AlphaNum, r.Range(4200, 9000))})
		return wreq{Kind: kind, Raw: q.raw(), Kills: true, Cookie: class}
	}
	return wreq{Kind: kind, Raw: q.raw(), Cookie: class}
}

// genHalfBind: a request whose query (or urlencoded form) carries ordinary, id-tagged arguments
// first and then a key the binder rejects ("unmatched brackets"), so that binding is abandoned
// after part of the arguments were collected. Sent to the handlers that bind.
func genHalfBind(r *gen.Rand, tag string, q *reqSpec, class string) wreq {
	badKey := gen.Pick(r, []string{"filter%5Bcolor", "f%5B%5Bx%5D", "list%5D", "a%5Bb%5D%5D", "filter[color"})
	good := "name=" + tag + "hbn&tag=" + tag + "hbt&card=" + tag + "secret&l=" + tag + "l1&n=7"
	half := good + "&" + badKey + "=red&after=" + tag + "after"
	kind := "half-bind-query"
	switch r.Intn(4) {
	case 0, 1:
		q.Method = gen.Pick(r, []string{"GET", "POST"})
		q.Target = "/bind?" + half
		if q.Method == "POST" {
			q.Body = []byte{}
		}
	case 2:
		// Redirect().WithInput() binds the query of a GET request
		q.Target = "/redir/" + tag + "?n=1&lvl=64&input=1&" + half
	default:
		kind = "half-bind-form"
		q.Method = "POST"
		q.Target = gen.Pick(r, []string{"/bind?a=1", "/redir/" + tag + "?n=1&lvl=64&input=1"})
		q.CType = "application/x-www-form-urlencoded"
		q.Body = []byte(half)
	}
	return wreq{Kind: kind, Raw: q.raw(), Cookie: class}
}

// xData puts a distinct value under every name of xsrc into every source of the request.
func xData(q *reqSpec, tag string, formBody bool) (query string) {
	var qs, fs, cs []string
	for _, n := range xNames {
		cs = append(cs, n+"="+tag+"-cookie-"+n)
		if n == "a" || n == "b" {
			// the probe's failing-bind check owns the query/form names a and b (one failing field
			// only: the schema decoder reports several errors in map order)
			continue
		}
		qs = append(qs, n+"="+tag+"-query-"+n)
		fs = append(fs, n+"="+tag+"-form-"+n)
	}
	for _, n := range []string{"Xterm", "Xpage", "Rterm", "Rpage"} {
		q.Hdr = append(q.Hdr, [2]string{n, tag + "-header-" + n})
	}
	if q.Other != "" {
		q.Other += "; "
	}
	q.Other += strings.Join(cs, "; ")
	if formBody {
		q.Method = "POST"
		q.CType = "application/x-www-form-urlencoded"
		q.Body = []byte(strings.Join(fs, "&"))
	}
	return strings.Join(qs, "&")
}

// genXBind: the history binds the multi-named struct from one or two sources.
func genXBind(r *gen.Rand, tag string, q *reqSpec, class string, force string) wreq {
	src := force
	if src == "" {
		src = gen.Pick(r, xSources)
		if r.Chance(1, 4) {
			src += "." + gen.Pick(r, xSources)
		}
	}
	query := xData(q, tag, strings.Contains(src, "form") || r.Chance(1, 4))
	q.Target = "/xbind/" + tag + "-uri-a/" + tag + "-uri-b?src=" + src + "&" + query
	return wreq{Kind: "xbind-" + src, Raw: q.raw(), Cookie: class}
}

// genRedirFail: a Redirect is configured (status, flash messages, old input) and then not
// performed, or performed on an unusual path.
func genRedirFail(r *gen.Rand, tag string, q *reqSpec, class string) wreq {
	mode := gen.Pick(r, []string{"back", "back", "return", "err", "route", "backref"})
	q.Method = gen.Pick(r, []string{"GET", "GET", "POST"})
	q.Target = "/redirfail/" + tag + "?status=" + gen.Pick(r, []string{"301", "303", "307", "308"}) +
		"&with=" + gen.Pick(r, []string{"0", "1"}) + "&name=" + tag + "qn"
	if mode == "backref" {
		q.Target += "&mode=back"
		q.Hdr = append(q.Hdr, [2]string{"Referer", "http://ref.example/" + tag})
	} else {
		q.Target += "&mode=" + mode
	}
	if q.Method == "POST" {
		q.Body = []byte{}
	}
	return wreq{Kind: "redirect-unfinished-" + mode, Raw: q.raw(), Cookie: class}
}

// genFileProbe: the probe is a SendFile route; the observation is the whole response.
func genFileProbe(r *gen.Rand, variant int) probeSpec {
	q := &reqSpec{Host: gen.Pick(r, hosts)}
	q.Target = "/file/" + strconv.Itoa(variant) + "?probe=1&f=" + gen.Pick(r, []string{"a", "a", "b", "c"})
	if r.Chance(1, 3) {
		q.Hdr = append(q.Hdr, [2]string{"Range", "bytes=0-9"})
	}
	if r.Chance(1, 3) {
		q.Hdr = append(q.Hdr, [2]string{"Accept-Encoding", "gzip"})
	}
	return probeSpec{Route: -1, Class: ckNone, Variant: "sendfile", Raw: q.raw()}
}

// genEHProbe: a probe that is answered through an ErrorHandler — a path nothing is registered
// for (404), a path registered for other methods (405), or a request the server rejects before
// routing (413 body over the limit, 400 malformed header, 431 oversized header), the latter also
// with methods the app does not route.
func genEHProbe(r *gen.Rand, mount bool) probeSpec {
	const tag = "PRB"
	ps := probeSpec{Route: -1, Class: ckNone, ViaEH: true}
	q := &reqSpec{Host: gen.Pick(r, hosts)}
	decorate(r.Split(), q)
	paths := []string{"/dav/" + tag + r.StringFrom(pathAlpha, r.Range(1, 12)), "/" + tag, "/many/" + tag + "/only-two"}
	if mount || r.Chance(1, 4) {
		paths = append(paths, "/admin/reports", "/admin/"+tag+"/x", "/admin")
	}
	kind := gen.Pick(r, []string{"405", "405", "404", "413", "413", "400", "431"})
	switch kind {
	case "405":
		q.Method = gen.Pick(r, []string{"POST", "PUT", "DELETE"})
		q.Target = gen.Pick(r, []string{"/getonly", "/base", "/err/400", "/override/" + tag, "/file/0"})
		if q.Method != "DELETE" {
			q.Body = []byte{}
		}
		ps.Raw = q.raw()
	case "404":
		q.Method = gen.Pick(r, []string{"GET", "POST", "DELETE"})
		q.Target = gen.Pick(r, paths) + "?name=" + tag + "qn"
		if q.Method == "POST" {
			q.Body = []byte{}
		}
		ps.Raw = q.raw()
	case "413":
		q.Method = gen.Pick(r, []string{"PATCH", "PROPFIND", "PURGE", "REPORT"})
		q.Target = gen.Pick(r, paths)
		q.Hdr = append(q.Hdr, [2]string{"Content-Length", strconv.Itoa(r.Range(3001, 9000))})
		raw := q.raw()
		ps.Raw = append(raw, bytes.Repeat([]byte("x"), 64)...)
		ps.OwnConn = r.Bool()
	case "400":
		q.Method = gen.Pick(r, []string{"GET", "PROPFIND", "LINK"})
		q.Target = gen.Pick(r, paths)
		q.Hdr = append(q.Hdr, gen.Pick(r, [][2]string{{"X-Ctl", "a\x01b"}, {"X-Del", "d\x7fl"}, {"X-Nul", "n\x00l"}}))
		ps.Raw = q.raw()
		ps.OwnConn = true
	case "431":
		q.Method = gen.Pick(r, []string{"GET", "PROPFIND"})
		q.Target = gen.Pick(r, paths)
		q.Hdr = append(q.Hdr, [2]string{"X-Big", r.StringFrom(gen.AlphaNum, r.Range(4200, 6000))})
		ps.Raw = q.raw()
		ps.OwnConn = true
	}
	ps.Variant = "eh-" + kind
	return ps
}

type probeSpec struct {
	// OwnConn: the probe is sent on a connection of its own (same app, same worker, same context
	// pool). The text of fasthttp's parse errors quotes the read buffer, whose fill depends on
	// where in the byte stream of a connection the request sits; on its own connection the probe
	// sits where it sits in the reference run.
	OwnConn bool
	ViaEH   bool   // the probe is answered through an ErrorHandler, whose observation is the vector
	XSrc    string // source the probe binds the multi-named struct from ("" = not at all)
	Route   int
	Class   string // flash cookie class of the probe
	Variant string // "", "R"
	Raw     []byte
	Desc    map[string]any
}

// genProbe draws the probe request. Its values carry the tag "PRB".
func genProbe(r *gen.Rand, forceClass string) probeSpec {
	return genProbeX(r, forceClass, "?")
}

// genProbeX: xsrc "?" = draw (half of the probes bind the multi-named struct), "" = never.
func genProbeX(r *gen.Rand, forceClass string, xsrcSel string) probeSpec {
	const tag = "PRB"
	ps := probeSpec{Route: r.Intn(len(probeRoutes))}
	q := &reqSpec{Host: gen.Pick(r, hosts), Method: gen.Pick(r, []string{"GET", "GET", "POST", "PUT"})}
	decorate(r.Split(), q)
	if xsrcSel == "?" {
		xsrcSel = ""
		if r.Bool() {
			xsrcSel = gen.Pick(r, xSources)
		}
	}
	ps.XSrc = xsrcSel
	if ps.XSrc == "uri" {
		ps.Route = r.Intn(2) // the routes that declare :a and :b
	}
	switch ps.Route {
	case 0:
		q.Target = "/probe/" + seg(r, tag) + "x/" + seg(r, tag) + "y/" + seg(r, tag) + "z"
	case 1:
		q.Target = "/probeopt/" + seg(r, tag) + "x"
		for i := r.Intn(3); i > 0; i-- {
			q.Target += "/" + seg(r, tag) + "o"
		}
	case 2:
		q.Target = "/probewild/" + gen.Pick(r, []string{"", seg(r, tag), seg(r, tag) + "/" + seg(r, tag)})
	case 3:
		q.Target = "/probeplus/" + seg(r, tag) + "x" + gen.Pick(r, []string{"-", "-" + tag + "y"}) + "/" + seg(r, tag) + "w"
	case 4:
		q.Target = "/probeplain"
	case 5:
		q.Target = "/p2/" + seg(r, tag) + "x"
		for i := r.Intn(4); i > 0; i-- {
			q.Target += "/" + seg(r, tag) + "o"
		}
	case 6:
		q.Target = "/admin/probeplain"
	}
	var qs []string
	if r.Chance(1, 3) {
		ps.Variant = gen.Pick(r, []string{"R", "R", "RB", "RR", "RI", "RI"})
		qs = append(qs, "variant="+ps.Variant)
		if ps.Variant == "RI" {
			// a form with one field: that is the input the redirect carries along
			q.Method, q.CType, q.Body = "POST", "application/x-www-form-urlencoded", []byte("name="+tag+"input")
			if ps.XSrc == "form" {
				ps.XSrc = "query"
			}
		}
		if ps.Variant == "RB" && r.Bool() {
			q.Hdr = append(q.Hdr, [2]string{"Referer", "http://ref.example/" + tag})
		}
	}
	if r.Bool() {
		qs = append(qs, "name="+tag+"qn", "l="+tag+"l1", "l="+tag+"l2")
	}
	if r.Chance(1, 3) {
		qs = append(qs, "a="+gen.Pick(r, []string{"12", "notanumber"}))
	}
	if r.Chance(1, 4) {
		qs = append(qs, "n="+gen.Pick(r, []string{"9", "bad"}))
	}
	if r.Chance(1, 4) {
		qs = append(qs, "ret="+gen.Pick(r, predeclaredNames))
	}
	if len(qs) > 0 {
		q.Target += "?" + strings.Join(qs, "&")
	}
	if r.Chance(1, 3) {
		q.Hdr = append(q.Hdr, [2]string{"Name", tag + "hn"}, [2]string{"Tag", tag + "ht"})
	}
	if r.Chance(1, 3) {
		q.Other = "name=" + tag + "cn; tag=" + tag + "ct"
	}
	if ps.XSrc != "" {
		xq := xData(q, tag, ps.XSrc == "form")
		sep := "?"
		if strings.Contains(q.Target, "?") {
			sep = "&"
		}
		q.Target += sep + "xsrc=" + ps.XSrc + "&" + xq
	}
	if q.Method != "GET" && q.Body == nil {
		switch r.Intn(3) {
		case 0:
			q.CType = "application/x-www-form-urlencoded"
			q.Body = []byte("name=" + tag + "fn&tag=" + tag + "ft&n=4&l=a&l=b")
		case 1:
			q.CType = "application/json"
			q.Body = []byte(`{"name":"` + tag + `jn","n":3,"l":["a"]}`)
		default:
			q.Body = []byte{}
		}
	}
	ps.Class = forceClass
	if ps.Class == "" {
		ps.Class = gen.Pick(r, []string{ckNone, ckNone, ckValid, ckPartial, ckPartial, ckTruncated, ckGarbage})
	}
	if ps.Class != ckNone {
		q.Cookie = genCookie(r, tag, ps.Class, flashAlpha)
	}
	ps.Raw = q.raw()
	return ps
}

// ---------------------------------------------------------------------------------------------
// driving

var dateLine = []byte("\r\nDate: ")

// normDate blanks the value of every Date header line.
func normDate(b []byte) []byte {
	out := append([]byte(nil), b...)
	off := 0
	for {
		i := bytes.Index(out[off:], dateLine)
		if i < 0 {
			return out
		}
		s := off + i + len(dateLine)
		e := bytes.Index(out[s:], []byte("\r\n"))
		if e < 0 {
			return out
		}
		for k := s; k < s+e; k++ {
			out[k] = 'D'
		}
		off = s + e
	}
}

// gateConn is a scripted connection whose first Write blocks until it is released.
type gateConn struct {
	*drive.ScriptConn
	reached chan struct{}
	release chan struct{}
	once    bool
}

func (g *gateConn) Write(p []byte) (int, error) {
	if !g.once {
		g.once = true
		close(g.reached)
		<-g.release
	}
	return g.ScriptConn.Write(p)
}

// remoteAddr: peer 0 is the drive package's default (203.0.113.7), peer 1 another host.
func remoteAddr(i int) net.Addr {
	if i == 1 {
		return &net.TCPAddr{IP: net.ParseIP(altPeerIP), Port: 40001}
	}
	return nil
}

// lresp is a leniently parsed response. The history's responses are not this engine's subject
// (their well-formedness is C07's: e.g. Redirect().WithInput() puts a NUL byte into Set-Cookie),
// so the output stream is only split, by Content-Length, not validated.
type lresp struct {
	Status int
	Hdr    [][2]string
	Body   []byte
	Raw    []byte
	Close  bool
}

func splitResponses(out []byte) ([]*lresp, string) {
	var rs []*lresp
	off := 0
	for off < len(out) {
		b := out[off:]
		he := bytes.Index(b, []byte("\r\n\r\n"))
		if he < 0 {
			return rs, fmt.Sprintf("no end of header block at offset %d", off)
		}
		head := b[:he]
		lines := bytes.Split(head, []byte("\r\n"))
		if len(lines[0]) < 12 || !bytes.HasPrefix(lines[0], []byte("HTTP/1.1 ")) {
			return rs, fmt.Sprintf("bad status line at offset %d", off)
		}
		st, err := strconv.Atoi(string(lines[0][9:12]))
		if err != nil {
			return rs, fmt.Sprintf("bad status code at offset %d", off)
		}
		r := &lresp{Status: st}
		cl := -1
		for _, l := range lines[1:] {
			i := bytes.IndexByte(l, ':')
			if i < 0 {
				continue // a continuation of a value that contained CR LF: C07's business
			}
			k, v := string(l[:i]), strings.TrimSpace(string(l[i+1:]))
			r.Hdr = append(r.Hdr, [2]string{k, v})
			switch strings.ToLower(k) {
			case "content-length":
				if n, err := strconv.Atoi(v); err == nil && cl < 0 {
					cl = n
				}
			case "connection":
				if strings.EqualFold(v, "close") {
					r.Close = true
				}
			}
		}
		n := he + 4
		if st >= 200 && st != 204 && st != 304 {
			if cl < 0 {
				return rs, fmt.Sprintf("response without Content-Length at offset %d", off)
			}
			if n+cl > len(b) {
				return rs, fmt.Sprintf("short body at offset %d", off)
			}
			r.Body = b[n : n+cl]
			n += cl
		}
		r.Raw = b[:n]
		rs = append(rs, r)
		off += n
	}
	return rs, ""
}

type served struct {
	probeResp *lresp
	probeRaw  []byte
	responses int
	conns     int
	problem   string
}

// serveScript pushes history+probe through the app: one keep-alive connection, all requests
// pipelined into a single ServeConn call; a request after which the server closes the
// connection ends the script of that connection and the rest continues on a new one (same app,
// same worker, same context pool).
func serveScript(w *drive.Wire, reqs []wreq) served {
	var sv served
	i := 0
	for i < len(reqs) {
		var in bytes.Buffer
		j := i
		for j < len(reqs) {
			in.Write(reqs[j].Raw)
			j++
			if reqs[j-1].Kills || reqs[j-1].EndConn || (j < len(reqs) && reqs[j].Remote != reqs[i].Remote) {
				break
			}
		}
		out, _ := w.Serve(in.Bytes(), remoteAddr(reqs[i].Remote))
		sv.conns++
		rs, prob := splitResponses(out)
		if prob != "" {
			sv.problem = "output not splittable: " + prob
			return sv
		}
		sv.responses += len(rs)
		n := j - i
		if len(rs) != n {
			lastKind, lastStatus := "?", 0
			if len(rs) > 0 {
				lastKind, lastStatus = reqs[i+len(rs)-1].Kind+"/"+reqs[i+len(rs)-1].Cookie, rs[len(rs)-1].Status
			}
			sv.problem = fmt.Sprintf("connection with %d requests produced %d responses (last answered: %s -> %d)", n, len(rs), lastKind, lastStatus)
			return sv
		}
		if j == len(reqs) {
			sv.probeResp = rs[len(rs)-1]
			sv.probeRaw = normDate(rs[len(rs)-1].Raw)
		}
		i = j
	}
	return sv
}

func hexs(b []byte) string { return fmt.Sprintf("%x", b) }

// freshPools empties every sync.Pool of the process (two collections: primary -> victim ->
// gone), so the reference run starts from pools no earlier case has touched. Package-level
// pools (redirectPool, binder pools) are shared between apps of one process.
func freshPools() {
	runtime.GC()
	runtime.GC()
}

type isoCase struct {
	Cfg     isoCfg
	History []wreq
	Probe   probeSpec
	// HistRemote / ProbeRemote: the peers the history's and the probe's connections come from
	HistRemote, ProbeRemote int
	// WriteGate (with Intruders): the probe is not parked in its handler but where the server
	// writes its response — the first Write on the probe's connection blocks until the intruders
	// have been served. The probe's response is larger than the server's write buffer, so part of
	// it is still to be serialised at that moment.
	WriteGate bool
	// Adaptor: the app is not served by its own fasthttp server but mounted into a net/http server
	// through middleware/adaptor.FiberApp: every request is an http.Request handed to that handler
	// (sequentially, one goroutine). Requests that net/http cannot read are left out.
	Adaptor bool
	// Intruders (overlap cases): requests served on other connections while the probe, which
	// carries hold=1, is parked inside its handler. The reference run parks and releases the
	// probe with nothing in between.
	Intruders []wreq
}

func genIsoCase(r *gen.Rand) isoCase {
	ic := genIsoCase0(r)
	if r.Chance(1, 3) {
		ic.HistRemote, ic.ProbeRemote = r.Intn(2), r.Intn(2)
	}

	if r.Chance(1, 12) {
		ic.Probe = genFileProbe(r.Split(), r.Intn(nSendFileVariants))
	} else if r.Chance(1, 8) {
		ic.Probe = genEHProbe(r.Split(), ic.Cfg.Mount)
	} else if r.Chance(1, 8) {
		ic.Adaptor = true
	}
	return ic
}

func genIsoCase0(r *gen.Rand) isoCase {
	ic := isoCase{Cfg: isoCfg{Custom: r.Chance(1, 3), PassLocals: r.Bool(), Immutable: r.Chance(1, 4), CaseSens: r.Chance(1, 4), Strict: r.Chance(1, 4)}}
	ic.Cfg.widen(r)
	n := r.Range(1, 12)
	for i := 0; i < n; i++ {
		ic.History = append(ic.History, genHistoryReq(r.Split(), "h"+strconv.Itoa(i)+"x", ic.Cfg.Custom))
	}
	ic.Probe = genProbe(r.Split(), "")
	return ic
}

func judgeIso(e *ev.Env, c *ev.Case, ic isoCase) {
	probeReq := wreq{Kind: "probe", Raw: ic.Probe.Raw, Cookie: ic.Probe.Class, Kills: ic.Probe.ViaEH, Remote: ic.ProbeRemote}
	overlap := ic.Intruders != nil
	// serveProbe serves the probe; in overlap cases it is parked in its handler meanwhile the
	// intruders are served from this goroutine.
	serveProbe := func(w *drive.Wire, s *isoSink, intruders []wreq) served {
		if !overlap {
			return serveScript(w, []wreq{probeReq})
		}
		if ic.WriteGate {
			gc := &gateConn{ScriptConn: drive.NewScriptConn(probeReq.Raw, remoteAddr(probeReq.Remote)),
				reached: make(chan struct{}), release: make(chan struct{})}
			done := make(chan struct{})
			go func() { _ = w.App.Server().ServeConn(gc); close(done) }()
			var sv served
			select {
			case <-gc.reached:
				if len(intruders) > 0 {
					isv := serveScript(w, intruders)
					e.Stat("intruder_requests", int64(isv.responses))
				}
				close(gc.release)
				<-done
			case <-done:
				sv.problem = "the probe's response was written without reaching the gate"
			}
			sv.conns = 1
			rs, prob := splitResponses(gc.Output())
			if prob != "" || len(rs) != 1 {
				sv.problem += fmt.Sprintf(" gate connection: %d responses %s", len(rs), prob)
				return sv
			}
			sv.responses, sv.probeResp, sv.probeRaw = 1, rs[0], normDate(rs[0].Raw)
			return sv
		}
		s.holdAt, s.release = make(chan struct{}), make(chan struct{})
		done := make(chan served, 1)
		go func() { done <- serveScript(w, []wreq{probeReq}) }()
		select {
		case <-s.holdAt:
			if len(intruders) > 0 {
				isv := serveScript(w, intruders)
				e.Stat("intruder_requests", int64(isv.responses))
			}
			s.release <- struct{}{}
			return <-done
		case sv := <-done:
			sv.problem = "the probe was not parked: " + sv.problem
			return sv
		}
	}

	if ic.Adaptor {
		judgeAdaptor(e, c, ic, probeReq)
		return
	}
	// reference: the probe as first request of a fresh app
	freshPools()
	fapp, fs := isoBuild(ic.Cfg)
	fsv := serveProbe(drive.NewWire(fapp), fs, nil)
	// after the history. The process-wide pools are emptied again: what the reference run left in
	// them (e.g. a schema decoder that has already seen the probe's struct type) must not prime the
	// history run.
	freshPools()
	happ, hs := isoBuild(ic.Cfg)
	script := append(append([]wreq(nil), ic.History...), probeReq)
	for i := range script[:len(script)-1] {
		script[i].Remote = ic.HistRemote
	}
	if ic.Probe.OwnConn && len(script) > 1 {
		script[len(script)-2].EndConn = true
	}
	var hsv served
	if overlap {
		hw := drive.NewWire(happ)
		pre := serveScript(hw, script[:len(script)-1])
		hsv = serveProbe(hw, hs, ic.Intruders)
		hsv.conns += pre.conns
		if pre.problem != "" {
			hsv.problem = pre.problem
		}
	} else {
		hsv = serveScript(drive.NewWire(happ), script)
	}
	e.Eval(1)
	e.Stat("requests", int64(len(script)+1))
	e.Stat("connections", int64(hsv.conns))

	detail := func(extra map[string]any) map[string]any {
		d := map[string]any{"cfg": ic.Cfg.String(), "probe": string(ic.Probe.Raw), "probe_hex": hexs(ic.Probe.Raw), "probe_cookie": ic.Probe.Class,
			"history_peer": ic.HistRemote, "probe_peer": ic.ProbeRemote}
		if overlap {
			var ik []string
			for _, h := range ic.Intruders {
				ik = append(ik, firstLine(h.Raw))
			}
			d["served_while_probe_was_open"] = ik
		}
		var hk []string
		for _, h := range ic.History {
			hk = append(hk, h.Kind+"/"+h.Cookie)
		}
		d["history_kinds"] = hk
		if len(ic.History) <= 3 {
			var hh, hx []string
			for _, h := range ic.History {
				hh = append(hh, string(h.Raw))
				hx = append(hx, hexs(h.Raw))
			}
			d["history"] = hh
			d["history_hex"] = hx
		}
		for k, v := range extra {
			d[k] = v
		}
		return d
	}

	compareIso(e, c, ic, detail, fsv, fs, hsv, hs)
}

// compareIso judges the two observations of the probe: on a fresh app (f…) and after the history (h…).
func compareIso(e *ev.Env, c *ev.Case, ic isoCase, detail func(map[string]any) map[string]any, fsv served, fs *isoSink, hsv served, hs *isoSink) {
	// the drive is part of the signature: a leak that only exists behind the net/http adaptor has
	// another cause than one on the app's own server
	viol := func(sig, what string, d any) {
		if ic.Adaptor {
			sig += "|via-adaptor"
		}
		e.Violation(c, sig, what, d)
	}
	if ic.Probe.ViaEH {
		// the ErrorHandler invoked last (the probe is the last request) is the observer
		fs.vec, fs.probes, fs.reused = fs.ehVec, min(fs.ehCount, 1), fs.ehReused
		hs.vec, hs.probes, hs.reused = hs.ehVec, min(hs.ehCount, 1), hs.ehReused
	}
	if fsv.problem != "" || hsv.problem != "" || fs.probes != 1 || hs.probes != 1 || fs.vec == nil || hs.vec == nil {
		// the harness could not observe the probe on both sides: not a verdict about the property
		e.Stat("unobserved", 1)
		st := 0
		if fsv.probeResp != nil {
			st = fsv.probeResp.Status
		}
		e.Inconclusive(fmt.Sprintf("%s: probe not observed (fresh: %q probes=%d status=%d; history: %q probes=%d; probe %s %q)", c.ID, fsv.problem, fs.probes, st, hsv.problem, hs.probes, ic.Probe.Variant, string(ic.Probe.Raw[:min(len(ic.Probe.Raw), 300)])))
		return
	}
	if fs.reused {
		viol("harness|fresh-app-reused-context", "the fresh reference app served the probe on a used context", detail(nil))
	}
	if hs.reused {
		e.Stat("probe_on_reused_ctx", 1)
		var hk []string
		for _, h := range ic.History {
			hk = append(hk, h.Kind, h.Cookie)
		}
		e.Nontrivial(append(hk, ic.Probe.Class, ic.Probe.Variant, strconv.Itoa(ic.Probe.Route), ic.Cfg.String())...)
	} else {
		e.Stat("probe_on_new_ctx", 1)
	}
	e.Stat("probe_cookie_"+ic.Probe.Class, 1)

	// component-wise comparison of the observation vector
	keys := make([]string, 0, len(fs.vec))
	for k := range fs.vec {
		keys = append(keys, k)
	}
	for k := range hs.vec {
		if _, ok := fs.vec[k]; !ok {
			keys = append(keys, k)
		}
	}
	sort.Strings(keys)
	vecDiff := false
	flashDone := false
	for _, k := range keys {
		if fs.vec[k] == hs.vec[k] {
			continue
		}
		vecDiff = true
		sig := "leak|" + k
		switch k {
		case "bind":
			sig = "leak|bind|" + bindDiffSources(fs.vec[k], hs.vec[k])
		case "bind-xsrc":
			sig = "leak|bind-xsrc|" + ic.Probe.XSrc
		case "flash-messages", "old-inputs":
			if flashDone {
				continue
			}
			flashDone = true
			sig = "leak|flash-messages|probe-cookie=" + ic.Probe.Class
		}
		viol(sig, "probe observation after the history differs from the observation on a fresh app: "+k,
			detail(map[string]any{"component": k, "fresh": fs.vec[k], "after_history": hs.vec[k]}))
	}
	// raw response bytes (Date normalised). The body is the vector, so it is judged only when the
	// vector itself is equal.
	if !bytes.Equal(fsv.probeRaw, hsv.probeRaw) {
		fr, hr := fsv.probeResp, hsv.probeResp
		reported := false
		if fr.Status != hr.Status {
			reported = true
			viol("leak|response|status", "probe response status differs from the fresh app's",
				detail(map[string]any{"fresh": fr.Status, "after_history": hr.Status}))
		}
		fh, hh := hdrMap(fr), hdrMap(hr)
		var names []string
		for n := range fh {
			names = append(names, n)
		}
		for n := range hh {
			if _, ok := fh[n]; !ok {
				names = append(names, n)
			}
		}
		sort.Strings(names)
		for _, n := range names {
			if n == "date" {
				continue
			}
			if n == "content-length" && vecDiff {
				continue
			}
			if strings.Join(fh[n], "\x00") != strings.Join(hh[n], "\x00") {
				reported = true
				viol("leak|response|header|"+n, "probe response header differs from the fresh app's",
					detail(map[string]any{"header": n, "fresh": fh[n], "after_history": hh[n]}))
			}
		}
		if !vecDiff && !bytes.Equal(fr.Body, hr.Body) {
			reported = true
			viol("leak|response|body", "probe response body differs from the fresh app's",
				detail(map[string]any{"fresh": string(fr.Body), "after_history": string(hr.Body)}))
		}
		if !reported && !vecDiff {
			viol("leak|response|bytes", "probe response bytes differ from the fresh app's",
				detail(map[string]any{"fresh": string(fsv.probeRaw), "after_history": string(hsv.probeRaw)}))
		}
	}
}

// serveAdaptor hands the requests one after the other to adaptor.FiberApp(app).
func serveAdaptor(app *fiber.App, s *isoSink, reqs []wreq, single bool) served {
	h := adaptor.FiberApp(app)
	// single: the net/http server also has single fiber handlers mounted through
	// adaptor.FiberHandlerFunc (they share the adaptor's pool of fasthttp contexts with the app);
	// the history's /locals requests go to such a handler
	lone := adaptor.FiberHandlerFunc(func(c fiber.Ctx) error {
		id := c.Query("id", "lone")
		c.Locals("user", "user-"+id)
		c.Locals("reqid", id)
		c.Locals("secret", "secret-"+id)
		c.Locals(localKey{1}, "lk-"+id)
		c.Locals(localKeyT(7), "lkt-"+id)
		c.Locals(42, "int-"+id)
		return c.SendString("lone handler " + id)
	})
	var sv served
	for i, rq := range reqs {
		hr, err := http.ReadRequest(bufio.NewReader(bytes.NewReader(rq.Raw)))
		if err != nil {
			if i == len(reqs)-1 {
				sv.problem = "net/http cannot read the probe: " + err.Error()
			}
			continue // not a request a net/http server would pass on
		}
		// The adaptor copies the header fields in map order. Which of several scheme-forwarding
		// headers wins in Scheme() depends on their order: keep one, so that the observation does
		// not depend on that (per-call random) order.
		kept := false
		for _, n := range []string{"X-Forwarded-Proto", "X-Forwarded-Protocol", "X-Forwarded-Ssl", "X-Url-Scheme"} {
			if hr.Header.Get(n) == "" {
				continue
			}
			if kept {
				hr.Header.Del(n)
			}
			kept = true
		}
		hr.RemoteAddr = "203.0.113.7:40000"
		if rq.Remote == 1 {
			hr.RemoteAddr = altPeerIP + ":40001"
		}
		s.reqSeq++
		rec := httptest.NewRecorder()
		if single && i < len(reqs)-1 && (strings.HasPrefix(hr.URL.Path, "/locals/") || strings.HasPrefix(hr.URL.Path, "/base")) {
			lone.ServeHTTP(rec, hr)
		} else {
			h.ServeHTTP(rec, hr)
		}
		sv.responses++
		if i == len(reqs)-1 {
			res := rec.Result()
			lr := &lresp{Status: res.StatusCode, Body: rec.Body.Bytes()}
			names := make([]string, 0, len(res.Header))
			for k := range res.Header {
				names = append(names, k)
			}
			sort.Strings(names)
			var raw bytes.Buffer
			fmt.Fprintf(&raw, "HTTP/1.1 %d\r\n", res.StatusCode)
			for _, k := range names {
				for _, v := range res.Header[k] {
					lr.Hdr = append(lr.Hdr, [2]string{k, v})
					raw.WriteString(k + ": " + v + "\r\n")
				}
			}
			raw.WriteString("\r\n")
			raw.Write(lr.Body)
			lr.Raw = raw.Bytes()
			sv.probeResp, sv.probeRaw = lr, normDate(lr.Raw)
		}
	}
	sv.conns = 0
	return sv
}

func judgeAdaptor(e *ev.Env, c *ev.Case, ic isoCase, probeReq wreq) {
	freshPools()
	fapp, fs := isoBuild(ic.Cfg)
	fs.reqSeq = 1000
	single := gen.Hash64(c.ID)%2 == 0
	fsv := serveAdaptor(fapp, fs, []wreq{probeReq}, single)
	freshPools()
	happ, hs := isoBuild(ic.Cfg)
	hs.reqSeq = 1000
	script := append(append([]wreq(nil), ic.History...), probeReq)
	hsv := serveAdaptor(happ, hs, script, single)
	e.Eval(1)
	e.Stat("requests", int64(len(script)+1))
	e.Stat("adaptor_cases", 1)
	detail := func(extra map[string]any) map[string]any {
		d := map[string]any{"drive": "net/http -> middleware/adaptor.FiberApp", "history_locals_requests_through_FiberHandlerFunc": single, "cfg": ic.Cfg.String(), "probe": string(ic.Probe.Raw), "history_kinds": kindsOf(ic.History)}
		if len(ic.History) <= 3 {
			var hh []string
			for _, h := range ic.History {
				hh = append(hh, string(h.Raw))
			}
			d["history"] = hh
		}
		for k, v := range extra {
			d[k] = v
		}
		return d
	}
	compareIso(e, c, ic, detail, fsv, fs, hsv, hs)
}

// bindDiffSources names the binding sources (query, header, cookie, form, body) whose result
// differs between the two "bind" components.
func bindDiffSources(a, b string) string {
	var ma, mb map[string]json.RawMessage
	if json.Unmarshal([]byte(a), &ma) != nil || json.Unmarshal([]byte(b), &mb) != nil {
		return "unparsed"
	}
	set := map[string]struct{}{}
	for k, v := range ma {
		if !bytes.Equal(v, mb[k]) {
			set[strings.SplitN(k, ".", 2)[0]] = struct{}{}
		}
	}
	for k := range mb {
		if _, ok := ma[k]; !ok {
			set[strings.SplitN(k, ".", 2)[0]] = struct{}{}
		}
	}
	var out []string
	for k := range set {
		out = append(out, k)
	}
	sort.Strings(out)
	return strings.Join(out, "+")
}

func hdrMap(r *lresp) map[string][]string {
	m := map[string][]string{}
	for _, h := range r.Hdr {
		n := strings.ToLower(h[0])
		m[n] = append(m[n], h[1])
	}
	return m
}

// ---------------------------------------------------------------------------------------------

func runIsolation(e *ev.Env) {
	if runtime.GOMAXPROCS(0) != 1 {
		// pooled reuse is only deterministic with one P; the counters below tell what happened
		e.Note("gomaxprocs", strconv.Itoa(runtime.GOMAXPROCS(0)))
	}
	defer cleanupFiles()
	isoCorpus(e)
	e.Cases("hist", e.N(2000, 60000), func(c *ev.Case) {
		ic := genIsoCase(c.R)
		judgeIso(e, c, ic)
		if c.R.Chance(1, 200) {
			e.Sample("history", map[string]any{"kinds": kindsOf(ic.History), "probe": string(ic.Probe.Raw)})
		}
	})
	// directed family: histories that end with a flash-carrying request, probe with a crafted cookie
	e.Cases("flash", e.N(600, 15000), func(c *ev.Case) {
		r := c.R
		ic := isoCase{Cfg: isoCfg{Custom: r.Chance(1, 3), PassLocals: r.Bool(), Immutable: r.Chance(1, 4)}}
		ic.Cfg.widen(r)
		n := r.Range(1, 6)
		for i := 0; i < n; i++ {
			tag := "h" + strconv.Itoa(i) + "x"
			if r.Chance(2, 3) {
				q := &reqSpec{Target: gen.Pick(r, []string{"/flash", "/locals/" + tag, "/redir/" + tag + "?n=2", "/nothing", "/err/500"})}
				cl := gen.Pick(r, []string{ckValid, ckValid, ckPartial, ckTruncated})
				q.Cookie = genCookie(r, tag, cl, flashAlpha)
				ic.History = append(ic.History, wreq{Kind: "flash-carrier", Raw: q.raw(), Cookie: cl})
			} else {
				ic.History = append(ic.History, genHistoryReq(r.Split(), tag, ic.Cfg.Custom))
			}
		}
		ic.Probe = genProbe(r.Split(), gen.Pick(r, []string{ckPartial, ckPartial, ckTruncated, ckGarbage, ckValid, ckNone}))
		judgeIso(e, c, ic)
	})
	// directed family: the last binding request of the history abandons its bind half-way
	e.Cases("halfbind", e.N(300, 8000), func(c *ev.Case) {
		r := c.R
		ic := isoCase{Cfg: isoCfg{Custom: r.Chance(1, 3), PassLocals: r.Bool(), Immutable: r.Bool()}}
		ic.Cfg.widen(r)
		n := r.Range(0, 4)
		for i := 0; i < n; i++ {
			ic.History = append(ic.History, genHistoryReq(r.Split(), "h"+strconv.Itoa(i)+"x", ic.Cfg.Custom))
		}
		for i := r.Range(1, 2); i > 0; i-- {
			tag := "h" + strconv.Itoa(len(ic.History)) + "x"
			ic.History = append(ic.History, genHalfBind(r.Split(), tag, &reqSpec{Host: gen.Pick(r, hosts)}, ckNone))
		}
		// a few requests that do not bind may follow
		for i := r.Intn(3); i > 0; i-- {
			tag := "h" + strconv.Itoa(len(ic.History)) + "x"
			q := &reqSpec{Target: gen.Pick(r, []string{"/locals/" + tag, "/base", "/nothing/" + tag, "/err/500", "/getonly"})}
			ic.History = append(ic.History, wreq{Kind: "no-bind", Raw: q.raw(), Cookie: ckNone})
		}
		ic.Probe = genProbe(r.Split(), "")
		judgeIso(e, c, ic)
	})
	// directed family: one struct type bound from one source by the history and from another by
	// the probe (all ordered pairs of sources)
	e.Cases("xsrc", e.N(400, 10000), func(c *ev.Case) {
		r := c.R
		ic := isoCase{Cfg: isoCfg{Custom: r.Chance(1, 3), PassLocals: r.Bool(), Immutable: r.Bool()}}
		ic.Cfg.widen(r)
		pair := c.R.Intn(len(xSources) * len(xSources))
		hsrc, psrc := xSources[pair/len(xSources)], xSources[pair%len(xSources)]
		for i := r.Intn(3); i > 0; i-- {
			ic.History = append(ic.History, genHistoryReq(r.Split(), "h"+strconv.Itoa(len(ic.History))+"x", ic.Cfg.Custom))
		}
		for i := r.Range(1, 2); i > 0; i-- {
			tag := "h" + strconv.Itoa(len(ic.History)) + "x"
			ic.History = append(ic.History, genXBind(r.Split(), tag, &reqSpec{Host: gen.Pick(r, hosts)}, ckNone, hsrc))
		}
		ic.Probe = genProbeX(r.Split(), "", psrc)
		judgeIso(e, c, ic)
	})
	// directed family: a configured but unfinished redirect, then a probe that redirects plainly
	e.Cases("redirfail", e.N(300, 8000), func(c *ev.Case) {
		r := c.R
		ic := isoCase{Cfg: isoCfg{Custom: r.Chance(1, 3), PassLocals: r.Bool(), Immutable: r.Chance(1, 4)}}
		ic.Cfg.widen(r)
		for i := r.Intn(3); i > 0; i-- {
			ic.History = append(ic.History, genHistoryReq(r.Split(), "h"+strconv.Itoa(len(ic.History))+"x", ic.Cfg.Custom))
		}
		for i := r.Range(1, 2); i > 0; i-- {
			tag := "h" + strconv.Itoa(len(ic.History)) + "x"
			ic.History = append(ic.History, genRedirFail(r.Split(), tag, &reqSpec{Host: gen.Pick(r, hosts)}, ckNone))
		}
		for i := r.Intn(2); i > 0; i-- {
			tag := "h" + strconv.Itoa(len(ic.History)) + "x"
			q := &reqSpec{Target: gen.Pick(r, []string{"/locals/" + tag, "/base", "/nothing/" + tag, "/getonly"})}
			ic.History = append(ic.History, wreq{Kind: "no-redirect", Raw: q.raw(), Cookie: ckNone})
		}
		// a probe that redirects
		for tries := 0; ; tries++ {
			ic.Probe = genProbeX(r.Split(), "", "")
			if ic.Probe.Variant != "" {
				break
			}
		}
		judgeIso(e, c, ic)
	})
	// directed family: SendFile call sites whose configs differ in one option
	e.Cases("sendfile", e.N(300, 6000), func(c *ev.Case) {
		r := c.R
		ic := isoCase{Cfg: isoCfg{Custom: r.Chance(1, 3), Immutable: r.Chance(1, 4)}}
		ic.Cfg.widen(r)
		pv := r.Intn(nSendFileVariants)
		for i := r.Range(1, 4); i > 0; i-- {
			tag := "h" + strconv.Itoa(len(ic.History)) + "x"
			if r.Chance(3, 4) {
				hv := r.Intn(nSendFileVariants)
				q := &reqSpec{Target: "/file/" + strconv.Itoa(hv) + "?f=" + gen.Pick(r, []string{"a", "a", "b", "c"})}
				if r.Chance(1, 4) {
					q.Hdr = append(q.Hdr, [2]string{"Range", "bytes=0-9"})
				}
				if r.Chance(1, 4) {
					q.Hdr = append(q.Hdr, [2]string{"Accept-Encoding", "gzip"})
				}
				ic.History = append(ic.History, wreq{Kind: "sendfile-" + strconv.Itoa(hv), Raw: q.raw(), Cookie: ckNone})
			} else {
				ic.History = append(ic.History, genHistoryReq(r.Split(), tag, ic.Cfg.Custom))
			}
		}
		ic.Probe = genFileProbe(r.Split(), pv)
		judgeIso(e, c, ic)
	})
	// directed family: same Host as an earlier request that looked at BaseURL(), other scheme /
	// forwarding headers
	e.Cases("origin", e.N(300, 8000), func(c *ev.Case) {
		r := c.R
		ic := isoCase{Cfg: isoCfg{Custom: r.Chance(1, 3), PassLocals: r.Bool(), Immutable: r.Chance(1, 4)}}
		ic.Cfg.widen(r)
		host := gen.Pick(r, hosts)
		for i := r.Range(1, 3); i > 0; i-- {
			tag := "h" + strconv.Itoa(len(ic.History)) + "x"
			q := &reqSpec{Host: host, Target: gen.Pick(r, []string{"/base", "/locals/" + tag, "/redir/" + tag + "?n=1", "/nothing/" + tag})}
			decorate(r.Split(), q)
			ic.History = append(ic.History, wreq{Kind: "origin", Raw: q.raw(), Cookie: ckNone})
		}
		ps := genProbeX(r.Split(), "", "")
		// same Host header as the history
		ps.Raw = bytes.Replace(ps.Raw, hostLineOf(ps.Raw), []byte("Host: "+host+"\r\n"), 1)
		ic.Probe = ps
		judgeIso(e, c, ic)
	})
	// directed family: requests that match no route at all (no catch-all middleware) and still
	// leave state: a flash cookie, an ErrorHandler that binds / sets view bindings / prepares a
	// redirect
	e.Cases("unrouted", e.N(300, 8000), func(c *ev.Case) {
		r := c.R
		ic := isoCase{Cfg: isoCfg{Custom: r.Chance(1, 3), PassLocals: r.Bool(), Immutable: r.Chance(1, 4)}}
		ic.Cfg.widen(r)
		ic.Cfg.NoMW = true
		for i := r.Intn(3); i > 0; i-- {
			ic.History = append(ic.History, genHistoryReq(r.Split(), "h"+strconv.Itoa(len(ic.History))+"x", ic.Cfg.Custom))
		}
		for i := r.Range(1, 3); i > 0; i-- {
			tag := "h" + strconv.Itoa(len(ic.History)) + "x"
			q := &reqSpec{Host: gen.Pick(r, hosts)}
			decorate(r.Split(), q)
			kind := "404"
			switch r.Intn(3) {
			case 0:
				q.Target = "/nothing/" + tag + "?name=" + tag + "qn&a=x"
			case 1:
				q.Method, q.Target, kind = "POST", "/getonly?name="+tag+"qn", "405"
				q.Body = []byte{}
			default:
				q.Method, q.Target = "DELETE", "/private/"+tag
			}
			cl := gen.Pick(r, []string{ckValid, ckValid, ckNone, ckPartial})
			if cl != ckNone {
				q.Cookie = genCookie(r, tag, cl, flashAlpha)
			}
			ic.History = append(ic.History, wreq{Kind: "unrouted-" + kind, Raw: q.raw(), Cookie: cl})
		}
		ic.Probe = genProbeX(r.Split(), gen.Pick(r, []string{ckNone, ckNone, ckNone, ckPartial, ckTruncated}), "")
		judgeIso(e, c, ic)
	})
	// directed family: the probe is answered through an ErrorHandler (404/405, rejected requests,
	// also with methods the app does not route) after ordinary requests on the same pooled context
	e.Cases("ehprobe", e.N(400, 10000), func(c *ev.Case) {
		r := c.R
		ic := isoCase{Cfg: isoCfg{Custom: r.Chance(1, 2), PassLocals: r.Bool(), Immutable: r.Chance(1, 4)}}
		ic.Cfg.widen(r)
		for i := r.Range(1, 4); i > 0; i-- {
			tag := "h" + strconv.Itoa(len(ic.History)) + "x"
			if r.Bool() {
				q := &reqSpec{Host: gen.Pick(r, hosts), Target: gen.Pick(r, []string{"/admin/reports/" + tag, "/base", "/locals/" + tag, "/getonly",
					"/many/" + tag + "/2/3/4/5/6/7/8/9/10", "/redir/" + tag + "?n=1"})}
				decorate(r.Split(), q)
				ic.History = append(ic.History, wreq{Kind: "routed", Raw: q.raw(), Cookie: ckNone})
			} else {
				ic.History = append(ic.History, genHistoryReq(r.Split(), tag, ic.Cfg.Custom))
			}
		}
		ic.Probe = genEHProbe(r.Split(), ic.Cfg.Mount)
		judgeIso(e, c, ic)
	})
	// directed family: malformed / oversized requests, then a probe whose handler refuses the
	// request with one of the framework's predeclared errors
	e.Cases("predeclared", e.N(300, 8000), func(c *ev.Case) {
		r := c.R
		ic := isoCase{Cfg: isoCfg{Custom: r.Chance(1, 3), PassLocals: r.Bool(), Immutable: r.Chance(1, 4)}}
		ic.Cfg.widen(r)
		for i := r.Range(1, 3); i > 0; i-- {
			tag := "h" + strconv.Itoa(len(ic.History)) + "x"
			raws := []string{
				"GET /account/" + tag + " HTTP/1.1\r\nHost: x\r\nCookie: session=" + tag + "secret\r\nContent-Length: abc\r\n\r\n",
				"GET /account/" + tag + " HTTP/1.1\r\nHost: x\r\n: empty-name-" + tag + "\r\n\r\n",
				"GET /account/" + tag + "\r\nHost: x\r\n\r\n",
				"POST /account/" + tag + " HTTP/1.1\r\nHost: x\r\nTransfer-Encoding: chunked\r\n\r\nzz\r\n" + tag + "\r\n0\r\n\r\n",
				"POST /account/" + tag + " HTTP/1.1\r\nHost: x\r\nContent-Length: 9000\r\n\r\n",
				"GET /account/" + tag + " HTTP/1.1\r\nHost: x\r\nX-Ctl: timeout a\x01b " + tag + "\r\n\r\n",
			}
			ic.History = append(ic.History, wreq{Kind: "malformed", Raw: []byte(gen.Pick(r, raws)), Kills: true, Cookie: ckNone})
			if r.Chance(1, 3) {
				ic.History = append(ic.History, genHistoryReq(r.Split(), "h"+strconv.Itoa(len(ic.History))+"x", ic.Cfg.Custom))
			}
		}
		ps := genProbeX(r.Split(), "", "")
		if !bytes.Contains(ps.Raw, []byte("ret=")) {
			sep := []byte("?")
			line := ps.Raw[:bytes.Index(ps.Raw, []byte(" HTTP/1.1\r\n"))]
			if bytes.Contains(line, sep) {
				sep = []byte("&")
			}
			ins := append(sep, []byte("ret="+gen.Pick(r, predeclaredNames))...)
			ps.Raw = append(append(append([]byte(nil), line...), ins...), ps.Raw[len(line):]...)
		}
		ic.Probe = ps
		judgeIso(e, c, ic)
	})
	// directed family: the history's connections come from one peer, the probe's from the other;
	// only one of them is a trusted proxy
	e.Cases("peers", e.N(300, 8000), func(c *ev.Case) {
		r := c.R
		ic := isoCase{Cfg: isoCfg{Custom: r.Chance(1, 3), PassLocals: r.Bool(), Immutable: r.Chance(1, 4)}}
		ic.Cfg.widen(r)
		ic.Cfg.Trust = r.Range(1, 2)
		ic.Cfg.Touch = r.Chance(3, 4)
		ic.HistRemote = r.Intn(2)
		ic.ProbeRemote = 1 - ic.HistRemote
		fwd := func(q *reqSpec) {
			q.Hdr = append(q.Hdr, [2]string{"X-Forwarded-For", gen.Pick(r, []string{"6.6.6.6", "192.0.2.77, 198.51.100.9"})},
				[2]string{"X-Forwarded-Proto", "https"})
			if r.Bool() {
				q.Hdr = append(q.Hdr, [2]string{"X-Forwarded-Host", "shop.example.org"})
			}
		}
		for i := r.Range(1, 3); i > 0; i-- {
			tag := "h" + strconv.Itoa(len(ic.History)) + "x"
			q := &reqSpec{Host: gen.Pick(r, hosts), Target: gen.Pick(r, []string{"/base", "/locals/" + tag, "/getonly", "/redir/" + tag + "?n=1"})}
			fwd(q)
			ic.History = append(ic.History, wreq{Kind: "forwarded", Raw: q.raw(), Cookie: ckNone})
			if r.Chance(1, 3) {
				ic.History[len(ic.History)-1].EndConn = true
			}
		}
		ps := genProbeX(r.Split(), "", "")
		// the probe carries forwarding headers of its own
		line := bytes.Index(ps.Raw, []byte("\r\nHost: "))
		ins := []byte("\r\nX-Forwarded-For: 9.9.9.9\r\nX-Forwarded-Proto: https\r\nX-Forwarded-Host: forged.example")
		ps.Raw = append(append(append([]byte(nil), ps.Raw[:line]...), ins...), ps.Raw[line:]...)
		ic.Probe = ps
		judgeIso(e, c, ic)
	})
	// directed family: other requests are served while the probe is open (parked in its handler)
	e.Cases("overlap", e.N(300, 8000), func(c *ev.Case) {
		r := c.R
		ic := isoCase{Cfg: isoCfg{Custom: r.Chance(1, 3), PassLocals: r.Bool(), Immutable: r.Chance(1, 4)}}
		ic.Cfg.widen(r)
		fv := r.Intn(nSendFileVariants)
		for i := r.Intn(3); i > 0; i-- {
			tag := "h" + strconv.Itoa(len(ic.History)) + "x"
			if r.Bool() {
				q := &reqSpec{Target: "/file/" + strconv.Itoa(fv) + "?f=" + gen.Pick(r, []string{"a", "b", "x"})}
				ic.History = append(ic.History, wreq{Kind: "sendfile", Raw: q.raw(), Cookie: ckNone})
			} else {
				ic.History = append(ic.History, genHistoryReq(r.Split(), tag, ic.Cfg.Custom))
			}
		}
		ic.Intruders = []wreq{}
		for i := r.Range(1, 4); i > 0; i-- {
			tag := "i" + strconv.Itoa(len(ic.Intruders)) + "x"
			switch r.Intn(3) {
			case 0:
				q := &reqSpec{Target: "/file/" + strconv.Itoa(fv) + "?f=x"} // a file that does not exist
				ic.Intruders = append(ic.Intruders, wreq{Kind: "sendfile-missing", Raw: q.raw(), Cookie: ckNone})
			case 1:
				q := &reqSpec{Target: "/file/" + strconv.Itoa(r.Intn(nSendFileVariants)) + "?f=" + gen.Pick(r, []string{"a", "b", "x"})}
				ic.Intruders = append(ic.Intruders, wreq{Kind: "sendfile", Raw: q.raw(), Cookie: ckNone})
			default:
				h := genHistoryReq(r.Split(), tag, ic.Cfg.Custom)
				h.Kills = false
				if h.Kind == "malformed" || h.Kind == "oversized-header" {
					h.EndConn = true
				}
				ic.Intruders = append(ic.Intruders, h)
			}
		}
		var ps probeSpec
		if r.Chance(2, 3) {
			ps = genFileProbe(r.Split(), fv)
		} else {
			ps = genProbeX(r.Split(), "", "")
		}
		// park the probe inside its handler
		line := ps.Raw[:bytes.Index(ps.Raw, []byte(" HTTP/1.1\r\n"))]
		sep := "?"
		if bytes.Contains(line, []byte("?")) {
			sep = "&"
		}
		ps.Raw = append(append(append([]byte(nil), line...), []byte(sep+"hold=1")...), ps.Raw[len(line):]...)
		ic.Probe = ps
		judgeIso(e, c, ic)
	})
	// directed family: a handler echoes a long value of the request as the response body; the
	// response is larger than the write buffer, and while the server is in the middle of writing it
	// other connections are served
	e.Cases("writegate", e.N(200, 5000), func(c *ev.Case) {
		r := c.R
		ic := isoCase{Cfg: isoCfg{Custom: r.Chance(1, 3), PassLocals: r.Bool(), Immutable: r.Chance(1, 4)}}
		ic.Cfg.widen(r)
		ic.Cfg.BigBuf = true
		ic.WriteGate = true
		n := r.Range(5000, 9000)
		mk := func(tag string, probe bool) []byte {
			long := tag + r.StringFrom(gen.AlphaNum, n-len(tag))
			via := gen.Pick(r, []string{"params", "params", "path", "query", "header"})
			how := gen.Pick(r, []string{"sendstring", "sendstring", "sendstring", "writestring", "write"})
			q := &reqSpec{Host: gen.Pick(r, hosts)}
			q.Target = "/echo/" + tag + "?via=" + via + "&how=" + how
			switch via {
			case "params", "path":
				q.Target = "/echo/" + long + "?via=" + via + "&how=" + how
			case "query":
				q.Target += "&q=" + long
			case "header":
				q.Hdr = append(q.Hdr, [2]string{"X-Echo", long})
			}
			if probe {
				q.Target += "&probe=1"
			}
			return q.raw()
		}
		for i := r.Intn(2); i > 0; i-- {
			ic.History = append(ic.History, wreq{Kind: "echo", Raw: mk("h"+strconv.Itoa(len(ic.History))+"x", false), Cookie: ckNone})
		}
		ic.Intruders = []wreq{}
		for i := r.Range(1, 3); i > 0; i-- {
			ic.Intruders = append(ic.Intruders, wreq{Kind: "echo", Raw: mk("i"+strconv.Itoa(len(ic.Intruders))+"x", false), Cookie: ckNone, EndConn: r.Bool()})
		}
		ic.Probe = probeSpec{Route: -1, Class: ckNone, Variant: "echo", Raw: mk("PRB", true)}
		judgeIso(e, c, ic)
	})
	// directed family: history and probe are both unrouted, on the SAME path, with different methods
	e.Cases("samepath", e.N(300, 8000), func(c *ev.Case) {
		r := c.R
		ic := isoCase{Cfg: isoCfg{Custom: r.Chance(1, 3), PassLocals: r.Bool(), Immutable: r.Chance(1, 4)}}
		ic.Cfg.widen(r)
		ic.Cfg.NoMW = r.Chance(3, 4)
		path := gen.Pick(r, []string{"/missing", "/missing/" + r.StringFrom(pathAlpha, r.Range(1, 10)), "/getonly", "/base", "/admin/nothing", "/err/400"})
		methods := []string{"GET", "POST", "PUT", "DELETE", "PATCH", "HEAD", "OPTIONS"}
		if path == "/getonly" || path == "/base" || path == "/err/400" {
			methods = []string{"POST", "PUT", "DELETE", "PATCH"} // GET is routed there
		}
		gen.Shuffle(r, methods)
		mk := func(m, tag string) []byte {
			q := &reqSpec{Host: gen.Pick(r, hosts), Method: m, Target: path + "?name=" + tag}
			if m == "POST" || m == "PUT" || m == "PATCH" {
				q.Body = []byte{}
			}
			decorate(r.Split(), q)
			return q.raw()
		}
		for i := r.Intn(2); i > 0; i-- {
			ic.History = append(ic.History, genHistoryReq(r.Split(), "h"+strconv.Itoa(len(ic.History))+"x", ic.Cfg.Custom))
		}
		n := r.Range(1, 2)
		for i := 0; i < n; i++ {
			m := methods[i]
			if m == "HEAD" {
				m = "DELETE"
			}
			ic.History = append(ic.History, wreq{Kind: "unrouted-" + m, Raw: mk(m, "h"+strconv.Itoa(len(ic.History))+"x"), Cookie: ckNone})
		}
		pm := methods[n]
		if pm == "HEAD" {
			pm = "OPTIONS"
		}
		ic.Probe = probeSpec{Route: -1, Class: ckNone, ViaEH: true, Variant: "eh-samepath", Raw: mk(pm, "PRB")}
		judgeIso(e, c, ic)
	})
	// directed family: content-encoded bodies over one keep-alive connection whose ENCODED forms
	// have the same length (fasthttp keeps the body buffer of a connection: same address, same
	// length), with different content
	e.Cases("bodymemo", e.N(300, 8000), func(c *ev.Case) {
		r := c.R
		ic := isoCase{Cfg: isoCfg{Custom: r.Chance(1, 3), PassLocals: r.Bool(), Immutable: r.Chance(1, 3)}}
		ic.Cfg.widen(r)
		coding := gen.Pick(r, []string{"gzip", "deflate"})
		enc := func(plain []byte) []byte {
			var zb bytes.Buffer
			if coding == "gzip" {
				zw := gzip.NewWriter(&zb)
				_, _ = zw.Write(plain)
				_ = zw.Close()
			} else {
				zw := zlib.NewWriter(&zb)
				_, _ = zw.Write(plain)
				_ = zw.Close()
			}
			return zb.Bytes()
		}
		nameLen, pinLen := r.Range(4, 12), r.Range(4, 10)
		doc := func(tag string) []byte {
			return []byte(`{"name":"` + tag + r.StringFrom(gen.Lower, nameLen) + `","tag":"` + r.StringFrom(gen.Digits, pinLen) + `","n":` + strconv.Itoa(r.Range(10, 99)) + `,"l":["` + r.StringFrom(gen.Lower, 3) + `"]}`)
		}
		probeBody := enc(doc("PRB"))
		mk := func(target string, body []byte) []byte {
			q := &reqSpec{Method: "POST", Target: target, CType: "application/json", Body: body, Hdr: [][2]string{{"Content-Encoding", coding}}}
			return q.raw()
		}
		found := 0
		want := r.Range(1, 2)
		for tries := 0; tries < 400 && found < want; tries++ {
			b := enc(doc("h" + strconv.Itoa(found) + "x"))
			if len(b) != len(probeBody) || bytes.Equal(b, probeBody) {
				continue
			}
			found++
			target := gen.Pick(r, []string{"/payload/h" + strconv.Itoa(found), "/payload/h" + strconv.Itoa(found), "/bind?a=1"})
			ic.History = append(ic.History, wreq{Kind: "encoded-body-" + coding, Raw: mk(target, b), Cookie: ckNone})
		}
		if found == 0 {
			e.Stat("equal_length_not_found", 1)
			return
		}
		e.Stat("equal_length_found", 1)
		ic.Probe = probeSpec{Route: 4, Class: ckNone, Variant: "encoded-body", Raw: mk("/probeplain", probeBody)}
		judgeIso(e, c, ic)
	})
	// directed family: redirect state that is started and abandoned (WithInput / With, then a normal
	// answer or a failing Back()), then a probe that redirects with its own input
	e.Cases("withinput", e.N(300, 8000), func(c *ev.Case) {
		r := c.R
		ic := isoCase{Cfg: isoCfg{Custom: r.Chance(1, 3), PassLocals: r.Bool(), Immutable: r.Chance(1, 4)}}
		ic.Cfg.widen(r)
		for i := r.Intn(2); i > 0; i-- {
			ic.History = append(ic.History, genHistoryReq(r.Split(), "h"+strconv.Itoa(len(ic.History))+"x", ic.Cfg.Custom))
		}
		for i := r.Range(1, 2); i > 0; i-- {
			tag := "h" + strconv.Itoa(len(ic.History)) + "x"
			q := &reqSpec{Host: gen.Pick(r, hosts), Method: gen.Pick(r, []string{"GET", "POST"})}
			q.Target = "/redirfail/" + tag + "?status=303&with=1&mode=" + gen.Pick(r, []string{"return", "return", "back", "err"}) + "&password=" + tag + "s3cret"
			if q.Method == "POST" {
				q.CType, q.Body = "application/x-www-form-urlencoded", []byte("user="+tag+"&password="+tag+"s3cret")
			}
			ic.History = append(ic.History, wreq{Kind: "redirect-abandoned-with-input", Raw: q.raw(), Cookie: ckNone})
		}
		q := &reqSpec{Host: gen.Pick(r, hosts), Method: "POST", Target: "/probeplain?variant=RI", CType: "application/x-www-form-urlencoded", Body: []byte("name=PRBinput")}
		ic.Probe = probeSpec{Route: 4, Class: ckNone, Variant: "RI", Raw: q.raw()}
		judgeIso(e, c, ic)
	})
	// directed family: a handler edits the maps / slices the accessors handed to it, then the probe
	// asks the same accessors
	e.Cases("mutate", e.N(200, 5000), func(c *ev.Case) {
		r := c.R
		ic := isoCase{Cfg: isoCfg{Custom: r.Chance(1, 3), PassLocals: r.Bool(), Immutable: r.Chance(1, 3)}}
		ic.Cfg.widen(r)
		for i := r.Range(1, 3); i > 0; i-- {
			tag := "h" + strconv.Itoa(len(ic.History)) + "x"
			q := &reqSpec{Host: gen.Pick(r, hosts), Target: "/mutate/" + tag + gen.Pick(r, []string{"", "", "?page=3"})}
			decorate(r.Split(), q)
			ic.History = append(ic.History, wreq{Kind: "mutate-returned-values", Raw: q.raw(), Cookie: ckNone})
		}
		q := &reqSpec{Host: gen.Pick(r, hosts), Target: gen.Pick(r, []string{"/probeplain", "/probeplain", "/probe/PRBa/PRBb/PRBc", "/probeplain?own=1"})}
		decorate(r.Split(), q)
		ic.Probe = probeSpec{Route: 4, Class: ckNone, Raw: q.raw()}
		judgeIso(e, c, ic)
	})
	// directed family: the app mounted into a net/http server through middleware/adaptor
	e.Cases("adaptor", e.N(300, 8000), func(c *ev.Case) {
		ic := genIsoCase0(c.R)
		ic.Adaptor = true
		judgeIso(e, c, ic)
	})
	// family localtypes: no twin app — two handlers bind the same keys into request types of the same
	// name (one takes a list where the other takes a scalar) and check the result against the request
	// themselves; the order in which they are first asked varies. (State that outlives an app —
	// package-level caches keyed by type name — cannot be seen by comparing two apps of one process.)
	e.Cases("localtypes", e.N(64, 640), func(c *ev.Case) {
		r := c.R
		cfg := isoCfg{Custom: r.Chance(1, 3), Immutable: r.Chance(1, 4), Split: r.Chance(3, 4)}
		app, s := isoBuild(cfg)
		var script []wreq
		order := []string{"a", "b"}
		if r.Bool() {
			order = []string{"b", "a"}
		}
		for i := r.Range(2, 5); i > 0; i-- {
			h := order[i%2]
			q := &reqSpec{Target: "/lists/" + h + "?l=" + r.StringFrom(gen.Lower, 3) + "," + r.StringFrom(gen.Lower, 2) + "&s=" + r.StringFrom(gen.Lower, 2) + "," + r.StringFrom(gen.Lower, 4) + "," + r.StringFrom(gen.Lower, 1)}
			script = append(script, wreq{Kind: "lists-" + h, Raw: q.raw()})
		}
		sv := serveScript(drive.NewWire(app), script)
		e.Eval(len(script))
		if sv.problem != "" {
			e.Inconclusive(c.ID + ": " + sv.problem)
			return
		}
		e.Nontrivial(c.ID)
		for _, w := range s.selfWrong {
			w["cfg"], w["order"] = cfg.String(), order
			e.Violation(c, "wrong-bind|same-named-request-types", "a handler's struct was not filled with what its request contains (another handler binds a like-named type)", w)
		}
	})
	if e.Only == "" {
		e.Note("nontrivial_rule", "probe ran on a context object that served an earlier request of the same app (pointer logged by the entry middleware / ErrorHandler)")
	}
}

// hostLineOf returns the "Host: …\r\n" line of a raw request.
func hostLineOf(raw []byte) []byte {
	i := bytes.Index(raw, []byte("\r\nHost: "))
	if i < 0 {
		return nil
	}
	j := bytes.Index(raw[i+2:], []byte("\r\n"))
	return raw[i+2 : i+2+j+2]
}

func firstLine(raw []byte) string {
	if i := bytes.Index(raw, []byte("\r\n")); i >= 0 {
		return string(raw[:i])
	}
	return string(raw)
}

func kindsOf(h []wreq) []string {
	var k []string
	for _, x := range h {
		k = append(k, x.Kind+"/"+x.Cookie)
	}
	return k
}
