package ctxiso

import (
	"verifharness/internal/gen"
)

// Hand-rolled encoder for fiber's flash cookie (redirect_msgp.go): an msgp array of maps
// {key:str, value:str, level:uint8, isOldInput:bool}. Written independently of msgp so the
// harness module needs no new direct dependency, and so that *partial* encodings (missing
// fields, wrong announced counts) can be produced.
//
// fasthttp's request parser rejects header values with bytes < 0x20 (and 0x7f); the cookie
// scanner splits on ';' and trims blanks / one pair of surrounding quotes. Generators that are
// meant to reach fiber therefore only emit bytes >= 0x20, never ';', and never start or end with
// ' ' or '"'.

type fmsg struct {
	Key   string
	Value string
	Level uint8
	Old   bool
}

// field selection for partial maps
const (
	fKey = 1 << iota
	fValue
	fLevel
	fOld
	fUnknown // an extra, unknown field ("zz": str)
	fAll     = fKey | fValue | fLevel | fOld
)

func appStr(b []byte, s string) []byte {
	switch {
	case len(s) < 32:
		b = append(b, 0xa0|byte(len(s)))
	case len(s) < 256:
		b = append(b, 0xd9, byte(len(s)))
	default:
		panic("ctxiso: flash string too long for a header-safe encoding")
	}
	return append(b, s...)
}

// appLevel encodes a uint8 in a way that survives fasthttp's header validation:
// fixint for 0x20..0x7e, "uint8" (0xcc nn) for >= 0x80. Levels < 0x20 cannot be sent at all
// (that is C07/C12 territory); callers avoid them.
func appLevel(b []byte, l uint8) []byte {
	if l < 0x80 {
		return append(b, l)
	}
	return append(b, 0xcc, l)
}

func appArrayHdr(b []byte, n int) []byte {
	if n < 16 {
		return append(b, 0x90|byte(n))
	}
	panic("ctxiso: array header too large")
}

// appMsg appends one message map with the selected fields, in fiber's field order.
func appMsg(b []byte, m fmsg, fields int) []byte {
	n := 0
	for _, f := range []int{fKey, fValue, fLevel, fOld, fUnknown} {
		if fields&f != 0 {
			n++
		}
	}
	b = append(b, 0x80|byte(n))
	if fields&fKey != 0 {
		b = appStr(b, "key")
		b = appStr(b, m.Key)
	}
	if fields&fUnknown != 0 {
		b = appStr(b, "zz")
		b = appStr(b, "u")
	}
	if fields&fValue != 0 {
		b = appStr(b, "value")
		b = appStr(b, m.Value)
	}
	if fields&fLevel != 0 {
		b = appStr(b, "level")
		b = appLevel(b, m.Level)
	}
	if fields&fOld != 0 {
		b = appStr(b, "isOldInput")
		if m.Old {
			b = append(b, 0xc3)
		} else {
			b = append(b, 0xc2)
		}
	}
	return b
}

// encMsgs is the complete, valid encoding (what fiber itself would put in Set-Cookie).
func encMsgs(ms []fmsg) []byte {
	b := appArrayHdr(nil, len(ms))
	for _, m := range ms {
		b = appMsg(b, m, fAll)
	}
	return b
}

// safe levels: printable, not ';', not '"', not ' ' (so position in the value never matters)
func genLevel(r *gen.Rand) uint8 {
	for {
		var l uint8
		if r.Bool() {
			l = uint8(r.Range(0x21, 0x7e))
		} else {
			l = uint8(r.Range(0x80, 0xff))
		}
		if l != ';' && l != '"' {
			return l
		}
	}
}

const flashAlpha = gen.AlphaNum + "-_."

// genMsgs makes n messages whose key/value carry the tag (a request id), so a leaked message
// identifies where it came from.
func genMsgs(r *gen.Rand, tag string, n int, alpha string) []fmsg {
	ms := make([]fmsg, n)
	for i := range ms {
		ms[i] = fmsg{
			Key:   tag + "k" + r.StringFrom(alpha, r.Range(0, 6)),
			Value: tag + "v" + r.StringFrom(alpha, r.Range(0, 20)),
			Level: genLevel(r),
			Old:   r.Chance(1, 3),
		}
		if r.Chance(1, 12) { // a long value (str8 form)
			ms[i].Value = tag + "v" + r.StringFrom(alpha, r.Range(40, 200))
		}
		// the str8 length byte must itself be header- and cookie-safe (not DEL, not ';')
		if l := len(ms[i].Value); l == 0x7f || l == ';' {
			ms[i].Value += "x"
		}
	}
	return ms
}

// cookie classes (part of signatures)
const (
	ckNone      = "none"
	ckValid     = "valid"
	ckTruncated = "truncated"
	ckPartial   = "partial"
	ckGarbage   = "garbage"
)

// cookieSafe reports whether the whole value reaches fiber unchanged.
func cookieSafe(v []byte) bool {
	if len(v) == 0 {
		return false
	}
	for _, c := range v {
		if c < 0x20 || c == 0x7f || c == ';' {
			return false
		}
	}
	if v[0] == ' ' || v[len(v)-1] == ' ' {
		return false
	}
	if len(v) > 1 && v[0] == '"' && v[len(v)-1] == '"' {
		return false
	}
	return true
}

// genPartial builds a structurally partial cookie: maps with missing fields and/or an array
// header announcing fewer or more elements than are present.
func genPartial(r *gen.Rand, tag string, alpha string) []byte {
	present := r.Range(0, 4)
	announced := present
	switch r.Intn(4) {
	case 0:
		announced = present + r.Range(1, 4) // more announced than present
	case 1:
		if present > 0 {
			announced = present - r.Range(1, present) // fewer announced
		}
	}
	if announced == 0 && present == 0 && r.Bool() {
		announced = r.Range(1, 5)
	}
	ms := genMsgs(r, tag, present, alpha)
	b := appArrayHdr(nil, announced)
	for _, m := range ms {
		fields := 0
		switch r.Intn(5) {
		case 0:
			fields = 0 // empty map 0x80
		case 1:
			fields = fAll
		default:
			fields = r.Intn(32)
		}
		b = appMsg(b, m, fields)
	}
	return b
}

func genGarbage(r *gen.Rand) []byte {
	n := r.Range(1, 40)
	b := make([]byte, n)
	for i := range b {
		for {
			c := byte(r.Range(0x20, 0xff))
			if c != ';' && c != 0x7f {
				b[i] = c
				break
			}
		}
	}
	// never announce a huge array/map (array16/32, map16/32, bin/str32 …): the decoder would
	// allocate what is announced — that is C07's subject, not this engine's.
	for i, c := range b {
		if c >= 0xc4 && c <= 0xdf && c != 0xcc && c != 0xd9 {
			b[i] = 0xa1
		}
	}
	if b[0] == ' ' || b[0] == '"' {
		b[0] = 0x91
	}
	if b[n-1] == ' ' || b[n-1] == '"' {
		b[n-1] = 0x80
	}
	return b
}

// genCookie returns (class, value). tag is put inside every generated string.
func genCookie(r *gen.Rand, tag string, class string, alpha string) []byte {
	switch class {
	case ckValid:
		return encMsgs(genMsgs(r, tag, r.Range(1, 5), alpha))
	case ckTruncated:
		full := encMsgs(genMsgs(r, tag, r.Range(1, 4), alpha))
		for tries := 0; tries < 20; tries++ {
			cut := full[:r.Range(1, len(full)-1)]
			if cookieSafe(cut) {
				return append([]byte(nil), cut...)
			}
		}
		return full[:1]
	case ckPartial:
		return genPartial(r, tag, alpha)
	case ckGarbage:
		return genGarbage(r)
	}
	return nil
}

func pickCookieClass(r *gen.Rand) string {
	switch r.PickW(30, 30, 10, 22, 8) {
	case 0:
		return ckNone
	case 1:
		return ckValid
	case 2:
		return ckTruncated
	case 3:
		return ckPartial
	}
	return ckGarbage
}

// decodeFlash reads a flash cookie value back (the subset of msgp fiber writes). ok is false if the
// bytes are not such an encoding.
func decodeFlash(b []byte) (ms []fmsg, ok bool) {
	defer func() {
		if recover() != nil {
			ms, ok = nil, false
		}
	}()
	i := 0
	rdStr := func() string {
		c := b[i]
		i++
		n := 0
		switch {
		case c >= 0xa0 && c <= 0xbf:
			n = int(c & 0x1f)
		case c == 0xd9:
			n = int(b[i])
			i++
		case c == 0xda:
			n = int(b[i])<<8 | int(b[i+1])
			i += 2
		default:
			panic("not a string")
		}
		s := string(b[i : i+n])
		i += n
		return s
	}
	if len(b) == 0 || b[0] < 0x90 || b[0] > 0x9f {
		return nil, false
	}
	n := int(b[0] & 0x0f)
	i = 1
	for k := 0; k < n; k++ {
		if b[i] < 0x80 || b[i] > 0x8f {
			return nil, false
		}
		fields := int(b[i] & 0x0f)
		i++
		var m fmsg
		for f := 0; f < fields; f++ {
			switch rdStr() {
			case "key":
				m.Key = rdStr()
			case "value":
				m.Value = rdStr()
			case "level":
				if b[i] == 0xcc {
					m.Level = b[i+1]
					i += 2
				} else {
					m.Level = b[i]
					i++
				}
			case "isOldInput":
				m.Old = b[i] == 0xc3
				i++
			default:
				return nil, false
			}
		}
		ms = append(ms, m)
	}
	return ms, true
}
