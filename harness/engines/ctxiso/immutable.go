package ctxiso

import (
	"bytes"
	"compress/gzip"
	"compress/zlib"
	"encoding/base64"
	"encoding/xml"
	"fmt"
	"os"
	"runtime"
	"sort"
	"strconv"
	"strings"

	"github.com/gofiber/fiber/v3"

	"verifharness/internal/drive"
	"verifharness/internal/ev"
	"verifharness/internal/gen"
)

// ---------------------------------------------------------------------------------------------
// ctxiso.immutable (C06)
//
// One run = one keep-alive connection carrying a capture request followed by N requests of the
// same shape (same route, same component lengths) and different content. The handler calls every
// accessor and keeps, per value, the live reference, a deep copy, and what the request contained.
// The run is executed twice with the same bytes: on an app with Immutable:true (judged) and on
// one with Immutable:false (positive control — its captured references must be seen changing,
// otherwise nothing proves the follow-up traffic overwrote the buffers).

type immCfg struct {
	Custom   bool
	CaseSens bool
	Strict   bool
	Unescape bool
	// Proxy selects how IP() is derived:
	//  0 remote address; 1 ProxyHeader=X-Real-Ip (value returned as is);
	//  2 ProxyHeader=X-Forwarded-For + EnableIPValidation (first valid address of the list);
	//  3 as 2 with TrustProxy on and the peer listed in TrustProxyConfig.Proxies
	//  4 ProxyHeader=X-Forwarded-For, TrustProxy on, the peer NOT listed: forwarding headers ignored
	Proxy int
	Split bool // Config.EnableSplittingOnParsers
	// ReduceMem: Config.ReduceMemoryUsage (fasthttp hands request body buffers back to a pool)
	ReduceMem bool
	// Nested: between its first and its second look at the request the handler sends a request with
	// a body of its own to the app over a second connection (as a handler calling a sibling
	// service of the same process does): other traffic is being read while this request is open
	Nested bool
	// ZeroCopyJSON: Config.JSONDecoder is a decoder whose strings are views of its input
	ZeroCopyJSON bool
	// Stream: Config.StreamRequestBody (a request body is a stream until it is first read)
	Stream bool
	// Via: how the capture route is reached — 0 straight from the request handler; 1 through a
	// middleware that calls c.Next(); 2 through a middleware that first calls c.RestartRouting();
	// 3 through a middleware registered with the capture route's own parameterised pattern.
	// The middleware reads every accessor itself before it passes on.
	Via int
	// PathOverride: among its response helpers the handler also calls c.Path(other) and c.Path(back).
	// Kept to a share of the runs: an override may give the context a new path buffer, and the
	// after-the-handler checks of Params need the buffer to be reused by the next request.
	PathOverride bool
}

func (c immCfg) String() string {
	return fmt.Sprintf("custom=%v cs=%v strict=%v unescape=%v proxy=%d split=%v reducemem=%v nested=%v zerocopyjson=%v stream=%v via=%d pathoverride=%v",
		c.Custom, c.CaseSens, c.Strict, c.Unescape, c.Proxy, c.Split, c.ReduceMem, c.Nested, c.ZeroCopyJSON, c.Stream, c.Via, c.PathOverride)
}

// body kinds
var immKinds = []string{"none", "form", "multipart", "json", "xml", "cbor", "gzip-json", "json", "gzip+deflate-json", "deflate+gzip-json"}

// stacked: the body carries two content codings
func stacked(kind string) bool { return kind == "gzip+deflate-json" || kind == "deflate+gzip-json" }

type immShape struct {
	Kind string
	Fwd  bool // X-Forwarded-Proto / X-Forwarded-Host present
	Port bool
	// Chunked: the body is sent with Transfer-Encoding: chunked instead of a Content-Length
	Chunked bool
	// SameHost: every request of the run carries the same Host header, and the forwarding
	// headers rotate (none / X-Forwarded-Proto / X-Forwarded-Proto + X-Forwarded-Host): scheme and
	// effective host change while the Host header does not.
	SameHost bool
	// Route: 0 the request matches the capture route; 1 it matches no route (404); 2 its path is
	// registered for other methods only (405). In 1 and 2 the app's ErrorHandler is the observer.
	Route int
	Comma bool   // the values bound into string and []string fields contain a comma
	CEnc  string // a Content-Encoding the framework does not decode (json/xml/cbor bodies only), "" = none
	Len   map[string]int

	hostS1, hostS2 string // SameHost: the labels fixed by the first request of the run
}

var immFields = []string{"pa", "pb", "w1", "w2", "qs", "qx", "ql0", "ql1", "s1", "s2", "f1", "f2", "xc", "hs", "hl0", "hl1",
	"ck", "cs", "cl0", "cl1", "fs", "fv", "fl0", "fl1", "jb", "qkn", "qkv", "qkw", "hkn", "hkv", "hkw",
	"rgu", "fmk", "fmv", "fok", "fov", "ffn", "ffc"}

type immReq struct {
	Shape  *immShape
	V      map[string]string // field -> content
	Num    map[string]string // numeric fields (pn, qb0, qb1, hb, cb, fb)
	IP     [3]string         // xff0, xff1, xreal
	Method string
	Target string
	Path   string
	Host   string      // Host header
	Parsed [][2]string // further headers that ctx methods parse, as sent
	CType  string      // Content-Type as sent (contains upper-case letters)
	Accept string
	Proto  string // HTTP/1.1 or HTTP/1.0 (with Connection: keep-alive)
	FProto string // X-Forwarded-Proto value
	HasFP  bool   // the request carries X-Forwarded-Proto
	HasFH  bool   // the request carries X-Forwarded-Host
	Body   []byte // as sent
	Plain  []byte // after Content-Encoding is undone
	Raw    []byte
}

const immAlpha = gen.AlphaNum
const immLower = gen.Lower + gen.Digits

func genShape(r *gen.Rand) *immShape {
	sh := &immShape{Kind: gen.Pick(r, immKinds), Fwd: r.Chance(1, 3), Port: r.Bool(), Comma: r.Chance(1, 3), Len: map[string]int{}}
	switch sh.Kind {
	case "json", "xml", "cbor":
		sh.CEnc = gen.Pick(r, []string{"", "", "identity", "aws-chunked", "x-verif-none"})
	}
	for _, f := range immFields {
		sh.Len[f] = r.Range(1, 24)
		if r.Chance(1, 10) {
			sh.Len[f] = r.Range(25, 120)
		}
	}
	for _, f := range []string{"s1", "s2", "f1", "f2", "qkn", "hkn", "rgu", "fmk", "fmv", "fok", "fov", "ffn"} {
		sh.Len[f] = r.Range(1, 20)
	}
	sh.Route = r.PickW(4, 1, 1)
	sh.SameHost = r.Chance(1, 4)
	switch sh.Kind {
	case "json", "xml", "cbor", "form":
		sh.Chunked = r.Chance(1, 4)
		if sh.Kind != "cbor" && r.Chance(1, 4) {
			sh.Len["jb"] = r.Range(4500, 7000) // a body larger than the server's read buffer
			sh.Len["fv"] = r.Range(4500, 7000)
		}
	}
	if r.Chance(1, 4) {
		sh.Len["w2"] = r.Range(150, 400)
	}
	if sh.Comma {
		for _, f := range commaFields {
			if sh.Len[f] < 3 {
				sh.Len[f] = 3
			}
		}
	}
	return sh
}

// fields that get a comma in the middle when Shape.Comma is set: those bound into string and
// []string fields by the query, header, cookie and form binders (and reused for the bodies)
var commaFields = []string{"qs", "ql0", "hs", "hl0", "cs", "cl0", "fs", "fl0"}

func withComma(v string) string {
	if len(v) < 3 {
		return v
	}
	b := []byte(v)
	b[len(b)/2] = ','
	return string(b)
}

// splitExp is what a []string field receives from the values sent: with EnableSplittingOnParsers
// every value is cut at its commas.
func splitExp(split bool, vals ...string) []string {
	if !split {
		return vals
	}
	var out []string
	for _, v := range vals {
		out = append(out, strings.Split(v, ",")...)
	}
	return out
}

func num3(r *gen.Rand) string { return strconv.Itoa(r.Range(100, 199)) }

func ip4(r *gen.Rand) string { return num3(r) + "." + num3(r) + "." + num3(r) + "." + num3(r) }

func cborText(b []byte, s string) []byte {
	if len(s) < 24 {
		b = append(b, 0x60|byte(len(s)))
	} else {
		b = append(b, 0x78, byte(len(s)))
	}
	return append(b, s...)
}

func cborBytes(b []byte, s []byte) []byte {
	if len(s) < 24 {
		b = append(b, 0x40|byte(len(s)))
	} else {
		b = append(b, 0x58, byte(len(s)))
	}
	return append(b, s...)
}

// genImmReq makes request number idx of a run. Protocol version and forwarded scheme alternate
// with idx so that these (otherwise constant) values differ between neighbours too.
func genImmReq(r *gen.Rand, sh *immShape, idx int) *immReq {
	q := &immReq{Shape: sh, V: map[string]string{}, Num: map[string]string{}}
	q.Proto, q.FProto = "HTTP/1.1", "https"
	if idx%2 == 1 {
		q.Proto, q.FProto = "HTTP/1.0", "httpx"
	}
	for _, f := range immFields {
		al := immAlpha
		if f == "s1" || f == "s2" || f == "f1" || f == "f2" {
			al = immLower
		}
		if f == "qkn" || f == "hkn" || f == "rgu" {
			al = gen.Lower // names of a query parameter ("k…") and of a header ("Xr…")
		}
		q.V[f] = r.StringFrom(al, sh.Len[f])
	}
	if sh.Comma {
		for _, f := range commaFields {
			q.V[f] = withComma(q.V[f])
		}
	}
	for _, f := range []string{"pn", "qb0", "qb1", "hb", "cb", "fb"} {
		q.Num[f] = num3(r)
	}
	q.HasFP, q.HasFH = sh.Fwd, sh.Fwd
	if sh.SameHost {
		// the Host header is that of request 0 of the run; forwarding headers rotate
		if sh.hostS1 == "" {
			sh.hostS1, sh.hostS2 = q.V["s1"], q.V["s2"]
		}
		q.V["s1"], q.V["s2"] = sh.hostS1, sh.hostS2
		q.HasFP, q.HasFH = idx%3 != 0, idx%3 == 2
		if idx%2 == 0 {
			q.FProto = "https"
		}
	}
	q.IP = [3]string{ip4(r), ip4(r), ip4(r)}
	v := q.V
	prefix := "/cap/"
	if sh.Route == 1 {
		prefix = "/nom/"
	}
	q.Path = prefix + v["pa"] + "/" + v["pb"] + "/" + q.Num["pn"] + "/" + v["w1"] + "/" + v["w2"]
	q.Target = q.Path + "?qs=" + v["qs"] + "&qb=" + q.Num["qb0"] + "&qb=" + q.Num["qb1"] + "&ql=" + v["ql0"] + "&ql=" + v["ql1"] + "&qx=" + v["qx"] + "&k" + v["qkn"] + "=" + v["qkv"] + "&k" + v["qkn"] + "=" + v["qkw"]
	q.Host = v["s1"] + "." + v["s2"] + ".example.com"
	if sh.Port {
		q.Host += ":8080"
	}
	q.Method = "POST"
	if sh.Route == 2 {
		q.Method = "PUT" // the capture route is registered for GET and POST only
	}
	ctype := ""
	switch sh.Kind {
	case "none":
		q.Method = "GET"
		ctype = "Text/Plain; Charset=UTF-8"
		if sh.Route == 2 {
			q.Method = "DELETE"
		}
	case "form":
		ctype = "application/x-www-form-urlencoded; Charset=UTF-8"
		q.Plain = []byte("fs=" + v["fs"] + "&fb=" + q.Num["fb"] + "&fl=" + v["fl0"] + "&fl=" + v["fl1"] + "&fv=" + v["fv"])
	case "multipart":
		const bd = "XbOuNdArYx"
		ctype = "multipart/form-data; boundary=" + bd
		var b bytes.Buffer
		part := func(name, val string) {
			b.WriteString("--" + bd + "\r\nContent-Disposition: form-data; name=\"" + name + "\"\r\n\r\n" + val + "\r\n")
		}
		part("fs", v["fs"])
		part("fb", q.Num["fb"])
		part("fl", v["fl0"])
		part("fl", v["fl1"])
		part("fv", v["fv"])
		b.WriteString("--" + bd + "\r\nContent-Disposition: form-data; name=\"ff\"; filename=\"" + v["ffn"] + ".txt\"\r\nContent-Type: text/plain\r\n\r\n" + v["ffc"] + "\r\n")
		b.WriteString("--" + bd + "--\r\n")
		q.Plain = b.Bytes()
	case "json", "gzip-json", "gzip+deflate-json", "deflate+gzip-json":
		ctype = "Application/JSON; Charset=UTF-8"
		q.Plain = []byte(`{"js":"` + v["fs"] + `","jb":"` + base64.StdEncoding.EncodeToString([]byte(v["jb"])) + `","jl":["` + v["fl0"] + `","` + v["fl1"] + `"]}`)
	case "xml":
		ctype = "Application/XML; Charset=UTF-8"
		q.Plain = []byte("<X><xs>" + v["fs"] + "</xs><xb>" + v["jb"] + "</xb><xl>" + v["fl0"] + "</xl><xl>" + v["fl1"] + "</xl></X>")
	case "cbor":
		ctype = "Application/CBOR"
		b := []byte{0xa3}
		b = cborText(b, "cs")
		b = cborText(b, v["fs"])
		b = cborText(b, "cb")
		b = cborBytes(b, []byte(v["jb"]))
		b = cborText(b, "cl")
		b = append(b, 0x82)
		b = cborText(b, v["fl0"])
		b = cborText(b, v["fl1"])
		q.Plain = b
	}
	q.Body = q.Plain
	var raw bytes.Buffer
	raw.WriteString(q.Method + " " + q.Target + " " + q.Proto + "\r\nHost: " + q.Host + "\r\n")
	if q.Proto == "HTTP/1.0" {
		raw.WriteString("Connection: keep-alive\r\n")
	}
	raw.WriteString("X-Custom: " + v["xc"] + "\r\nXr" + v["hkn"] + ": " + v["hkv"] + "\r\nXr" + v["hkn"] + ": " + v["hkw"] + "\r\n")
	raw.WriteString("X-Forwarded-For: " + q.IP[0] + ", " + q.IP[1] + "\r\n")
	raw.WriteString("X-Real-Ip: " + q.IP[2] + "\r\n")
	if q.HasFP {
		raw.WriteString("X-Forwarded-Proto: " + q.FProto + "\r\n")
	}
	if q.HasFH {
		raw.WriteString("X-Forwarded-Host: " + v["f1"] + "." + v["f2"] + ".example.org\r\n")
	}
	raw.WriteString("Hs: " + v["hs"] + "\r\nHb: " + q.Num["hb"] + "\r\nHl: " + v["hl0"] + "\r\nHl: " + v["hl1"] + "\r\n")
	raw.WriteString("Cookie: ck=" + v["ck"] + "; cs=" + v["cs"] + "; cb=" + q.Num["cb"] + "; cl=" + v["cl0"] + "; cl=" + v["cl1"] +
		"; fiber_flash=" + string(encMsgs([]fmsg{{Key: v["fmk"], Value: v["fmv"], Level: 0x21}, {Key: v["fok"], Value: v["fov"], Level: 0x22, Old: true}})) + "\r\n")
	if sh.Kind == "gzip-json" {
		var zb bytes.Buffer
		zw := gzip.NewWriter(&zb)
		_, _ = zw.Write(q.Plain)
		_ = zw.Close()
		q.Body = zb.Bytes()
		raw.WriteString("Content-Encoding: gzip\r\n")
	}
	if stacked(sh.Kind) {
		// the codings are listed in the order this framework undoes them
		gz := func(in []byte) []byte {
			var zb bytes.Buffer
			zw := gzip.NewWriter(&zb)
			_, _ = zw.Write(in)
			_ = zw.Close()
			return zb.Bytes()
		}
		zl := func(in []byte) []byte {
			var zb bytes.Buffer
			zw := zlib.NewWriter(&zb)
			_, _ = zw.Write(in)
			_ = zw.Close()
			return zb.Bytes()
		}
		if sh.Kind == "gzip+deflate-json" {
			q.Body = gz(zl(q.Plain))
			raw.WriteString("Content-Encoding: gzip, deflate\r\n")
		} else {
			q.Body = zl(gz(q.Plain))
			raw.WriteString("Content-Encoding: deflate, gzip\r\n")
		}
	}
	if sh.CEnc != "" {
		raw.WriteString("Content-Encoding: " + sh.CEnc + "\r\n")
	}
	q.CType = ctype
	q.Accept = "Text/HTML;Level=1;q=0.9, Application/JSON;Version=2;Charset=UTF-8;q=0.8, */*;q=0.1"
	raw.WriteString("Content-Type: " + ctype + "\r\n")
	raw.WriteString("Accept: " + q.Accept + "\r\n")
	// every header some ctx method parses, with mixed-case content
	q.Parsed = [][2]string{
		{"Accept-Language", "en-US;Q=0.9, De-CH;q=0.5"},
		{"Accept-Charset", "UTF-8, ISO-8859-1;Q=0.3"},
		{"Accept-Encoding", "GZip, Br;Q=0.5"},
		{"Range", "ru" + v["rgu"] + "=0-9"},
		{"If-None-Match", "W/\"" + v["xc"] + "\", \"AbC" + v["xc"] + "\""},
		{"If-Modified-Since", "Wed, 21 Oct 2015 07:28:00 GMT"},
		{"Cache-Control", "Max-Age=0, No-Transform, Private=\"X-" + v["xc"] + "\""},
		{"X-Requested-With", "XMLHttpRequest"},
	}
	for _, h := range q.Parsed {
		raw.WriteString(h[0] + ": " + h[1] + "\r\n")
	}
	chunked := sh.Chunked && len(q.Body) > 0 && (q.Method == "POST" || q.Method == "PUT")
	if chunked {
		raw.WriteString("Transfer-Encoding: chunked\r\n\r\n")
		b := q.Body
		for len(b) > 0 {
			n := min(len(b), 1000+len(b)%977)
			raw.WriteString(strconv.FormatInt(int64(n), 16) + "\r\n")
			raw.Write(b[:n])
			raw.WriteString("\r\n")
			b = b[n:]
		}
		raw.WriteString("0\r\n\r\n")
		q.Raw = raw.Bytes()
		return q
	}
	if q.Method == "POST" || q.Method == "PUT" {
		raw.WriteString("Content-Length: " + strconv.Itoa(len(q.Body)) + "\r\n")
	}
	raw.WriteString("\r\n")
	raw.Write(q.Body)
	q.Raw = raw.Bytes()
	return q
}

// effective host as documented: X-Forwarded-Host wins when the peer counts as a trusted proxy
// (TrustProxy off, or on with the peer listed)
func (q *immReq) effHost(trusted bool) string {
	if trusted && q.HasFH {
		return q.V["f1"] + "." + q.V["f2"] + ".example.org"
	}
	return q.Host
}

func (q *immReq) effScheme(trusted bool) string {
	if trusted && q.HasFP {
		return q.FProto
	}
	return "http"
}

// ---------------------------------------------------------------------------------------------

type immCapture struct {
	flagged bool // already reported / no longer looked at inside the handler
	acc     string
	phase   string
	isB     bool
	ls      string
	lb      []byte
	cs      string
	cb      []byte
	exp     string
	hasExp  bool
}

func (c *immCapture) changed() bool {
	if c.isB {
		return !bytes.Equal(c.lb, c.cb)
	}
	return c.ls != c.cs
}

func (c *immCapture) now() string {
	if c.isB {
		return string(c.lb)
	}
	return c.ls
}

func (c *immCapture) was() string {
	if c.isB {
		return string(c.cb)
	}
	return c.cs
}

type capSet struct {
	phase string
	req   int
	ptr   string
	caps  []*immCapture
	errs  []string
}

const noExp = "\x00<no expectation>"

func (s *capSet) S(acc, v, exp string) {
	c := &immCapture{acc: acc, phase: s.phase, ls: v, cs: strings.Clone(v)}
	if exp != noExp {
		c.exp, c.hasExp = exp, true
	}
	s.caps = append(s.caps, c)
}

func (s *capSet) B(acc string, v []byte, exp []byte, has bool) {
	c := &immCapture{acc: acc, phase: s.phase, isB: true, lb: v, cb: bytes.Clone(v)}
	if has {
		c.exp, c.hasExp = string(exp), true
	}
	s.caps = append(s.caps, c)
}

func (s *capSet) L(acc string, vs []string, exp []string) {
	if len(vs) != len(exp) {
		s.S(acc+".len", strconv.Itoa(len(vs)), strconv.Itoa(len(exp)))
	}
	for i, v := range vs {
		e := noExp
		if i < len(exp) {
			e = exp[i]
		}
		s.S(acc, v, e)
	}
}

// LX is L, or — when the expected content is not pinned down — every element without expectation.
func (s *capSet) LX(acc string, vs []string, exp []string, noContent bool) {
	if !noContent {
		s.L(acc, vs, exp)
		return
	}
	for _, v := range vs {
		s.S(acc, v, noExp)
	}
}

func (s *capSet) err(where string, err error) {
	if err != nil {
		s.errs = append(s.errs, where+": "+err.Error())
	}
}

type immQ struct {
	S string   `query:"qs"`
	B []byte   `query:"qb"`
	L []string `query:"ql"`
}
type immH struct {
	S string   `header:"Hs"`
	B []byte   `header:"Hb"`
	L []string `header:"Hl"`
}
type immC struct {
	S string   `cookie:"cs"`
	B []byte   `cookie:"cb"`
	L []string `cookie:"cl"`
}
type immF struct {
	S string   `form:"fs"`
	B []byte   `form:"fb"`
	L []string `form:"fl"`
}
type immR struct {
	S string   `respHeader:"Rs"`
	L []string `respHeader:"Rl"`
}
type immU struct {
	S string   `uri:"pa"`
	B []byte   `uri:"pn"`
	L []string `uri:"pb"`
}
type immJ struct {
	S string   `json:"js"`
	B []byte   `json:"jb"`
	L []string `json:"jl"`
}
type immX struct {
	XMLName xml.Name `xml:"X"`
	S       string   `xml:"xs"`
	B       []byte   `xml:"xb"`
	L       []string `xml:"xl"`
}
type immCB struct {
	S string   `cbor:"cs"`
	B []byte   `cbor:"cb"`
	L []string `cbor:"cl"`
}

// capture calls every accessor on c. q is the request being served (the expectation).
//
// matched: the request entered the capture route (else the observer is the ErrorHandler of an
// unrouted request: no route parameters, and Route() describes the request itself).
// withResp: also look at the response headers the handler set itself.
func capture(c fiber.Ctx, q *immReq, cfg immCfg, s *capSet, matched, withResp bool) {
	v := q.V
	s.ptr = ctxPtr(c)
	if matched {
		wild := v["w1"] + "/" + v["w2"]
		expParam := map[string]string{"pa": v["pa"], "pb": v["pb"], "pn": q.Num["pn"], "*1": wild}
		for _, p := range c.Route().Params {
			e, ok := expParam[p]
			if !ok {
				e = noExp
			}
			s.S("Params", c.Params(p), e)
		}
		s.S("Params", c.Params("*"), wild)
		s.S("Params[T]", fiber.Params[string](c, "pa"), v["pa"])
		s.B("Params[[]byte]", fiber.Params[[]byte](c, "pb"), []byte(v["pb"]), true)
		s.S("Route.Path", c.Route().Path, capRoute)
	} else {
		rt := c.Route()
		s.S("Route.Path", rt.Path, q.Path)
		s.S("Route.Method", rt.Method, q.Method)
		s.S("Route.Name", rt.Name, "")
	}
	s.S("String", c.String(), noExp)
	s.S("Path", c.Path(), q.Path)
	s.S("OriginalURL", c.OriginalURL(), q.Target)
	s.S("Protocol", c.Protocol(), q.Proto)
	s.S("Query", c.Query("qs"), v["qs"])
	s.S("Query[T]", fiber.Query[string](c, "qx"), v["qx"])
	s.B("Query[[]byte]", fiber.Query[[]byte](c, "qx"), []byte(v["qx"]), true)
	s.B("Query[[]byte]", fiber.Query[[]byte](c, "qs"), []byte(v["qs"]), true)
	rqk, rhk := "k"+v["qkn"], "Xr"+v["hkn"]
	expQ := map[string]string{"qs": v["qs"], "qb": q.Num["qb1"], "ql": v["ql1"], "qx": v["qx"], rqk: v["qkw"]}
	qm := c.Queries()
	qk := make([]string, 0, len(qm))
	for k := range qm {
		qk = append(qk, k)
	}
	sort.Strings(qk)
	if len(qk) != len(expQ) {
		s.S("Queries.len", strconv.Itoa(len(qk)), strconv.Itoa(len(expQ)))
	}
	for _, k := range qk {
		val := qm[k]
		e, ok := expQ[k]
		if !ok {
			s.S("Queries.key", k, "<a key the request carries>")
			continue
		}
		s.S("Queries.key", k, k) // membership was just established
		s.S("Queries.value", val, e)
	}
	s.S("Get", c.Get("X-Custom"), v["xc"])
	s.S("Get", c.Get(fiber.HeaderContentType), q.CType)
	s.S("Get.Accept", c.Get(fiber.HeaderAccept), q.Accept)
	for _, h := range q.Parsed {
		if h[0] == "Accept-Encoding" && !withResp {
			continue // SendFile (run before the third read) removes this header from the request by design
		}
		s.S("Get."+h[0], c.Get(h[0]), h[1])
	}
	s.S("Get.X-Forwarded-For", c.Get("X-Forwarded-For"), q.IP[0]+", "+q.IP[1])
	if q.HasFP {
		s.S("Get.X-Forwarded-Proto", c.Get("X-Forwarded-Proto"), q.FProto)
	}
	s.S("GetReqHeader[T]", fiber.GetReqHeader[string](c, "X-Custom"), v["xc"])
	s.B("GetReqHeader[[]byte]", fiber.GetReqHeader[[]byte](c, "X-Custom"), []byte(v["xc"]), true)
	hm := c.GetReqHeaders()
	hk := make([]string, 0, len(hm))
	for k := range hm {
		hk = append(hk, k)
	}
	sort.Strings(hk)
	for _, k := range hk {
		vals := hm[k]
		switch k {
		case "X-Custom":
			s.S("GetReqHeaders.key", k, noExp)
			s.L("GetReqHeaders.value", vals, []string{v["xc"]})
		case "Hl":
			s.L("GetReqHeaders.value", vals, []string{v["hl0"], v["hl1"]})
		case fiber.HeaderContentType:
			s.L("GetReqHeaders.value", vals, []string{q.CType})
		case fiber.HeaderAccept:
			s.L("GetReqHeaders.value.Accept", vals, []string{q.Accept})
		case rhk:
			s.S("GetReqHeaders.key", k, rhk)
			s.L("GetReqHeaders.value", vals, []string{v["hkv"], v["hkw"]})
		}
	}
	if withResp {
		rsk := "Xs" + v["hkn"]
		s.S("GetRespHeader", c.GetRespHeader("Rs"), v["hs"])
		rm := c.GetRespHeaders()
		for _, k := range sortedKeys(rm) {
			switch k {
			case rsk:
				s.S("GetRespHeaders.key", k, rsk)
				s.L("GetRespHeaders.value", rm[k], []string{v["hkv"], v["hkw"]})
			case "Rl":
				s.L("GetRespHeaders.value", rm[k], []string{v["hl0"], v["hl1"]})
			}
		}
	}
	s.S("Cookies", c.Cookies("ck"), v["ck"])
	trusted := cfg.Proxy != 4
	s.S("Host", c.Host(), q.effHost(trusted))
	hn := q.effHost(trusted)
	if i := strings.LastIndexByte(hn, ':'); i >= 0 {
		hn = hn[:i]
	}
	s.S("Hostname", c.Hostname(), hn)
	// fasthttp pre-parses multipart bodies and Request.Body() re-serialises the parsed form (part
	// order follows a map): byte equality with what was sent is not promised there — stability only.
	bodyExp := q.Shape.Kind != "multipart"
	// a Content-Encoding the framework does not decode: "identity" means the body as sent; for
	// other unknown tokens no content is asserted (stability only)
	// two stacked codings: in which order they are to be undone is a matter of C07/C11, not of this
	// check — the decoded content is not asserted, only that it stays what it was; BodyRaw is.
	plainExp := bodyExp && !stacked(q.Shape.Kind) && (q.Shape.CEnc == "" || q.Shape.CEnc == "identity")
	if len(q.V["pa"])%2 == 0 {
		// which of the two is the first read of the body varies from request to request
		s.B("Body", c.Body(), q.Plain, plainExp)
		s.B("BodyRaw", c.BodyRaw(), q.Body, bodyExp)
	} else {
		s.B("BodyRaw", c.BodyRaw(), q.Body, bodyExp)
		s.B("Body", c.Body(), q.Plain, plainExp)
	}
	if q.Shape.Kind == "form" || q.Shape.Kind == "multipart" {
		s.S("FormValue", c.FormValue("fv"), v["fv"])
	}
	s.S("FormValue.query", c.FormValue("qx"), v["qx"])
	switch cfg.Proxy {
	case 1:
		s.S("IP", c.IP(), q.IP[2])
	case 2, 3:
		s.S("IP", c.IP(), q.IP[0])
	default: // no ProxyHeader (0), or the peer is not a trusted proxy (4)
		s.S("IP", c.IP(), "203.0.113.7")
	}
	s.L("IPs", c.IPs(), []string{q.IP[0], q.IP[1]})
	s.S("Scheme", c.Scheme(), q.effScheme(trusted))
	s.S("Secure", strconv.FormatBool(c.Secure()), strconv.FormatBool(q.effScheme(trusted) == "https"))
	s.S("BaseURL", c.BaseURL(), q.effScheme(trusted)+"://"+q.effHost(trusted))
	s.S("Port", c.Port(), "40000")
	labels := strings.Split(q.effHost(trusted), ".")
	s.L("Subdomains", c.Subdomains(), labels[:len(labels)-2])
	s.S("Method", c.Method(), q.Method)

	// the same request through the c.Req() / c.Res() views
	{
		rq, rs := c.Req(), c.Res()
		if matched {
			s.S("Req.Params", rq.Params("pa"), v["pa"])
			s.S("Req.Params", rq.Params("*"), v["w1"]+"/"+v["w2"])
		}
		s.S("Req.Path", rq.Path(), q.Path)
		s.S("Req.OriginalURL", rq.OriginalURL(), q.Target)
		s.S("Req.Protocol", rq.Protocol(), q.Proto)
		s.S("Req.Query", rq.Query("qs"), v["qs"])
		s.S("Req.Queries.value", rq.Queries()["qx"], v["qx"])
		s.S("Req.Get", rq.Get("X-Custom"), v["xc"])
		s.S("Req.Cookies", rq.Cookies("ck"), v["ck"])
		s.S("Req.Host", rq.Host(), q.effHost(trusted))
		s.S("Req.Hostname", rq.Hostname(), hn)
		s.B("Req.Body", rq.Body(), q.Plain, plainExp)
		s.B("Req.BodyRaw", rq.BodyRaw(), q.Body, bodyExp)
		s.S("Req.FormValue", rq.FormValue("qx"), v["qx"])
		s.S("Req.IP", rq.IP(), noExp)
		s.L("Req.IPs", rq.IPs(), []string{q.IP[0], q.IP[1]})
		s.S("Req.BaseURL", rq.BaseURL(), q.effScheme(trusted)+"://"+q.effHost(trusted))
		s.S("Req.Method", rq.Method(), q.Method)
		s.S("Req.Port", rq.Port(), "40000")
		s.L("Req.Subdomains", rq.Subdomains(), labels[:len(labels)-2])
		if rg, err := rq.Range(1000); err == nil {
			s.S("Req.Range.Type", rg.Type, "ru"+v["rgu"])
		}
		s.S("Req.Route.Path", rq.Route().Path, noExp)
		s.S("Req.Accepts", rq.Accepts("text/html", "application/json"), noExp)
		if withResp {
			s.S("Res.Get", rs.Get("Rs"), v["hs"])
		}
	}

	// struct- and slice-returning accessors, field by field
	if rg, err := c.Range(1000); err == nil {
		s.S("Range.Type", rg.Type, "ru"+v["rgu"])
	} else {
		s.err("Range", err)
	}
	s.S("Accepts", c.Accepts("text/html", "application/json"), noExp)
	s.S("AcceptsCharsets", c.AcceptsCharsets("utf-8"), noExp)
	s.S("AcceptsEncodings", c.AcceptsEncodings("gzip", "br"), noExp)
	s.S("AcceptsLanguages", c.AcceptsLanguages("en-US", "de"), noExp)
	if u, err := c.GetRouteURL("named", fiber.Map{"id": c.Query("qx")}); err == nil {
		s.S("GetRouteURL", u, "/named/"+v["qx"])
	}
	for _, m := range c.Redirect().Messages() {
		s.S("Redirect.Messages.key", m.Key, v["fmk"])
		s.S("Redirect.Messages.value", m.Value, v["fmv"])
	}
	for _, m := range c.Redirect().OldInputs() {
		s.S("Redirect.OldInputs.key", m.Key, v["fok"])
		s.S("Redirect.OldInputs.value", m.Value, v["fov"])
	}
	if q.Shape.Kind == "multipart" {
		if mf, err := c.MultipartForm(); err == nil {
			s.L("MultipartForm.value", mf.Value["fl"], []string{v["fl0"], v["fl1"]})
			for _, fh := range mf.File["ff"] {
				s.S("MultipartForm.filename", fh.Filename, v["ffn"]+".txt")
			}
		} else {
			s.err("MultipartForm", err)
		}
		if fh, err := c.FormFile("ff"); err == nil {
			s.S("FormFile.filename", fh.Filename, v["ffn"]+".txt")
			s.L("FormFile.header", fh.Header["Content-Type"], []string{"text/plain"})
		} else {
			s.err("FormFile", err)
		}
	}

	// --- binding into structs and maps ---------------------------------------------------
	// With EnableSplittingOnParsers and a comma in the value, what a map target receives, and
	// whether the header/cookie/form binders split for a struct's []string field (the field lookup
	// goes by the `query` tag), is not pinned down by the documentation: those combinations are
	// checked for stability only, not for content.
	ambiguous := cfg.Split && q.Shape.Comma
	mapExp := func(sent string) string {
		if ambiguous {
			return noExp
		}
		return sent
	}
	if withResp {
		var st immR
		s.err("Bind.RespHeader", c.Bind().RespHeader(&st))
		s.S("Bind.RespHeader.string-field", st.S, v["hs"])
		s.LX("Bind.RespHeader.slice-field", st.L, []string{v["hl0"], v["hl1"]}, ambiguous)
	}
	{
		var st immQ
		s.err("Bind.Query", c.Bind().Query(&st))
		s.S("Bind.Query.string-field", st.S, v["qs"])
		s.B("Bind.Query.bytes-field", st.B, nil, false)
		s.L("Bind.Query.slice-field", st.L, splitExp(cfg.Split, v["ql0"], v["ql1"]))
		m := map[string]string{}
		s.err("Bind.Query.map", c.Bind().Query(&m))
		s.S("Bind.Query.map-value", m["qs"], mapExp(v["qs"]))
		ml := map[string][]string{}
		s.err("Bind.Query.maplist", c.Bind().Query(&ml))
		s.LX("Bind.Query.map-value", ml["ql"], []string{v["ql0"], v["ql1"]}, ambiguous)
		for _, k := range sortedKeys(ml) {
			if k == rqk {
				s.S("Bind.Query.map-key", k, rqk)
			}
		}
		for _, k := range sortedKeys(m) {
			if k == rqk {
				s.S("Bind.Query.map-key", k, rqk)
			}
		}
	}
	{
		var st immH
		s.err("Bind.Header", c.Bind().Header(&st))
		s.S("Bind.Header.string-field", st.S, v["hs"])
		s.B("Bind.Header.bytes-field", st.B, nil, false)
		s.LX("Bind.Header.slice-field", st.L, []string{v["hl0"], v["hl1"]}, ambiguous)
		m := map[string][]string{}
		s.err("Bind.Header.map", c.Bind().Header(&m))
		s.LX("Bind.Header.map-value", m["Hs"], []string{v["hs"]}, ambiguous)
		s.L("Bind.Header.map-value", m[rhk], []string{v["hkv"], v["hkw"]})
		s.L("Bind.Header.map-value", m[fiber.HeaderContentType], []string{q.CType})
		for _, k := range sortedKeys(m) {
			if k == rhk {
				s.S("Bind.Header.map-key", k, rhk)
			}
		}
	}
	{
		var st immC
		s.err("Bind.Cookie", c.Bind().Cookie(&st))
		s.S("Bind.Cookie.string-field", st.S, v["cs"])
		s.B("Bind.Cookie.bytes-field", st.B, nil, false)
		s.LX("Bind.Cookie.slice-field", st.L, []string{v["cl0"], v["cl1"]}, ambiguous)
		m := map[string]string{}
		s.err("Bind.Cookie.map", c.Bind().Cookie(&m))
		s.S("Bind.Cookie.map-value", m["cs"], mapExp(v["cs"]))
	}
	if matched {
		var st immU
		s.err("Bind.URI", c.Bind().URI(&st))
		s.S("Bind.URI.string-field", st.S, v["pa"])
		s.B("Bind.URI.bytes-field", st.B, nil, false)
		s.L("Bind.URI.slice-field", st.L, []string{v["pb"]})
	}
	switch q.Shape.Kind {
	case "form", "multipart":
		var st immF
		s.err("Bind.Form", c.Bind().Form(&st))
		s.S("Bind.Form.string-field", st.S, v["fs"])
		s.B("Bind.Form.bytes-field", st.B, nil, false)
		s.LX("Bind.Form.slice-field", st.L, []string{v["fl0"], v["fl1"]}, ambiguous)
		m := map[string]string{}
		s.err("Bind.Form.map", c.Bind().Form(&m))
		s.S("Bind.Form.map-value", m["fs"], mapExp(v["fs"]))
	case "gzip+deflate-json", "deflate+gzip-json":
		var st immJ
		if err := c.Bind().JSON(&st); err == nil {
			s.S("Bind.JSON.string-field", st.S, noExp)
			s.LX("Bind.JSON.slice-field", st.L, nil, true)
		}
		var st2 immJ
		if err := c.Bind().Body(&st2); err == nil {
			s.S("Bind.Body.string-field", st2.S, noExp)
		}
		s.B("BodyRaw", c.BodyRaw(), q.Body, true) // once more, after the body was decoded and bound
		s.B("Body", c.Body(), nil, false)
	case "json", "gzip-json":
		var st immJ
		s.err("Bind.JSON", c.Bind().JSON(&st))
		s.S("Bind.JSON.string-field", st.S, v["fs"])
		s.B("Bind.JSON.bytes-field", st.B, []byte(v["jb"]), true)
		s.L("Bind.JSON.slice-field", st.L, []string{v["fl0"], v["fl1"]})
	case "xml":
		var st immX
		s.err("Bind.XML", c.Bind().XML(&st))
		s.S("Bind.XML.string-field", st.S, v["fs"])
		s.B("Bind.XML.bytes-field", st.B, []byte(v["jb"]), true)
		s.L("Bind.XML.slice-field", st.L, []string{v["fl0"], v["fl1"]})
	case "cbor":
		var st immCB
		s.err("Bind.CBOR", c.Bind().CBOR(&st))
		s.S("Bind.CBOR.string-field", st.S, v["fs"])
		s.B("Bind.CBOR.bytes-field", st.B, []byte(v["jb"]), true)
		s.L("Bind.CBOR.slice-field", st.L, []string{v["fl0"], v["fl1"]})
	}
}

type immSide struct {
	immutable bool
	app       *fiber.App
	nested    int
	sets      []*capSet
	reqs      []*immReq
	served    int
	midCheck  map[string]string // accessor -> "was -> now" for refs of request 0 changed when seen from inside the last handler
	wrong     []map[string]any
	unstable  []map[string]any
}

func immBuild(cfg immCfg, immutable bool, side *immSide) *fiber.App {
	fc := fiber.Config{
		Immutable:     immutable,
		CaseSensitive: cfg.CaseSens,
		StrictRouting: cfg.Strict,
		UnescapePath:  cfg.Unescape,
	}
	fc.EnableSplittingOnParsers = cfg.Split
	fc.ReduceMemoryUsage = cfg.ReduceMem
	fc.StreamRequestBody = cfg.Stream
	if cfg.ZeroCopyJSON {
		fc.JSONDecoder = zcJSONUnmarshal
	}
	switch cfg.Proxy {
	case 1:
		fc.ProxyHeader = "X-Real-Ip"
	case 2, 3:
		fc.ProxyHeader = fiber.HeaderXForwardedFor
		fc.EnableIPValidation = true
		if cfg.Proxy == 3 {
			fc.TrustProxy = true
			fc.TrustProxyConfig = fiber.TrustProxyConfig{Proxies: []string{"203.0.113.7"}}
		}
	case 4:
		// forwarding headers from a peer that is not a trusted proxy count for nothing
		fc.ProxyHeader = fiber.HeaderXForwardedFor
		fc.TrustProxy = true
		fc.TrustProxyConfig = fiber.TrustProxyConfig{Proxies: []string{"198.51.100.1"}}
	}
	observe := immObserver(cfg, side)
	fc.Views = &nullViews{}
	fc.ErrorHandler = func(c fiber.Ctx, _ error) error { return observe(c, false) }
	app := fiber.New(fc)
	if cfg.Custom {
		app.NewCtxFunc(func(a *fiber.App) fiber.CustomCtx {
			return &customCtx{DefaultCtx: fiber.NewDefaultCtx(a)}
		})
	}
	side.app = app
	if cfg.Via != 0 {
		type restarted struct{}
		mw := func(c fiber.Ctx) error {
			if cfg.Via == 2 && c.Locals(restarted{}) == nil {
				c.Locals(restarted{}, true)
				return c.RestartRouting()
			}
			// an access logger / authoriser: looks at everything, keeps nothing
			if i := side.served; i < len(side.reqs) && strings.HasPrefix(c.Path(), "/cap/") {
				capture(c, side.reqs[i], cfg, &capSet{phase: "middleware"}, cfg.Via == 3, false)
			}
			return c.Next()
		}
		if cfg.Via == 3 {
			app.Use(capRoute, mw)
		} else {
			app.Use(mw)
		}
	}
	app.Post("/nested", func(c fiber.Ctx) error { return c.SendString("nested " + strconv.Itoa(len(c.Body()))) })
	app.Get("/named/:id", func(c fiber.Ctx) error { return c.SendString("named") }).Name("named")
	app.Add([]string{fiber.MethodGet, fiber.MethodPost}, capRoute, func(c fiber.Ctx) error { return observe(c, true) })
	return app
}

const capRoute = "/cap/:pa/:pb/:pn/*"

// immObserver is the body of the capture handler and of the ErrorHandler (unrouted requests).
func immObserver(cfg immCfg, side *immSide) func(c fiber.Ctx, matched bool) error {
	dir := fileDir()
	return func(c fiber.Ctx, matched bool) error {
		i := side.served
		side.served++
		if i >= len(side.reqs) {
			return c.SendStatus(599)
		}
		q := side.reqs[i]
		// response headers a handler might set before it looks at them again
		c.Set("Rs", q.V["hs"])
		c.Response().Header.Add("Rl", q.V["hl0"])
		c.Response().Header.Add("Rl", q.V["hl1"])
		c.Response().Header.Add("Xs"+q.V["hkn"], q.V["hkv"])
		c.Response().Header.Add("Xs"+q.V["hkn"], q.V["hkw"])
		cs := &capSet{req: i, phase: "first-read"}
		capture(c, q, cfg, cs, matched, true)
		// what a handler ordinarily does next: read-only helpers. None of them may disturb a value
		// already handed out, nor what a later read returns.
		readOnlyHelpers(c)
		if cfg.Nested && side.app != nil {
			nb := bytes.Repeat([]byte{'N'}, max(len(q.Body), 16))
			nested := "POST /nested HTTP/1.1\r\nHost: sibling.internal\r\nContent-Type: text/plain\r\nContent-Length: " + strconv.Itoa(len(nb)) + "\r\n\r\n" + string(nb)
			sc := drive.NewScriptConn([]byte(nested), nil)
			_ = side.app.Server().ServeConn(sc)
			side.nested++
		}
		cs.phase = "read-after-helpers"
		capture(c, q, cfg, cs, matched, true)
		// correctness inside the handler (both modes), and stability until the handler returns
		check := func(from int) {
			for _, cp := range cs.caps[from:] {
				if cp.hasExp && cp.was() != cp.exp {
					side.wrong = append(side.wrong, map[string]any{"accessor": cp.acc, "got": cp.was(), "want": cp.exp, "request": i, "phase": cp.phase})
				}
			}
			for _, cp := range cs.caps {
				if cp.changed() && !cp.flagged {
					cp.flagged = true
					side.unstable = append(side.unstable, map[string]any{"accessor": cp.acc, "got": strings.Clone(cp.now()), "at_capture": cp.was(), "request": i, "phase": cp.phase})
				}
			}
		}
		check(0)
		// Then the handler produces its response, possibly in several attempts: none of the
		// response-side helpers may change what the request-side accessors returned or return.
		// (The handler's own response headers are its to overwrite: values read from the response
		// are no longer looked at inside this handler; they stay in the after-the-handler check.)
		nReq := len(cs.caps)
		for _, cp := range cs.caps {
			if strings.HasPrefix(cp.acc, "GetRespHeader") || strings.HasPrefix(cp.acc, "Bind.RespHeader") {
				cp.flagged = true
			}
		}
		// after every single helper, before anything re-reads (and thereby re-parses) the request:
		// the values handed out so far must still read the same
		responseHelpers(c, dir, cfg.PathOverride, func(step string) {
			for _, cp := range cs.caps {
				if step == "Path(override)" && (cp.acc == "Path" || cp.acc == "Req.Path" || cp.acc == "String") {
					continue // the handler asked for another path: these name the path itself
				}
				if cp.changed() && !cp.flagged {
					cp.flagged = true
					side.unstable = append(side.unstable, map[string]any{"accessor": cp.acc, "got": strings.Clone(cp.now()), "at_capture": cp.was(),
						"request": i, "phase": cp.phase, "changed_by": step})
				}
			}
		})
		c.Response().Reset()
		cs.phase = "read-after-response-helpers"
		capture(c, q, cfg, cs, matched, false)
		check(nReq)
		side.sets = append(side.sets, cs)
		// from inside the last handler: are request 0's references still intact?
		if i == len(side.reqs)-1 && i > 0 {
			side.midCheck = map[string]string{}
			for _, cp := range side.sets[0].caps {
				if cp.changed() {
					side.midCheck[cp.acc] = cp.was() + " -> " + cp.now()
				}
			}
		}
		return c.Status(fiber.StatusOK).SendString("ok " + strconv.Itoa(i))
	}
}

// responseHelpers: the response-producing and link-building helpers of the context.
func responseHelpers(c fiber.Ctx, dir string, pathOverride bool, after func(step string)) {
	steps := []struct {
		name string
		f    func()
	}{
		{"String", func() { _ = c.String() }},
		{"Attachment", func() { c.Attachment("monthly report.txt") }},
		{"Links", func() {
			c.Links("http://api.example.com/files?page=2", "next", "http://api.example.com/files?page=5", "last")
		}},
		{"GetRouteURL", func() { _, _ = c.GetRouteURL("named", fiber.Map{"id": "77"}) }},
		{"Render", func() { _ = c.Render("tpl", fiber.Map{"k": "v"}) }},
		{"Format", func() {
			_ = c.Format(
				fiber.ResFmt{MediaType: "text/plain", Handler: func(c fiber.Ctx) error { return c.SendString("plain") }},
				fiber.ResFmt{MediaType: "application/json", Handler: func(c fiber.Ctx) error { return c.JSON(fiber.Map{"a": 1}) }},
			)
		}},
		{"Redirect.To", func() { _ = c.Redirect().With("k", "v", 0x41).To("/elsewhere") }},
		{"Path(override)", func() {
			if !pathOverride || !strings.HasPrefix(c.Path(), "/cap/") {
				return // only on the matched capture route, in the runs configured for it
			}
			orig := strings.Clone(c.Path())
			c.Path("/cap/overridden-" + strings.Repeat("o", len(orig)))
			after("Path(override)")
			c.Path(orig)
		}},
		{"SendFile(missing)", func() { _ = c.SendFile(dir+"/no-such-file.txt", fiber.SendFile{CacheDuration: -1}) }},
		{"SendFile(existing)", func() { _ = c.SendFile(dir+"/a.txt", fiber.SendFile{CacheDuration: -1}) }},
		{"SendFile(FS, short name)", func() {
			c.Response().ResetBody()
			_ = c.SendFile("a.txt", fiber.SendFile{CacheDuration: -1, FS: os.DirFS(dir)})
		}},
		{"SendFile(FS, missing)", func() {
			c.Response().ResetBody()
			_ = c.SendFile("nope.txt", fiber.SendFile{CacheDuration: -1, FS: os.DirFS(dir)})
		}},
		{"Cookie/Vary/Append/Type/Location", func() {
			c.Response().ResetBody()
			c.Cookie(&fiber.Cookie{Name: "sid", Value: "abc"})
			c.Vary("Origin")
			c.Append("X-Extra", "1", "2")
			c.Type("json")
			c.Location("/x")
		}},
		{"JSON", func() { _ = c.JSON(fiber.Map{"a": []int{1, 2}}) }},
		{"XML", func() { _ = c.XML(struct{ A string }{"x"}) }},
		{"SendStatus", func() { _ = c.SendStatus(204) }},
		{"String", func() { _ = c.String() }},
	}
	for _, st := range steps {
		st.f()
		after(st.name)
	}
}

func sortedKeys[V any](m map[string]V) []string {
	ks := make([]string, 0, len(m))
	for k := range m {
		ks = append(ks, k)
	}
	sort.Strings(ks)
	return ks
}

// readOnlyHelpers calls the request-inspecting helpers of the context; results are irrelevant.
func readOnlyHelpers(c fiber.Ctx) {
	_ = c.Is("json")
	_ = c.Is("html")
	_ = c.Is("form")
	_ = c.Is(".xml")
	_ = c.Accepts("html", "json", "text/plain")
	_ = c.AcceptsCharsets("utf-8", "iso-8859-1")
	_ = c.AcceptsEncodings("gzip", "br")
	_ = c.AcceptsLanguages("en", "de")
	_ = c.Fresh()
	_ = c.Stale()
	_, _ = c.Range(1000)
	_ = c.Subdomains()
	_ = c.Subdomains(1)
	_ = c.IPs()
	_ = c.IP()
	_ = c.XHR()
	_ = c.Secure()
	_ = c.IsFromLocal()
	_ = c.IsProxyTrusted()
	_ = c.Port()
	_ = c.Hostname()
	_ = c.GetRespHeaders()
	_ = c.Route()
	_ = c.String()
}

func trunc(s string) string {
	if len(s) > 80 {
		return s[:80] + "…"
	}
	return s
}

func runImmutable(e *ev.Env) {
	e.Note("gomaxprocs", strconv.Itoa(runtime.GOMAXPROCS(0)))
	defer cleanupFiles()
	immCorpus(e)
	e.Cases("run", e.N(300, 20000), func(c *ev.Case) {
		r := c.R
		cfg := immCfg{Custom: r.Chance(1, 3), CaseSens: r.Bool(), Strict: r.Bool(), Unescape: r.Bool(), Proxy: r.Intn(5), Split: r.Bool(),
			ReduceMem: r.Chance(1, 3), Nested: r.Chance(1, 3), ZeroCopyJSON: r.Chance(1, 3), Stream: r.Chance(1, 3), Via: r.PickW(3, 1, 1, 2), PathOverride: r.Chance(1, 4)}
		sh := genShape(r)
		if cfg.Via != 0 {
			sh.Route = 0 // a catch-all middleware enters a route for every request
		}
		n := gen.Pick(r, []int{1, 3, 10})
		judgeImm(e, c, cfg, sh, n, r)
	})
	// family rematch: a parameterised middleware reads its parameters, passes on with Next(), no
	// route takes the request (404/405, after the router tried the routes registered for this and
	// for the other methods), and the middleware looks at its parameters again before it returns
	e.Cases("rematch", e.N(200, 5000), func(c *ev.Case) { judgeRematch(e, c, c.R.Intn(len(rematchLayouts)), c.R) })
	e.Note("nontrivial_rule", "(accessor, capture request) pairs whose reference was seen changing in the Immutable:false positive control")
}

// rematchLayouts: a Use pattern with parameters, a route of ANOTHER method (or of the same method,
// not matching) whose pattern shares a prefix with the request path, and how the path is built.
var rematchLayouts = []struct {
	use, other, otherMethod string
	path                    func(a, b string) string
	want                    func(a, b string) map[string]string
}{
	{"/:tenant", "/x:rest", "POST", func(a, _ string) string { return "/x" + a },
		func(a, _ string) map[string]string { return map[string]string{"tenant": "x" + a} }},
	{"/:tenant/:area", "/:tenant/x:rest", "PUT", func(a, b string) string { return "/" + a + "/x" + b },
		func(a, b string) map[string]string { return map[string]string{"tenant": a, "area": "x" + b} }},
	{"/t/:tenant", "/t/pre-:rest/more", "GET", func(a, _ string) string { return "/t/pre-" + a },
		func(a, _ string) map[string]string { return map[string]string{"tenant": "pre-" + a} }},
	{"/files/*", "/files/:name.:ext", "DELETE", func(a, b string) string { return "/files/" + a + "." + b },
		func(a, b string) map[string]string { return map[string]string{"*1": a + "." + b} }},
	{"/:a/:b", "/:b/:a/extra", "POST", func(a, b string) string { return "/" + a + "/" + b },
		func(a, b string) map[string]string { return map[string]string{"a": a, "b": b} }},
}

func judgeRematch(e *ev.Env, c *ev.Case, li int, r *gen.Rand) {
	lay := rematchLayouts[li]
	for _, immutable := range []bool{true, false} {
		type seen struct {
			name, live, clone, want string
		}
		var obs []seen
		var report []map[string]any
		nextFailed := false
		app := fiber.New(fiber.Config{Immutable: immutable, ErrorHandler: func(c fiber.Ctx, err error) error {
			return c.Status(404).SendString("no route")
		}})
		var cur map[string]string
		app.Use(lay.use, func(c fiber.Ctx) error {
			obs = obs[:0]
			for _, p := range c.Route().Params {
				v := c.Params(p)
				obs = append(obs, seen{p, v, strings.Clone(v), cur[p]})
			}
			err := c.Next()
			nextFailed = err != nil
			if err != nil {
				for _, o := range obs {
					if o.clone != o.want {
						report = append(report, map[string]any{"sig": "wrong-value|Params.before-next", "param": o.name, "got": o.clone, "want": o.want})
					}
					if o.live != o.clone {
						report = append(report, map[string]any{"sig": "handler-unstable|Params.across-next", "param": o.name, "got": strings.Clone(o.live), "at_capture": o.clone})
					}
					if again := c.Params(o.name); again != o.want {
						report = append(report, map[string]any{"sig": "wrong-value|Params.after-next", "param": o.name, "got": strings.Clone(again), "want": o.want})
					}
				}
			}
			return err
		})
		app.Add([]string{lay.otherMethod}, lay.other, func(c fiber.Ctx) error { return c.SendString("other") })
		n := r.Range(1, 4)
		served := 0
		w := drive.NewWire(app)
		for i := 0; i < n; i++ {
			a, b := r.StringFrom(gen.AlphaNum, r.Range(2, 10)), r.StringFrom(gen.AlphaNum, r.Range(2, 10))
			cur = lay.want(a, b)
			m := "GET"
			if lay.otherMethod == "GET" {
				m = "POST"
			}
			raw := m + " " + lay.path(a, b) + " HTTP/1.1\r\nHost: example.com\r\nContent-Length: 0\r\n\r\n"
			out, _ := w.Serve([]byte(raw), nil)
			rs, _ := splitResponses(out)
			if len(rs) == 1 {
				served++
			}
			e.Eval(1)
			if nextFailed {
				e.Nontrivial(c.ID, strconv.FormatBool(immutable), strconv.Itoa(i))
			}
			for _, rp := range report {
				sig := rp["sig"].(string)
				delete(rp, "sig")
				rp["use_pattern"], rp["other_route"], rp["request"], rp["immutable"] = lay.use, lay.otherMethod+" "+lay.other, raw, immutable
				e.Violation(c, sig, "a route parameter read by a middleware is not what the path contains / changed across c.Next() although no other route took the request", rp)
			}
			report = report[:0]
		}
		if served != n {
			e.Inconclusive(fmt.Sprintf("%s: rematch layout %d answered %d of %d requests", c.ID, li, served, n))
		}
	}
}

func judgeImm(e *ev.Env, c *ev.Case, cfg immCfg, sh *immShape, n int, r *gen.Rand) {
	reqs := make([]*immReq, n+1)
	var script bytes.Buffer
	for i := range reqs {
		reqs[i] = genImmReq(r, sh, i)
		script.Write(reqs[i].Raw)
	}
	run := func(immutable bool) *immSide {
		side := &immSide{immutable: immutable, reqs: reqs}
		app := immBuild(cfg, immutable, side)
		out, _ := drive.NewWire(app).Serve(script.Bytes(), nil)
		rs, prob := splitResponses(out)
		if prob != "" || len(rs) != len(reqs) || side.served != len(reqs) {
			e.Inconclusive(fmt.Sprintf("%s: immutable=%v: %d requests, %d responses, %d handler runs (%s)", c.ID, immutable, len(reqs), len(rs), side.served, prob))
			return nil
		}
		for _, x := range rs {
			if x.Status != 200 {
				e.Inconclusive(fmt.Sprintf("%s: immutable=%v: status %d", c.ID, immutable, x.Status))
				return nil
			}
		}
		return side
	}
	imm := run(true)
	ctl := run(false)
	if imm == nil || ctl == nil {
		return
	}
	e.Eval(2 * len(reqs))
	base := func() map[string]any {
		return map[string]any{"cfg": cfg.String(), "kind": sh.Kind, "route_mode": sh.Route, "fwd": sh.Fwd, "followups": n, "capture_request": string(reqs[0].Raw), "next_request": string(reqs[1].Raw)}
	}
	// --- correctness inside the handler, both modes -------------------------------------------
	for _, side := range []*immSide{imm, ctl} {
		mode := "immutable=" + strconv.FormatBool(side.immutable)
		for _, w := range side.wrong {
			d := base()
			for k, v := range w {
				d[k] = v
			}
			d["mode"] = mode
			e.Violation(c, "wrong-value|"+w["accessor"].(string), "value inside the handler differs from what the request contained", d)
		}
		for _, w := range side.unstable {
			d := base()
			for k, v := range w {
				d[k] = v
			}
			d["mode"] = mode
			e.Violation(c, "handler-unstable|"+w["accessor"].(string), "value changed before the handler returned", d)
		}
		for _, cs := range side.sets {
			for _, er := range cs.errs {
				e.Stat("bind_errors", 1)
				e.Sample("bind-error", map[string]any{"mode": mode, "err": er, "kind": sh.Kind})
			}
		}
	}
	// --- pooled reuse actually observed ---------------------------------------------------------
	reuse := 0
	for _, cs := range imm.sets[1:] {
		if cs.ptr == imm.sets[0].ptr {
			reuse++
		}
	}
	e.Stat("followups", int64(n))
	e.Stat("followups_on_capture_ctx", int64(reuse))

	// --- positive control -----------------------------------------------------------------------
	// per (accessor, capture request): did the Immutable:false reference change?
	ctlChanged := map[string]bool{}
	anyCtl := false
	for _, cs := range ctl.sets[:len(ctl.sets)-1] {
		for _, cp := range cs.caps {
			if cp.changed() {
				ctlChanged[cp.acc+"#"+strconv.Itoa(cs.req)] = true
				anyCtl = true
				e.Stat("control_changed."+cp.acc, 1)
			}
		}
	}
	if !anyCtl {
		e.Inconclusive(fmt.Sprintf("%s: positive control saw no captured reference change (follow-ups did not overwrite the buffers)", c.ID))
		return
	}
	// --- the property -----------------------------------------------------------------------------
	seen := map[string]bool{}
	for _, cs := range imm.sets[:len(imm.sets)-1] {
		for _, cp := range cs.caps {
			key := cp.acc + "#" + strconv.Itoa(cs.req)
			if ctlChanged[key] {
				e.Nontrivial(c.ID, key)
				e.Stat("judged_nontrivial", 1)
			}
			if cp.changed() && !seen[cp.acc] {
				seen[cp.acc] = true
				d := base()
				d["accessor"] = cp.acc
				d["captured_in_request"] = cs.req
				d["copy_taken_in_handler"] = trunc(cp.was())
				d["reference_now"] = trunc(cp.now())
				d["later_requests"] = n - cs.req
				d["control_changed_too"] = ctlChanged[key]
				_, mid := imm.midCheck[cp.acc]
				d["already_changed_inside_last_handler"] = mid
				e.Violation(c, "immutable|"+cp.acc, "a value obtained with Immutable:true changed after later requests reused the context/buffers", d)
			}
		}
	}
}

// immCorpus: fixed witnesses (smallest form: one follow-up request, default ctx).
func immCorpus(e *ev.Env) {
	// smallest witnesses: every component 2 bytes long, no body, default ctx, one later request
	e.Corpus("minimal-get", func(c *ev.Case) {
		sh := genShape(c.R)
		sh.Kind, sh.Fwd, sh.Port, sh.Route = "none", false, false, 0
		for k := range sh.Len {
			sh.Len[k] = 2
		}
		judgeImm(e, c, immCfg{}, sh, 1, c.R)
	})
	e.Corpus("minimal-form", func(c *ev.Case) {
		sh := genShape(c.R)
		sh.Kind, sh.Fwd, sh.Port, sh.Route = "form", false, false, 0
		for k := range sh.Len {
			sh.Len[k] = 2
		}
		judgeImm(e, c, immCfg{}, sh, 1, c.R)
	})
	for _, kind := range immKinds {
		kind := kind
		e.Corpus("one-followup-"+kind, func(c *ev.Case) {
			sh := genShape(c.R)
			sh.Kind = kind
			judgeImm(e, c, immCfg{}, sh, 1, c.R)
		})
	}
	e.Corpus("unrouted-404-errorhandler", func(c *ev.Case) {
		sh := genShape(c.R)
		sh.Kind, sh.Route = "none", 1
		judgeImm(e, c, immCfg{}, sh, 1, c.R)
	})
	e.Corpus("unrouted-405-errorhandler", func(c *ev.Case) {
		sh := genShape(c.R)
		sh.Kind, sh.Route = "json", 2
		judgeImm(e, c, immCfg{}, sh, 3, c.R)
	})
	e.Corpus("same-host-rotating-forwarding-headers", func(c *ev.Case) {
		sh := genShape(c.R)
		sh.Kind, sh.SameHost, sh.Route = "none", true, 0
		judgeImm(e, c, immCfg{}, sh, 3, c.R)
	})
	e.Corpus("same-host-untrusted-peer", func(c *ev.Case) {
		sh := genShape(c.R)
		sh.Kind, sh.SameHost, sh.Route = "json", true, 0
		judgeImm(e, c, immCfg{Proxy: 4}, sh, 3, c.R)
	})
	e.Corpus("stacked-codings-reducemem-nested", func(c *ev.Case) {
		sh := genShape(c.R)
		sh.Kind, sh.Route, sh.CEnc = "gzip+deflate-json", 0, ""
		judgeImm(e, c, immCfg{ReduceMem: true, Nested: true}, sh, 1, c.R)
	})
	e.Corpus("stacked-codings-reducemem-nested-2", func(c *ev.Case) {
		sh := genShape(c.R)
		sh.Kind, sh.Route, sh.CEnc = "deflate+gzip-json", 0, ""
		judgeImm(e, c, immCfg{ReduceMem: true, Nested: true}, sh, 3, c.R)
	})
	e.Corpus("zero-copy-json-decoder", func(c *ev.Case) {
		sh := genShape(c.R)
		sh.Kind, sh.Route, sh.CEnc = "json", 0, ""
		judgeImm(e, c, immCfg{ZeroCopyJSON: true}, sh, 1, c.R)
	})
	e.Corpus("unrouted-get-sendfile-in-errorhandler", func(c *ev.Case) {
		sh := genShape(c.R)
		sh.Kind, sh.Route, sh.Fwd, sh.SameHost, sh.Comma = "none", 1, false, false, false
		for k := range sh.Len {
			sh.Len[k] = 2
		}
		sh.Len["w2"] = 60
		judgeImm(e, c, immCfg{}, sh, 1, c.R)
	})
	e.Corpus("long-path-default-config", func(c *ev.Case) {
		sh := genShape(c.R)
		sh.Kind, sh.Route, sh.Fwd = "none", 0, false
		sh.Len["w2"] = 300
		judgeImm(e, c, immCfg{}, sh, 1, c.R)
	})
	e.Corpus("streamed-body-chunked", func(c *ev.Case) {
		sh := genShape(c.R)
		sh.Kind, sh.Route, sh.CEnc, sh.Chunked = "json", 0, "", true
		sh.Len["jb"] = 5000
		judgeImm(e, c, immCfg{Stream: true}, sh, 1, c.R)
	})
	e.Corpus("streamed-body-length-framed", func(c *ev.Case) {
		sh := genShape(c.R)
		sh.Kind, sh.Route, sh.CEnc, sh.Chunked = "xml", 0, "", false
		sh.Len["jb"] = 6000
		judgeImm(e, c, immCfg{Stream: true}, sh, 3, c.R)
	})
	e.Corpus("customctx-route-behind-middleware", func(c *ev.Case) {
		sh := genShape(c.R)
		sh.Kind, sh.Route = "none", 0
		judgeImm(e, c, immCfg{Custom: true, Via: 1}, sh, 1, c.R)
	})
	e.Corpus("customctx-route-after-restartrouting", func(c *ev.Case) {
		sh := genShape(c.R)
		sh.Kind, sh.Route = "form", 0
		judgeImm(e, c, immCfg{Custom: true, Via: 2}, sh, 3, c.R)
	})
	for li := range rematchLayouts {
		li := li
		e.Corpus("rematch-layout-"+strconv.Itoa(li), func(c *ev.Case) { judgeRematch(e, c, li, c.R) })
	}
	e.Corpus("path-override-in-handler", func(c *ev.Case) {
		sh := genShape(c.R)
		sh.Kind, sh.Route = "none", 0
		judgeImm(e, c, immCfg{PathOverride: true}, sh, 1, c.R)
	})
	e.Corpus("splitting-commas-form", func(c *ev.Case) {
		sh := genShape(c.R)
		sh.Kind, sh.Comma = "form", true
		for _, f := range commaFields {
			sh.Len[f] = 7
		}
		judgeImm(e, c, immCfg{Split: true}, sh, 1, c.R)
	})
	e.Corpus("no-splitting-commas-get", func(c *ev.Case) {
		sh := genShape(c.R)
		sh.Kind, sh.Comma = "none", true
		for _, f := range commaFields {
			sh.Len[f] = 7
		}
		judgeImm(e, c, immCfg{}, sh, 3, c.R)
	})
	e.Corpus("one-followup-customctx", func(c *ev.Case) {
		sh := genShape(c.R)
		sh.Kind = "form"
		judgeImm(e, c, immCfg{Custom: true, Proxy: 1}, sh, 1, c.R)
	})
	e.Corpus("ten-followups-forwarded", func(c *ev.Case) {
		sh := genShape(c.R)
		sh.Kind = "json"
		sh.Fwd = true
		judgeImm(e, c, immCfg{CaseSens: true, Strict: true, Unescape: true}, sh, 10, c.R)
	})
}
