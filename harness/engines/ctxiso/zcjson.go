package ctxiso

import (
	"encoding/base64"
	"encoding/json"
	"errors"
	"unsafe"
)

// zcJSONUnmarshal is a configured Config.JSONDecoder of the kind applications install for speed:
// for the one destination type it knows (*immJ) it does not copy — the decoded strings are views
// of the input (what sonic does unless CopyString is set). Everything else goes to encoding/json.
//
// Input shape: {"js":"…","jb":"<base64>","jl":["…","…"]} with escape-free strings.
func zcJSONUnmarshal(data []byte, out any) error {
	dst, ok := out.(*immJ)
	if !ok {
		return json.Unmarshal(data, out)
	}
	p := zcParser{b: data}
	if !p.eat('{') {
		return errors.New("zcjson: object expected")
	}
	for {
		key, ok := p.str()
		if !ok || !p.eat(':') {
			return errors.New("zcjson: key expected")
		}
		switch key {
		case "js":
			v, ok := p.str()
			if !ok {
				return errors.New("zcjson: string expected for js")
			}
			dst.S = v
		case "jb":
			v, ok := p.str()
			if !ok {
				return errors.New("zcjson: string expected for jb")
			}
			raw, err := base64.StdEncoding.DecodeString(v)
			if err != nil {
				return err
			}
			dst.B = raw
		case "jl":
			if !p.eat('[') {
				return errors.New("zcjson: array expected for jl")
			}
			dst.L = dst.L[:0]
			for !p.eat(']') {
				v, ok := p.str()
				if !ok {
					return errors.New("zcjson: string expected in jl")
				}
				dst.L = append(dst.L, v)
				p.eat(',')
			}
		default:
			return errors.New("zcjson: unknown key " + key)
		}
		if p.eat('}') {
			return nil
		}
		if !p.eat(',') {
			return errors.New("zcjson: ',' or '}' expected")
		}
	}
}

type zcParser struct {
	b []byte
	i int
}

func (p *zcParser) ws() {
	for p.i < len(p.b) && (p.b[p.i] == ' ' || p.b[p.i] == '\n' || p.b[p.i] == '\t' || p.b[p.i] == '\r') {
		p.i++
	}
}

func (p *zcParser) eat(c byte) bool {
	p.ws()
	if p.i < len(p.b) && p.b[p.i] == c {
		p.i++
		return true
	}
	return false
}

// str returns the next string literal as a view of the input.
func (p *zcParser) str() (string, bool) {
	if !p.eat('"') {
		return "", false
	}
	start := p.i
	for p.i < len(p.b) && p.b[p.i] != '"' {
		if p.b[p.i] == '\\' {
			return "", false
		}
		p.i++
	}
	if p.i >= len(p.b) {
		return "", false
	}
	s := p.b[start:p.i]
	p.i++
	if len(s) == 0 {
		return "", true
	}
	return unsafe.String(&s[0], len(s)), true
}
