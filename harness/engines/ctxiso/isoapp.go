package ctxiso

import (
	"encoding/json"
	"errors"
	"fmt"
	"io"
	"os"
	"path/filepath"
	"sort"
	"strconv"
	"strings"
	"sync"

	"github.com/gofiber/fiber/v3"
	"github.com/valyala/fasthttp"
)

// ---------------------------------------------------------------------------------------------
// The application under observation. isoBuild is THE constructor: the history app and the fresh
// reference app of a case are both made by it from the same isoCfg, so they differ in nothing
// but the requests they have served.

type isoCfg struct {
	Custom     bool // custom ctx through app.NewCtxFunc, embedding *fiber.DefaultCtx
	PassLocals bool // Config.PassLocalsToViews
	Immutable  bool
	CaseSens   bool
	Strict     bool
	NoMW       bool // no catch-all middleware: unrouted requests never enter a route
	EHState    bool // the ErrorHandler leaves per-request state (ViewBind, Redirect().With, Bind helper)
	Touch      bool // every routed handler first looks at BaseURL/Scheme/Host/… and negotiates Accept*
	Trust      int  // 0 TrustProxy off (forwarding headers honoured); 1 on, peer trusted; 2 on, peer not trusted
	ProxyHdr   bool // ProxyHeader = X-Forwarded-For
	Mount      bool // a sub-app with an ErrorHandler of its own is mounted under /admin
	// ViewsOn: 0 the root app has a template engine; 1 only the sub-app mounted under /admin has
	// one (none anywhere if nothing is mounted); 2 no engine at all (Render reads a template file)
	ViewsOn  int
	BigBuf   bool // ReadBufferSize 16 KiB instead of 4 KiB
	Split    bool // EnableSplittingOnParsers
	SiteVars bool // a middleware binds the app's site-wide view variables (one map it keeps) on every request
}

// widen draws the configuration dimensions added after the first round.
func (c *isoCfg) widen(r interface {
	Chance(int, int) bool
	Intn(int) int
	PickW(...int) int
}) {
	c.NoMW = r.Chance(1, 2)
	c.EHState = r.Chance(1, 2)
	c.Touch = r.Chance(1, 2)
	c.Trust = r.Intn(3)
	c.ProxyHdr = r.Chance(1, 3)
	c.Mount = r.Chance(1, 2)
	c.SiteVars = r.Chance(1, 3)
	c.ViewsOn = r.PickW(2, 1, 1)
}

func (c isoCfg) String() string {
	return fmt.Sprintf("custom=%v passlocals=%v immutable=%v cs=%v strict=%v nomw=%v ehstate=%v touch=%v trust=%d proxyhdr=%v mount=%v sitevars=%v viewson=%d bigbuf=%v",
		c.Custom, c.PassLocals, c.Immutable, c.CaseSens, c.Strict, c.NoMW, c.EHState, c.Touch, c.Trust, c.ProxyHdr, c.Mount, c.SiteVars, c.ViewsOn, c.BigBuf)
}

type customCtx struct {
	*fiber.DefaultCtx
}

// ctxPtr identifies the pooled object behind a fiber.Ctx (the DefaultCtx, also for a custom ctx,
// because DefaultCtx.Next hands the embedded *DefaultCtx to later handlers).
func ctxPtr(c fiber.Ctx) string {
	switch x := c.(type) {
	case *customCtx:
		return fmt.Sprintf("%p", x.DefaultCtx)
	case *fiber.DefaultCtx:
		return fmt.Sprintf("%p", x)
	}
	return fmt.Sprintf("%p", c)
}

type localKey struct{ n int }

type localKeyT int

// fixed Locals keys the probe reads (string keys are also what PassLocalsToViews forwards)
var localStrKeys = []string{"user", "reqid", "secret", "mw"}

type isoSink struct {
	ptrs      []ptrEntry // pooled object + request identity at every handler entry / ErrorHandler call
	probes    int
	vec       map[string]string // component -> canonical JSON
	reused    bool
	selfWrong []map[string]any  // handlers that check what they bound against what the request says
	reqSeq    uint64            // adaptor drive: number of the request being served (0 = wire drive)
	holdAt    chan struct{}     // overlap cases: the probe reports that it is parked …
	release   chan struct{}     // … and waits here
	ehVec     map[string]string // what the ErrorHandler invoked last observed
	ehCount   int
	ehReused  bool
	lastBind  string // what the Views engine received last
	renders   int
}

// ehObserve is what every ErrorHandler of the app does first: it writes down what it can see of
// the failed request. For probes that are answered through an ErrorHandler (404/405, requests
// fasthttp rejects) this is the observation vector.
func (s *isoSink) ehObserve(c fiber.Ctx, err error, which string) {
	s.ehCount++
	s.ehReused = s.seenBefore(c)
	v := map[string]string{}
	v["error-handler"] = canon(which)
	code := 0
	var fe *fiber.Error
	if errors.As(err, &fe) {
		code = fe.Code
	}
	v["error"] = canon(map[string]any{"code": code, "text": err.Error()})
	rt := c.Route()
	v["route-path"] = canon(map[string]any{"path": rt.Path, "method": rt.Method, "name": rt.Name, "params": rt.Params})
	pm := map[string]string{}
	for _, p := range allParamNames {
		pm[p] = c.Params(p, "<default>")
	}
	v["params"] = canon(pm)
	lm := map[string]any{}
	for _, k := range localStrKeys {
		lm[k] = normalise(c.Locals(k))
	}
	lm["struct-key"] = normalise(c.Locals(localKey{1}))
	v["locals"] = canon(lm)
	v["base-url"] = canon(c.BaseURL())
	v["method"] = canon(c.Method())
	v["request-line"] = canon(map[string]any{"path": c.Path(), "url": c.OriginalURL(), "host": c.Host(),
		"ip": c.IP(), "scheme": c.Scheme(), "proto": c.Protocol()})
	v["flash-messages"] = canon(c.Redirect().Messages())
	v["old-inputs"] = canon(c.Redirect().OldInputs())
	v["resp-at-entry"] = canon(map[string]any{"status": c.Response().StatusCode(), "headers": c.GetRespHeaders()})
	s.ehVec = v
}

// the two peers connections come from (see remoteAddr); Trust 1 trusts the first, Trust 2 the second
const altPeerIP = "198.51.100.23"

// hold parks a request that carries hold=1 inside its handler until the driver releases it, so
// that other requests can be served while it is open.
func (s *isoSink) hold(c fiber.Ctx) {
	if s.holdAt != nil && c.Query("hold") == "1" {
		s.holdAt <- struct{}{}
		<-s.release
	}
}

type ptrEntry struct {
	ptr  string
	conn uint64
	num  uint64
}

// note logs which pooled object serves which request.
func (s *isoSink) note(c fiber.Ctx) {
	conn, num := s.identity(c)
	s.ptrs = append(s.ptrs, ptrEntry{ctxPtr(c), conn, num})
}

// identity of the request c serves: connection and request number, or — when the requests do not
// come over connections (adaptor drive) — the sequence number the driver set.
func (s *isoSink) identity(c fiber.Ctx) (uint64, uint64) {
	if s.reqSeq != 0 {
		return ^uint64(0), s.reqSeq
	}
	fc := c.RequestCtx()
	return fc.ConnID(), fc.ConnRequestNum()
}

// seenBefore: did the object serving c serve another request of this app earlier?
func (s *isoSink) seenBefore(c fiber.Ctx) bool {
	conn, num := s.identity(c)
	me := ctxPtr(c)
	for _, e := range s.ptrs {
		if e.ptr == me && (e.conn != conn || e.num != num) {
			return true
		}
	}
	return false
}

// offers with media-type parameters, used wherever a handler negotiates
var negoOffers = []string{"text/plain;format=flowed", "application/json", "text/html;level=1", "application/json;version=2"}

// touch is what an ordinary handler does first: look at where the request came from and what
// the client accepts.
func touch(c fiber.Ctx) {
	_ = c.BaseURL()
	_ = c.Scheme()
	_ = c.Host()
	_ = c.Hostname()
	_ = c.Protocol()
	_ = c.Secure()
	_ = c.IP()
	_ = c.IPs()
	_ = c.Accepts(negoOffers...)
	_ = c.AcceptsCharsets("utf-8", "iso-8859-1")
	_ = c.AcceptsEncodings("gzip", "br")
	_ = c.AcceptsLanguages("en", "de-CH")
}

type capViews struct{ s *isoSink }

func (*capViews) Load() error { return nil }

func (v *capViews) Render(w io.Writer, name string, bind any, _ ...string) error {
	v.s.renders++
	if strings.Contains(name, "fail") {
		// a template the engine does not know / that fails while executing
		return errors.New("capViews: template " + name + " does not exist")
	}
	v.s.lastBind = canon(bind)
	_, err := io.WriteString(w, "tpl:"+name+":"+v.s.lastBind)
	return err
}

// canon renders any observed value as deterministic JSON (maps sorted by encoding/json;
// non-JSON-able values through %v).
func canon(v any) string {
	b, err := json.Marshal(normalise(v))
	if err != nil {
		return fmt.Sprintf("%q", fmt.Sprintf("%#v", v))
	}
	return string(b)
}

func normalise(v any) any {
	switch x := v.(type) {
	case fiber.Map:
		m := make(map[string]any, len(x))
		for k, e := range x {
			m[k] = normalise(e)
		}
		return m
	case map[string]any:
		m := make(map[string]any, len(x))
		for k, e := range x {
			m[k] = normalise(e)
		}
		return m
	case []byte:
		return "bytes:" + string(x)
	case error:
		return "error:" + x.Error()
	case nil, string, bool, int, int64, uint8, float64, []string, map[string]string, map[string][]string:
		return x
	case []fiber.FlashMessage, []fiber.OldInputData:
		return x
	}
	return fmt.Sprintf("%T:%v", v, v)
}

// structs the probe (and the history) binds into
type bindQ struct {
	Name string   `query:"name" header:"Name" cookie:"name" form:"name" json:"name" xml:"name"`
	Tag  string   `query:"tag" header:"Tag" cookie:"tag" form:"tag" json:"tag" xml:"tag"`
	N    int      `query:"n" header:"N" cookie:"n" form:"n" json:"n" xml:"n"`
	L    []string `query:"l" header:"L" cookie:"l" form:"l" json:"l" xml:"l"`
}

type bindStrict struct {
	A int  `query:"a" form:"a" json:"a"`
	B int  `query:"b" form:"b" json:"b"`
	C bool `query:"c" form:"c" json:"c"`
}

// predeclared framework errors a handler may return as they are
var predeclared = map[string]error{
	"bad-request":        fiber.ErrBadRequest,
	"not-found":          fiber.ErrNotFound,
	"too-large":          fiber.ErrRequestEntityTooLarge,
	"timeout":            fiber.ErrRequestTimeout,
	"header-too-large":   fiber.ErrRequestHeaderFieldsTooLarge,
	"method-not-allowed": fiber.ErrMethodNotAllowed,
	"bad-gateway":        fiber.ErrBadGateway,
	"unprocessable":      fiber.ErrUnprocessableEntity,
	"teapot":             fiber.ErrTeapot,
}

var predeclaredNames = []string{"bad-request", "bad-request", "bad-request", "not-found", "too-large", "timeout",
	"header-too-large", "method-not-allowed", "bad-gateway", "unprocessable", "teapot"}

// xsrc is ONE struct type whose fields go by a different name in every source tag. The history
// binds it from one source, the probe from another: what the probe gets must not depend on it.
type xsrc struct {
	Term string `query:"q" form:"term" header:"Xterm" respHeader:"Rterm" cookie:"ct" uri:"a" json:"jt"`
	Page string `query:"p" form:"page" header:"Xpage" respHeader:"Rpage" cookie:"cp" uri:"b" json:"jp"`
}

// every name xsrc goes by; requests carry a distinct value under each of them in every source
var xNames = []string{"q", "p", "term", "page", "Xterm", "Xpage", "Rterm", "Rpage", "ct", "cp", "a", "b"}

var xSources = []string{"query", "form", "header", "cookie", "uri", "respheader"}

// bindX binds a fresh xsrc from the named source.
func bindX(c fiber.Ctx, src string) (xsrc, error) {
	var x xsrc
	var err error
	switch src {
	case "query":
		err = c.Bind().Query(&x)
	case "form":
		err = c.Bind().Form(&x)
	case "header":
		err = c.Bind().Header(&x)
	case "cookie":
		err = c.Bind().Cookie(&x)
	case "uri":
		err = c.Bind().URI(&x)
	case "respheader":
		for _, n := range []string{"Xterm", "Xpage", "Rterm", "Rpage"} {
			c.Set(n, "resp-"+n)
		}
		err = c.Bind().RespHeader(&x)
		for _, n := range []string{"Xterm", "Xpage", "Rterm", "Rpage"} {
			c.Response().Header.Del(n)
		}
	default:
		err = errors.New("unknown source " + src)
	}
	return x, err
}

// ---------------------------------------------------------------------------------------------
// files for the SendFile routes: one temporary directory per process, removed by cleanupFiles.

var (
	fileOnce sync.Once
	fileRoot string
)

var fileNames = map[string]string{"a": "a.txt", "b": "b.html", "c": "c.json", "x": "no-such-file.txt"}

func fileDir() string {
	fileOnce.Do(func() {
		d, err := os.MkdirTemp("", "ctxiso-files-")
		if err != nil {
			panic(err)
		}
		fileRoot = d
		_ = os.WriteFile(filepath.Join(d, "a.txt"), []byte(strings.Repeat("plain text file served by SendFile\n", 40)), 0o644)
		_ = os.WriteFile(filepath.Join(d, "b.html"), []byte("<html><body>"+strings.Repeat("<p>hello</p>", 60)+"</body></html>\n"), 0o644)
		_ = os.WriteFile(filepath.Join(d, "probe.tmpl"), []byte("{{range $k, $v := .}}{{$k}}={{$v}};{{end}}"), 0o644)
		_ = os.WriteFile(filepath.Join(d, "c.json"), []byte(`{"k":"`+strings.Repeat("v", 500)+`"}`), 0o644)
	})
	return fileRoot
}

func cleanupFiles() {
	if fileRoot != "" {
		_ = os.RemoveAll(fileRoot)
	}
}

// sendFileVariants: configs for the same files that differ from the base in exactly one option
// (or two). CacheDuration is negative everywhere: no cache-cleaner goroutine, no cached handles.
func sendFileVariants(dir string) []fiber.SendFile {
	return []fiber.SendFile{
		{CacheDuration: -1},
		{CacheDuration: -1, MaxAge: 3600},
		{CacheDuration: -1, MaxAge: 60},
		{CacheDuration: -1, Compress: true},
		{CacheDuration: -1, ByteRange: true},
		{CacheDuration: -1, Download: true},
		{CacheDuration: -2},
		{CacheDuration: -1, FS: os.DirFS(dir)},
		{CacheDuration: -2, MaxAge: 3600},
		{CacheDuration: -1, Download: true, MaxAge: 60},
	}
}

const nSendFileVariants = 10

func errStr(err error) string {
	if err == nil {
		return ""
	}
	return err.Error()
}

// history parameter route: many and long params
const manyParamsRoute = "/many/:p1/:p2/:p3/:p4/:p5/:p6/:p7/:p8/:p9/:p10"

// every param name any route of the app declares; the probe asks for all of them
var allParamNames = []string{"p1", "p2", "p3", "p4", "p5", "p6", "p7", "p8", "p9", "p10",
	"a", "b", "c", "id", "code", "*", "*1", "*2", "+", "x", "y"}

// probe routes (index chosen by the case)
var probeRoutes = []string{
	"/probe/:a/:b/:c",
	"/probeopt/:a/:b?/:c?",
	"/probewild/*",
	"/probeplus/:x-:y?/+",
	"/probeplain",
	"/p2/:p1/:p2?/:p3?/:p4?",
	"/admin/probeplain",
}

func isoBuild(cfg isoCfg) (*fiber.App, *isoSink) {
	s := &isoSink{}
	fc := fiber.Config{
		PassLocalsToViews: cfg.PassLocals,
		Immutable:         cfg.Immutable,
		CaseSensitive:     cfg.CaseSens,
		StrictRouting:     cfg.Strict,
		BodyLimit:         3000,
		ErrorHandler: func(c fiber.Ctx, err error) error {
			s.ehObserve(c, err, "root")
			s.note(c)
			if cfg.EHState {
				// an error page that is rendered with bindings, remembers the failure as a flash
				// message for a redirect it may issue, and inspects the request
				_ = c.ViewBind(fiber.Map{"errpath": "at-" + c.Path(), "errmsg": err.Error(), "title": "error page"})
				c.Redirect().Status(303).With("failed", "at-"+c.Path(), 0x45)
				var q bindQ
				_ = c.Bind().WithAutoHandling().Query(&q)
				c.Status(fiber.StatusOK)
				touch(c)
			}
			return fiber.DefaultErrorHandler(c, err)
		},
	}
	if cfg.ViewsOn == 0 {
		fc.Views = &capViews{s}
	}
	fc.EnableSplittingOnParsers = cfg.Split
	if cfg.BigBuf {
		fc.ReadBufferSize = 16384 // request lines of several KiB; the write buffer stays at 4 KiB
	}
	switch cfg.Trust {
	case 1:
		fc.TrustProxy = true
		fc.TrustProxyConfig = fiber.TrustProxyConfig{Proxies: []string{"203.0.113.7"}}
	case 2:
		fc.TrustProxy = true
		fc.TrustProxyConfig = fiber.TrustProxyConfig{Proxies: []string{altPeerIP}}
	}
	if cfg.ProxyHdr {
		fc.ProxyHeader = fiber.HeaderXForwardedFor
	}
	app := fiber.New(fc)
	if cfg.Custom {
		app.NewCtxFunc(func(a *fiber.App) fiber.CustomCtx {
			return &customCtx{DefaultCtx: fiber.NewDefaultCtx(a)}
		})
	}

	// entry middleware: logs which pooled object serves the request
	if cfg.SiteVars {
		// site-wide template variables: one map the app keeps, bound first on every request
		siteVars := fiber.Map{"site": "fiber-site", "lang": "en", "title": "default title"}
		app.Use(func(c fiber.Ctx) error {
			_ = c.ViewBind(siteVars)
			return c.Next()
		})
	}
	if !cfg.NoMW {
		app.Use(func(c fiber.Ctx) error {
			s.note(c)
			return c.Next()
		})
	}
	var sub *fiber.App
	if cfg.Mount {
		var subViews fiber.Views
		if cfg.ViewsOn == 1 {
			subViews = &capViews{s}
		}
		sub = fiber.New(fiber.Config{Views: subViews, ErrorHandler: func(c fiber.Ctx, err error) error {
			s.ehObserve(c, err, "sub:/admin")
			s.note(c)
			code := fiber.StatusInternalServerError
			var fe *fiber.Error
			if errors.As(err, &fe) {
				code = fe.Code
			}
			return c.Status(code).SendString("admin area: " + err.Error())
		}})
		sub.Get("/reports/:id", func(c fiber.Ctx) error {
			s.note(c)
			c.Locals("user", "admin-"+c.Params("id"))
			return c.SendString("report " + c.Params("id") + " at " + c.BaseURL())
		})
		sub.Get("/fail/:id", func(c fiber.Ctx) error {
			s.note(c)
			return fiber.NewError(418, "admin failure "+c.Params("id"))
		})
		app.Use("/admin", sub)
	}
	// w wraps every route handler: pointer logging (also when there is no middleware) and, if
	// configured, the usual look at the request's origin and Accept headers
	w := func(h fiber.Handler) fiber.Handler {
		return func(c fiber.Ctx) error {
			s.note(c)
			if cfg.Touch {
				touch(c)
			}
			return h(c)
		}
	}

	// --- history routes -------------------------------------------------------------------
	app.Get(manyParamsRoute, w(func(c fiber.Ctx) error {
		var sb strings.Builder
		for _, p := range c.Route().Params {
			sb.WriteString(c.Params(p))
			sb.WriteByte('|')
		}
		return c.SendString(sb.String())
	}))

	// sets Locals (string and non-string keys), ViewBind, optionally renders; optionally passes on
	// to a chain that ends in 404.
	app.All("/locals/:id", w(func(c fiber.Ctx) error {
		id := c.Params("id")
		c.Locals("user", "user-"+id)
		c.Locals("reqid", id)
		c.Locals("secret", "secret-"+id)
		c.Locals(localKey{1}, "lk-"+id)
		c.Locals(localKeyT(7), "lkt-"+id)
		c.Locals(42, "int-"+id)
		_ = c.ViewBind(fiber.Map{"title": "title-" + id, "secretbind": "sb-" + id, "own": "history-" + id})
		_ = c.BaseURL()
		switch c.Query("do") {
		case "render":
			return c.Render("hist", fiber.Map{"h": id})
		case "rendernil":
			return c.Render("hist", nil)
		case "renderfail":
			// everything was bound through ViewBind / locals; the render itself fails
			if err := c.Render("fail-"+id+".tmpl", nil); err != nil {
				return c.Status(500).SendString("render failed: " + err.Error())
			}
			return nil
		case "next":
			return c.Next() // nothing follows: 404 with locals and view bindings set
		case "err":
			return errors.New("boom-" + id)
		}
		return c.SendString("locals " + id)
	}))

	// Redirect().Status(301).With(k,v,level).WithInput().To()
	app.All("/redir/:id", w(func(c fiber.Ctx) error {
		id := c.Params("id")
		lvl, _ := strconv.Atoi(c.Query("lvl", "64"))
		rd := c.Redirect().Status(301)
		n, _ := strconv.Atoi(c.Query("n", "1"))
		for i := 0; i < n; i++ {
			rd = rd.With("rk"+strconv.Itoa(i)+"-"+id, "rv-"+id, uint8(lvl))
		}
		if c.Query("input") != "0" {
			rd = rd.WithInput()
		}
		c.Set("X-Hist", "redir-"+id)
		_ = c.BaseURL()
		return rd.To("/dest/" + id)
	}))

	// consumes whatever flash cookie came with the request
	app.All("/flash", w(func(c fiber.Ctx) error {
		ms := c.Redirect().Messages()
		oi := c.Redirect().OldInputs()
		return c.SendString(canon(ms) + canon(oi))
	}))

	// binds that may fail half-way, with and without automatic error handling
	app.All("/bind", w(func(c fiber.Ctx) error {
		b := c.Bind()
		if c.Query("auto") == "1" {
			b = b.WithAutoHandling()
		}
		var q bindStrict
		var h bindQ
		var ck bindQ
		var body bindStrict
		e1 := b.Query(&q)
		e2 := c.Bind().Header(&h)
		e3 := c.Bind().Cookie(&ck)
		e4 := c.Bind().Body(&body)
		m := map[string]string{}
		e5 := c.Bind().Query(&m)
		fm := map[string][]string{}
		_ = c.Bind().Form(&fm)
		hm := map[string]string{}
		_ = c.Bind().Header(&hm)
		cm := map[string]string{}
		_ = c.Bind().Cookie(&cm)
		c.Set("X-Hist", "bind")
		if e1 != nil && c.Query("ret") == "1" {
			return e1
		}
		return c.SendString(fmt.Sprint(q, h, ck, body, m, errStr(e1), errStr(e2), errStr(e3), errStr(e4), errStr(e5)))
	}))

	app.Get("/err/:code", w(func(c fiber.Ctx) error {
		code, _ := strconv.Atoi(c.Params("code"))
		c.Set("X-Hist", "err")
		c.Locals("secret", "err-secret")
		if code == 0 {
			return errors.New("plain failure")
		}
		return fiber.NewError(code, "failure "+c.Params("code"))
	}))

	app.Get("/base", w(func(c fiber.Ctx) error {
		_ = c.ViewBind(fiber.Map{"crumb": "base-of-" + c.Host()})
		c.Set("X-Base", c.BaseURL())
		c.Cookie(&fiber.Cookie{Name: "hist", Value: "set-by-base"})
		return c.Status(202).SendString(c.BaseURL() + " " + c.Hostname())
	}))

	// looks at the (possibly content-encoded) body and binds it
	app.Post("/payload/:id", w(func(c fiber.Ctx) error {
		body := c.Body()
		var st bindQ
		err := c.Bind().Body(&st)
		return c.SendString(fmt.Sprintf("payload %s: %d bytes, %+v, %s", c.Params("id"), len(body), st, errStr(err)))
	}))

	// a handler that completes / edits what the accessors handed to it (they are its own copies
	// to use): defaults into the query map, a derived header, a normalised address list
	app.All("/mutate/:id", w(func(c fiber.Ctx) error {
		id := c.Params("id")
		q := c.Queries()
		if _, ok := q["page"]; !ok {
			q["page"] = "1-" + id
		}
		q["user"] = "u-" + id
		rq := c.Req().Queries()
		rq["via-req"] = id
		h := c.GetReqHeaders()
		h["X-Derived"] = []string{"derived-" + id}
		for k := range h {
			if len(h[k]) > 0 {
				h[k][0] = "edited-" + id
			}
		}
		rh := c.GetRespHeaders()
		rh["X-Planned"] = []string{"planned-" + id}
		ips := c.IPs()
		for i := range ips {
			ips[i] = "0.0.0." + strconv.Itoa(i)
		}
		ips = append(ips, "ip-of-"+id) //nolint:ineffassign,staticcheck // the handler's own slice
		sd := c.Subdomains()
		for i := range sd {
			sd[i] = "sub-" + id
		}
		pm := c.Route().Params
		_ = pm
		return c.SendString(fmt.Sprint("mutated ", len(q), len(h), len(rh), len(sd)))
	}))

	// Two handlers, each with a request type of its own — same type name, as handlers have them —
	// for the same keys: a list here is a scalar there. Each checks what it bound against the
	// request (documented: with EnableSplittingOnParsers a []string field receives the comma
	// separated items, a string field the value as sent).
	splitOf := func(v string) []string {
		if cfg.Split {
			return strings.Split(v, ",")
		}
		return []string{v}
	}
	app.Get("/lists/a", w(func(c fiber.Ctx) error {
		type request struct {
			L []string `query:"l"`
			S string   `query:"s"`
		}
		var rq request
		err := c.Bind().Query(&rq)
		if err != nil || fmt.Sprint(rq.L) != fmt.Sprint(splitOf(c.Query("l"))) || rq.S != c.Query("s") {
			s.selfWrong = append(s.selfWrong, map[string]any{"handler": "/lists/a (L []string, S string)", "url": strings.Clone(c.OriginalURL()), "bound": fmt.Sprintf("%+v", rq), "err": errStr(err)})
		}
		return c.SendString(fmt.Sprintf("%+v", rq))
	}))
	app.Get("/lists/b", w(func(c fiber.Ctx) error {
		type request struct {
			L string   `query:"l"`
			S []string `query:"s"`
		}
		var rq request
		err := c.Bind().Query(&rq)
		if err != nil || rq.L != c.Query("l") || fmt.Sprint(rq.S) != fmt.Sprint(splitOf(c.Query("s"))) {
			s.selfWrong = append(s.selfWrong, map[string]any{"handler": "/lists/b (L string, S []string)", "url": strings.Clone(c.OriginalURL()), "bound": fmt.Sprintf("%+v", rq), "err": errStr(err)})
		}
		return c.SendString(fmt.Sprintf("%+v", rq))
	}))

	app.Get("/getonly", w(func(c fiber.Ctx) error { return c.SendString("getonly") }))

	// path / method override inside a handler
	app.Get("/override/:id", w(func(c fiber.Ctx) error {
		c.Locals("user", "override")
		c.Path("/many/o1/o2/o3/o4/o5/o6/o7/o8/o9/o10")
		return c.RestartRouting()
	}))

	// binds the multi-named struct from the sources listed in ?src=a.b.c
	app.All("/xbind/:a/:b", w(func(c fiber.Ctx) error {
		var sb strings.Builder
		for _, src := range strings.Split(c.Query("src"), ".") {
			x, err := bindX(c, src)
			sb.WriteString(fmt.Sprintf("%s:%+v:%s;", src, x, errStr(err)))
		}
		return c.SendString(sb.String())
	}))

	// configures a Redirect and then does not complete it (or completes it in an unusual way)
	app.All("/redirfail/:id", w(func(c fiber.Ctx) error {
		id := c.Params("id")
		st, _ := strconv.Atoi(c.Query("status", "303"))
		rd := c.Redirect().Status(st)
		if c.Query("with") == "1" {
			rd = rd.With("fk-"+id, "fv-"+id, 0x41).WithInput()
		}
		switch c.Query("mode") {
		case "back":
			return rd.Back() // without Referer and fallback: error before To()
		case "route":
			return rd.Route("no-such-route-" + id)
		case "err":
			return fiber.NewError(409, "gave up redirecting "+id)
		}
		return c.SendString("not redirected " + id)
	}))

	app.Get("/named/:id", w(func(c fiber.Ctx) error { return c.SendString("named " + c.Params("id")) })).Name("named")

	// SendFile with configs that differ in single options; ?probe=1 makes it the probe
	dir := fileDir()
	variants := sendFileVariants(dir)
	app.Get("/file/:v", w(func(c fiber.Ctx) error {
		vi, _ := strconv.Atoi(c.Params("v"))
		if vi < 0 || vi >= len(variants) {
			return fiber.ErrNotFound
		}
		isProbe := c.Query("probe") == "1"
		name := fileNames[c.Query("f", "a")]
		cfg := variants[vi]
		path := filepath.Join(dir, name)
		if cfg.FS != nil {
			path = name
		}
		if isProbe {
			s.probes++
			if s.seenBefore(c) {
				s.reused = true
			}
		}
		err := c.SendFile(path, cfg)
		s.hold(c)
		if isProbe {
			s.vec = map[string]string{"sendfile-error": canon(errStr(err)), "sendfile-status": canon(c.Response().StatusCode())}
		}
		return err
	}))

	// --- the probe ------------------------------------------------------------------------
	probe := func(c fiber.Ctx) error {
		s.hold(c)
		s.probes++
		if s.seenBefore(c) {
			s.reused = true
		}
		v := map[string]string{}

		// response state before this handler touched it
		v["resp-at-entry"] = canon(map[string]any{
			"status":  c.Response().StatusCode(),
			"headers": c.GetRespHeaders(),
			"bodylen": len(c.Response().Body()),
		})

		// params: declared ones and every name other routes declare
		pm := map[string]string{}
		for _, p := range c.Route().Params {
			pm["declared:"+p] = c.Params(p)
		}
		for _, p := range allParamNames {
			pm["any:"+p] = c.Params(p, "<default>")
		}
		v["params"] = canon(pm)

		// locals
		lm := map[string]any{}
		for _, k := range localStrKeys {
			lm[k] = normalise(c.Locals(k))
		}
		lm["struct-key"] = normalise(c.Locals(localKey{1}))
		lm["typed-key"] = normalise(c.Locals(localKeyT(7)))
		lm["int-key"] = normalise(c.Locals(42))
		v["locals"] = canon(lm)

		// flash messages / old input
		v["flash-messages"] = canon(c.Redirect().Messages())
		v["old-inputs"] = canon(c.Redirect().OldInputs())

		// binding into fresh structs and maps
		bm := map[string]any{}
		{
			var st bindQ
			err := c.Bind().Query(&st)
			bm["query.struct"] = map[string]any{"v": fmt.Sprintf("%+v", st), "err": errStr(err)}
			m := map[string]string{}
			err = c.Bind().Query(&m)
			bm["query.map"] = map[string]any{"v": m, "err": errStr(err)}
			ml := map[string][]string{}
			err = c.Bind().Query(&ml)
			bm["query.maplist"] = map[string]any{"v": ml, "err": errStr(err)}
		}
		{
			var st bindQ
			err := c.Bind().Header(&st)
			bm["header.struct"] = map[string]any{"v": fmt.Sprintf("%+v", st), "err": errStr(err)}
			ml := map[string][]string{}
			err = c.Bind().Header(&ml)
			bm["header.maplist"] = map[string]any{"v": ml, "err": errStr(err)}
		}
		{
			var st bindQ
			err := c.Bind().Cookie(&st)
			bm["cookie.struct"] = map[string]any{"v": fmt.Sprintf("%+v", st), "err": errStr(err)}
			m := map[string]string{}
			err = c.Bind().Cookie(&m)
			bm["cookie.map"] = map[string]any{"v": m, "err": errStr(err)}
		}
		{
			var st bindQ
			err := c.Bind().Form(&st)
			bm["form.struct"] = map[string]any{"v": fmt.Sprintf("%+v", st), "err": errStr(err)}
			m := map[string]string{}
			err = c.Bind().Form(&m)
			bm["form.map"] = map[string]any{"v": m, "err": errStr(err)}
		}
		{
			var st bindQ
			err := c.Bind().Body(&st)
			bm["body.struct"] = map[string]any{"v": fmt.Sprintf("%+v", st), "err": errStr(err)}
		}
		v["bind"] = canon(bm)
		v["body"] = canon(map[string]any{"body": string(c.Body()), "raw-length": len(c.BodyRaw()), "again": string(c.Req().Body())})

		// the multi-named struct, from the ONE source the probe request names
		if src := c.Query("xsrc"); src != "" {
			x, err := bindX(c, src)
			v["bind-xsrc"] = canon(map[string]any{"source": src, "v": fmt.Sprintf("%+v", x), "err": errStr(err)})
		}

		// a bind that fails when the probe carries a=notanumber: exposes a leaked
		// WithAutoHandling (status 400 / wrapped error) of an earlier occupant
		{
			var st bindStrict
			err := c.Bind().Query(&st)
			v["bind-error-mode"] = canon(map[string]any{"err": errStr(err), "status": c.Response().StatusCode()})
			c.Status(200)
		}

		v["maps-handed-out"] = canon(map[string]any{"queries": c.Queries(), "req-queries": c.Req().Queries(), "req-headers": c.GetReqHeaders(),
			"resp-headers": c.GetRespHeaders(), "ips": c.IPs(), "subdomains": c.Subdomains(), "subdomains1": c.Subdomains(1)})
		v["route-path"] = canon(c.Route().Path)
		v["base-url"] = canon(c.BaseURL())
		v["method"] = canon(c.Method())
		v["origin"] = canon(map[string]any{"hostname": c.Hostname(), "secure": c.Secure(), "ips": c.IPs(), "port": c.Port(),
			"local": c.IsFromLocal(), "trusted": c.IsProxyTrusted(), "subdomains": c.Subdomains(), "xhr": c.XHR()})
		{
			ran := ""
			mk := func(name string) fiber.Handler {
				return func(fiber.Ctx) error { ran = name; return nil }
			}
			ferr := c.Format(
				fiber.ResFmt{MediaType: "text/plain;format=flowed", Handler: mk("flowed")},
				fiber.ResFmt{MediaType: "application/json", Handler: mk("json")},
				fiber.ResFmt{MediaType: "text/html;level=1", Handler: mk("html1")},
			)
			v["negotiation"] = canon(map[string]any{
				"accepts":   c.Accepts(negoOffers...),
				"accepts2":  c.Accepts("text/html;level=1", "text/plain;format=flowed"),
				"accepts3":  c.Accepts("html", "json", "txt"),
				"charsets":  c.AcceptsCharsets("utf-8", "iso-8859-1"),
				"encodings": c.AcceptsEncodings("gzip", "br"),
				"languages": c.AcceptsLanguages("en", "de-CH"),
				"format":    ran, "format-err": errStr(ferr), "format-status": c.Response().StatusCode(),
			})
			c.Status(200)
			c.Response().ResetBody()
		}
		v["request-line"] = canon(map[string]any{"path": c.Path(), "url": c.OriginalURL(), "host": c.Host(),
			"ip": c.IP(), "scheme": c.Scheme(), "proto": c.Protocol()})

		// view bindings as the Views engine receives them
		s.lastBind = ""
		// (whichever engine renders — the root's, a mounted app's, or none: then the name is a
		// template file — the bindings are merged into the map the handler passes)
		pb := fiber.Map{"own": "probe"}
		rerr := c.Render(filepath.Join(dir, "probe.tmpl"), pb)
		v["view-bind"] = canon(map[string]any{"bind": s.lastBind, "map-after-render": normalise(pb), "err": errStr(rerr), "body": string(c.Response().Body())})
		c.Response().ResetBody()
		// and once more the way handlers that bind everything through ViewBind / locals do it
		s.lastBind = ""
		rerr = c.Render(filepath.Join(dir, "probe.tmpl"), nil)
		v["view-bind-nil"] = canon(map[string]any{"bind": s.lastBind, "err": errStr(rerr), "body": string(c.Response().Body())})
		c.Response().ResetBody()
		c.Response().Header.Del(fiber.HeaderContentType)

		// variants R / RB / RR: a bare Redirect().To() / .Back(fallback) / .Route(named)
		if variant := c.Query("variant"); variant != "" {
			var rerr error
			switch variant {
			case "R":
				rerr = c.Redirect().To("/after-probe")
			case "RB":
				rerr = c.Redirect().Back("/fallback-of-probe")
			case "RR":
				rerr = c.Redirect().Route("named", fiber.RedirectConfig{Params: fiber.Map{"id": "p7"}, Queries: map[string]string{"from": "probe"}})
			case "RI":
				// the request's input goes along (the probe's form has ONE field: the order of
				// several old inputs in the cookie follows a map)
				rerr = c.Redirect().With("notice", "probe says hello", 0x21).WithInput().To("/form-again")
			}
			rh := c.GetRespHeaders()
			// the flash cookie this response issues, decoded
			var issued any = "none"
			c.Response().Header.VisitAllCookie(func(k, val []byte) {
				if string(k) != fiber.FlashCookieName {
					return
				}
				var ck fasthttp.Cookie
				if ck.ParseBytes(val) != nil {
					issued = "unparsable Set-Cookie"
					return
				}
				ms, ok := decodeFlash(ck.Value())
				if !ok {
					issued = "undecodable: " + hexs(ck.Value())
					return
				}
				sort.Slice(ms, func(i, j int) bool {
					if ms[i].Old != ms[j].Old {
						return !ms[i].Old
					}
					return ms[i].Key+"\x00"+ms[i].Value < ms[j].Key+"\x00"+ms[j].Value
				})
				issued = fmt.Sprintf("%+v", ms)
			})
			v["redirect"] = canon(map[string]any{"status": c.Response().StatusCode(), "headers": rh, "err": errStr(rerr), "flash-issued": issued})
		}

		s.vec = v
		keys := make([]string, 0, len(v))
		for k := range v {
			keys = append(keys, k)
		}
		sort.Strings(keys)
		var sb strings.Builder
		for _, k := range keys {
			sb.WriteString(k)
			sb.WriteByte('=')
			sb.WriteString(v[k])
			sb.WriteByte('\n')
		}
		c.Set(fiber.HeaderContentType, "text/plain")
		if e, ok := predeclared[c.Query("ret")]; ok {
			// the idiomatic refusal: one of the framework's predeclared errors
			return e
		}
		return c.SendString(sb.String())
	}
	for _, p := range probeRoutes[:len(probeRoutes)-1] {
		app.All(p, w(probe))
	}
	// the last probe route lives under /admin: on the mounted sub-app if there is one
	if sub != nil {
		sub.All("/probeplain", w(probe))
	} else {
		app.All("/admin/probeplain", w(probe))
	}

	// echoes a value of the request as the whole response body, the way the request names
	app.All("/echo/:val", w(func(c fiber.Ctx) error {
		var v string
		switch c.Query("via") {
		case "path":
			v = c.Path()
		case "query":
			v = c.Query("q")
		case "header":
			v = c.Get("X-Echo")
		case "body":
			v = string(c.Body())
		default:
			v = c.Params("val")
		}
		if c.Query("probe") == "1" {
			s.probes++
			if s.seenBefore(c) {
				s.reused = true
			}
			s.vec = map[string]string{"echo-length": canon(len(v))}
		}
		switch c.Query("how") {
		case "send":
			return c.Send(c.Body())
		case "write":
			_, err := c.Write([]byte(v))
			return err
		case "writestring":
			_, err := c.WriteString(v)
			return err
		}
		return c.SendString(v)
	}))
	return app, s
}
