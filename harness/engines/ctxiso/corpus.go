package ctxiso

import (
	"verifharness/internal/ev"
)

func rawReq(q reqSpec) []byte { return q.raw() }

// isoCorpus: fixed regression cases (seed independent). The first group are the smallest
// witnesses of the flash-message leak; the second group are directed histories for each
// per-request field of the pooled context (they hold on the unchanged tree and are what the
// mutants of DESIGN 3.C05 trip over).
func isoCorpus(e *ev.Env) {
	one := encMsgs([]fmsg{{Key: "secret", Value: "topsy", Level: 0x21, Old: false}})
	two := encMsgs([]fmsg{{Key: "k1", Value: "v1", Level: 0x21}, {Key: "k2-old", Value: "v2-old", Level: 0x22, Old: true}})
	flashHist := func(cookie []byte) wreq {
		return wreq{Kind: "flash-read", Cookie: ckValid, Raw: rawReq(reqSpec{Target: "/flash", Cookie: cookie})}
	}
	probeWith := func(target string, class string, cookie []byte) probeSpec {
		return probeSpec{Route: 4, Class: class, Raw: rawReq(reqSpec{Target: target, Cookie: cookie})}
	}
	type cc struct {
		name string
		ic   isoCase
	}
	cases := []cc{
		// --- witnesses -------------------------------------------------------------------
		{"flash-9180-after-valid", isoCase{History: []wreq{flashHist(one)},
			Probe: probeWith("/probeplain", ckPartial, []byte{0x91, 0x80})}},
		{"flash-9180-after-valid-customctx", isoCase{Cfg: isoCfg{Custom: true}, History: []wreq{flashHist(one)},
			Probe: probeWith("/probeplain", ckPartial, []byte{0x91, 0x80})}},
		{"flash-9180-after-valid-on-404", isoCase{History: []wreq{{Kind: "404", Cookie: ckValid,
			Raw: rawReq(reqSpec{Target: "/nothing", Cookie: one})}},
			Probe: probeWith("/probeplain", ckPartial, []byte{0x91, 0x80})}},
		{"flash-91-after-valid", isoCase{History: []wreq{flashHist(one)},
			Probe: probeWith("/probeplain", ckTruncated, []byte{0x91})}},
		{"flash-9176-after-valid", isoCase{History: []wreq{flashHist(one)},
			Probe: probeWith("/probeplain", ckGarbage, []byte{0x91, 0x76})}},
		{"flash-value-only-after-valid", isoCase{History: []wreq{flashHist(one)},
			Probe: probeWith("/probeplain", ckPartial, appMsg([]byte{0x91}, fmsg{Value: "mine"}, fValue))}},
		{"flash-announce-two-send-one-after-two", isoCase{History: []wreq{flashHist(two)},
			Probe: probeWith("/probeplain", ckPartial, appMsg([]byte{0x92}, fmsg{Key: "a", Value: "b", Level: 0x30}, fAll))}},
		// --- directed controls (hold on the unchanged tree) ----------------------------------
		{"valid-after-valid", isoCase{History: []wreq{flashHist(two)},
			Probe: probeWith("/probeplain", ckValid, one)}},
		{"no-cookie-after-valid", isoCase{History: []wreq{flashHist(two)},
			Probe: probeWith("/probeplain", ckNone, nil)}},
		{"locals-viewbind-then-probe", isoCase{Cfg: isoCfg{PassLocals: true}, History: []wreq{
			{Kind: "locals", Raw: rawReq(reqSpec{Target: "/locals/h0"})},
			{Kind: "locals", Raw: rawReq(reqSpec{Target: "/locals/h1?do=next"})},
			{Kind: "locals", Raw: rawReq(reqSpec{Target: "/locals/h2?do=err"})}},
			Probe: probeWith("/probeplain", ckNone, nil)}},
		{"many-params-then-optional", isoCase{History: []wreq{
			{Kind: "many-params", Raw: rawReq(reqSpec{Target: "/many/a1/a2/a3/a4/a5/a6/a7/a8/a9/a10"})}},
			Probe: probeSpec{Route: 5, Class: ckNone, Raw: rawReq(reqSpec{Target: "/p2/only"})}}},
		{"redirect-with-then-bare-redirect", isoCase{History: []wreq{
			{Kind: "redirect-with", Raw: rawReq(reqSpec{Method: "POST", Target: "/redir/h0?n=3&lvl=64&name=q", CType: "application/x-www-form-urlencoded", Body: []byte("name=f&tag=t")})}},
			Probe: probeSpec{Route: 4, Class: ckNone, Variant: "R", Raw: rawReq(reqSpec{Target: "/probeplain?variant=R"})}}},
		{"autohandling-then-failing-bind", isoCase{History: []wreq{
			{Kind: "bind", Raw: rawReq(reqSpec{Method: "POST", Target: "/bind?a=x&auto=1&ret=1", Body: []byte{}})}},
			Probe: probeSpec{Route: 4, Class: ckNone, Raw: rawReq(reqSpec{Target: "/probeplain?a=notanumber"})}}},
		{"baseurl-other-host", isoCase{History: []wreq{
			{Kind: "base-url", Raw: rawReq(reqSpec{Target: "/base", Host: "first.example.org:8080"})}},
			Probe: probeSpec{Route: 4, Class: ckNone, Raw: rawReq(reqSpec{Target: "/probeplain", Host: "second.test"})}}},
		{"half-bound-query-then-probe", isoCase{History: []wreq{
			{Kind: "half-bind-query", Raw: rawReq(reqSpec{Target: "/bind?card=4111-secret&name=h0&filter%5Bcolor=red"})}},
			Probe: probeSpec{Route: 4, Class: ckNone, Raw: rawReq(reqSpec{Target: "/probeplain?tag=shoes"})}}},
		{"half-bound-form-then-probe", isoCase{History: []wreq{
			{Kind: "half-bind-form", Raw: rawReq(reqSpec{Method: "POST", Target: "/bind", CType: "application/x-www-form-urlencoded", Body: []byte("card=4111-secret&name=h0&filter%5Bcolor=red")})}},
			Probe: probeSpec{Route: 4, Class: ckNone, Raw: rawReq(reqSpec{Method: "POST", Target: "/probeplain", CType: "application/x-www-form-urlencoded", Body: []byte("tag=shoes")})}}},
		{"half-bound-withinput-then-probe", isoCase{History: []wreq{
			{Kind: "half-bind-query", Raw: rawReq(reqSpec{Target: "/redir/h0?input=1&card=4111-secret&filter%5Bcolor=red"})}},
			Probe: probeSpec{Route: 4, Class: ckNone, Variant: "R", Raw: rawReq(reqSpec{Target: "/probeplain?variant=R&tag=shoes"})}}},
		{"status-then-failed-back-then-bare-redirect", isoCase{History: []wreq{
			{Kind: "redirect-unfinished-back", Raw: rawReq(reqSpec{Target: "/redirfail/h0?status=303&mode=back"})}},
			Probe: probeSpec{Route: 4, Class: ckNone, Variant: "R", Raw: rawReq(reqSpec{Target: "/probeplain?variant=R"})}}},
		{"status-with-then-return-then-route-redirect", isoCase{History: []wreq{
			{Kind: "redirect-unfinished-return", Raw: rawReq(reqSpec{Target: "/redirfail/h0?status=308&with=1&mode=return&name=q"})}},
			Probe: probeSpec{Route: 4, Class: ckNone, Variant: "RR", Raw: rawReq(reqSpec{Target: "/probeplain?variant=RR"})}}},
		{"sendfile-maxage-then-plain", isoCase{History: []wreq{
			{Kind: "sendfile-1", Raw: rawReq(reqSpec{Target: "/file/1?f=a"})}},
			Probe: probeSpec{Route: -1, Class: ckNone, Variant: "sendfile", Raw: rawReq(reqSpec{Target: "/file/0?probe=1&f=a"})}}},
		{"sendfile-plain-then-maxage", isoCase{History: []wreq{
			{Kind: "sendfile-0", Raw: rawReq(reqSpec{Target: "/file/0?f=a"})}},
			Probe: probeSpec{Route: -1, Class: ckNone, Variant: "sendfile", Raw: rawReq(reqSpec{Target: "/file/2?probe=1&f=a"})}}},
		{"sendfile-download-then-plain", isoCase{History: []wreq{
			{Kind: "sendfile-5", Raw: rawReq(reqSpec{Target: "/file/5?f=b"})}},
			Probe: probeSpec{Route: -1, Class: ckNone, Variant: "sendfile", Raw: rawReq(reqSpec{Target: "/file/0?probe=1&f=b"})}}},
		{"baseurl-same-host-other-scheme", isoCase{History: []wreq{
			{Kind: "base-url", Raw: rawReq(reqSpec{Target: "/base", Host: "example.com", Hdr: [][2]string{{"X-Forwarded-Proto", "https"}}})}},
			Probe: probeSpec{Route: 4, Class: ckNone, Raw: rawReq(reqSpec{Target: "/probeplain", Host: "example.com"})}}},
		{"baseurl-same-host-forwarded-host", isoCase{Cfg: isoCfg{Trust: 1}, History: []wreq{
			{Kind: "base-url", Raw: rawReq(reqSpec{Target: "/base", Host: "example.com"})}},
			Probe: probeSpec{Route: 4, Class: ckNone, Raw: rawReq(reqSpec{Target: "/probeplain", Host: "example.com", Hdr: [][2]string{{"X-Forwarded-Host", "shop.example.org"}, {"X-Forwarded-Ssl", "on"}}})}}},
		{"accept-q0-params-then-parameterised-accept", isoCase{Cfg: isoCfg{Touch: true}, History: []wreq{
			{Kind: "locals", Raw: rawReq(reqSpec{Target: "/locals/h0", Hdr: [][2]string{{"Accept", "text/html;level=1;q=0, application/json"}}})}},
			Probe: probeSpec{Route: 4, Class: ckNone, Raw: rawReq(reqSpec{Target: "/probeplain", Hdr: [][2]string{{"Accept", "text/plain;format=flowed"}}})}}},
		{"unrouted-404-with-flash-then-probe", isoCase{Cfg: isoCfg{NoMW: true}, History: []wreq{
			{Kind: "unrouted-404", Cookie: ckValid, Raw: rawReq(reqSpec{Target: "/private/alice", Cookie: two})}},
			Probe: probeWith("/probeplain", ckNone, nil)}},
		{"unrouted-405-errorhandler-state-then-probe", isoCase{Cfg: isoCfg{NoMW: true, EHState: true, PassLocals: true}, History: []wreq{
			{Kind: "unrouted-405", Raw: rawReq(reqSpec{Method: "POST", Target: "/getonly?name=h0&a=x", Body: []byte{}})}},
			Probe: probeSpec{Route: 4, Class: ckNone, Variant: "R", Raw: rawReq(reqSpec{Target: "/probeplain?variant=R&a=notanumber"})}}},
		{"routed-then-rejected-propfind-413", isoCase{Cfg: isoCfg{Mount: true}, History: []wreq{
			{Kind: "admin", Raw: rawReq(reqSpec{Target: "/admin/reports/7", Host: "tenant-a.example"})}},
			Probe: probeSpec{Route: -1, Class: ckNone, ViaEH: true, Variant: "eh-413",
				Raw: rawReq(reqSpec{Method: "PROPFIND", Target: "/dav/files", Host: "tenant-b.example", Hdr: [][2]string{{"Content-Length", "5000"}}})}}},
		{"matched-then-405-customctx", isoCase{Cfg: isoCfg{Custom: true}, History: []wreq{
			{Kind: "routed", Raw: rawReq(reqSpec{Target: "/getonly"})}},
			Probe: probeSpec{Route: -1, Class: ckNone, ViaEH: true, Variant: "eh-405",
				Raw: rawReq(reqSpec{Method: "POST", Target: "/getonly", Body: []byte{}})}}},
		{"malformed-then-handler-returns-errbadrequest", isoCase{History: []wreq{
			{Kind: "malformed", Kills: true, Raw: []byte("GET /account HTTP/1.1\r\nHost: x\r\nCookie: session=secret\r\nContent-Length: abc\r\n\r\n")}},
			Probe: probeSpec{Route: 4, Class: ckNone, Raw: rawReq(reqSpec{Target: "/probeplain?ret=bad-request"})}}},
		{"sitevars-then-per-request-viewbind", isoCase{Cfg: isoCfg{SiteVars: true}, History: []wreq{
			{Kind: "locals", Raw: rawReq(reqSpec{Target: "/locals/alice"})}},
			Probe: probeWith("/probeplain", ckNone, nil)}},
		{"trusted-proxy-connection-then-direct-client", isoCase{Cfg: isoCfg{Trust: 1, Touch: true}, HistRemote: 0, ProbeRemote: 1, History: []wreq{
			{Kind: "forwarded", Raw: rawReq(reqSpec{Target: "/base", Hdr: [][2]string{{"X-Forwarded-For", "6.6.6.6"}, {"X-Forwarded-Proto", "https"}}})}},
			Probe: probeSpec{Route: 4, Class: ckNone, Raw: rawReq(reqSpec{Target: "/probeplain", Hdr: [][2]string{{"X-Forwarded-For", "9.9.9.9"}, {"X-Forwarded-Proto", "https"}}})}}},
		{"direct-client-then-trusted-proxy-connection", isoCase{Cfg: isoCfg{Trust: 1, Touch: true}, HistRemote: 1, ProbeRemote: 0, History: []wreq{
			{Kind: "forwarded", Raw: rawReq(reqSpec{Target: "/base", Hdr: [][2]string{{"X-Forwarded-For", "6.6.6.6"}, {"X-Forwarded-Proto", "https"}}})}},
			Probe: probeSpec{Route: 4, Class: ckNone, Raw: rawReq(reqSpec{Target: "/probeplain", Hdr: [][2]string{{"X-Forwarded-For", "9.9.9.9"}, {"X-Forwarded-Proto", "https"}}})}}},
		{"missing-file-served-while-file-probe-is-open", isoCase{History: []wreq{
			{Kind: "sendfile", Raw: rawReq(reqSpec{Target: "/file/0?f=a"})}},
			Intruders: []wreq{{Kind: "sendfile-missing", Raw: rawReq(reqSpec{Target: "/file/0?f=x"})}},
			Probe:     probeSpec{Route: -1, Class: ckNone, Variant: "sendfile", Raw: rawReq(reqSpec{Target: "/file/0?probe=1&f=a&hold=1"})}}},
		{"viewbind-then-render-on-mounted-engine", isoCase{Cfg: isoCfg{Mount: true, ViewsOn: 1}, History: []wreq{
			{Kind: "locals", Raw: rawReq(reqSpec{Target: "/locals/alice"})}},
			Probe: probeSpec{Route: 6, Class: ckNone, Raw: rawReq(reqSpec{Target: "/admin/probeplain"})}}},
		{"viewbind-then-render-without-engine", isoCase{Cfg: isoCfg{ViewsOn: 2}, History: []wreq{
			{Kind: "locals", Raw: rawReq(reqSpec{Target: "/locals/alice"})}},
			Probe: probeWith("/probeplain", ckNone, nil)}},
		{"failed-render-then-nil-bind-render", isoCase{Cfg: isoCfg{PassLocals: true}, History: []wreq{
			{Kind: "locals", Raw: rawReq(reqSpec{Target: "/locals/alice?do=renderfail"})}},
			Probe: probeWith("/probeplain", ckNone, nil)}},
		{"delete-missing-then-get-missing", isoCase{Cfg: isoCfg{NoMW: true}, History: []wreq{
			{Kind: "unrouted-DELETE", Raw: rawReq(reqSpec{Method: "DELETE", Target: "/missing"})}},
			Probe: probeSpec{Route: -1, Class: ckNone, ViaEH: true, Variant: "eh-samepath", Raw: rawReq(reqSpec{Target: "/missing"})}}},
		{"withinput-abandoned-then-redirect-with-input", isoCase{History: []wreq{
			{Kind: "redirect-abandoned-with-input", Raw: rawReq(reqSpec{Method: "POST", Target: "/redirfail/h0?status=303&with=1&mode=return",
				CType: "application/x-www-form-urlencoded", Body: []byte("user=alice&password=s3cret")})}},
			Probe: probeSpec{Route: 4, Class: ckNone, Variant: "RI", Raw: rawReq(reqSpec{Method: "POST", Target: "/probeplain?variant=RI",
				CType: "application/x-www-form-urlencoded", Body: []byte("name=PRBinput")})}}},
		{"handler-fills-defaults-into-queries-map", isoCase{History: []wreq{
			{Kind: "mutate-returned-values", Raw: rawReq(reqSpec{Target: "/mutate/h0"})}},
			Probe: probeWith("/probeplain", ckNone, nil)}},
		{"adaptor-locals-then-probe", isoCase{Adaptor: true, History: []wreq{
			{Kind: "locals", Raw: rawReq(reqSpec{Target: "/locals/alice"})}},
			Probe: probeWith("/probeplain", ckNone, nil)}},
		{"adaptor-locals-then-probe-2", isoCase{Adaptor: true, History: []wreq{
			{Kind: "locals", Raw: rawReq(reqSpec{Target: "/locals/bob?id=bob"})}},
			Probe: probeWith("/probeplain", ckNone, nil)}},
		{"adaptor-locals-then-probe-3", isoCase{Adaptor: true, History: []wreq{
			{Kind: "locals", Raw: rawReq(reqSpec{Target: "/locals/carol?id=carol"})}, {Kind: "base-url", Raw: rawReq(reqSpec{Target: "/base"})}},
			Probe: probeWith("/probeplain", ckNone, nil)}},
		{"server-error-path-then-probe", isoCase{History: []wreq{
			{Kind: "locals", Cookie: ckValid, Raw: rawReq(reqSpec{Target: "/locals/h0", Cookie: one})},
			{Kind: "malformed", Kills: true, Raw: []byte("GET\r\n\r\n")}},
			Probe: probeWith("/probeplain", ckNone, nil)}},
	}
	for _, k := range cases {
		k := k
		e.Corpus(k.name, func(c *ev.Case) { judgeIso(e, c, k.ic) })
	}
}
