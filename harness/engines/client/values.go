package clienteng

import (
	"strings"

	"verifharness/internal/gen"
)

// Value classes. The class of the item that failed goes into the signature.
const (
	clPlain   = "plain"
	clEmpty   = "empty-value"
	clEscape  = "needs-escaping"
	clUnicode = "unicode"
)

type val struct {
	S     string
	Class string
}

var unicodeBits = []string{"é", "ß", "日本", "語", "😀", "Ж", "ü", "€", "ñ", "中"}

const (
	// any byte that application/x-www-form-urlencoded has to escape (plus raw controls)
	urlHostile = "&=+%#? /;\"'<>\\:@,[]{}|^`~\x00\r\n\t\x7f\x80\xff"
	// visible ASCII that is legal inside a header field value but special somewhere
	hdrSpecial = "\"(),/:;<=>?@[\\]{}%&+*'` \t"
	// RFC 6265 cookie-octets that are not alphanumeric
	cookieSpecial = "!#$%&'()*+-./:<=>?@[]^_`{|}~"
	// characters allowed raw in a path segment (RFC 3986 pchar without ':' and '%') plus space
	pathSpecial = "-_.~!$&'()*+,;=@ "
)

func mix(r *gen.Rand, special string, lo, hi int) string {
	n := r.Range(lo, hi)
	var sb strings.Builder
	for i := 0; i < n; i++ {
		if r.Bool() {
			sb.WriteByte(special[r.Intn(len(special))])
		} else {
			sb.WriteByte(gen.AlphaNum[r.Intn(len(gen.AlphaNum))])
		}
	}
	return sb.String()
}

func uni(r *gen.Rand) string {
	n := r.Range(1, 3)
	var sb strings.Builder
	for i := 0; i < n; i++ {
		if r.Chance(1, 3) {
			sb.WriteString(r.StringFrom(gen.AlphaNum, r.Range(1, 3)))
		}
		sb.WriteString(gen.Pick(r, unicodeBits))
	}
	return sb.String()
}

// component kinds for value generation
const (
	vQuery = iota // query and form values / keys: any byte
	vHeader
	vCookie
	vPath
	vUA
	vFileName
)

func trimWS(s string) string {
	s = strings.Trim(s, " \t")
	if s == "" {
		return "x"
	}
	return s
}

// genVal draws a value for a component. allowEmpty: the component can carry an empty value.
func genVal(r *gen.Rand, comp int, allowEmpty bool) val {
	w := r.PickW(4, 2, 5, 3)
	if w == 1 && !allowEmpty {
		w = 0
	}
	switch w {
	case 0:
		return val{r.StringFrom(gen.AlphaNum, r.Range(1, 8)), clPlain}
	case 1:
		return val{"", clEmpty}
	case 3:
		return val{uni(r), clUnicode}
	}
	switch comp {
	case vQuery:
		if r.Chance(1, 4) {
			return val{string(r.Bytes(r.Range(1, 10))), clEscape}
		}
		return val{mix(r, urlHostile, 1, 10), clEscape}
	case vHeader, vUA:
		return val{trimWS(mix(r, hdrSpecial, 1, 12)), clEscape}
	case vCookie:
		return val{mix(r, cookieSpecial, 1, 10), clEscape}
	case vPath:
		s := mix(r, pathSpecial, 1, 8)
		if strings.Trim(s, ".") == "" {
			s += "p"
		}
		return val{s, clEscape}
	case vFileName:
		// bytes a Content-Disposition parameter has to quote or escape (quote and backslash
		// included) and HTAB. Other control characters (0x01, 0x7f) are NOT generated: the client
		// writes them raw (mime/multipart has no escape for them) and Go's MIME header reader on
		// the server rejects the whole form ("malformed MIME header line", fiber answers 400) -
		// the unchanged tree does not carry them, and no escaping convention says how it should.
		return val{trimWS(mix(r, " ;,=()'&+-_.~@\"\\\t%:*?<>|", 1, 10)), clEscape}
	}
	return val{"v", clPlain}
}

// classOf recomputes the class from a literal (corpus cases).
func classOf(s string) string {
	if s == "" {
		return clEmpty
	}
	plain := true
	for i := 0; i < len(s); i++ {
		c := s[i]
		if c >= 0x80 {
			return clUnicode
		}
		if !(c >= '0' && c <= '9' || c >= 'a' && c <= 'z' || c >= 'A' && c <= 'Z') {
			plain = false
		}
	}
	if plain {
		return clPlain
	}
	return clEscape
}

// genKey draws a key (query / form field name). Never empty.
func genKey(r *gen.Rand, hostile bool) string {
	if hostile && r.Chance(1, 4) {
		switch r.Intn(3) {
		case 0:
			return mix(r, "&=+%# /;[]", 1, 6) + "k"
		case 1:
			return uni(r)
		default:
			return "k" + string(r.Bytes(r.Range(1, 3)))
		}
	}
	return r.Ident(1, 5)
}

func prefixRelated(a, b string) bool {
	return a != b && (strings.HasPrefix(a, b) || strings.HasPrefix(b, a))
}
