package clienteng

import (
	"context"
	"strconv"
	"sync"
	"sync/atomic"
	"time"

	"github.com/gofiber/fiber/v3/client"

	"verifharness/internal/ev"
)

// runRace: 32 goroutines share one client against the delaying echo server; timeouts sit one
// millisecond around the server delay, some requests are cancelled instead. The id oracle judges
// every call; the race detector (log collected by the driver) watches the pooled Response and
// error channel. The yield hook widens the hand-off window by up to 2 ms (real time).
func runRace(e *ev.Env) {
	defer recordMaxRSS(e)
	const workers = 32
	const perWorker = 30
	e.Cases("race", e.N(3, 20), func(c *ev.Case) {
		rig := newOwnRig(true)
		// one cookie jar shared by two clients (and 32 goroutines): responses store into it while
		// requests read it; the race detector judges, the id oracle is unaffected
		jar := client.AcquireCookieJar()
		rig.cl.SetCookieJar(jar)
		cl2 := client.NewWithClient(rig.fc)
		cl2.SetCookieJar(jar)
		clients := []*client.Client{rig.cl, cl2}
		var hookN atomic.Int64
		// two cases in three widen the hand-off window at the hook; the others only count
		widen := c.R.Intn(3) != 0
		if widen {
			e.Stat("cases_with_widened_window", 1)
		}
		client.SetVerifYield(func(string) {
			n := hookN.Add(1)
			if d := n % 3; widen && d > 0 {
				time.Sleep(time.Duration(d) * time.Millisecond)
			}
		})
		plans := make([][]ownReq, workers)
		for w := range plans {
			r := c.R.Split()
			for i := 0; i < perWorker; i++ {
				d := r.Range(0, 3)
				rq := ownReq{ID: "x" + strconv.FormatInt(ownSeq.Add(1), 10), DelayMs: d}
				switch r.Intn(5) {
				case 0: // no timeout
				case 1:
					rq.Cancel = true
					rq.TimeoutMs = d + r.Range(-1, 1) // instant of the cancellation
				default:
					rq.TimeoutMs = d + r.Range(-1, 1)
				}
				if rq.TimeoutMs <= 0 {
					rq.TimeoutMs = 1
				}
				if r.Intn(5) == 0 && !rq.Cancel {
					rq.TimeoutMs = 0
				}
				if rq.TimeoutMs > 0 && r.Intn(6) == 0 {
					// a transport that fails around the deadline instead of answering
					rq.FailMs = d + 1
				}
				plans[w] = append(plans[w], rq)
			}
		}
		var mu sync.Mutex
		var results []ownResult
		var wg sync.WaitGroup
		for w := 0; w < workers; w++ {
			wg.Add(1)
			go func(w int) {
				defer wg.Done()
				for _, rq := range plans[w] {
					var ctx context.Context
					var cancel context.CancelFunc
					run := rq
					if rq.Cancel {
						ctx, cancel = context.WithCancel(context.Background())
						t := time.AfterFunc(time.Duration(rq.TimeoutMs)*time.Millisecond, cancel)
						run.TimeoutMs = 0
						res := doOwnReq(clients[w%2], run, ctx)
						t.Stop()
						cancel()
						res.Req = rq
						res.Worker = w
						mu.Lock()
						results = append(results, res)
						mu.Unlock()
						continue
					}
					res := doOwnReq(clients[w%2], run, nil)
					res.Worker = w
					mu.Lock()
					results = append(results, res)
					mu.Unlock()
				}
			}(w)
		}
		wg.Wait()
		// late completions of timed-out calls
		time.Sleep(20 * time.Millisecond)
		client.SetVerifYield(nil)
		rig.close()
		e.Eval(len(results))
		to, ok := 0, 0
		for _, r := range results {
			if r.Timeout {
				to++
			} else if r.Err == "" {
				ok++
			}
		}
		e.Stat("requests", int64(len(results)))
		e.Stat("timeouts_or_cancels", int64(to))
		e.Stat("responses", int64(ok))
		e.Stat("hook_hits", hookN.Load())
		if to > 0 && ok > 0 {
			e.Nontrivial("race", c.ID)
		}
		reported := map[string]int{}
		for _, f := range judgeOwn(results, true) {
			reported[f.sig]++
			if reported[f.sig] > 1 {
				continue
			}
			e.Violation(c, f.sig, f.what, f.detail)
		}
		for _, n := range reported {
			e.Stat("violating_calls", int64(n))
		}
	})
}
