package clienteng

import (
	"encoding/json"
	"encoding/xml"
	"fmt"
	"io"
	"os"
	"path/filepath"
	"reflect"
	"runtime/debug"
	"sort"
	"strconv"
	"strings"
	"testing/iotest"

	"github.com/fxamacker/cbor/v2"
	"github.com/gofiber/fiber/v3/client"
	"github.com/valyala/fasthttp"

	"verifharness/internal/ev"
	"verifharness/internal/gen"
)

// ---------------------------------------------------------------------------------------------
// configuration model: what the caller configures, as data the oracle keeps. The expected
// request is composed from this data by the rules of the client documentation; the template
// is a token list, so the oracle never parses a URL.

// multi is one key with its values at one level.
// Mode: 0 = one Add call per value, 1 = Set (one value), 2 = part of the level's Set-map call,
// 3 = part of the level's Add-map call, 4 = Set(old) then Set(new) (documented: overrides)
type multi struct {
	K     string   `json:"k"`
	Vs    []string `json:"vs"`
	Cls   []string `json:"cls"`
	Mode  int      `json:"mode"`
	Prior string   `json:"prior,omitempty"`
	// Seq, when present, is the whole call sequence for this key at this level (Mode is ignored):
	// Add / Set / Add-map / Set-map calls in this order. Vs is what the documentation makes of it:
	// Add appends, Set replaces every previous value of the key at this level.
	Seq      []seqStep `json:"seq,omitempty"`
	SeqClass string    `json:"seq_class,omitempty"`
}

type seqStep struct {
	Op   string   `json:"op"` // add | set | addmap | setmap
	Vals []string `json:"vals"`
}

type single struct {
	K    string `json:"k"`
	V    string `json:"v"`
	Cl   string `json:"cl"`
	Mode int    `json:"mode"` // 0 = single Set call, 1 = part of the map call
}

type level struct {
	Hdr     []multi  `json:"hdr,omitempty"`
	Query   []multi  `json:"query,omitempty"`
	Cookies []single `json:"cookies,omitempty"`
	PathP   []single `json:"pathp,omitempty"`
	UA      string   `json:"ua,omitempty"`
	Referer string   `json:"referer,omitempty"`
}

type tok struct {
	Lit   string `json:"lit,omitempty"`
	Param string `json:"param,omitempty"`
}

type fileSpec struct {
	Field   string `json:"field,omitempty"` // "" = not set
	Name    string `json:"name"`
	Content string `json:"-"` // may be a megabyte: the evidence carries size, hash and reader kind
	Size    int    `json:"size"`
	// Reader (files given as io.Reader): 0 plain; 1 last bytes together with io.EOF
	// (iotest.DataErrReader, what gzip.Reader does); 2 one byte per Read; 3 half reads;
	// 4 zero-length reads with nil error between the data
	Reader int `json:"reader"`
	// Via: 0 AddFileWithReader(name, r); 1 AddFile(path); 2 AddFiles(AcquireFile(name, reader));
	// 3 AddFiles(AcquireFile(name, path)) - name and path differ; 4 AddFiles(AcquireFile(path))
	Via      int    `json:"via"`
	DiskName string `json:"disk_name,omitempty"`
}

const (
	bNone = iota
	bRaw
	bJSON
	bXML
	bCBOR
	bForm
	bFiles
)

type xmlDoc struct {
	XMLName xml.Name `xml:"doc" json:"-" cbor:"-"`
	A       string   `xml:"a" json:"a" cbor:"a"`
	B       int      `xml:"b" json:"b" cbor:"b"`
	C       []string `xml:"c" json:"c" cbor:"c"`
}

type config struct {
	Style    int        `json:"style"` // 0 fluent request, 1 Config struct on client.<Method>
	Method   string     `json:"method"`
	UseBase  bool       `json:"use_base"`
	Tmpl     []tok      `json:"tmpl"`
	URLQuery []kv       `json:"url_query,omitempty"`
	Client   level      `json:"client"`
	Req      level      `json:"req"`
	Body     int        `json:"body"`
	Raw      string     `json:"raw,omitempty"`
	Doc      *xmlDoc    `json:"doc,omitempty"`
	JSONVal  any        `json:"json_val,omitempty"`
	Form     []multi    `json:"form,omitempty"`
	Files    []fileSpec `json:"files,omitempty"`
	// Jar: cookies a cookie jar attached to the client holds for the target host when the request
	// is built (path "/" or no path, so they match every request path). A cookie configured at
	// client or request level must still arrive with its configured value; what is sent for a
	// name only the jar knows is not judged here (client.jar does that).
	Jar []jarPre `json:"jar,omitempty"`
	// HostPort: the URL is "http://<HostPort>/…" instead of the default host (corpus: a path
	// parameter named like the port must not touch the authority)
	HostPort string `json:"host_port,omitempty"`
	// Twice: the same Request object is sent a second time (response of the first send not closed):
	// both sends must give the same request
	Twice bool `json:"same_request_sent_twice,omitempty"`
	// FormInterleave: the Add calls of the form fields are issued round-robin over the keys
	// (k=a, other=x, k=b, …) instead of key by key: repeated keys with other keys in between
	FormInterleave bool `json:"form_add_calls_interleaved,omitempty"`
}

type jarPre struct {
	K    string `json:"k"`
	V    string `json:"v"`
	Path string `json:"path"`
	API  int    `json:"api"` // 0 SetKeyValue, 1 SetByHost, 2 Set(uri)
}

const fidBase = "http://fid.test"

func (cf *config) rawTemplate() string {
	var sb strings.Builder
	for _, t := range cf.Tmpl {
		if t.Param != "" {
			sb.WriteString(":" + t.Param)
		} else {
			sb.WriteString(t.Lit)
		}
	}
	return sb.String()
}

func (cf *config) url() string {
	u := cf.rawTemplate()
	if len(cf.URLQuery) > 0 {
		var parts []string
		for _, q := range cf.URLQuery {
			parts = append(parts, q.K+"="+q.V)
		}
		u += "?" + strings.Join(parts, "&")
	}
	if cf.HostPort != "" {
		return "http://" + cf.HostPort + u
	}
	if cf.UseBase {
		return u
	}
	return fidBase + u
}

// ---------------------------------------------------------------------------------------------
// generation

func genMultis(r *gen.Rand, n int, comp int, keyf func(i int) string, allowMulti bool) []multi {
	var out []multi
	seen := map[string]bool{}
	for i := 0; i < n; i++ {
		k := keyf(i)
		lk := strings.ToLower(k)
		if seen[lk] {
			continue
		}
		seen[lk] = true
		m := multi{K: k}
		nv := 1
		if allowMulti && r.Chance(1, 3) {
			nv = r.Range(2, 3)
		}
		for j := 0; j < nv; j++ {
			v := genVal(r, comp, true)
			m.Vs = append(m.Vs, v.S)
			m.Cls = append(m.Cls, v.Class)
		}
		if r.Chance(1, 4) {
			genSeq(r, &m, comp, allowMulti)
			out = append(out, m)
			continue
		}
		if nv == 1 {
			m.Mode = []int{0, 1, 2, 2, 3, 4}[r.Intn(6)]
			if m.Mode == 4 {
				m.Prior = genVal(r, comp, false).S
			}
		} else {
			m.Mode = []int{0, 3}[r.Intn(2)]
		}
		out = append(out, m)
	}
	return out
}

// genSeq replaces the one-shot form of a key by a sequence of 2-4 Add/Set calls and computes the
// documented outcome.
func genSeq(r *gen.Rand, m *multi, comp int, allowMulti bool) {
	m.Vs, m.Cls, m.Seq, m.Mode = nil, nil, nil, 9
	n := r.Range(2, 4)
	m.SeqClass = "call-sequence"
	for i := 0; i < n; i++ {
		op := gen.Pick(r, []string{"add", "add", "set", "addmap", "setmap"})
		if !allowMulti && (op == "add" || op == "addmap") && len(m.Vs) > 0 {
			op = "set"
		}
		st := seqStep{Op: op}
		k := 1
		if op == "addmap" && allowMulti {
			k = r.Range(1, 3)
		}
		var cls []string
		for j := 0; j < k; j++ {
			v := genVal(r, comp, true)
			st.Vals = append(st.Vals, v.S)
			cls = append(cls, v.Class)
		}
		switch op {
		case "add", "addmap":
			m.Vs = append(m.Vs, st.Vals...)
			m.Cls = append(m.Cls, cls...)
		default:
			if len(m.Vs) >= 2 {
				m.SeqClass = "set-over-multiple-values"
			}
			m.Vs, m.Cls = []string{st.Vals[0]}, []string{cls[0]}
		}
		m.Seq = append(m.Seq, st)
	}
}

func genSingles(r *gen.Rand, keys []string, comp int, allowEmpty bool) []single {
	var out []single
	seen := map[string]bool{}
	for _, k := range keys {
		if seen[k] {
			continue
		}
		seen[k] = true
		v := genVal(r, comp, allowEmpty)
		out = append(out, single{K: k, V: v.S, Cl: v.Class, Mode: r.Intn(2)})
	}
	return out
}

var pathNamePool = [][]string{
	{"id", "idx"}, {"id", "idx", "i"}, {"user", "userid"}, {"a", "ab", "abc"}, {"p", "q"}, {"name", "key"}, {"x"}, {"id", "kind"},
}

func genLevelCommon(r *gen.Rand, lv *level, hdrKeys, qKeys, ckKeys []string) {
	if r.Chance(3, 5) {
		n := r.Range(1, 3)
		lv.Hdr = genMultis(r, n, vHeader, func(i int) string {
			if r.Chance(2, 5) {
				return gen.Pick(r, hdrKeys)
			}
			return "X-" + r.StringFrom(gen.AlphaNum+"-_.", r.Range(1, 6))
		}, true)
	}
	if r.Chance(3, 5) {
		n := r.Range(1, 3)
		lv.Query = genMultis(r, n, vQuery, func(i int) string {
			if r.Chance(2, 5) {
				return gen.Pick(r, qKeys)
			}
			return genKey(r, true)
		}, true)
	}
	if r.Chance(2, 5) {
		n := r.Range(1, 3)
		var ks []string
		for i := 0; i < n; i++ {
			if r.Chance(2, 5) {
				ks = append(ks, gen.Pick(r, ckKeys))
			} else {
				ks = append(ks, "c"+r.StringFrom(gen.AlphaNum+"_-", r.Range(0, 4)))
			}
		}
		lv.Cookies = genSingles(r, ks, vCookie, true)
	}
	if r.Chance(2, 5) {
		lv.UA = genVal(r, vUA, false).S
	}
	if r.Chance(2, 5) {
		lv.Referer = "http://ref.test/" + genVal(r, vUA, false).S
	}
}

func genJSONVal(r *gen.Rand, depth int) any {
	switch r.Intn(6) {
	case 0:
		return genVal(r, vQuery, true).S
	case 1:
		return float64(r.Range(-1000, 1000))
	case 2:
		return r.Bool()
	case 3:
		if depth > 1 {
			return nil
		}
		n := r.Range(0, 3)
		a := make([]any, 0, n)
		for i := 0; i < n; i++ {
			a = append(a, genJSONVal(r, depth+1))
		}
		return a
	default:
		if depth > 1 {
			return "leaf"
		}
		n := r.Range(1, 3)
		m := map[string]any{}
		for i := 0; i < n; i++ {
			m[r.Ident(1, 4)] = genJSONVal(r, depth+1)
		}
		return m
	}
}

func xmlSafe(r *gen.Rand) string {
	switch r.Intn(3) {
	case 0:
		return r.StringFrom(gen.AlphaNum, r.Range(0, 8))
	case 1:
		return uni(r)
	}
	return mix(r, "<>&\"' ;=/", 1, 8)
}

// genFileContent: mostly small contents; sizes around the boundaries of the copy buffers a client
// may use (4 KiB, 32 KiB, 1 MiB) every now and then.
func genFileContent(r *gen.Rand) string {
	n := r.Range(0, 300)
	switch r.PickW(30, 6, 1) {
	case 1:
		n = gen.Pick(r, []int{0, 1, 4095, 4096, 4097, 32767, 32768, 32769})
	case 2:
		n = 1<<20 + r.Range(-1, 1)
	}
	if n <= 300 {
		return string(r.Bytes(n))
	}
	// a random block of prime length repeated: cheap, and a shifted or truncated copy differs
	blk := r.Bytes(251)
	b := make([]byte, n)
	for i := range b {
		b[i] = blk[i%251]
	}
	return string(b)
}

type zeroReadsReader struct {
	r    io.Reader
	tick int
}

func (z *zeroReadsReader) Read(p []byte) (int, error) {
	z.tick++
	if z.tick%2 == 1 {
		return 0, nil
	}
	return z.r.Read(p)
}

// fileReader wraps the content in a reader of the configured behaviour.
func fileReader(f fileSpec) io.ReadCloser {
	var r io.Reader = strings.NewReader(f.Content)
	switch f.Reader {
	case 1:
		r = iotest.DataErrReader(r)
	case 2:
		r = iotest.OneByteReader(r)
	case 3:
		r = iotest.HalfReader(r)
	case 4:
		r = &zeroReadsReader{r: r}
	default:
		return io.NopCloser(r)
	}
	// hide WriteTo and friends: the client sees a bare Reader
	return io.NopCloser(struct{ io.Reader }{r})
}

func genConfig(r *gen.Rand) *config {
	cf := &config{}
	cf.Style = r.PickW(3, 1)
	cf.UseBase = r.Bool()
	// template
	names := gen.Pick(r, pathNamePool)
	nparam := 0
	if r.Chance(3, 5) {
		nparam = r.Range(1, len(names))
	}
	cf.Tmpl = append(cf.Tmpl, tok{Lit: "/"})
	cf.Tmpl = append(cf.Tmpl, tok{Lit: gen.Pick(r, []string{"e", "echo", "api/v1", "r"})})
	used := append([]string(nil), names...)
	gen.Shuffle(r, used)
	used = used[:nparam]
	for _, n := range used {
		cf.Tmpl = append(cf.Tmpl, tok{Lit: "/"})
		if r.Chance(1, 3) {
			cf.Tmpl = append(cf.Tmpl, tok{Lit: r.Ident(1, 3) + "/"})
		}
		cf.Tmpl = append(cf.Tmpl, tok{Param: n})
		if r.Chance(1, 5) {
			// a second occurrence of the same placeholder
			cf.Tmpl = append(cf.Tmpl, tok{Lit: "-"}, tok{Param: n})
		}
	}
	if r.Chance(1, 4) {
		cf.Tmpl = append(cf.Tmpl, tok{Lit: "/" + r.Ident(1, 4)})
	}
	if r.Chance(1, 5) {
		n := r.Range(1, 2)
		for i := 0; i < n; i++ {
			cf.URLQuery = append(cf.URLQuery, kv{gen.Pick(r, []string{"u", "q", "k1"}), r.StringFrom(gen.AlphaNum, r.Range(0, 4))})
		}
	}
	hdrKeys := []string{"X-Shared", "x-trace-id", "Accept-Language", "Authorization", "X-Forwarded-For"}
	qKeys := []string{"q", "k1", "page", "tag"}
	ckKeys := []string{"sid", "theme", "c1"}
	genLevelCommon(r, &cf.Client, hdrKeys, qKeys, ckKeys)
	genLevelCommon(r, &cf.Req, hdrKeys, qKeys, ckKeys)
	if r.Chance(1, 4) {
		// a cookie jar that already holds cookies for the host, some under configured names
		var pool []string
		for _, lv := range []*level{&cf.Client, &cf.Req} {
			for _, c := range lv.Cookies {
				pool = append(pool, c.K)
			}
		}
		pool = append(pool, ckKeys...)
		n := r.Range(1, 3)
		seen := map[string]bool{}
		for i := 0; i < n; i++ {
			k := gen.Pick(r, pool)
			if seen[k] {
				continue
			}
			seen[k] = true
			j := jarPre{K: k, V: "jar" + r.StringFrom(gen.AlphaNum, r.Range(1, 5)), API: r.Intn(3)}
			if j.API != 0 && r.Bool() {
				j.Path = "/"
			}
			cf.Jar = append(cf.Jar, j)
		}
	}
	// path parameters: every placeholder is configured at least at one level; each level may
	// also hold names that are only prefix-related to placeholders, or unused.
	for _, n := range used {
		w := r.PickW(2, 2, 2) // request only, client only, both
		if w == 0 || w == 2 {
			cf.Req.PathP = append(cf.Req.PathP, genSingles(r, []string{n}, vPath, false)...)
		}
		if w == 1 || w == 2 {
			cf.Client.PathP = append(cf.Client.PathP, genSingles(r, []string{n}, vPath, false)...)
		}
	}
	if nparam > 0 && r.Chance(1, 4) {
		// a configured parameter that has no placeholder in the template
		extra := gen.Pick(r, names)
		has := false
		for _, n := range used {
			if n == extra {
				has = true
			}
		}
		if !has {
			if r.Bool() {
				cf.Req.PathP = append(cf.Req.PathP, genSingles(r, []string{extra}, vPath, false)...)
			} else {
				cf.Client.PathP = append(cf.Client.PathP, genSingles(r, []string{extra}, vPath, false)...)
			}
		}
	}
	if r.Chance(1, 5) {
		// A parameter inside a segment, after literal text ("/fab:ext", optionally followed by more
		// literal text): here the EMPTY value is unambiguous - the result is still a proper path,
		// no empty segment appears. The property quantifies over empty values, and an empty
		// request-level value must win over a non-empty client-level one like any other.
		name := gen.Pick(r, []string{"ext", "sfx"})
		cf.Tmpl = append(cf.Tmpl, tok{Lit: "/f" + r.Ident(1, 3)}, tok{Param: name})
		if r.Chance(1, 3) {
			cf.Tmpl = append(cf.Tmpl, tok{Lit: "." + r.Ident(1, 3)})
		}
		nonEmpty := func() single {
			s := genSingles(r, []string{name}, vPath, false)[0]
			if r.Bool() {
				s.V = "." + s.V
			}
			return s
		}
		empty := single{K: name, V: "", Cl: clEmpty, Mode: r.Intn(2)}
		switch r.PickW(4, 1, 2, 1) {
		case 0:
			cf.Client.PathP = append(cf.Client.PathP, nonEmpty())
			cf.Req.PathP = append(cf.Req.PathP, empty)
		case 1:
			cf.Req.PathP = append(cf.Req.PathP, empty)
		case 2:
			cf.Client.PathP = append(cf.Client.PathP, nonEmpty())
			cf.Req.PathP = append(cf.Req.PathP, nonEmpty())
		default:
			cf.Client.PathP = append(cf.Client.PathP, nonEmpty())
		}
	}
	if r.Chance(1, 8) && len(cf.Req.PathP)+len(cf.Client.PathP) > 0 {
		// a path-parameter value with bytes that are special in a URL: it must still arrive as
		// (part of) the path with that value. '/' only between other characters (no empty or dot
		// segments, which every server normalises).
		lv := &cf.Req
		if len(lv.PathP) == 0 || (len(cf.Client.PathP) > 0 && r.Bool()) {
			lv = &cf.Client
		}
		i := r.Intn(len(lv.PathP))
		a, b := r.StringFrom(gen.AlphaNum, r.Range(1, 3)), r.StringFrom(gen.AlphaNum, r.Range(1, 3))
		switch r.Intn(8) {
		case 0:
			lv.PathP[i].V = a + "?" + b
		case 1:
			lv.PathP[i].V = a + "#" + b
		case 2:
			lv.PathP[i].V = a + "%" + gen.Pick(r, []string{"20", "41", "2F", "3f"}) + b
		case 3:
			lv.PathP[i].V = a + "%" + gen.Pick(r, []string{"", "zz", "4"}) + "g" + b
		case 4:
			lv.PathP[i].V = a + "/" + b
		case 5:
			lv.PathP[i].V = a + "\\" + b
		default:
			// the value names another configured parameter
			ns := cf.pathNames()
			lv.PathP[i].V = a + ":" + gen.Pick(r, ns)
		}
		lv.PathP[i].Cl = clEscape
	}
	if len(cf.URLQuery) > 0 && r.Chance(1, 4) {
		// a '?' inside the query the caller wrote into the URL
		cf.URLQuery[0].V = r.StringFrom(gen.AlphaNum, r.Range(1, 3)) + "?" + r.StringFrom(gen.AlphaNum, r.Range(1, 3))
	}
	if r.Chance(1, 10) {
		// headers that also have a dedicated setter or an automatic value, through the generic
		// header API - at one level only, and only where the dedicated setter is not used
		lv := &cf.Req
		if r.Bool() {
			lv = &cf.Client
		}
		var names []string
		if cf.Req.UA == "" && cf.Client.UA == "" {
			names = append(names, "User-Agent")
		}
		if cf.Req.Referer == "" && cf.Client.Referer == "" {
			names = append(names, "Referer")
		}
		names = append(names, "Accept")
		n := gen.Pick(r, names)
		has := false
		for _, l2 := range []*level{&cf.Client, &cf.Req} {
			for _, m := range l2.Hdr {
				if strings.EqualFold(m.K, n) {
					has = true
				}
			}
		}
		if !has {
			v := gen.Pick(r, []string{"mine/1.0", "text/plain", "http://ref.test/generic", r.StringFrom(gen.AlphaNum, 5)})
			lv.Hdr = append(lv.Hdr, multi{K: n, Vs: []string{v}, Cls: []string{classOf(v)}, Mode: r.Intn(3)})
		}
	}
	// body
	cf.Body = r.PickW(4, 2, 2, 1, 1, 3, 3)
	cf.Method = "GET"
	if cf.Body != bNone {
		cf.Method = gen.Pick(r, []string{"POST", "PUT", "PATCH"})
	} else {
		cf.Method = gen.Pick(r, []string{"GET", "GET", "DELETE", "OPTIONS", "POST", "HEAD"})
	}
	switch cf.Body {
	case bRaw:
		cf.Raw = string(r.Bytes(r.Range(0, 64)))
	case bJSON:
		m := map[string]any{}
		n := r.Range(1, 4)
		for i := 0; i < n; i++ {
			m[r.Ident(1, 5)] = genJSONVal(r, 0)
		}
		cf.JSONVal = m
	case bXML, bCBOR:
		d := &xmlDoc{A: xmlSafe(r), B: r.Range(-5000, 5000)}
		n := r.Range(0, 3)
		for i := 0; i < n; i++ {
			d.C = append(d.C, xmlSafe(r))
		}
		cf.Doc = d
	case bForm:
		cf.Form = genMultis(r, r.Range(1, 4), vQuery, func(int) string { return genKey(r, true) }, true)
	case bFiles:
		if r.Bool() {
			cf.Form = genMultis(r, r.Range(1, 3), vQuery, func(int) string {
				if r.Chance(1, 4) {
					return uni(r)
				}
				return r.Ident(1, 5)
			}, true)
			// multipart text parts are raw: CR/LF inside a value would be a different question
			for i := range cf.Form {
				for j, v := range cf.Form[i].Vs {
					cf.Form[i].Vs[j] = strings.NewReplacer("\r", "_", "\n", "_").Replace(v)
				}
				cf.Form[i].Prior = strings.NewReplacer("\r", "_", "\n", "_").Replace(cf.Form[i].Prior)
				for j := range cf.Form[i].Seq {
					for k, v := range cf.Form[i].Seq[j].Vals {
						cf.Form[i].Seq[j].Vals[k] = strings.NewReplacer("\r", "_", "\n", "_").Replace(v)
					}
				}
			}
		}
		n := r.Range(1, 3)
		for i := 0; i < n; i++ {
			f := fileSpec{Via: r.Intn(4)}
			f.Content = genFileContent(r)
			f.Size = len(f.Content)
			f.Reader = r.PickW(3, 2, 1, 1, 1)
			switch r.Intn(3) {
			case 0:
				f.Name = r.Ident(1, 6) + ".txt"
			case 1:
				f.Name = genVal(r, vFileName, false).S
			default:
				f.Name = uni(r) + ".bin"
			}
			if f.Via == 1 {
				// a real file: keep the name a plain file name
				f.Name = "f" + strconv.Itoa(i) + r.Ident(1, 5) + ".dat"
			}
			if f.Via == 3 {
				// explicit name AND a path (no reader): the explicit name names the part, the file
				// on disk is called differently
				f.DiskName = "d" + strconv.Itoa(i) + r.Ident(1, 5) + ".bin"
			}
			if f.Via == 1 && r.Bool() {
				f.Via = 4 // path only, through AddFiles(AcquireFile(SetFilePath))
			}
			if f.Via >= 2 {
				if r.Chance(2, 3) {
					f.Field = gen.Pick(r, []string{"upload", "doc", "file", "a b", "fé", "q\"t", "b\\s", "x;y=z", "日本", "p%20", genVal(r, vFileName, false).S})
				}
			}
			cf.Files = append(cf.Files, f)
		}
	}
	if cf.Style == 1 {
		cf.toConfigStyle()
	}
	if cf.Style == 0 && cf.Body != bFiles && r.Chance(1, 6) {
		cf.Twice = true
	}
	if cf.Style == 0 && (cf.Body == bFiles || cf.Body == bForm) && len(cf.Form) >= 2 && r.Bool() {
		cf.FormInterleave = true
		// make sure there is something to interleave: the first two keys are added value by value
		for i := 0; i < 2; i++ {
			if len(cf.Form[i].Seq) == 0 {
				cf.Form[i].Mode = 0
				if len(cf.Form[i].Vs) == 1 {
					v := genVal(r, vQuery, true)
					v.S = strings.NewReplacer("\r", "_", "\n", "_").Replace(v.S)
					cf.Form[i].Vs = append(cf.Form[i].Vs, v.S)
					cf.Form[i].Cls = append(cf.Form[i].Cls, v.Class)
				}
			}
		}
	}
	return cf
}

// toConfigStyle restricts the request level to what client.Config can express: single-valued
// maps, one of Body(JSON) / FormData / File.
func (cf *config) toConfigStyle() {
	flat := func(ms []multi) []multi {
		for i := range ms {
			ms[i].Vs = ms[i].Vs[:1]
			ms[i].Cls = ms[i].Cls[:1]
			ms[i].Mode = 2
			ms[i].Prior = ""
			ms[i].Seq, ms[i].SeqClass = nil, ""
		}
		return ms
	}
	cf.Req.Hdr = flat(cf.Req.Hdr)
	cf.Req.Query = flat(cf.Req.Query)
	for i := range cf.Req.Cookies {
		cf.Req.Cookies[i].Mode = 1
	}
	for i := range cf.Req.PathP {
		cf.Req.PathP[i].Mode = 1
	}
	switch cf.Body {
	case bRaw, bXML, bCBOR:
		cf.Body = bNone
		cf.Raw, cf.Doc = "", nil
		cf.Method = "GET"
	case bForm:
		cf.Form = flat(cf.Form)
	case bFiles:
		cf.Form = nil
		for i := range cf.Files {
			if cf.Files[i].Via == 0 {
				cf.Files[i].Via = 2
			}
		}
	}
}

// ---------------------------------------------------------------------------------------------
// building the request with the real API

type builder struct {
	rig *echoRig
	dir string // temp dir for AddFile(path)
}

type hdrAPI interface {
	add(k, v string)
	set(k, v string)
	addMap(m map[string][]string)
	setMap(m map[string]string)
}

type fnAPI struct {
	fadd, fset func(k, v string)
	faddMap    func(m map[string][]string)
	fsetMap    func(m map[string]string)
}

func (f fnAPI) add(k, v string)              { f.fadd(k, v) }
func (f fnAPI) set(k, v string)              { f.fset(k, v) }
func (f fnAPI) addMap(m map[string][]string) { f.faddMap(m) }
func (f fnAPI) setMap(m map[string]string)   { f.fsetMap(m) }

func applyMultis(ms []multi, api hdrAPI) {
	setm := map[string]string{}
	addm := map[string][]string{}
	for _, m := range ms {
		switch m.Mode {
		case 2:
			setm[m.K] = m.Vs[0]
		case 3:
			addm[m.K] = append([]string(nil), m.Vs...)
		}
	}
	// the map calls first or last is irrelevant: keys are distinct within a level
	if len(setm) > 0 {
		api.setMap(setm)
	}
	for _, m := range ms {
		for _, st := range m.Seq {
			switch st.Op {
			case "add":
				api.add(m.K, st.Vals[0])
			case "set":
				api.set(m.K, st.Vals[0])
			case "addmap":
				api.addMap(map[string][]string{m.K: append([]string(nil), st.Vals...)})
			case "setmap":
				api.setMap(map[string]string{m.K: st.Vals[0]})
			}
		}
		if len(m.Seq) > 0 {
			continue
		}
		switch m.Mode {
		case 0:
			for _, v := range m.Vs {
				api.add(m.K, v)
			}
		case 1:
			api.set(m.K, m.Vs[0])
		case 4:
			api.set(m.K, m.Prior)
			api.set(m.K, m.Vs[0])
		}
	}
	if len(addm) > 0 {
		api.addMap(addm)
	}
}

func applySingles(ss []single, set func(k, v string), setMap func(m map[string]string)) {
	m := map[string]string{}
	for _, s := range ss {
		if s.Mode == 1 {
			m[s.K] = s.V
		}
	}
	if len(m) > 0 {
		setMap(m)
	}
	for _, s := range ss {
		if s.Mode == 0 {
			set(s.K, s.V)
		}
	}
}

type sendResult struct {
	err    string
	status int
	p      *parsed
	p2     *parsed // second send of the same Request object (config.Twice)
}

func (b *builder) send(cf *config) sendResult {
	cl := b.rig.newClient()
	if cf.UseBase {
		cl.SetBaseURL(fidBase)
	}
	var jar *client.CookieJar
	if len(cf.Jar) > 0 {
		jar = client.AcquireCookieJar()
		defer client.ReleaseCookieJar(jar)
		const host = "fid.test"
		for _, j := range cf.Jar {
			ck := fasthttp.AcquireCookie()
			ck.SetKey(j.K)
			ck.SetValue(j.V)
			if j.Path != "" {
				ck.SetPath(j.Path)
			}
			switch j.API {
			case 0:
				jar.SetKeyValue(host, j.K, j.V)
			case 1:
				jar.SetByHost([]byte(host), ck)
			default:
				u := fasthttp.AcquireURI()
				_ = u.Parse(nil, []byte(fidBase+"/"))
				jar.Set(u, ck)
				fasthttp.ReleaseURI(u)
			}
			fasthttp.ReleaseCookie(ck)
		}
		cl.SetCookieJar(jar)
	}
	lv := &cf.Client
	applyMultis(lv.Hdr, fnAPI{
		func(k, v string) { cl.AddHeader(k, v) }, func(k, v string) { cl.SetHeader(k, v) },
		func(m map[string][]string) { cl.AddHeaders(m) }, func(m map[string]string) { cl.SetHeaders(m) }})
	applyMultis(lv.Query, fnAPI{
		func(k, v string) { cl.AddParam(k, v) }, func(k, v string) { cl.SetParam(k, v) },
		func(m map[string][]string) { cl.AddParams(m) }, func(m map[string]string) { cl.SetParams(m) }})
	applySingles(lv.Cookies, func(k, v string) { cl.SetCookie(k, v) }, func(m map[string]string) { cl.SetCookies(m) })
	applySingles(lv.PathP, func(k, v string) { cl.SetPathParam(k, v) }, func(m map[string]string) { cl.SetPathParams(m) })
	if lv.UA != "" {
		cl.SetUserAgent(lv.UA)
	}
	if lv.Referer != "" {
		cl.SetReferer(lv.Referer)
	}

	var resp *client.Response
	var err error
	url := cf.url()
	rl := &cf.Req
	if cf.Style == 1 {
		cfg := client.Config{UserAgent: rl.UA, Referer: rl.Referer}
		if len(rl.Hdr) > 0 {
			cfg.Header = map[string]string{}
			for _, m := range rl.Hdr {
				cfg.Header[m.K] = m.Vs[0]
			}
		}
		if len(rl.Query) > 0 {
			cfg.Param = map[string]string{}
			for _, m := range rl.Query {
				cfg.Param[m.K] = m.Vs[0]
			}
		}
		if len(rl.Cookies) > 0 {
			cfg.Cookie = map[string]string{}
			for _, s := range rl.Cookies {
				cfg.Cookie[s.K] = s.V
			}
		}
		if len(rl.PathP) > 0 {
			cfg.PathParam = map[string]string{}
			for _, s := range rl.PathP {
				cfg.PathParam[s.K] = s.V
			}
		}
		switch cf.Body {
		case bJSON:
			cfg.Body = cf.JSONVal
		case bForm:
			cfg.FormData = map[string]string{}
			for _, m := range cf.Form {
				cfg.FormData[m.K] = m.Vs[0]
			}
		case bFiles:
			for _, f := range cf.Files {
				cfg.File = append(cfg.File, b.acquireFile(f))
			}
		}
		resp, err = cl.Custom(url, cf.Method, cfg)
	} else {
		req := cl.R()
		applyMultis(rl.Hdr, fnAPI{
			func(k, v string) { req.AddHeader(k, v) }, func(k, v string) { req.SetHeader(k, v) },
			func(m map[string][]string) { req.AddHeaders(m) }, func(m map[string]string) { req.SetHeaders(m) }})
		applyMultis(rl.Query, fnAPI{
			func(k, v string) { req.AddParam(k, v) }, func(k, v string) { req.SetParam(k, v) },
			func(m map[string][]string) { req.AddParams(m) }, func(m map[string]string) { req.SetParams(m) }})
		applySingles(rl.Cookies, func(k, v string) { req.SetCookie(k, v) }, func(m map[string]string) { req.SetCookies(m) })
		applySingles(rl.PathP, func(k, v string) { req.SetPathParam(k, v) }, func(m map[string]string) { req.SetPathParams(m) })
		if rl.UA != "" {
			req.SetUserAgent(rl.UA)
		}
		if rl.Referer != "" {
			req.SetReferer(rl.Referer)
		}
		switch cf.Body {
		case bRaw:
			req.SetRawBody([]byte(cf.Raw))
		case bJSON:
			req.SetJSON(cf.JSONVal)
		case bXML:
			req.SetXML(cf.Doc)
		case bCBOR:
			req.SetCBOR(cf.Doc)
		case bForm, bFiles:
			form := cf.Form
			if cf.FormInterleave {
				var rest []multi
				var rr []multi
				for _, m := range form {
					if m.Mode == 0 && len(m.Seq) == 0 {
						rr = append(rr, m)
					} else {
						rest = append(rest, m)
					}
				}
				for j := 0; ; j++ {
					any := false
					for _, m := range rr {
						if j < len(m.Vs) {
							req.AddFormData(m.K, m.Vs[j])
							any = true
						}
					}
					if !any {
						break
					}
				}
				form = rest
			}
			applyMultis(form, fnAPI{
				func(k, v string) { req.AddFormData(k, v) }, func(k, v string) { req.SetFormData(k, v) },
				func(m map[string][]string) { req.AddFormDataWithMap(m) }, func(m map[string]string) { req.SetFormDataWithMap(m) }})
			for _, f := range cf.Files {
				switch f.Via {
				case 0:
					req.AddFileWithReader(f.Name, fileReader(f))
				case 1:
					req.AddFile(b.filePath(f))
				default:
					req.AddFiles(b.acquireFile(f))
				}
			}
		}
		resp, err = req.Custom(url, cf.Method)
		if err != nil {
			client.ReleaseRequest(req)
		}
		if err == nil && cf.Twice {
			// the response is not closed (closing releases the request): send the same object again
			first := b.rig.take()
			resp2, err2 := req.Custom(url, cf.Method)
			if err2 != nil {
				resp.Close()
				return sendResult{err: "second send of the same request: " + err2.Error()}
			}
			client.ReleaseResponse(resp2)
			second := b.rig.take()
			out := sendResult{status: resp.StatusCode(), p: first, p2: second}
			resp.Close()
			return out
		}
	}
	out := sendResult{}
	if err != nil {
		out.err = err.Error()
		return out
	}
	out.status = resp.StatusCode()
	resp.Close()
	out.p = b.rig.take()
	return out
}

func (b *builder) filePath(f fileSpec) string {
	n := f.Name
	if f.DiskName != "" {
		n = f.DiskName
	}
	p := filepath.Join(b.dir, n)
	_ = os.WriteFile(p, []byte(f.Content), 0o600)
	return p
}

func (b *builder) acquireFile(f fileSpec) *client.File {
	var set []client.SetFileFunc
	switch f.Via {
	case 1, 4:
		set = []client.SetFileFunc{client.SetFilePath(b.filePath(f))}
	case 3:
		set = []client.SetFileFunc{client.SetFileName(f.Name), client.SetFilePath(b.filePath(f))}
	default:
		set = []client.SetFileFunc{client.SetFileName(f.Name), client.SetFileReader(fileReader(f))}
	}
	if f.Field != "" {
		set = append(set, client.SetFileFieldName(f.Field))
	}
	return client.AcquireFile(set...)
}

// ---------------------------------------------------------------------------------------------
// reference composition (from the client documentation) and comparison

type finding struct {
	sig    string
	what   string
	detail map[string]any
}

func sortedCopy(xs []string) []string {
	c := append([]string(nil), xs...)
	sort.Strings(c)
	return c
}

func eqMultiset(a, b []string) bool {
	if len(a) != len(b) {
		return false
	}
	a, b = sortedCopy(a), sortedCopy(b)
	for i := range a {
		if a[i] != b[i] {
			return false
		}
	}
	return true
}

func hx(ss []string) []string {
	out := make([]string, len(ss))
	for i, s := range ss {
		out[i] = strconv.QuoteToASCII(s)
	}
	return out
}

// worstClass picks the class to name in the signature for a key whose values did not arrive.
func worstClass(vals, cls []string, got []string, repeated bool) string {
	if repeated && len(got) < len(vals) {
		// values of a repeated key were lost: the repetition is the class, whatever the bytes
		return "repeated-key"
	}
	// the class of the first expected value that is not among the received ones
	left := append([]string(nil), got...)
	for i, v := range vals {
		found := -1
		for j, g := range left {
			if g == v {
				found = j
				break
			}
		}
		if found >= 0 {
			left = append(left[:found], left[found+1:]...)
			continue
		}
		if cls[i] == clPlain && repeated {
			return "repeated-key"
		}
		return cls[i]
	}
	if repeated {
		return "repeated-key"
	}
	return "extra-value"
}

func manner(exp, got []string) string {
	switch {
	case len(got) == 0:
		return "missing"
	case len(got) < len(exp):
		return "fewer"
	case len(got) > len(exp):
		return "more"
	}
	return "altered"
}

// judgeMulti compares a multi-map component (headers / query / form) key by key.
// cl, rq: configured at client and request level (additive). extra: literal pairs (URL query).
func judgeMulti(comp string, cl, rq []multi, extra []kv, got []kv, fold bool, exactKeys bool) []finding {
	norm := func(k string) string {
		if fold {
			return strings.ToLower(k)
		}
		return k
	}
	type exp struct {
		vals, cls    []string
		nCl, nRq     int
		clSeq, rqSeq string // class of the call sequence that built the key at each level
		clVals, rqVs []string
	}
	want := map[string]*exp{}
	var order []string
	get := func(k string) *exp {
		k = norm(k)
		e := want[k]
		if e == nil {
			e = &exp{}
			want[k] = e
			order = append(order, k)
		}
		return e
	}
	for _, q := range extra {
		e := get(q.K)
		e.vals = append(e.vals, q.V)
		e.cls = append(e.cls, classOf(q.V))
	}
	for _, m := range cl {
		e := get(m.K)
		e.vals = append(e.vals, m.Vs...)
		e.cls = append(e.cls, m.Cls...)
		e.nCl += len(m.Vs)
		e.clVals = append(e.clVals, m.Vs...)
		if m.SeqClass != "" {
			e.clSeq = m.SeqClass
		}
	}
	for _, m := range rq {
		e := get(m.K)
		e.vals = append(e.vals, m.Vs...)
		e.cls = append(e.cls, m.Cls...)
		e.nRq += len(m.Vs)
		e.rqVs = append(e.rqVs, m.Vs...)
		if m.SeqClass != "" {
			e.rqSeq = m.SeqClass
		}
	}
	gotBy := map[string][]string{}
	var gotOrder []string
	for _, g := range got {
		k := norm(g.K)
		if _, ok := gotBy[k]; !ok {
			gotOrder = append(gotOrder, k)
		}
		gotBy[k] = append(gotBy[k], g.V)
	}
	var out []finding
	for _, k := range order {
		e := want[k]
		g := gotBy[k]
		if eqMultiset(e.vals, g) {
			continue
		}
		det := map[string]any{"component": comp, "key": strconv.QuoteToASCII(k), "expected": hx(e.vals), "received": hx(g)}
		if e.nCl > 0 && e.nRq > 0 && (eqMultiset(g, e.rqVs) || eqMultiset(g, e.clVals)) {
			out = append(out, finding{"precedence|" + comp + "|not-additive",
				comp + " configured at both levels must be sent in addition, only one level arrived", det})
			continue
		}
		cls := worstClass(e.vals, e.cls, g, len(e.vals) > 1)
		if comp == "header" && (k == "user-agent" || k == "referer" || k == "accept") {
			// a header that also has a dedicated setter / an automatic value, configured through the
			// generic header API
			out = append(out, finding{"fidelity|header|special-name-overwritten|" + k,
				fmt.Sprintf("header %q configured through the header API did not arrive with the configured value", k), det})
			continue
		}
		if e.clSeq != "" || e.rqSeq != "" {
			// the key was built by a sequence of Add/Set calls: that, and the level, is the class
			switch {
			case e.rqSeq == "":
				cls = e.clSeq + "|client-level"
			case e.clSeq == "":
				cls = e.rqSeq + "|request-level"
			default:
				// sequences at both levels: whose earlier values are the surplus ones?
				switch lv := surplusLevel(e.vals, g, seqOf(cl, k, fold), seqOf(rq, k, fold)); lv {
				case "client-level":
					cls = e.clSeq + "|" + lv
				case "request-level":
					cls = e.rqSeq + "|" + lv
				default:
					cls = e.clSeq + "|" + lv
					if e.rqSeq == "set-over-multiple-values" {
						cls = e.rqSeq + "|" + lv
					}
				}
			}
			det["sequence"] = map[string]any{"client": seqOf(cl, k, fold), "request": seqOf(rq, k, fold)}
		}
		out = append(out, finding{"fidelity|" + comp + "|" + manner(e.vals, g) + "|" + cls,
			fmt.Sprintf("%s %q did not arrive with the configured value(s)", comp, k), det})
	}
	if exactKeys {
		for _, k := range gotOrder {
			if _, ok := want[k]; !ok {
				out = append(out, finding{"fidelity|" + comp + "|unconfigured-key-arrived",
					fmt.Sprintf("%s %q arrived but was never configured", comp, k),
					map[string]any{"component": comp, "key": strconv.QuoteToASCII(k), "received": hx(gotBy[k])}})
			}
		}
	}
	return out
}

// pathWith composes the path. mode 0: request level wins (the documented rule); 1: client level
// wins; 2: request level wins unless its value is empty (classification of observed failures).
// surplusLevel attributes the values that arrived beyond the expected ones to the call sequence
// (client or request level) they were once given in.
func surplusLevel(want, got []string, clSeq, rqSeq []seqStep) string {
	left := append([]string(nil), got...)
	for _, w := range want {
		for i, g := range left {
			if g == w {
				left = append(left[:i], left[i+1:]...)
				break
			}
		}
	}
	in := func(seq []seqStep, v string) bool {
		for _, st := range seq {
			for _, x := range st.Vals {
				if x == v {
					return true
				}
			}
		}
		return false
	}
	c, r := 0, 0
	for _, v := range left {
		if in(clSeq, v) {
			c++
		}
		if in(rqSeq, v) {
			r++
		}
	}
	switch {
	case len(left) > 0 && c == len(left) && r < len(left):
		return "client-level"
	case len(left) > 0 && r == len(left) && c < len(left):
		return "request-level"
	}
	return "both-levels"
}

func seqOf(ms []multi, k string, fold bool) []seqStep {
	for _, m := range ms {
		mk := m.K
		if fold {
			mk = strings.ToLower(mk)
		}
		if mk == k {
			return m.Seq
		}
	}
	return nil
}

func (cf *config) pathWith(mode int) string {
	val := func(name string) (string, bool) {
		var a, b []single
		if mode != 1 {
			a, b = cf.Req.PathP, cf.Client.PathP
		} else {
			a, b = cf.Client.PathP, cf.Req.PathP
		}
		for _, s := range a {
			if s.K == name && !(mode == 2 && s.V == "") {
				return s.V, true
			}
		}
		for _, s := range b {
			if s.K == name {
				return s.V, true
			}
		}
		return "", false
	}
	var sb strings.Builder
	for _, t := range cf.Tmpl {
		if t.Param == "" {
			sb.WriteString(t.Lit)
			continue
		}
		if v, ok := val(t.Param); ok {
			sb.WriteString(v)
		} else {
			sb.WriteString(":" + t.Param)
		}
	}
	return sb.String()
}

// usedPathValues: the values that fill placeholders of the template (request level first).
func (cf *config) usedPathValues() map[string]string {
	out := map[string]string{}
	for _, t := range cf.Tmpl {
		if t.Param == "" {
			continue
		}
		for _, lv := range []*level{&cf.Client, &cf.Req} {
			for _, s := range lv.PathP {
				if s.K == t.Param {
					out[t.Param] = s.V
				}
			}
		}
	}
	return out
}

func (cf *config) pathValueHas(sub string) bool {
	for _, v := range cf.usedPathValues() {
		if strings.Contains(v, sub) {
			return true
		}
	}
	return false
}

// hostilePathClass names the URL-special byte class in a used path-parameter value.
func (cf *config) hostilePathClass() string {
	pct := false
	for _, v := range cf.usedPathValues() {
		for i := 0; i+2 < len(v); i++ {
			if v[i] == '%' && unhex(v[i+1]) >= 0 && unhex(v[i+2]) >= 0 {
				pct = true
			}
		}
	}
	switch {
	case cf.pathValueHas("?"):
		return "question-mark"
	case cf.pathValueHas("#"):
		return "hash"
	case pct:
		return "percent-escape"
	}
	return ""
}

// resubstituted: a used value contains ":name" of another configured parameter.
func (cf *config) resubstituted() bool {
	for _, v := range cf.usedPathValues() {
		for _, n := range cf.pathNames() {
			if strings.Contains(v, ":"+n) {
				return true
			}
		}
	}
	return false
}

func (cf *config) pathNames() []string {
	seen := map[string]bool{}
	var ns []string
	add := func(n string) {
		if !seen[n] {
			seen[n] = true
			ns = append(ns, n)
		}
	}
	for _, t := range cf.Tmpl {
		if t.Param != "" {
			add(t.Param)
		}
	}
	for _, s := range cf.Client.PathP {
		add(s.K)
	}
	for _, s := range cf.Req.PathP {
		add(s.K)
	}
	return ns
}

func (cf *config) prefixNames() bool {
	ns := cf.pathNames()
	for i := range ns {
		for j := range ns {
			if prefixRelated(ns[i], ns[j]) {
				return true
			}
		}
	}
	return false
}

func (cf *config) pathClass() string {
	cls := clPlain
	rank := map[string]int{clPlain: 0, clEscape: 1, clUnicode: 2}
	for _, lv := range []*level{&cf.Client, &cf.Req} {
		for _, s := range lv.PathP {
			if rank[s.Cl] > rank[cls] {
				cls = s.Cl
			}
		}
	}
	return cls
}

func pick1(a, b string) string {
	if a != "" {
		return a
	}
	return b
}

// judge compares what arrived with the reference composition.
func (cf *config) judge(p *parsed) []finding {
	var out []finding
	if p.Method != cf.Method {
		out = append(out, finding{"fidelity|method|altered", "method differs",
			map[string]any{"expected": cf.Method, "received": p.Method}})
	}
	// path
	if want := cf.pathWith(0); p.Path != want {
		det := map[string]any{"template": cf.rawTemplate(), "client": cf.Client.PathP, "request": cf.Req.PathP,
			"expected": strconv.QuoteToASCII(want), "received": strconv.QuoteToASCII(p.Path), "raw_uri": strconv.QuoteToASCII(p.RawURI)}
		hostile := cf.hostilePathClass()
		switch {
		case cf.resubstituted():
			out = append(out, finding{"fidelity|path-param|value-substituted-again",
				"a path-parameter value that contains \":name\" of another parameter was substituted a second time", det})
		case hostile != "":
			out = append(out, finding{"fidelity|path-param|value-needs-escaping|" + hostile,
				"a path-parameter value with a byte that is special in a URL did not arrive as a path segment with that value", det})
		case p.Path == cf.pathWith(2):
			out = append(out, finding{"precedence|path-param|empty-request-value", "an empty request-level path parameter did not override the client-level value", det})
		case p.Path == cf.pathWith(1):
			out = append(out, finding{"precedence|path-param", "client-level path parameter won over the request-level one", det})
		case cf.prefixNames():
			out = append(out, finding{"fidelity|path-param|prefix-names",
				"a placeholder was filled with the value of a parameter whose name is a prefix of its name", det})
		default:
			out = append(out, finding{"fidelity|path-param|altered|" + cf.pathClass(), "path differs from template with parameters substituted", det})
		}
	}
	if cf.HostPort != "" {
		for _, h := range p.Hdr {
			if h.K == "host" && h.V != cf.HostPort {
				out = append(out, finding{"fidelity|path-param|substituted-in-host-port", "path-parameter substitution ran over the authority of the URL",
					map[string]any{"url": cf.url(), "host_header": h.V, "client": cf.Client.PathP, "request": cf.Req.PathP}})
			}
		}
	}
	// query: URL literal + client + request, additive
	qf := judgeMulti("query", cf.Client.Query, cf.Req.Query, cf.URLQuery, p.Query, false, !cf.pathValueHas("?"))
	urlQ := false
	for _, q := range cf.URLQuery {
		if strings.Contains(q.V, "?") {
			urlQ = true
		}
	}
	if urlQ && len(qf) > 0 {
		// one class of its own: the caller's URL has a second '?' inside its query
		qf = []finding{{"fidelity|query|url-with-second-question-mark", "the query of the URL given by the caller was cut at its second '?'",
			map[string]any{"url": cf.url(), "received": p.Query}}}
	}
	out = append(out, qf...)
	// headers: configured keys must carry exactly the configured values
	var hdrGot []kv
	conf := map[string]bool{}
	for _, lv := range []*level{&cf.Client, &cf.Req} {
		for _, m := range lv.Hdr {
			conf[strings.ToLower(m.K)] = true
		}
	}
	for _, h := range p.Hdr {
		if conf[h.K] || strings.HasPrefix(h.K, "x-") {
			hdrGot = append(hdrGot, h)
		}
	}
	out = append(out, judgeMulti("header", cf.Client.Hdr, cf.Req.Hdr, nil, hdrGot, true, true)...)
	// user agent / referer
	hv := func(name string) ([]string, bool) {
		var vs []string
		for _, h := range p.Hdr {
			if h.K == name {
				vs = append(vs, h.V)
			}
		}
		return vs, len(vs) > 0
	}
	for _, x := range []struct{ comp, name, cl, rq string }{
		{"user-agent", "user-agent", cf.Client.UA, cf.Req.UA}, {"referer", "referer", cf.Client.Referer, cf.Req.Referer}} {
		want := pick1(x.rq, x.cl)
		if want == "" {
			// nothing configured: a referer must not appear from nowhere (the user agent has a
			// default, which is not judged)
			if got, _ := hv(x.name); x.comp == "referer" && !conf["referer"] && len(got) > 0 && strings.Join(got, "") != "" {
				out = append(out, finding{"fidelity|referer|unconfigured-value-arrived", "a Referer arrived although none is configured at either level",
					map[string]any{"received": hx(got)}})
			}
			continue
		}
		got, _ := hv(x.name)
		if len(got) == 1 && got[0] == want {
			continue
		}
		det := map[string]any{"client_level": strconv.QuoteToASCII(x.cl), "request_level": strconv.QuoteToASCII(x.rq), "received": hx(got)}
		if x.rq != "" && x.cl != "" && x.cl != x.rq && len(got) == 1 && got[0] == x.cl {
			out = append(out, finding{"precedence|" + x.comp, "client-level value won over the request-level one", det})
		} else {
			out = append(out, finding{"fidelity|" + x.comp + "|" + manner([]string{want}, got) + "|" + classOf(want), x.comp + " did not arrive with the configured value", det})
		}
	}
	// cookies: client-level overridden by request-level per name
	wantCk := map[string]single{}
	var ckOrder []string
	both := map[string]string{}
	for _, s := range cf.Client.Cookies {
		wantCk[s.K] = s
		ckOrder = append(ckOrder, s.K)
	}
	for _, s := range cf.Req.Cookies {
		if prev, ok := wantCk[s.K]; ok {
			both[s.K] = prev.V
		} else {
			ckOrder = append(ckOrder, s.K)
		}
		wantCk[s.K] = s
	}
	gotCk := map[string][]string{}
	for _, c := range p.Cookies {
		gotCk[c.K] = append(gotCk[c.K], c.V)
	}
	for _, k := range ckOrder {
		w := wantCk[k]
		g := gotCk[k]
		if len(g) == 1 && g[0] == w.V {
			continue
		}
		det := map[string]any{"name": k, "expected": strconv.QuoteToASCII(w.V), "received": hx(g)}
		jarV, inJar := "", false
		for _, j := range cf.Jar {
			if j.K == k {
				jarV, inJar = j.V, true
			}
		}
		if cv, ok := both[k]; ok && cv != w.V && len(g) == 1 && g[0] == cv {
			out = append(out, finding{"precedence|cookie", "client-level cookie won over the request-level one", det})
		} else if inJar && len(g) == 1 && g[0] == jarV {
			det["jar_value"] = jarV
			out = append(out, finding{"precedence|cookie|jar-over-configured", "the cookie jar's cookie of the same name replaced an explicitly configured cookie", det})
		} else {
			out = append(out, finding{"fidelity|cookie|" + manner([]string{w.V}, g) + "|" + w.Cl, "cookie did not arrive with the configured value", det})
		}
	}
	jarName := map[string]bool{}
	for _, j := range cf.Jar {
		jarName[j.K] = true
	}
	for _, c := range p.Cookies {
		if _, ok := wantCk[c.K]; !ok && !jarName[c.K] {
			out = append(out, finding{"fidelity|cookie|unconfigured-key-arrived", "a cookie arrived that was never configured",
				map[string]any{"name": strconv.QuoteToASCII(c.K), "received": hx(gotCk[c.K])}})
			break
		}
	}
	// body
	switch cf.Body {
	case bNone:
		if p.Body != "" {
			out = append(out, finding{"fidelity|body|unconfigured-body-arrived", "a body arrived although none was configured",
				map[string]any{"received": strconv.QuoteToASCII(p.Body)}})
		}
	case bRaw:
		if p.Body != cf.Raw {
			out = append(out, finding{"fidelity|body|altered|raw", "raw body differs",
				map[string]any{"expected": strconv.QuoteToASCII(cf.Raw), "received": strconv.QuoteToASCII(p.Body)}})
		}
	case bJSON:
		var got any
		wantB, _ := json.Marshal(cf.JSONVal)
		var want any
		_ = json.Unmarshal(wantB, &want)
		if err := json.Unmarshal([]byte(p.Body), &got); err != nil || !reflect.DeepEqual(got, want) {
			out = append(out, finding{"fidelity|body|altered|json", "JSON body does not decode to the configured value",
				map[string]any{"expected": string(wantB), "received": strconv.QuoteToASCII(p.Body)}})
		}
	case bXML:
		var got xmlDoc
		if err := xml.Unmarshal([]byte(p.Body), &got); err != nil || got.A != cf.Doc.A || got.B != cf.Doc.B || !eqOrdered(got.C, cf.Doc.C) {
			out = append(out, finding{"fidelity|body|altered|xml", "XML body does not decode to the configured value",
				map[string]any{"expected": cf.Doc, "received": strconv.QuoteToASCII(p.Body)}})
		}
	case bCBOR:
		var got xmlDoc
		if err := cbor.Unmarshal([]byte(p.Body), &got); err != nil || got.A != cf.Doc.A || got.B != cf.Doc.B || !eqOrdered(got.C, cf.Doc.C) {
			out = append(out, finding{"fidelity|body|altered|cbor", "CBOR body does not decode to the configured value",
				map[string]any{"expected": cf.Doc, "received": strconv.QuoteToASCII(p.Body)}})
		}
	case bForm:
		if !p.IsURLEnc {
			out = append(out, finding{"fidelity|form|content-type", "form body without urlencoded content type", map[string]any{"ct": p.CT}})
		}
		out = append(out, judgeMulti("form", nil, cf.Form, nil, p.Form, false, true)...)
	case bFiles:
		if !p.IsMulti || p.FormErr != "" {
			out = append(out, finding{"fidelity|file|multipart-unreadable", "multipart body could not be parsed by the server",
				map[string]any{"ct": p.CT, "err": p.FormErr}})
			break
		}
		out = append(out, judgeMulti("form", nil, cf.Form, nil, p.Form, false, true)...)
		left := append([]filePart(nil), p.Files...)
		for i, f := range cf.Files {
			h := hashHex([]byte(f.Content))
			found := -1
			for j, g := range left {
				if g.Name == f.Name && g.Hash == h && (f.Field == "" || g.Field == f.Field) {
					found = j
					break
				}
			}
			if found >= 0 {
				left = append(left[:found], left[found+1:]...)
				continue
			}
			cls := classOf(f.Name)
			if f.Field != "" && classOf(f.Field) != clPlain {
				cls = "field-" + classOf(f.Field)
			}
			if f.Via == 3 && !strings.ContainsAny(f.Name+f.Field, "\"\\") {
				cls = "explicit-name-with-path"
			}
			if strings.ContainsAny(f.Name+f.Field, "\"\\") {
				cls = "quote-or-backslash-in-name"
			}
			// name and field arrived, the bytes did not: the reader's behaviour is the class
			for _, g := range p.Files {
				if g.Name == f.Name && (f.Field == "" || g.Field == f.Field) && g.Hash != h && (f.Via == 0 || f.Via == 2) {
					cls = "content|reader-" + []string{"plain", "data-with-eof", "one-byte", "half-reads", "zero-length-reads"}[f.Reader]
					break
				}
			}
			out = append(out, finding{"fidelity|file|missing-or-altered|" + cls, "file part did not arrive with name, field and content",
				map[string]any{"index": i, "field": f.Field, "name": strconv.QuoteToASCII(f.Name), "hash": h, "size": len(f.Content), "reader": f.Reader, "received": p.Files}})
		}
		if len(left) > 0 && len(out) == 0 {
			out = append(out, finding{"fidelity|file|unconfigured-part-arrived", "more file parts than configured", map[string]any{"extra": left}})
		}
	}
	return out
}

func eqOrdered(a, b []string) bool {
	if len(a) != len(b) {
		return false
	}
	for i := range a {
		if a[i] != b[i] {
			return false
		}
	}
	return true
}

// canon renders the semantic content of a parsed request by component (determinism oracle):
// per-key ORDERED value lists, cookie map, file parts, body. Header order, the multipart boundary
// and byte-level encoding are not part of it.
func (p *parsed) canon() map[string]string {
	out := map[string]string{}
	out["method"] = p.Method
	out["path"] = p.Path
	group := func(kvs []kv, skip func(k string) bool) string {
		by := map[string][]string{}
		var ks []string
		for _, x := range kvs {
			if skip != nil && skip(x.K) {
				continue
			}
			if _, ok := by[x.K]; !ok {
				ks = append(ks, x.K)
			}
			by[x.K] = append(by[x.K], x.V)
		}
		sort.Strings(ks)
		var sb strings.Builder
		for _, k := range ks {
			sb.WriteString(strconv.QuoteToASCII(k) + "=" + strings.Join(hx(by[k]), ",") + ";")
		}
		return sb.String()
	}
	out["query"] = group(p.Query, nil)
	out["header"] = group(p.Hdr, func(k string) bool {
		if k == "cookie" {
			return true
		}
		return p.IsMulti && (k == "content-type" || k == "content-length")
	})
	out["cookie"] = group(p.Cookies, nil)
	out["form"] = group(p.Form, nil)
	var fs []string
	for _, f := range p.Files {
		fs = append(fs, strconv.QuoteToASCII(f.Field)+"/"+strconv.QuoteToASCII(f.Name)+"/"+f.Hash)
	}
	out["file"] = strings.Join(fs, ";")
	if !p.IsMulti && !p.IsURLEnc {
		// a form body is judged as its parsed fields (pair order across keys is not semantic)
		out["body"] = strconv.QuoteToASCII(p.Body)
	}
	return out
}

// mapCalls is true when the configuration goes through Go maps with ≥ 2 entries somewhere
// (the only source of build-to-build variation the client has).
func (cf *config) mapCalls() bool {
	n := 0
	for _, lv := range []*level{&cf.Client, &cf.Req} {
		if len(lv.PathP) >= 2 || len(lv.Cookies) >= 2 {
			n++
		}
		for _, ms := range [][]multi{lv.Hdr, lv.Query} {
			c := 0
			for _, m := range ms {
				if m.Mode == 2 || m.Mode == 3 {
					c++
				}
			}
			if c >= 2 {
				n++
			}
		}
	}
	c := 0
	for _, m := range cf.Form {
		if m.Mode == 2 || m.Mode == 3 {
			c++
		}
	}
	if c >= 2 {
		n++
	}
	if len(cf.Client.PathP)+len(cf.Req.PathP) >= 2 {
		n++
	}
	return n > 0
}

func multiKeyMap(ms []multi) bool {
	c := 0
	for _, m := range ms {
		if m.Mode == 2 || m.Mode == 3 {
			c++
		}
	}
	return c >= 2
}

func (cf *config) kindsBothLevels() int {
	n := 0
	if len(cf.Client.Hdr) > 0 && len(cf.Req.Hdr) > 0 {
		n++
	}
	if len(cf.Client.Query) > 0 && len(cf.Req.Query) > 0 {
		n++
	}
	if len(cf.Client.Cookies) > 0 && len(cf.Req.Cookies) > 0 {
		n++
	}
	if len(cf.Client.PathP) > 0 && len(cf.Req.PathP) > 0 {
		n++
	}
	if cf.Client.UA != "" && cf.Req.UA != "" {
		n++
	}
	if cf.Client.Referer != "" && cf.Req.Referer != "" {
		n++
	}
	return n
}

// ---------------------------------------------------------------------------------------------
// engine

type fidEngine struct {
	e *ev.Env
	b *builder
}

func (fe *fidEngine) runConfig(c *ev.Case, cf *config, builds int) {
	e := fe.e
	var first map[string]string
	reported := map[string]bool{}
	report := func(f finding) {
		if reported[f.sig] {
			return
		}
		reported[f.sig] = true
		f.detail["config"] = cf
		e.Violation(c, f.sig, f.what, f.detail)
	}
	for i := 0; i < builds; i++ {
		res := fe.b.send(cf)
		e.Eval(1)
		if res.err != "" {
			report(finding{"fidelity|send-error|" + sigWord(res.err), "the client refused or failed to send the configured request",
				map[string]any{"error": res.err}})
			return
		}
		if res.p == nil {
			report(finding{"fidelity|not-delivered", "no request reached the server", map[string]any{"status": res.status}})
			return
		}
		for _, f := range cf.judge(res.p) {
			report(f)
		}
		cn := res.p.canon()
		if cf.Twice && res.p2 != nil {
			c2 := res.p2.canon()
			for _, comp := range []string{"method", "path", "query", "header", "cookie", "form", "file", "body"} {
				if c2[comp] != cn[comp] {
					report(finding{"determinism|same-request-sent-twice|" + comp, "the same Request object sent twice produced two different requests",
						map[string]any{"component": comp, "first_send": cn[comp], "second_send": c2[comp]}})
				}
			}
		} else if cf.Twice {
			report(finding{"determinism|same-request-sent-twice|not-delivered", "the second send of the same Request did not reach the server", map[string]any{}})
		}
		if first == nil {
			first = cn
			if i == 0 {
				e.Sample("request", map[string]any{"config": cf, "raw_uri": strconv.QuoteToASCII(res.p.RawURI)})
			}
			continue
		}
		for _, comp := range []string{"method", "path", "query", "header", "cookie", "form", "file", "body"} {
			if cn[comp] == first[comp] {
				continue
			}
			sig := "determinism|" + comp
			if comp == "path" && cf.prefixNames() {
				sig = "determinism|path-params-prefix-names"
			}
			report(finding{sig, "two builds of the same configuration produced different requests",
				map[string]any{"component": comp, "build0": first[comp], "build_i": cn[comp], "i": i}})
		}
	}
	if builds >= 32 {
		e.Stat("determinism_configs_32_builds", 1)
	}
	if cf.kindsBothLevels() >= 2 {
		e.Nontrivial("fid", c.ID)
		e.Stat("both_levels_2kinds", 1)
	}
	if cf.prefixNames() {
		e.Stat("prefix_name_configs", 1)
	}
	for _, j := range cf.Jar {
		for _, lv := range []*level{&cf.Client, &cf.Req} {
			for _, ck := range lv.Cookies {
				if ck.K == j.K {
					e.Stat("jar_cookie_under_configured_name", 1)
				}
			}
		}
	}
}

func sigWord(s string) string {
	s = strings.Map(func(r rune) rune {
		switch {
		case r >= '0' && r <= '9':
			return -1
		case r == ' ' || r == '|' || r == ':':
			return '-'
		}
		return r
	}, s)
	if len(s) > 60 {
		s = s[:60]
	}
	return s
}

func runFidelity(e *ev.Env) {
	// the client allocates a 1 MiB copy buffer per multipart request; keep the collector calm
	// ... but bounded: with a high GC percentage alone the heap may grow to a multiple of the live
	// set, and the live set includes fasthttp's pooled body buffers, which grow to the largest
	// upload (several MiB with the 1 MiB files). The soft limit makes the collector run whenever
	// the process approaches it, whatever the percentage says.
	debug.SetGCPercent(400)
	debug.SetMemoryLimit(768 << 20)
	defer recordMaxRSS(e)
	rig := newEchoRig()
	defer rig.close()
	dir, err := os.MkdirTemp("", "vh-client-")
	if err != nil {
		e.Inconclusive("no temp dir: " + err.Error())
		return
	}
	defer os.RemoveAll(dir)
	fe := &fidEngine{e: e, b: &builder{rig: rig, dir: dir}}

	fidelityCorpus(fe)

	e.Cases("fid", e.N(5000, 500000), func(c *ev.Case) {
		cf := genConfig(c.R)
		builds := 2
		if cf.mapCalls() {
			builds = 32
			if cf.Body == bFiles && !multiKeyMap(cf.Form) {
				// every multipart build costs a 1 MiB buffer in the client; the map-borne parts of
				// such a configuration are the same as in the other body kinds
				builds = 4
			}
		}
		for _, f := range cf.Files {
			if len(f.Content) > 64<<10 && builds > 2 {
				builds = 2
			}
		}
		fe.runConfig(c, cf, builds)
	})
	// typed values through the ...WithStruct setters
	e.Cases("structs", e.N(1500, 150000), func(c *ev.Case) { fe.runStructs(c) })
	e.Stat("server_requests", int64(rig.n))
}
