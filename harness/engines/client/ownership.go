package clienteng

import (
	"context"
	"errors"
	"fmt"
	"net"
	"os"
	"runtime"
	"strconv"
	"strings"
	"sync"
	"sync/atomic"
	"time"

	"github.com/gofiber/fiber/v3"
	"github.com/gofiber/fiber/v3/client"
	"github.com/valyala/fasthttp"
	"github.com/valyala/fasthttp/fasthttputil"

	"verifharness/internal/ev"
	"verifharness/internal/gen"
	"verifharness/internal/sched"
	"verifharness/internal/vt"
)

// ---------------------------------------------------------------------------------------------
// Ownership: every request carries a unique id that the server echoes in the body after a
// (virtual) delay. What Send hands back must echo the id of that request, or the call must fail
// with ErrTimeoutOrCancel.

type ownRig struct {
	app *fiber.App
	ln  *fasthttputil.InmemoryListener
	fc  *fasthttp.Client
	cl  *client.Client
	n   atomic.Int64
}

func newOwnRig(realSleep bool) *ownRig {
	r := &ownRig{}
	r.app = fiber.New()
	r.app.Get("/o/:id", func(c fiber.Ctx) error {
		r.n.Add(1)
		id := strings.Clone(c.Params("id"))
		if d, _ := strconv.Atoi(c.Query("d")); d > 0 {
			time.Sleep(time.Duration(d) * time.Millisecond)
		}
		if realSleep {
			// race mode: every response also sets cookies, so that a shared jar is written
			// (parseCookiesFromResp) while other requests read it (dumpCookiesToReq)
			c.Response().Header.Add("Set-Cookie", "last="+id+"; Path=/")
			c.Response().Header.Add("Set-Cookie", "k"+strconv.Itoa(int(r.n.Load()%7))+"="+id+"; Path=/o")
		}
		return c.SendString("id=" + id)
	})
	r.ln = fasthttputil.NewInmemoryListener()
	go func() { _ = r.app.Listener(r.ln, fiber.ListenConfig{DisableStartupMessage: true}) }()
	r.fc = &fasthttp.Client{}
	r.fc.Dial = func(addr string) (net.Conn, error) {
		// a host "fail-<ms>-<id>.test" has a transport that fails after <ms> (virtual or real) ms
		if ms, ok := failHostMs(addr); ok {
			time.Sleep(time.Duration(ms) * time.Millisecond)
			return nil, fmt.Errorf("%s%s", failMarker, addr)
		}
		return r.ln.Dial()
	}
	r.cl = client.NewWithClient(r.fc)
	return r
}

const failMarker = "harness: transport failed for "

func failHost(ms int, id string) string { return "fail-" + strconv.Itoa(ms) + "-" + id + ".test" }

func failHostMs(addr string) (int, bool) {
	if !strings.HasPrefix(addr, "fail-") {
		return 0, false
	}
	rest := addr[len("fail-"):]
	i := strings.IndexByte(rest, '-')
	if i < 0 {
		return 0, false
	}
	ms, err := strconv.Atoi(rest[:i])
	return ms, err == nil
}

func (r *ownRig) close() {
	r.fc.CloseIdleConnections()
	_ = r.ln.Close()
}

type ownReq struct {
	ID        string `json:"id"`
	DelayMs   int    `json:"delay_ms"`
	TimeoutMs int    `json:"timeout_ms"`       // 0 = none
	Cancel    bool   `json:"cancel,omitempty"` // the request's context is cancelled by the canceller worker
	ClientTO  bool   `json:"client_level_timeout,omitempty"`
	// FailMs > 0: the request goes to a host whose transport (dial) fails after FailMs ms
	FailMs int `json:"transport_fails_after_ms,omitempty"`
}

type ownResult struct {
	Req     ownReq `json:"req"`
	Worker  int    `json:"worker"`
	Err     string `json:"err,omitempty"`
	Timeout bool   `json:"timeout_or_cancel"`
	Body    string `json:"body"`
	Status  int    `json:"status"`
	AtMs    int64  `json:"returned_at_ms"`
	// a completing goroutine was parked at client.doneWon when this call returned its timeout
	WhileParked bool `json:"returned_while_goroutine_parked,omitempty"`
}

func doOwnReq(cl *client.Client, rq ownReq, ctx context.Context) (res ownResult) {
	res.Req = rq
	req := cl.R()
	if ctx != nil {
		req.SetContext(ctx)
	}
	if rq.TimeoutMs > 0 && !rq.ClientTO {
		req.SetTimeout(time.Duration(rq.TimeoutMs) * time.Millisecond)
	}
	host := "own.test"
	if rq.FailMs > 0 {
		host = failHost(rq.FailMs, rq.ID)
	}
	resp, err := req.Get("http://" + host + "/o/" + rq.ID + "?d=" + strconv.Itoa(rq.DelayMs))
	if err != nil {
		res.Err = err.Error()
		res.Timeout = errors.Is(err, client.ErrTimeoutOrCancel)
		client.ReleaseRequest(req)
		return res
	}
	res.Body = string(resp.Body())
	res.Status = resp.StatusCode()
	resp.Close()
	return res
}

// judgeOwn applies the id oracle to the results of one execution.
// stress: real-parallel run (no scheduler): the class names the workload instead of the schedule.
func judgeOwn(results []ownResult, stress bool) []finding {
	byID := map[string]*ownResult{}
	for i := range results {
		byID[results[i].Req.ID] = &results[i]
	}
	anyHeld := false
	for _, r := range results {
		if r.WhileParked {
			anyHeld = true
		}
	}
	var out []finding
	for _, r := range results {
		det := map[string]any{"request": r.Req, "result": r}
		switch {
		case r.Err != "" && r.Timeout:
			if r.Req.TimeoutMs == 0 && !r.Req.Cancel {
				out = append(out, finding{"ownership|timeout-error-without-timeout-or-cancel", "a request without timeout and without cancellation failed with ErrTimeoutOrCancel", det})
			}
		case r.Err != "" && r.Req.FailMs > 0 && strings.Contains(r.Err, failMarker+failHost(r.Req.FailMs, r.Req.ID)):
			// its own transport error
		case r.Err != "" && strings.Contains(r.Err, failMarker):
			// the transport error of ANOTHER request: an error is a result like a response, and it
			// belongs to the request whose transport produced it
			cls := "other"
			var owner *ownResult
			for i := range results {
				o := &results[i]
				if o.Req.FailMs > 0 && strings.Contains(r.Err, failMarker+failHost(o.Req.FailMs, o.Req.ID)) {
					owner = o
				}
			}
			switch {
			case stress:
				cls = "concurrent-timeouts-and-cancellations"
			case owner != nil && owner.Timeout:
				cls = "pooled-error-channel-reused-after-timeout"
			}
			if owner != nil {
				det["owner_of_the_error"] = owner
			}
			out = append(out, finding{"ownership|error-of-other-request|" + cls,
				fmt.Sprintf("request %s returned the transport error of another request: %s", r.Req.ID, r.Err), det})
		case r.Err != "":
			out = append(out, finding{"ownership|unexpected-error|" + sigWord(r.Err), "the call failed with an error other than ErrTimeoutOrCancel", det})
		case r.Req.FailMs > 0:
			out = append(out, finding{"ownership|response-for-failed-transport", "a request whose transport failed was handed a response", det})
		case r.Body == "id="+r.Req.ID:
		default:
			other := byID[strings.TrimPrefix(r.Body, "id=")]
			// One root cause, one class: once a caller has left (timeout / cancel) while its
			// completing goroutine was held at client.doneWon, that goroutine writes into a pooled
			// Response and error channel it no longer owns; every foreign or empty response of
			// the same execution is this or a consequence of it (the robbed request's own
			// completion arrives late in turn).
			cls := "no-goroutine-held-at-hook"
			switch {
			case stress:
				cls = "concurrent-timeouts-and-cancellations"
			case anyHeld:
				cls = "pooled-response-reused-after-timeout"
			}
			if other != nil {
				det["other"] = other
				out = append(out, finding{"ownership|response-of-other-request|" + cls,
					fmt.Sprintf("request %s was handed the response of request %s", r.Req.ID, other.Req.ID), det})
			} else {
				what := "empty"
				if r.Body != "" {
					what = "unknown-id"
				}
				out = append(out, finding{"ownership|response-without-own-id|" + what + "|" + cls,
					fmt.Sprintf("request %s was handed a response that does not carry its id (status %d, body %q)", r.Req.ID, r.Status, r.Body), det})
			}
		}
	}
	return out
}

// ---------------------------------------------------------------------------------------------
// scenarios

type ownScenario struct {
	Workers [][]ownReq `json:"workers"`
	// Canceller: a worker that cancels the context of every request marked Cancel, at a point
	// the scheduler chooses.
	Canceller  bool `json:"canceller"`
	CancelAtMs int  `json:"cancel_at_ms"` // the canceller becomes ready at this virtual instant
	Ticks      int  `json:"tick_budget"`
}

func (sc *ownScenario) clone() *ownScenario {
	c := *sc
	c.Workers = nil
	for _, w := range sc.Workers {
		c.Workers = append(c.Workers, append([]ownReq(nil), w...))
	}
	return &c
}

var ownSeq atomic.Int64

func genOwnScenario(r *gen.Rand) *ownScenario {
	sc := &ownScenario{Ticks: r.Range(2, 5)}
	d1 := r.Range(2, 4)
	off := r.Range(-1, 1)
	first := ownReq{DelayMs: d1, TimeoutMs: d1 + off}
	if r.Chance(1, 4) {
		// cancellation instead of a timeout
		first.TimeoutMs = 0
		first.Cancel = true
		sc.Canceller = true
		sc.CancelAtMs = d1 + off
	}
	if r.Chance(1, 3) {
		// the transport of the first request fails (late dial error) around its deadline
		first.FailMs = d1
	}
	w0 := []ownReq{first, {DelayMs: d1 + r.Range(2, 5), TimeoutMs: gen.Pick(r, []int{0, 40})}}
	if r.Chance(1, 3) || first.FailMs > 0 {
		w0 = append(w0, ownReq{DelayMs: r.Range(0, 2), TimeoutMs: gen.Pick(r, []int{0, 40})})
	}
	sc.Workers = append(sc.Workers, w0)
	if r.Chance(1, 2) {
		d := r.Range(1, 5)
		w1 := []ownReq{{DelayMs: d, TimeoutMs: gen.Pick(r, []int{0, d - 1, d, d + 1, 40})}}
		if w1[0].TimeoutMs < 0 {
			w1[0].TimeoutMs = 0
		}
		if w1[0].TimeoutMs > 0 && r.Chance(1, 4) {
			w1[0].FailMs = d
		}
		if r.Bool() {
			w1 = append(w1, ownReq{DelayMs: r.Range(0, 6), TimeoutMs: gen.Pick(r, []int{0, 40})})
		}
		sc.Workers = append(sc.Workers, w1)
	}
	return sc
}

type ownRun struct {
	results  []ownResult
	out      *sched.Outcome
	hookHits int
	held     int // callers that returned ErrTimeoutOrCancel while a completing goroutine was parked
	ticks    int
	choices  []int
	opts     []int
	labels   []string
}

// runOwnSchedule executes the scenario once under the scheduler. ch is consulted only at the
// meaningful choice points: which parked goroutine to release, or let one more virtual
// millisecond pass while a completing goroutine is held at client.doneWon.
func runOwnSchedule(sc *ownScenario, ch sched.Chooser) *ownRun {
	rig := newOwnRig(false)
	run := &ownRun{}
	s := sched.New()
	s.ParkUnknown = true
	var mu sync.Mutex
	var anonParked atomic.Int32
	var namedLeft atomic.Int32
	var finished atomic.Bool
	client.SetVerifYield(func(point string) {
		mu.Lock()
		run.hookHits++
		mu.Unlock()
		anonParked.Add(1)
		s.Yield(point)
		anonParked.Add(-1)
	})
	t0 := time.Now()
	var cancels []context.CancelFunc
	for wi, reqs := range sc.Workers {
		wi, reqs := wi, reqs
		ctxs := make([]context.Context, len(reqs))
		for i, rq := range reqs {
			if rq.Cancel {
				ctx, cancel := context.WithCancel(context.Background())
				ctxs[i] = ctx
				cancels = append(cancels, cancel)
			}
		}
		namedLeft.Add(1)
		s.Go("w"+strconv.Itoa(wi), func() {
			defer namedLeft.Add(-1)
			for i, rq := range reqs {
				if i > 0 {
					s.Yield("next")
				}
				res := doOwnReq(rig.cl, rq, ctxs[i])
				res.Worker = wi
				res.AtMs = time.Since(t0).Milliseconds()
				if res.Timeout && anonParked.Load() > 0 {
					res.WhileParked = true
				}
				mu.Lock()
				run.results = append(run.results, res)
				if res.WhileParked {
					run.held++
				}
				mu.Unlock()
			}
		})
	}
	if sc.Canceller && len(cancels) > 0 {
		namedLeft.Add(1)
		s.Go("cancel", func() {
			defer namedLeft.Add(-1)
			if sc.CancelAtMs > 0 {
				time.Sleep(time.Duration(sc.CancelAtMs) * time.Millisecond)
			}
			s.Yield("cancel")
			for _, c := range cancels {
				c()
			}
		})
	}
	// clock: released = "one virtual millisecond passes" (the sleep happens in the chooser, while
	// every parked goroutine stays parked); hold: keeps two goroutines parked at all times so that
	// the chooser is consulted at every step and the scheduler never idles on its own.
	s.Go("clock", func() {
		for !finished.Load() {
			s.Yield("tick")
		}
	})
	s.Go("hold", func() {})

	budget := sc.Ticks
	forced := 0
	chooser := func(step int, parked []sched.Parked) int {
		ci, hi := -1, -1
		var real []int
		for i, p := range parked {
			switch {
			case p.Name == "clock":
				ci = i
			case p.Name == "hold":
				hi = i
			default:
				real = append(real, i)
			}
		}
		tick := func() int {
			time.Sleep(time.Millisecond)
			run.ticks++
			if ci < 0 {
				return hi
			}
			return ci
		}
		if len(real) == 0 {
			if namedLeft.Load() == 0 || forced > 400 {
				finished.Store(true)
				if ci >= 0 {
					return ci
				}
				return hi
			}
			forced++
			return tick()
		}
		// goroutines at their implicit "start" boundary begin in index order: nothing has happened
		// yet that the order could matter for
		for _, i := range real {
			if parked[i].Point == "start" {
				run.labels = append(run.labels, parked[i].Name+"@start")
				return i
			}
		}
		// options: every parked goroutine of the scenario; plus "wait" while a completing
		// goroutine is held and somebody could still time out or arrive
		nopt := len(real)
		canWait := anonParked.Load() > 0 && budget > 0 && namedLeft.Load() > 0
		if canWait {
			nopt++
		}
		k := 0
		if nopt > 1 {
			fake := make([]sched.Parked, nopt)
			k = ch(len(run.choices), fake)
			if k < 0 || k >= nopt {
				k = 0
			}
			run.choices = append(run.choices, k)
			run.opts = append(run.opts, nopt)
		}
		if k == len(real) {
			budget--
			run.labels = append(run.labels, "wait")
			return tick()
		}
		p := parked[real[k]]
		run.labels = append(run.labels, p.Name+"@"+p.Point)
		return real[k]
	}
	run.out = s.Run(chooser)
	client.SetVerifYield(nil)
	// let everything the scenario left behind (server handlers still sleeping, completion
	// goroutines of timed-out calls) finish before the next scenario installs its hook
	time.Sleep(100 * time.Millisecond)
	rig.close()
	// The Response and error-channel pools are process-wide: a completion that arrived after its
	// caller had gone leaves a stale signal in a pooled channel. Two collections empty the pools,
	// so every schedule (and a replayed case) starts from the same state.
	runtime.GC()
	runtime.GC()
	return run
}

// ---------------------------------------------------------------------------------------------
// engine

func runOwnership(e *ev.Env) {
	defer recordMaxRSS(e)
	vt.Require()
	vt.Start()
	ownershipCorpus(e)

	maxPer := e.N(24, 48)
	e.Cases("own", e.N(64, 3200), func(c *ev.Case) {
		sc := genOwnScenario(c.R)
		exploreOwn(e, c, sc, maxPer, c.R)
	})
	e.Cases("timeout", e.N(200, 20000), func(c *ev.Case) {
		timeoutPrecedence(e, c)
	})
	e.Corpus("config-body-with-timeout", func(c *ev.Case) {
		cfgCombo(e, c, &cfgCase{Payload: "body", Entry: "client.Method", Method: "POST", DelayMs: 100, TimeoutMs: 30, Tag: "t"})
	})
	e.Corpus("config-formdata-with-max-redirects", func(c *ev.Case) {
		cfgCombo(e, c, &cfgCase{Payload: "formdata", Entry: "package.Method", Method: "GET", DelayMs: 20, MaxRedirects: 2, Hops: 2, Tag: "t"})
	})
	e.Corpus("config-file-over-redirect-limit", func(c *ev.Case) {
		cfgCombo(e, c, &cfgCase{Payload: "file", Entry: "client.Custom", Method: "GET", DelayMs: 20, MaxRedirects: 1, Hops: 2, Tag: "t"})
	})
	e.Corpus("config-value-used-three-times", func(c *ev.Case) {
		cfgCombo(e, c, &cfgCase{Payload: "none", Entry: "client.Method", Method: "GET", DelayMs: 10, Tag: "t", Uses: 3})
	})
	e.Cases("config", e.N(600, 60000), func(c *ev.Case) {
		cfgCombo(e, c, nil)
	})
}

// exploreOwn enumerates the schedules of a scenario with sched.DFS (bounded) and, when the bound
// cut the enumeration, adds seeded random walks.
func exploreOwn(e *ev.Env, c *ev.Case, sc *ownScenario, max int, r *gen.Rand) {
	reported := map[string]bool{}
	seen := map[string]bool{}
	one := func(ch sched.Chooser, mode string) *sched.Outcome {
		for wi := range sc.Workers {
			for i := range sc.Workers[wi] {
				sc.Workers[wi][i].ID = "r" + strconv.FormatInt(ownSeq.Add(1), 10)
			}
		}
		run := runOwnSchedule(sc, ch)
		e.Eval(1)
		e.Stat("schedules", 1)
		e.Stat("hook_hits", int64(run.hookHits))
		e.Stat("timeouts_while_goroutine_parked", int64(run.held))
		key := strings.Join(run.labels, " ")
		if e.Verbose {
			var sb strings.Builder
			for _, r := range run.results {
				sb.WriteString(fmt.Sprintf(" [%s d=%d to=%d -> err=%q body=%q at=%dms held=%v]", r.Req.ID, r.Req.DelayMs, r.Req.TimeoutMs, r.Err, r.Body, r.AtMs, r.WhileParked))
			}
			fmt.Fprintf(os.Stderr, "schedule %s: %s =>%s ticks=%d hook=%d\n", mode, key, sb.String(), run.ticks, run.hookHits)
		}
		if !seen[key] {
			seen[key] = true
			e.Stat("distinct_schedules", 1)
		}
		if run.held > 0 {
			e.Nontrivial("own", c.ID, key)
		}
		if run.out.Deadlock {
			e.Violation(c, "ownership|deadlock", "workers blocked inside the client with nothing parked", map[string]any{"scenario": sc, "blocked": run.out.Blocked, "schedule": run.labels})
		}
		for n, p := range run.out.Panics {
			e.Violation(c, "ownership|panic|"+ev.PanicSite(p), "panic in a worker", map[string]any{"scenario": sc, "worker": n, "panic": p, "schedule": run.labels})
		}
		want := 0
		for _, w := range sc.Workers {
			want += len(w)
		}
		if len(run.results) != want && !run.out.Deadlock {
			e.Inconclusive("a scenario did not produce all results")
		}
		for _, f := range judgeOwn(run.results, false) {
			if reported[f.sig] {
				e.Stat("violating_schedules", 1)
				continue
			}
			reported[f.sig] = true
			f.detail["scenario"] = sc.clone()
			f.detail["schedule"] = run.labels
			f.detail["choices"] = run.choices
			f.detail["results"] = run.results
			f.detail["explored_by"] = mode
			e.Violation(c, f.sig, f.what, f.detail)
		}
		// what DFS needs: the meaningful choice points only
		return &sched.Outcome{Schedule: run.choices, Options: run.opts}
	}
	n, exhausted := sched.DFS(max, func(ch sched.Chooser) *sched.Outcome { return one(ch, "dfs") })
	if exhausted {
		e.Stat("scenarios_exhausted", 1)
	} else {
		e.Stat("scenarios_cut", 1)
		for i := 0; i < n/2; i++ {
			rr := r.Split()
			one(sched.RandomChooser(rr.Intn), "random-walk")
		}
	}
}

// ---------------------------------------------------------------------------------------------
// corpus

func ownershipCorpus(e *ev.Env) {
	// the schedule of DESIGN 6.1: the completing goroutine of request 1 is held at client.doneWon,
	// the caller times out (1 ms later), the next request takes the pooled Response and error
	// channel, then the goroutine is released
	e.Corpus("held-past-timeout-next-request", func(c *ev.Case) {
		sc := &ownScenario{Ticks: 2, Workers: [][]ownReq{{{DelayMs: 2, TimeoutMs: 3}, {DelayMs: 6, TimeoutMs: 40}}}}
		exploreOwn(e, c, sc, 64, c.R)
	})
	e.Corpus("held-past-cancel-next-request", func(c *ev.Case) {
		sc := &ownScenario{Ticks: 1, Canceller: true, CancelAtMs: 2, Workers: [][]ownReq{{{DelayMs: 2, Cancel: true}, {DelayMs: 6}}}}
		exploreOwn(e, c, sc, 64, c.R)
	})
	e.Corpus("two-callers", func(c *ev.Case) {
		sc := &ownScenario{Ticks: 2, Workers: [][]ownReq{{{DelayMs: 2, TimeoutMs: 3}}, {{DelayMs: 5}}}}
		exploreOwn(e, c, sc, 64, c.R)
	})
	// request 1 times out, its transport fails afterwards; the late error must not reach anybody
	e.Corpus("transport-fails-after-timeout-next-requests", func(c *ev.Case) {
		sc := &ownScenario{Ticks: 2, Workers: [][]ownReq{{{FailMs: 3, TimeoutMs: 2}, {DelayMs: 4, TimeoutMs: 40}, {DelayMs: 1}}}}
		exploreOwn(e, c, sc, 64, c.R)
	})
	e.Corpus("transport-fails-around-deadline-two-callers", func(c *ev.Case) {
		sc := &ownScenario{Ticks: 2, Workers: [][]ownReq{{{FailMs: 2, TimeoutMs: 3}, {DelayMs: 3}}, {{FailMs: 3, TimeoutMs: 2}, {DelayMs: 2}, {DelayMs: 0}}}}
		exploreOwn(e, c, sc, 64, c.R)
	})
	// control: the timeout fires first, the goroutine loses the CAS, nothing may go wrong
	e.Corpus("timeout-before-response", func(c *ev.Case) {
		sc := &ownScenario{Ticks: 2, Workers: [][]ownReq{{{DelayMs: 3, TimeoutMs: 2}, {DelayMs: 5, TimeoutMs: 40}}}}
		exploreOwn(e, c, sc, 64, c.R)
	})
}

// ---------------------------------------------------------------------------------------------
// timeout precedence (request level over client level), on the virtual clock

func timeoutPrecedence(e *ev.Env, c *ev.Case) {
	r := c.R
	rig := newOwnRig(false)
	d := r.Range(20, 200)
	lo := r.Range(5, d-5)
	hi := d + r.Range(5, 100)
	reqWins := r.Bool() // true: request-level timeout is the short one
	tc, tr := hi, lo
	if !reqWins {
		tc, tr = lo, hi
	}
	cl := client.NewWithClient(rig.fc)
	cl.SetTimeout(time.Duration(tc) * time.Millisecond)
	id := "t" + strconv.FormatInt(ownSeq.Add(1), 10)
	url := "http://own.test/o/" + id + "?d=" + strconv.Itoa(d)
	style := r.Intn(2)
	t0 := time.Now()
	var resp *client.Response
	var err error
	var req *client.Request
	if style == 0 {
		req = cl.R().SetTimeout(time.Duration(tr) * time.Millisecond)
		resp, err = req.Get(url)
	} else {
		resp, err = cl.Get(url, client.Config{Timeout: time.Duration(tr) * time.Millisecond})
	}
	el := time.Since(t0)
	e.Eval(1)
	det := map[string]any{"server_delay_ms": d, "client_timeout_ms": tc, "request_timeout_ms": tr, "style": []string{"Request.SetTimeout", "Config.Timeout"}[style], "elapsed_ms": el.Milliseconds()}
	body := ""
	if err == nil {
		body = string(resp.Body())
		resp.Close()
	} else {
		det["err"] = err.Error()
		if req != nil {
			client.ReleaseRequest(req)
		}
	}
	switch {
	case err == nil && body != "id="+id:
		e.Violation(c, "ownership|response-without-own-id|sequential", "sequential request got a foreign body", det)
	case reqWins && err == nil:
		e.Violation(c, "precedence|timeout", "the request-level timeout is shorter than the server delay, the client-level one longer: the call must time out", det)
	case reqWins && !errors.Is(err, client.ErrTimeoutOrCancel):
		e.Violation(c, "ownership|unexpected-error|"+sigWord(err.Error()), "unexpected error", det)
	case reqWins && (el < time.Duration(tr)*time.Millisecond || el >= time.Duration(d)*time.Millisecond):
		e.Violation(c, "precedence|timeout|fired-at-other-instant", "the call did not time out at the request-level timeout", det)
	case !reqWins && err != nil:
		e.Violation(c, "precedence|timeout", "the request-level timeout is longer than the server delay, the client-level one shorter: the call must succeed", det)
	}
	e.Nontrivial("timeout", strconv.Itoa(d), strconv.Itoa(tc), strconv.Itoa(tr))
	// drain what the timed-out call left behind, and empty the pools (see runOwnSchedule)
	time.Sleep(time.Duration(d+10) * time.Millisecond)
	rig.close()
	runtime.GC()
	runtime.GC()
}
