package clienteng

import (
	"fmt"
	"math"
	"strconv"
	"strings"

	"github.com/gofiber/fiber/v3/client"

	"verifharness/internal/ev"
	"verifharness/internal/gen"
)

// The ...WithStruct setters (query parameters, form fields, cookies, path parameters; request and
// client level) turn typed struct fields into text. "Arrives with that value" for a number means:
// the text that arrives parses back to the same number of the field's type (a float64 to the same
// float64, a float32 to the same float32, integers exactly) - compared as values, not as text.

type structVals struct {
	F64  float64   `param:"f64" form:"f64" cookie:"f64" path:"f64"`
	F32  float32   `param:"f32" form:"f32" cookie:"f32" path:"f32"`
	I64  int64     `param:"i64" form:"i64" cookie:"i64" path:"i64"`
	I    int       `param:"i" form:"i" cookie:"i" path:"i"`
	I8   int8      `param:"i8" form:"i8" cookie:"i8" path:"i8"`
	U64  uint64    `param:"u64" form:"u64" cookie:"u64" path:"u64"`
	U16  uint16    `param:"u16" form:"u16" cookie:"u16" path:"u16"`
	B    bool      `param:"b" form:"b" cookie:"b" path:"b"`
	S    string    `param:"s" form:"s" cookie:"s" path:"s"`
	F64s []float64 `param:"f64s" form:"f64s" cookie:"-" path:"-"`
	I64s []int64   `param:"i64s" form:"i64s" cookie:"-" path:"-"`
}

// cookie and path maps hold one value per name, so the slices (tag "-") are not judged there; the
// setter still stores them under the name "-", which the template / expectations never use.

func genF64(r *gen.Rand) float64 {
	switch r.Intn(10) {
	case 0:
		return float64(r.Range(-1000, 1000)) / 10 // few digits
	case 1:
		return 16777217 + float64(r.Range(0, 1<<20)*2) // odd integers above 2^24
	case 2:
		return float64(r.Range(1000000, 9999999)) + float64(r.Range(1, 999))/1000 // > 7 significant digits
	case 3:
		return math.MaxFloat64
	case 4:
		return math.SmallestNonzeroFloat64
	case 5:
		return -(float64(r.Range(1, 1<<30)) + 0.123456789012)
	case 6:
		return float64(r.Uint64()>>11) / (1 << 53) // 53 random mantissa bits in [0,1)
	case 7:
		return float64(int64(r.Uint64() >> 11)) // integer up to 2^53
	case 8:
		return 0
	}
	for {
		f := math.Float64frombits(r.Uint64())
		if !math.IsNaN(f) && !math.IsInf(f, 0) {
			return f
		}
	}
}

func genF32(r *gen.Rand) float32 {
	switch r.Intn(6) {
	case 0:
		return 0.1
	case 1:
		return float32(r.Range(-100000, 100000)) / 8
	case 2:
		return math.MaxFloat32
	case 3:
		return math.SmallestNonzeroFloat32
	case 4:
		return 16777216
	}
	for {
		f := math.Float32frombits(uint32(r.Uint64()))
		if f == f && !math.IsInf(float64(f), 0) {
			return f
		}
	}
}

func genStructVals(r *gen.Rand) *structVals {
	v := &structVals{F64: genF64(r), F32: genF32(r), B: r.Bool()}
	v.I64 = gen.Pick(r, []int64{math.MinInt64, math.MaxInt64, 0, -1, int64(r.Uint64()), int64(r.Range(-1000, 1000))})
	v.I = int(gen.Pick(r, []int64{math.MinInt64, math.MaxInt64, int64(r.Uint64() >> 1), 7}))
	v.I8 = int8(r.Range(-128, 127))
	v.U64 = gen.Pick(r, []uint64{math.MaxUint64, math.MaxInt64 + 1, r.Uint64(), 0, 42})
	v.U16 = uint16(r.Range(0, 65535))
	v.S = "s" + r.StringFrom(gen.AlphaNum+"-_.~", r.Range(0, 6))
	for i, n := 0, r.Range(0, 3); i < n; i++ {
		v.F64s = append(v.F64s, genF64(r))
	}
	for i, n := 0, r.Range(0, 3); i < n; i++ {
		v.I64s = append(v.I64s, int64(r.Uint64()))
	}
	return v
}

// sameNumber: does text carry the number want (of want's type)?
func sameNumber(kind string, text string, want any) bool {
	switch w := want.(type) {
	case float64:
		g, err := strconv.ParseFloat(text, 64)
		return err == nil && g == w
	case float32:
		g, err := strconv.ParseFloat(text, 32)
		return err == nil && float32(g) == w
	case int64:
		g, err := strconv.ParseInt(text, 10, 64)
		return err == nil && g == w
	case uint64:
		g, err := strconv.ParseUint(text, 10, 64)
		return err == nil && g == w
	case bool:
		return text == strconv.FormatBool(w)
	case string:
		return text == w
	}
	return false
}

type structField struct {
	name, kind string
	vals       []any
	multi      bool
}

func (v *structVals) fields() []structField {
	fs := []structField{
		{"f64", "float64", []any{v.F64}, false}, {"f32", "float32", []any{v.F32}, false},
		{"i64", "int64", []any{v.I64}, false}, {"i", "int", []any{int64(v.I)}, false}, {"i8", "int8", []any{int64(v.I8)}, false},
		{"u64", "uint64", []any{v.U64}, false}, {"u16", "uint16", []any{uint64(v.U16)}, false},
		{"b", "bool", []any{v.B}, false}, {"s", "string", []any{v.S}, false},
	}
	var a, b []any
	for _, x := range v.F64s {
		a = append(a, x)
	}
	for _, x := range v.I64s {
		b = append(b, x)
	}
	fs = append(fs, structField{"f64s", "float64-slice", a, true}, structField{"i64s", "int64-slice", b, true})
	return fs
}

func render(vals []any) []string {
	out := make([]string, len(vals))
	for i, v := range vals {
		switch x := v.(type) {
		case float64:
			out[i] = strconv.FormatFloat(x, 'g', -1, 64)
		case float32:
			out[i] = strconv.FormatFloat(float64(x), 'g', -1, 32)
		default:
			out[i] = fmt.Sprint(v)
		}
	}
	return out
}

type structCase struct {
	Query, Form, Cookie, Path *structVals
	QueryAtClient             bool
	CookieAtClient            bool
	PathAtClient              bool
}

var structPathOrder = []string{"f64", "f32", "i64", "i", "i8", "u64", "u16", "b", "s"}

func (fe *fidEngine) runStructs(c *ev.Case) {
	e, r := fe.e, c.R
	sc := &structCase{QueryAtClient: r.Bool(), CookieAtClient: r.Bool(), PathAtClient: r.Bool()}
	if r.Chance(4, 5) {
		sc.Query = genStructVals(r)
	}
	if r.Chance(3, 5) {
		sc.Form = genStructVals(r)
	}
	if r.Chance(3, 5) {
		sc.Cookie = genStructVals(r)
	}
	if r.Chance(3, 5) {
		sc.Path = genStructVals(r)
	}
	byPtr := r.Bool()
	arg := func(v *structVals) any {
		if byPtr {
			return v
		}
		return *v
	}
	cl := fe.b.rig.newClient()
	req := cl.R()
	url := fidBase + "/st"
	if sc.Path != nil {
		for _, n := range structPathOrder {
			url += "/:" + n
		}
		if sc.PathAtClient {
			cl.SetPathParamsWithStruct(arg(sc.Path))
		} else {
			req.SetPathParamsWithStruct(arg(sc.Path))
		}
	}
	if sc.Query != nil {
		if sc.QueryAtClient {
			cl.SetParamsWithStruct(arg(sc.Query))
		} else {
			req.SetParamsWithStruct(arg(sc.Query))
		}
	}
	if sc.Cookie != nil {
		if sc.CookieAtClient {
			cl.SetCookiesWithStruct(arg(sc.Cookie))
		} else {
			req.SetCookiesWithStruct(arg(sc.Cookie))
		}
	}
	method := "GET"
	if sc.Form != nil {
		req.SetFormDataWithStruct(arg(sc.Form))
		method = "POST"
	}
	resp, err := req.Custom(url, method)
	e.Eval(1)
	if err != nil {
		client.ReleaseRequest(req)
		e.Violation(c, "fidelity|send-error|struct-setter|"+sigWord(err.Error()), "the client failed to send a request configured with the struct setters",
			map[string]any{"error": err.Error(), "case": sc})
		return
	}
	resp.Close()
	p := fe.b.rig.take()
	if p == nil {
		e.Violation(c, "fidelity|not-delivered", "no request reached the server", map[string]any{"case": sc})
		return
	}
	reported := map[string]bool{}
	check := func(comp string, v *structVals, got func(name string) []string) {
		if v == nil {
			return
		}
		for _, f := range v.fields() {
			if f.multi && (comp == "cookie" || comp == "path-param") {
				continue
			}
			g := got(f.name)
			ok := len(g) == len(f.vals)
			for i := 0; ok && i < len(g); i++ {
				ok = sameNumber(f.kind, g[i], f.vals[i])
			}
			if ok {
				continue
			}
			// the formatter is shared by all components and by slices: one signature per field type
			sig := "fidelity|struct-setter|" + strings.TrimSuffix(f.kind, "-slice")
			if reported[sig] {
				continue
			}
			reported[sig] = true
			e.Violation(c, sig, fmt.Sprintf("%s field %q set through the struct setter did not arrive as the same %s", comp, f.name, f.kind),
				map[string]any{"component": comp, "field": f.name, "configured": render(f.vals), "received": hx(g), "raw_uri": strconv.QuoteToASCII(p.RawURI)})
		}
	}
	pick := func(kvs []kv) func(string) []string {
		return func(name string) []string {
			var out []string
			for _, x := range kvs {
				if x.K == name {
					out = append(out, x.V)
				}
			}
			return out
		}
	}
	check("query", sc.Query, pick(p.Query))
	check("form", sc.Form, pick(p.Form))
	check("cookie", sc.Cookie, pick(p.Cookies))
	if sc.Path != nil {
		segs := strings.Split(strings.TrimPrefix(p.Path, "/st/"), "/")
		check("path-param", sc.Path, func(name string) []string {
			for i, n := range structPathOrder {
				if n == name && i < len(segs) && len(segs) == len(structPathOrder) {
					return []string{segs[i]}
				}
			}
			return nil
		})
	}
	n := 0
	for _, v := range []*structVals{sc.Query, sc.Form, sc.Cookie, sc.Path} {
		if v != nil {
			n++
		}
	}
	if n >= 2 {
		e.Nontrivial("structs", c.ID)
	}
	e.Stat("struct_setter_requests", 1)
	e.Sample("struct-setters", map[string]any{"raw_uri": strconv.QuoteToASCII(p.RawURI)})
}
