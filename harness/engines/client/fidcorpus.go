package clienteng

import (
	"strconv"
	"strings"

	"verifharness/internal/ev"
)

func s1(k, v string) single { return single{K: k, V: v, Cl: classOf(v)} }

func m1(k string, mode int, vs ...string) multi {
	m := multi{K: k, Vs: vs, Mode: mode}
	for _, v := range vs {
		m.Cls = append(m.Cls, classOf(v))
	}
	return m
}

func tmpl(parts ...string) []tok {
	var ts []tok
	for _, p := range parts {
		if len(p) > 1 && p[0] == ':' {
			ts = append(ts, tok{Param: p[1:]})
		} else {
			ts = append(ts, tok{Lit: p})
		}
	}
	return ts
}

// fidelityCorpus: canonical witnesses and hand-picked edges, independent of the seed.
func fidelityCorpus(fe *fidEngine) {
	e := fe.e
	// smallest witness: two request-level path parameters whose names are prefix-related;
	// hooks.go substitutes by ranging over the map with ReplaceAll(":"+name)
	e.Corpus("path-params-prefix-names", func(c *ev.Case) {
		cf := &config{Method: "GET", Tmpl: tmpl("/u/", ":id", "/x/", ":idx"),
			Req: level{PathP: []single{s1("id", "A"), s1("idx", "B")}}}
		fe.runConfig(c, cf, 32)
	})
	// deterministic variant: the request level is substituted first, so a request-level "id"
	// always eats the client-level placeholder ":idx"
	e.Corpus("path-params-prefix-names-across-levels", func(c *ev.Case) {
		cf := &config{Method: "GET", Tmpl: tmpl("/u/", ":id", "/x/", ":idx"),
			Req: level{PathP: []single{s1("id", "A")}}, Client: level{PathP: []single{s1("idx", "B")}}}
		fe.runConfig(c, cf, 4)
	})
	// a configured parameter without placeholder must not touch a placeholder it is a prefix of
	e.Corpus("path-param-unused-prefix-of-placeholder", func(c *ev.Case) {
		cf := &config{Method: "GET", Tmpl: tmpl("/u/", ":idx"),
			Req: level{PathP: []single{s1("idx", "B")}}, Client: level{PathP: []single{s1("id", "A")}}}
		fe.runConfig(c, cf, 4)
	})
	// an empty request-level value is a value: it overrides the client-level one
	e.Corpus("path-param-empty-request-value-wins", func(c *ev.Case) {
		cf := &config{Method: "GET", Tmpl: tmpl("/docs/", ":lang", "/report", ":ext"),
			Client: level{PathP: []single{s1("lang", "en"), s1("ext", ".pdf")}},
			Req:    level{PathP: []single{s1("ext", "")}}}
		fe.runConfig(c, cf, 4)
	})
	// a jar cookie of the same name must not replace a configured cookie (request > client > jar)
	e.Corpus("configured-cookie-beats-jar", func(c *ev.Case) {
		cf := &config{Method: "GET", Tmpl: tmpl("/j"),
			Client: level{Cookies: []single{s1("lang", "client-lang"), s1("sid", "client-sid")}},
			Req:    level{Cookies: []single{s1("sid", "request-sid")}},
			Jar:    []jarPre{{K: "sid", V: "jar-sid"}, {K: "lang", V: "jar-lang", Path: "/", API: 1}, {K: "other", V: "jar-other", API: 2}}}
		fe.runConfig(c, cf, 4)
	})
	// Set replaces every earlier value of the key at its level, also after the key was added twice
	e.Corpus("set-over-multiple-values-request-header", func(c *ev.Case) {
		seq := func(k string) multi {
			return multi{K: k, Vs: []string{"c"}, Cls: []string{clPlain}, Mode: 9, SeqClass: "set-over-multiple-values",
				Seq: []seqStep{{"add", []string{"a"}}, {"add", []string{"b"}}, {"set", []string{"c"}}}}
		}
		cf := &config{Method: "POST", Tmpl: tmpl("/seq"), Req: level{Hdr: []multi{seq("X-Seq")}}}
		fe.runConfig(c, cf, 2)
		seqm := multi{K: "X-Seqm", Vs: []string{"c"}, Cls: []string{clPlain}, Mode: 9, SeqClass: "set-over-multiple-values",
			Seq: []seqStep{{"addmap", []string{"a", "b"}}, {"setmap", []string{"c"}}}}
		fe.runConfig(c, &config{Method: "GET", Tmpl: tmpl("/seq"), Req: level{Hdr: []multi{seqm}}}, 2)
	})
	// the sibling setters (documented the same way)
	seq3 := func(k string) multi {
		return multi{K: k, Vs: []string{"c"}, Cls: []string{clPlain}, Mode: 9, SeqClass: "set-over-multiple-values",
			Seq: []seqStep{{"add", []string{"a"}}, {"add", []string{"b"}}, {"set", []string{"c"}}}}
	}
	e.Corpus("set-over-multiple-values-client-header", func(c *ev.Case) {
		fe.runConfig(c, &config{Method: "GET", Tmpl: tmpl("/seq"), Client: level{Hdr: []multi{seq3("X-Seq")}}}, 2)
	})
	e.Corpus("set-over-multiple-values-client-param", func(c *ev.Case) {
		fe.runConfig(c, &config{Method: "GET", Tmpl: tmpl("/seq"), Client: level{Query: []multi{seq3("k")}}}, 2)
	})
	e.Corpus("set-over-multiple-values-request-param", func(c *ev.Case) {
		fe.runConfig(c, &config{Method: "GET", Tmpl: tmpl("/seq"), Req: level{Query: []multi{seq3("k")}}}, 2)
	})
	e.Corpus("set-over-multiple-values-request-form", func(c *ev.Case) {
		fe.runConfig(c, &config{Method: "POST", Tmpl: tmpl("/seq"), Body: bForm, Form: []multi{seq3("k")}}, 2)
	})
	// quote and backslash in file and field names are escaped in the part header and arrive
	e.Corpus("file-names-needing-escaping", func(c *ev.Case) {
		cf := &config{Method: "POST", Tmpl: tmpl("/f"), Body: bFiles, Form: []multi{m1("t", 0, "1")},
			Files: []fileSpec{{Name: `q"uote.txt`, Content: "a", Via: 0}, {Name: `back\slash.bin`, Field: `fi"eld`, Content: "b", Via: 2},
				{Name: "semi;colon=eq ü.dat", Field: `f\x`, Content: "c", Via: 2}}}
		fe.runConfig(c, cf, 2)
	})
	// readers of every behaviour, sizes around buffer boundaries, next to a path-based file
	e.Corpus("file-reader-behaviours", func(c *ev.Case) {
		rep := func(n int) string { return strings.Repeat("0123456789abcdefghijklmnopqrstuvwxyz+", n/37+1)[:n] }
		for _, n := range []int{0, 1, 300, 4095, 4096, 4097, 32768, 1 << 20} {
			cf := &config{Method: "POST", Tmpl: tmpl("/f"), Body: bFiles}
			for rd := 0; rd <= 4; rd++ {
				cf.Files = append(cf.Files, fileSpec{Name: "r" + strconv.Itoa(rd) + ".bin", Content: rep(n), Size: n, Reader: rd, Via: rd % 2 * 2})
			}
			cf.Files = append(cf.Files, fileSpec{Name: "disk.bin", Content: rep(n), Size: n, Via: 1})
			fe.runConfig(c, cf, 1)
		}
	})
	// a file given by explicit name AND path is uploaded under the explicit name
	e.Corpus("file-explicit-name-with-path", func(c *ev.Case) {
		cf := &config{Method: "POST", Tmpl: tmpl("/f"), Body: bFiles,
			Files: []fileSpec{{Name: "shown.txt", DiskName: "ondisk.bin", Content: "xyz", Via: 3, Field: "doc"}, {Name: "only-path.dat", Content: "q", Via: 4}}}
		fe.runConfig(c, cf, 2)
	})
	// path-parameter values with URL-special bytes; each class its own case
	for _, x := range []struct{ name, v string }{{"question-mark", "a?b"}, {"hash", "a#b"}, {"percent-escape", "a%20b"}, {"slash", "a/b"}, {"backslash", "a\\b"}, {"percent-no-escape", "a%zb"}, {"space", "a b"}} {
		v := x.v
		e.Corpus("path-param-value-"+x.name, func(c *ev.Case) {
			fe.runConfig(c, &config{Method: "GET", Tmpl: tmpl("/echo/", ":value"), Req: level{PathP: []single{s1("value", v)}}}, 2)
		})
	}
	e.Corpus("path-param-value-substituted-again", func(c *ev.Case) {
		fe.runConfig(c, &config{Method: "GET", Tmpl: tmpl("/echo/", ":value"), Req: level{PathP: []single{s1("value", "x:id"), s1("id", "5")}}}, 8)
	})
	e.Corpus("path-param-substituted-in-host-port", func(c *ev.Case) {
		fe.runConfig(c, &config{Method: "GET", HostPort: "fid.test:80", Tmpl: tmpl("/echo"), Req: level{PathP: []single{s1("80", "X")}}}, 2)
	})
	e.Corpus("url-query-with-second-question-mark", func(c *ev.Case) {
		fe.runConfig(c, &config{Method: "GET", Tmpl: tmpl("/echo/x"), URLQuery: []kv{{"a", "b?c"}, {"d", "e"}}}, 2)
	})
	for _, n := range []string{"User-Agent", "Referer", "Accept"} {
		n := n
		e.Corpus("special-header-through-header-api-"+n, func(c *ev.Case) {
			fe.runConfig(c, &config{Method: "POST", Tmpl: tmpl("/h"), Req: level{Hdr: []multi{m1(n, 1, "text/mine")}}, Body: bJSON, JSONVal: map[string]any{"a": 1.0}}, 2)
		})
	}
	e.Corpus("same-request-sent-twice", func(c *ev.Case) {
		fe.runConfig(c, &config{Method: "GET", Tmpl: tmpl("/twice"), Twice: true,
			Req: level{Hdr: []multi{m1("X-One", 0, "1")}, Query: []multi{m1("q", 0, "1")}, Cookies: []single{s1("c", "1")}}}, 2)
	})
	// repeated form keys with another key in between, next to a file
	e.Corpus("multipart-form-keys-interleaved", func(c *ev.Case) {
		cf := &config{Method: "POST", Tmpl: tmpl("/f"), Body: bFiles, FormInterleave: true,
			Form:  []multi{m1("tag", 0, "red", "blue"), m1("size", 0, "L", ""), m1("note", 1, "x")},
			Files: []fileSpec{{Name: "a.txt", Content: "x", Via: 0}}}
		fe.runConfig(c, cf, 2)
		cf2 := &config{Method: "POST", Tmpl: tmpl("/f"), Body: bForm, FormInterleave: true, Form: []multi{m1("tag", 0, "red", "blue"), m1("size", 0, "L", "")}}
		fe.runConfig(c, cf2, 2)
	})
	e.Corpus("struct-setters", func(c *ev.Case) { fe.runStructs(c) })
	e.Corpus("precedence-all-kinds", func(c *ev.Case) {
		cf := &config{Method: "POST", UseBase: true, Tmpl: tmpl("/p/", ":name"),
			Client: level{Hdr: []multi{m1("X-Shared", 1, "c")}, Query: []multi{m1("q", 1, "c")},
				Cookies: []single{s1("sid", "c"), s1("only", "c")}, PathP: []single{s1("name", "c")}, UA: "ua-c", Referer: "http://ref.test/c"},
			Req: level{Hdr: []multi{m1("x-shared", 1, "r")}, Query: []multi{m1("q", 1, "r")},
				Cookies: []single{s1("sid", "r")}, PathP: []single{s1("name", "r")}, UA: "ua-r", Referer: "http://ref.test/r"},
			Body: bRaw, Raw: "\x00\r\n\xff"}
		fe.runConfig(c, cf, 4)
	})
	e.Corpus("empty-and-repeated", func(c *ev.Case) {
		cf := &config{Method: "POST", Tmpl: tmpl("/e"),
			URLQuery: []kv{{"u", "1"}, {"u", ""}},
			Client:   level{Hdr: []multi{m1("X-Empty", 0, "", "")}, Query: []multi{m1("k", 0, "", "a", "")}, Cookies: []single{s1("e", "")}},
			Req:      level{Hdr: []multi{m1("X-Empty", 0, "")}, Query: []multi{m1("k", 3, "a", "a")}},
			Body:     bForm, Form: []multi{m1("f", 0, "", "", "x"), m1("a&b=c", 1, "=&%+ ")}}
		fe.runConfig(c, cf, 4)
	})
	e.Corpus("files", func(c *ev.Case) {
		cf := &config{Method: "POST", Tmpl: tmpl("/f"), Body: bFiles,
			Form: []multi{m1("t", 0, "1", "2")},
			Files: []fileSpec{{Name: "a b.txt", Content: "x\r\n--y", Via: 0}, {Name: "plain.dat", Content: "", Via: 1},
				{Name: "ü.bin", Field: "doc", Content: "\x00\x01", Via: 2}}}
		fe.runConfig(c, cf, 2)
	})
}
