// Package clienteng is the engine for property C18: the bundled client sends what it was told
// (fidelity, precedence, determinism), every response belongs to its request (ownership, also
// under timeouts and cancellations), and the cookie jar returns exactly the unexpired cookies of
// the host whose path is a prefix of the request path.
//
// Modes: client.fidelity (plain), client.jar (vt), client.ownership (vt + scheduler),
// client.race (-race).
package clienteng

import (
	"bytes"
	"crypto/sha256"
	"encoding/hex"
	"net"
	"os"
	"runtime"
	"sort"
	"strconv"
	"strings"
	"sync"

	"github.com/gofiber/fiber/v3"
	"github.com/gofiber/fiber/v3/client"
	"github.com/valyala/fasthttp"
	"github.com/valyala/fasthttp/fasthttputil"

	"verifharness/internal/ev"
	"verifharness/internal/reg"
)

func init() {
	reg.Register("client.fidelity", runFidelity)
	reg.Register("client.jar", runJar)
	reg.Register("client.ownership", runOwnership)
	reg.Register("client.race", runRace)
}

type kv struct {
	K string `json:"k"`
	V string `json:"v"`
}

type filePart struct {
	Field string `json:"field"`
	Name  string `json:"name"`
	Size  int    `json:"size"`
	Hash  string `json:"hash"`
}

// parsed is the request as the server handler saw it. Everything is copied out of the request
// memory inside the handler.
type parsed struct {
	Method   string
	Path     string // decoded, normalised path
	RawURI   string
	Query    []kv // raw query pairs in order, decoded by the harness' own decoder
	Hdr      []kv // all header lines in order, names lower-cased
	Cookies  []kv // pairs of the Cookie header line(s), split by the harness
	CT       string
	Form     []kv // urlencoded body pairs in order, or multipart values (per-key order kept)
	Files    []filePart
	Body     string
	FormErr  string
	IsMulti  bool
	IsURLEnc bool
}

// recordMaxRSS puts the peak resident set size of the process (VmHWM) into the stats.
func recordMaxRSS(e *ev.Env) {
	var ms runtime.MemStats
	runtime.GC()
	runtime.ReadMemStats(&ms)
	e.StatMax("heap_live_mb_at_end", int64(ms.HeapAlloc>>20))
	b, err := os.ReadFile("/proc/self/status")
	if err != nil {
		return
	}
	for _, line := range strings.Split(string(b), "\n") {
		if strings.HasPrefix(line, "VmHWM:") {
			f := strings.Fields(line)
			if len(f) >= 2 {
				if kb, err := strconv.Atoi(f[1]); err == nil {
					e.StatMax("max_rss_mb", int64(kb/1024))
				}
			}
		}
	}
}

func hashHex(b []byte) string {
	s := sha256.Sum256(b)
	return hex.EncodeToString(s[:8])
}

func unhex(c byte) int {
	switch {
	case c >= '0' && c <= '9':
		return int(c - '0')
	case c >= 'a' && c <= 'f':
		return int(c-'a') + 10
	case c >= 'A' && c <= 'F':
		return int(c-'A') + 10
	}
	return -1
}

// pctDecode is the harness' own application/x-www-form-urlencoded component decoder.
func pctDecode(s string, plus bool) string {
	if !strings.ContainsAny(s, "%+") {
		return s
	}
	b := make([]byte, 0, len(s))
	for i := 0; i < len(s); i++ {
		c := s[i]
		switch {
		case c == '%' && i+2 < len(s) && unhex(s[i+1]) >= 0 && unhex(s[i+2]) >= 0:
			b = append(b, byte(unhex(s[i+1])<<4|unhex(s[i+2])))
			i += 2
		case c == '+' && plus:
			b = append(b, ' ')
		default:
			b = append(b, c)
		}
	}
	return string(b)
}

func parsePairs(raw string) []kv {
	if raw == "" {
		return nil
	}
	var out []kv
	for _, part := range strings.Split(raw, "&") {
		if part == "" {
			continue
		}
		k, v, _ := strings.Cut(part, "=")
		out = append(out, kv{pctDecode(k, true), pctDecode(v, true)})
	}
	return out
}

func parseCookieHeader(raw string) []kv {
	var out []kv
	for _, part := range strings.Split(raw, ";") {
		part = strings.Trim(part, " \t")
		if part == "" {
			continue
		}
		k, v, ok := strings.Cut(part, "=")
		if !ok {
			out = append(out, kv{"", part})
			continue
		}
		out = append(out, kv{k, v})
	}
	return out
}

// capture copies the request out of the handler.
func capture(c fiber.Ctx) *parsed {
	rq := c.Request()
	p := &parsed{}
	p.Method = string(rq.Header.Method())
	p.Path = string(rq.URI().Path())
	p.RawURI = string(rq.Header.RequestURI())
	p.Query = parsePairs(string(rq.URI().QueryString()))
	rq.Header.VisitAll(func(k, v []byte) {
		p.Hdr = append(p.Hdr, kv{strings.ToLower(string(k)), string(v)})
	})
	for _, h := range p.Hdr {
		if h.K == "cookie" {
			p.Cookies = append(p.Cookies, parseCookieHeader(h.V)...)
		}
	}
	p.CT = string(rq.Header.ContentType())
	p.Body = string(rq.Body())
	switch {
	case strings.HasPrefix(p.CT, "multipart/form-data"):
		p.IsMulti = true
		mf, err := rq.MultipartForm()
		if err != nil {
			p.FormErr = err.Error()
			break
		}
		keys := make([]string, 0, len(mf.Value))
		for k := range mf.Value {
			keys = append(keys, k)
		}
		sort.Strings(keys)
		for _, k := range keys {
			for _, v := range mf.Value[k] {
				p.Form = append(p.Form, kv{k, v})
			}
		}
		fkeys := make([]string, 0, len(mf.File))
		for k := range mf.File {
			fkeys = append(fkeys, k)
		}
		sort.Strings(fkeys)
		for _, k := range fkeys {
			for _, fh := range mf.File[k] {
				fp := filePart{Field: k, Name: fh.Filename, Size: int(fh.Size)}
				f, err := fh.Open()
				if err != nil {
					fp.Hash = "open-error:" + err.Error()
				} else {
					var buf bytes.Buffer
					_, _ = buf.ReadFrom(f)
					_ = f.Close()
					fp.Hash = hashHex(buf.Bytes())
					fp.Size = buf.Len()
				}
				p.Files = append(p.Files, fp)
			}
		}
	case strings.HasPrefix(p.CT, "application/x-www-form-urlencoded"):
		p.IsURLEnc = true
		p.Form = parsePairs(p.Body)
	}
	return p
}

// echoRig: a fiber app served over an in-memory listener that records the parsed request, and
// one fasthttp client dialling it that every built client.Client shares (connection reuse).
type echoRig struct {
	app  *fiber.App
	ln   *fasthttputil.InmemoryListener
	fc   *fasthttp.Client
	mu   sync.Mutex
	last *parsed
	n    int
}

func newEchoRig() *echoRig {
	r := &echoRig{}
	r.app = fiber.New(fiber.Config{ReadBufferSize: 1 << 16, BodyLimit: 16 << 20})
	r.app.All("/*", func(c fiber.Ctx) error {
		p := capture(c)
		r.mu.Lock()
		r.last = p
		r.n++
		r.mu.Unlock()
		return c.SendString("ok")
	})
	r.ln = fasthttputil.NewInmemoryListener()
	go func() { _ = r.app.Listener(r.ln, fiber.ListenConfig{DisableStartupMessage: true}) }()
	r.fc = &fasthttp.Client{ReadBufferSize: 1 << 16}
	r.fc.Dial = func(string) (net.Conn, error) { return r.ln.Dial() }
	return r
}

func (r *echoRig) newClient() *client.Client {
	cl := client.NewWithClient(r.fc)
	return cl
}

func (r *echoRig) take() *parsed {
	r.mu.Lock()
	p := r.last
	r.last = nil
	r.mu.Unlock()
	return p
}

func (r *echoRig) close() {
	r.fc.CloseIdleConnections()
	_ = r.ln.Close()
}
