package clienteng

import (
	"strconv"

	"verifharness/internal/ev"
)

func jc(name string) jarCookie {
	for _, n := range jarNames {
		if n.name == name {
			return jarCookie{Name: n.name, Path: n.path}
		}
	}
	panic("harness: unknown jar cookie name " + name)
}

func jcExp(name string, rel int) jarCookie {
	c := jc(name)
	c.ExpKind, c.ExpRel = expExpires, rel
	return c
}

func jcMaxAge(name string, secs int) jarCookie {
	c := jc(name)
	c.ExpKind, c.ExpRel = expMaxAge, secs
	return c
}

func jcDel(name, how string) jarCookie {
	c := jc(name)
	c.Delete = how
	return c
}

func opSet(api, host string, cks ...jarCookie) jarOp {
	return jarOp{Op: "set", API: api, Host: host, Cookies: cks}
}
func opCycle(host, path string, cks ...jarCookie) jarOp {
	return jarOp{Op: "cycle", Host: host, Path: path, Cookies: cks}
}
func opGet(host, path string) jarOp { return jarOp{Op: "get", Host: host, Path: path} }
func opAdv(s int) jarOp             { return jarOp{Op: "advance", Secs: s} }

// jarCorpus: the smallest history per root cause, plus sanity histories that must hold.
func jarCorpus(je *jarEngine) {
	run := func(name string, ops ...jarOp) {
		je.e.Corpus(name, func(c *ev.Case) { je.runHistory(c, false, ops) })
	}
	runReuse := func(name string, ops ...jarOp) {
		je.e.Corpus(name, func(c *ev.Case) { je.runHistory(c, true, ops) })
	}
	// cookie path /a is a prefix of /a/b: must be returned
	run("path-prefix-withheld", opSet("SetByHost", "h1.test", jc("a1")), opGet("h1.test", "/a/b"))
	// cookie path /a/b is not a prefix of /a: must not be returned
	run("path-longer-returned", opSet("SetByHost", "h1.test", jc("ab")), opGet("h1.test", "/a"))
	// sibling path: /ab is not a prefix of /a
	run("path-sibling-returned", opSet("SetByHost", "h1.test", jc("xab")), opGet("h1.test", "/a"))
	// Set(uri) keys by host:port, Get looks up the host without port
	run("host-with-port-set", opSet("Set", "h1.test:8080", jc("np1")), opGet("h1.test:8080", "/"))
	run("host-with-port-response", opCycle("h1.test:8080", "/", jc("root")), opGet("h1.test:8080", "/"))
	// the same cookie sent twice by the server
	run("response-update-duplicate", opCycle("h1.test", "/", jc("root")), opCycle("h1.test", "/", jc("root")), opGet("h1.test", "/"))
	// expiry purge shrinks a local slice only
	run("purge-not-written-back", opSet("SetByHost", "h1.test", jcExp("root", 1), jc("np1")), opAdv(2), opGet("h1.test", "/"), opGet("h1.test", "/"))
	// ... and leaves a released cookie object in the map: a cookie later written for another host
	// (the released object is what AcquireCookie hands out next) appears under the first host
	run("purged-object-other-host", opSet("SetByHost", "h1.test", jc("np1"), jcExp("root", 1)), opAdv(2), opGet("h1.test", "/"),
		opSet("SetKeyValue", "h2.test", jc("np2")), opGet("h1.test", "/"))
	// deletions by the server
	run("delete-max-age-0", opSet("SetByHost", "h1.test", jc("root")), opCycle("h1.test", "/", jcDel("root", "max-age-0")), opGet("h1.test", "/"))
	run("delete-past-expires", opSet("SetByHost", "h1.test", jc("root")), opCycle("h1.test", "/", jcDel("root", "past-expires")), opGet("h1.test", "/"))
	run("delete-past-expires-from-deeper-path", opSet("SetByHost", "h1.test", jc("a1")), opCycle("h1.test", "/a/b", jcDel("a1", "past-expires")), opGet("h1.test", "/a"))
	// Max-Age is the server's expiry
	run("max-age-expiry", opCycle("h1.test", "/", jcMaxAge("root", 2)), opAdv(3), opGet("h1.test", "/"))
	// the map key of an existing host is overwritten with a string that aliases the request's URI
	// buffer (Go updates string keys on assignment); the pooled request is reused for another host
	runReuse("host-key-aliases-request-buffer", opCycle("h1.test", "/", jc("root")), opCycle("h1.test", "/"), opCycle("h2.test", "/"), opGet("h2.test", "/"), opGet("h1.test", "/"))
	runReuse("host-key-aliases-caller-uri", opSet("Set", "h1.test", jc("np1")), opSet("Set", "h1.test", jc("np2")), opGet("h2.test", "/"), opGet("h1.test", "/"))
	// Get hands out the stored objects although its documentation says they are copies
	runReuse("release-returned-cookies", opSet("SetByHost", "h1.test", jc("root")), jarOp{Op: "get", Host: "h1.test", Path: "/", RelRet: true}, opGet("h1.test", "/"))
	// IPv6 literals: the host is what stands between the brackets
	run("ipv6-hosts-differ-in-last-group", opSet("SetByHost", "[2001:db8::a]", jc("root")), opGet("[2001:db8::b]", "/"), opGet("[2001:db8::a]", "/"),
		opCycle("[2001:db8::b]", "/", jcDel("root", "max-age-0")), opGet("[2001:db8::a]", "/"))
	run("ipv6-port-insensitive", opSet("SetByHost", "[2001:db8::a]:8080", jc("root")), opGet("[2001:db8::a]", "/"))
	run("ipv6-host-with-port", opSet("SetByHost", "[2001:db8::a]:8080", jc("root")), opGet("[2001:db8::a]:8080", "/"), opGet("[2001:db8::b]:8080", "/"))
	// "Path=/" and no Path attribute name the same cookie (requests whose default-path is "/"):
	// set one way, deleted / refreshed the other way, all four combinations
	withPath := func(c jarCookie, p string) jarCookie { c.Path = p; return c }
	for _, f := range []struct{ name, first, second string }{{"slash-then-none", "/", ""}, {"none-then-slash", "", "/"}, {"none-then-none", "", ""}, {"slash-then-slash", "/", "/"}} {
		run("root-path-forms-delete-"+f.name, opCycle("h1.test", "/", withPath(jc("root"), f.first)),
			opCycle("h1.test", "/a", withPath(jcDel("root", "max-age-0"), f.second)), opGet("h1.test", "/"), opGet("h1.test", "/a/b"))
		run("root-path-forms-refresh-"+f.name, opCycle("h1.test", "/b", withPath(jc("root"), f.first)),
			opCycle("h1.test", "/", withPath(jc("root"), f.second)), opGet("h1.test", "/"), opCycle("h1.test", "/a/b"))
		run("root-path-forms-set-then-response-"+f.name, opSet("SetByHost", "h1.test", withPath(jc("np1"), f.first)),
			opCycle("h1.test", "/", withPath(jcDel("np1", "past-expires"), f.second)), opGet("h1.test", "/a"))
	}
	// Expires and Max-Age in one Set-Cookie: Max-Age decides (RFC 6265 5.3), in either order
	both := func(c jarCookie, expiresRel int, maxAgeFirst bool) jarCookie {
		c.AlsoExpires, c.MaxAgeFirst = expiresRel, maxAgeFirst
		return c
	}
	for _, first := range []bool{false, true} {
		sfx := map[bool]string{false: "expires-first", true: "max-age-first"}[first]
		run("expires-past-max-age-positive-"+sfx, opSet("SetByHost", "h1.test", jc("root")), opCycle("h1.test", "/", both(jcMaxAge("root", 5), -3, first)),
			opGet("h1.test", "/"), opAdv(6), opGet("h1.test", "/"))
		run("expires-future-max-age-zero-"+sfx, opSet("SetByHost", "h1.test", jc("root")), opCycle("h1.test", "/", both(jcDel("root", "max-age-0"), 6, first)), opGet("h1.test", "/"))
		run("expires-future-max-age-shorter-"+sfx, opCycle("h1.test", "/", both(jcMaxAge("root", 2), 6, first)), opAdv(3), opGet("h1.test", "/"))
		run("expires-past-max-age-zero-"+sfx, opSet("SetByHost", "h1.test", jc("root")), opCycle("h1.test", "/", both(jcDel("root", "max-age-0"), -3, first)), opGet("h1.test", "/"))
	}
	// names differing only in letter case are different cookies, through every way of storing
	for _, api := range []string{"Set", "SetByHost"} {
		run("names-differ-in-case-"+api, opSet(api, "h1.test", jc("root")), opSet(api, "h1.test", jc("ROOT")), opGet("h1.test", "/"),
			opSet(api, "h1.test", jc("A1")), opSet(api, "h1.test", jc("a1")), opGet("h1.test", "/a"))
	}
	run("names-differ-in-case-SetKeyValue", opSet("SetKeyValue", "h1.test", jc("NP1")), opSet("SetKeyValueBytes", "h1.test", jc("np1")), opSet("SetKeyValue", "h1.test", jc("Np1")), opGet("h1.test", "/"))
	run("names-differ-in-case-response", opCycle("h1.test", "/", jc("ROOT")), opCycle("h1.test", "/", jc("root")), opGet("h1.test", "/"),
		opCycle("h1.test", "/", jcDel("root", "max-age-0")), opGet("h1.test", "/"))
	run("names-differ-in-case-mixed", opCycle("h1.test", "/", jc("root")), opSet("SetByHost", "h1.test", jc("ROOT")), opCycle("h1.test", "/"), opGet("h1.test", "/"),
		opSet("SetKeyValue", "h1.test", jc("np1")), opCycle("h1.test", "/", jc("NP1")), opGet("h1.test", "/"))
	// a cookie set by the target of a followed redirect belongs to the target
	run("cookie-set-by-redirect-target", jarOp{Op: "cycle", Host: "h1.test", Path: "/", Target: "h2.test", Cookies: []jarCookie{jc("root")}},
		opGet("h2.test", "/"), opGet("h1.test", "/"))
	// Max-Age beyond 32/63 bits of nanoseconds, and negative Max-Age (= delete now)
	huge := jcMaxAge("root", 5)
	huge.Huge = true
	run("max-age-huge", opCycle("h1.test", "/", huge), opGet("h1.test", "/"), opAdv(2), opGet("h1.test", "/"))
	run("max-age-negative-deletes", opSet("SetByHost", "h1.test", jc("root")), opCycle("h1.test", "/", jcDel("root", "negative-max-age")), opGet("h1.test", "/"))
	// flag attributes before Max-Age / Expires, trailing ';', mixed-case attribute names
	shaped := func(c jarCookie, shape int) jarCookie { c.Shape = shape; return c }
	for _, sh := range []int{1, 2, 3, 4, 8, 16, 31} {
		n := strconv.Itoa(sh)
		run("set-cookie-shape-"+n+"-delete-max-age-0", opSet("SetByHost", "h1.test", jc("root")), opCycle("h1.test", "/", shaped(jcDel("root", "max-age-0"), sh)), opGet("h1.test", "/"))
		run("set-cookie-shape-"+n+"-max-age-expiry", opCycle("h1.test", "/", shaped(jcMaxAge("root", 2), sh)), opGet("h1.test", "/"), opAdv(3), opGet("h1.test", "/"))
		run("set-cookie-shape-"+n+"-delete-past-expires", opSet("SetByHost", "h1.test", jc("root")), opCycle("h1.test", "/", shaped(jcDel("root", "past-expires"), sh)), opGet("h1.test", "/"))
	}
	// sanity: these hold on a correct jar and on this one
	run("sanity-expires", opSet("SetByHost", "h1.test", jcExp("root", 2)), opGet("h1.test", "/"), opAdv(3), opGet("h1.test", "/"))
	run("sanity-hosts", opSet("SetByHost", "h1.test", jc("root")), opSet("SetKeyValue", "h2.test", jc("np1")),
		opGet("h1.test", "/"), opGet("h2.test", "/"), opGet("h3.test", "/"), jarOp{Op: "release"}, opGet("h1.test", "/"))
}
