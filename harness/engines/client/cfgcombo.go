package clienteng

import (
	"errors"
	"fmt"
	"io"
	"net"
	"runtime"
	"strconv"
	"strings"
	"time"

	"github.com/gofiber/fiber/v3"
	"github.com/gofiber/fiber/v3/client"
	"github.com/valyala/fasthttp"
	"github.com/valyala/fasthttp/fasthttputil"

	"verifharness/internal/ev"
	"verifharness/internal/gen"
)

// Config combinations (vt): the axios-like entry points take a client.Config. Every field of one
// Config must take effect together with every other: each payload kind (Body, FormData, File,
// none) x Timeout x MaxRedirects x Header / Param / Cookie / UserAgent / Referer / PathParam.
// The server redirects "hop" times, then sleeps (virtual) and echoes what it received.

type cfgCase struct {
	Payload      string `json:"payload"` // none | body | formdata | file
	Entry        string `json:"entry"`   // client.Custom | client.<Method> | package-level <Method>
	Method       string `json:"method"`
	DelayMs      int    `json:"server_delay_ms"`
	TimeoutMs    int    `json:"config_timeout_ms"`
	ClientTOMs   int    `json:"client_level_timeout_ms"`
	MaxRedirects int    `json:"config_max_redirects"`
	Hops         int    `json:"redirect_chain"`
	Tag          string `json:"tag"`
	// Uses: the SAME client.Config value (and the maps inside it) is used for this many consecutive
	// requests, each response closed before the next request: a Config is plain data of the caller,
	// every use must give the same request and leave the caller's maps untouched.
	Uses int `json:"uses_of_the_same_config"`
}

type cfgRig struct {
	app *fiber.App
	ln  *fasthttputil.InmemoryListener
	fc  *fasthttp.Client
}

func newCfgRig() *cfgRig {
	r := &cfgRig{}
	r.app = fiber.New()
	r.app.All("/c/:id", func(c fiber.Ctx) error {
		hop, _ := strconv.Atoi(c.Query("hop"))
		if hop > 0 {
			return c.Redirect().Status(302).To("/c/" + c.Params("id") + "?hop=" + strconv.Itoa(hop-1) + "&d=" + c.Query("d") + "&tag=" + c.Query("tag"))
		}
		if d, _ := strconv.Atoi(c.Query("d")); d > 0 {
			time.Sleep(time.Duration(d) * time.Millisecond)
		}
		kind := "none"
		ct := string(c.Request().Header.ContentType())
		switch {
		case strings.HasPrefix(ct, "application/json"):
			kind = "json:" + string(c.Body())
		case strings.HasPrefix(ct, "application/x-www-form-urlencoded"):
			kind = "form:" + c.FormValue("f")
		case strings.HasPrefix(ct, "multipart/form-data"):
			kind = "file:"
			if fh, err := c.FormFile("up"); err == nil {
				kind += fh.Filename + ":" + strconv.Itoa(int(fh.Size))
			}
		}
		return c.SendString(strings.Join([]string{"id=" + c.Params("id"), "q=" + c.Query("tag"), "h=" + c.Get("X-Tag"), "c=" + c.Cookies("ck"),
			"ua=" + c.Get("User-Agent"), "ref=" + c.Get("Referer"), "m=" + c.Method(), "p=" + kind}, "|"))
	})
	r.ln = fasthttputil.NewInmemoryListener()
	go func() { _ = r.app.Listener(r.ln, fiber.ListenConfig{DisableStartupMessage: true}) }()
	r.fc = &fasthttp.Client{}
	r.fc.Dial = func(string) (net.Conn, error) { return r.ln.Dial() }
	return r
}

func cfgCombo(e *ev.Env, c *ev.Case, fixed *cfgCase) {
	r := c.R
	cc := fixed
	if cc == nil {
		cc = &cfgCase{Payload: gen.Pick(r, []string{"none", "body", "formdata", "file"}), Entry: gen.Pick(r, []string{"client.Custom", "client.Method", "package.Method"})}
		cc.DelayMs = r.Range(20, 200)
		switch r.Intn(3) {
		case 0: // shorter than the server delay: must time out
			cc.TimeoutMs = r.Range(5, cc.DelayMs-5)
		case 1: // longer: must not matter
			cc.TimeoutMs = cc.DelayMs + r.Range(5, 100)
		}
		if cc.TimeoutMs > 0 && r.Chance(1, 3) {
			// a client-level timeout on the other side of the delay: the Config's must win
			if cc.TimeoutMs < cc.DelayMs {
				cc.ClientTOMs = cc.DelayMs + r.Range(5, 100)
			} else {
				cc.ClientTOMs = r.Range(5, cc.DelayMs-5)
			}
		}
		cc.Method = "POST"
		if cc.Payload == "none" || r.Bool() {
			cc.Method = "GET"
		}
		if cc.Method == "GET" && r.Chance(2, 3) {
			// redirects are followed for GET
			cc.MaxRedirects = r.Range(1, 3)
			cc.Hops = r.Range(0, cc.MaxRedirects+1)
			if cc.TimeoutMs > 0 && cc.TimeoutMs < cc.DelayMs && cc.Hops > cc.MaxRedirects {
				cc.Hops = cc.MaxRedirects // one expectation per case
			}
		}
		cc.Tag = r.StringFrom(gen.AlphaNum, r.Range(1, 6))
		cc.Uses = r.Range(1, 3)
	}
	if cc.Uses < 1 {
		cc.Uses = 1
	}
	rig := newCfgRig()
	cl := client.NewWithClient(rig.fc)
	if cc.ClientTOMs > 0 {
		cl.SetTimeout(time.Duration(cc.ClientTOMs) * time.Millisecond)
	}
	id := "k" + strconv.FormatInt(ownSeq.Add(1), 10)
	cfg := client.Config{
		Header: map[string]string{"X-Tag": "h" + cc.Tag}, Param: map[string]string{"tag": "q" + cc.Tag, "d": strconv.Itoa(cc.DelayMs), "hop": strconv.Itoa(cc.Hops)},
		Cookie: map[string]string{"ck": "c" + cc.Tag}, PathParam: map[string]string{"id": id},
		UserAgent: "ua" + cc.Tag, Referer: "http://ref.test/" + cc.Tag,
		Timeout: time.Duration(cc.TimeoutMs) * time.Millisecond, MaxRedirects: cc.MaxRedirects,
	}
	wantPayload := "none"
	switch cc.Payload {
	case "body":
		cfg.Body = map[string]string{"k": cc.Tag}
		wantPayload = `json:{"k":"` + cc.Tag + `"}`
	case "formdata":
		cfg.FormData = map[string]string{"f": "f" + cc.Tag}
		wantPayload = "form:f" + cc.Tag
	case "file":
		wantPayload = "file:n" + cc.Tag + ".txt:" + strconv.Itoa(len(cc.Tag))
	}
	copyMap := func(m map[string]string) map[string]string {
		if m == nil {
			return nil
		}
		c := make(map[string]string, len(m))
		for k, v := range m {
			c[k] = v
		}
		return c
	}
	before := map[string]map[string]string{"Header": copyMap(cfg.Header), "Param": copyMap(cfg.Param), "Cookie": copyMap(cfg.Cookie),
		"PathParam": copyMap(cfg.PathParam), "FormData": copyMap(cfg.FormData)}
	mustTimeOut := cc.TimeoutMs > 0 && cc.TimeoutMs < cc.DelayMs
	for use := 0; use < cc.Uses; use++ {
		if use > 0 && mustTimeOut {
			time.Sleep(time.Duration(cc.DelayMs+10) * time.Millisecond) // let the abandoned exchange finish
		}
		if !cfgOnce(e, c, cc, cl, &cfg, id, wantPayload, use) {
			break
		}
	}
	after := map[string]map[string]string{"Header": cfg.Header, "Param": cfg.Param, "Cookie": cfg.Cookie, "PathParam": cfg.PathParam, "FormData": cfg.FormData}
	for _, f := range []string{"Header", "Param", "Cookie", "PathParam", "FormData"} {
		same := len(before[f]) == len(after[f])
		for k, v := range before[f] {
			if w, ok := after[f][k]; !ok || w != v {
				same = false
			}
		}
		if !same {
			e.Violation(c, "fidelity|config|caller-map-modified|"+f, "the map the caller put into the Config was changed by sending the request",
				map[string]any{"case": cc, "field": f, "before": before[f], "after": after[f]})
		}
	}
	e.Nontrivial("cfg", cc.Payload, cc.Entry, cc.Method, strconv.FormatBool(mustTimeOut), strconv.Itoa(cc.MaxRedirects), strconv.Itoa(cc.Hops), strconv.FormatBool(cc.ClientTOMs > 0), strconv.FormatBool(cc.TimeoutMs > 0), strconv.Itoa(cc.Uses))
	e.Stat("config_combinations", 1)
	if cc.Uses > 1 {
		e.Stat("configs_used_repeatedly", 1)
	}
	// drain what a timed-out call left behind, and empty the pools (see runOwnSchedule)
	time.Sleep(time.Duration(cc.DelayMs+10) * time.Millisecond)
	rig.fc.CloseIdleConnections()
	_ = rig.ln.Close()
	runtime.GC()
	runtime.GC()
}

// cfgOnce sends one request with the (shared) Config and judges it. use > 0: a repeated use of
// the same Config value. Returns false when further uses make no sense (a violation was reported).
func cfgOnce(e *ev.Env, c *ev.Case, cc *cfgCase, cl *client.Client, cfgp *client.Config, id, wantPayload string, use int) bool {
	ok := true
	report := func(sig, what string, det map[string]any) {
		ok = false
		if use > 0 {
			// the first use was fine: the same configuration gave a different request
			sig = "determinism|config-reused|" + strings.TrimPrefix(sig, "fidelity|")
			if i := strings.Index(sig, "|with-"); i > 0 {
				sig = sig[:i] // the payload kind is beside the point of a repeated use
			}
			det["use"] = use + 1
		}
		e.Violation(c, sig, what, det)
	}
	if cc.Payload == "file" {
		// File objects are pooled and handed over to the request: fresh ones per use
		cfgp.File = []*client.File{client.AcquireFile(client.SetFileName("n"+cc.Tag+".txt"), client.SetFileFieldName("up"), client.SetFileReader(io.NopCloser(strings.NewReader(cc.Tag))))}
	}
	cfg := *cfgp
	url := "http://cfg.test/c/:id"
	var resp *client.Response
	var err error
	t0 := time.Now()
	switch cc.Entry {
	case "client.Custom":
		resp, err = cl.Custom(url, cc.Method, cfg)
	case "client.Method":
		if cc.Method == "GET" {
			resp, err = cl.Get(url, cfg)
		} else {
			resp, err = cl.Post(url, cfg)
		}
	default:
		restore := client.Replace(cl)
		if cc.Method == "GET" {
			resp, err = client.Get(url, cfg)
		} else {
			resp, err = client.Post(url, cfg)
		}
		restore()
	}
	el := time.Since(t0)
	e.Eval(1)
	det := map[string]any{"case": cc, "elapsed_ms": el.Milliseconds()}
	body, status := "", 0
	if err == nil {
		body, status = string(resp.Body()), resp.StatusCode()
		resp.Close()
		det["status"], det["body"] = status, body
	} else {
		det["err"] = err.Error()
	}
	with := "|with-" + cc.Payload
	mustTimeOut := cc.TimeoutMs > 0 && cc.TimeoutMs < cc.DelayMs
	overLimit := cc.MaxRedirects > 0 && cc.Hops > cc.MaxRedirects
	switch {
	case mustTimeOut && err == nil:
		report("fidelity|config-timeout|not-applied"+with, "Config.Timeout is shorter than the server delay, the call must fail with ErrTimeoutOrCancel", det)
	case mustTimeOut && !errors.Is(err, client.ErrTimeoutOrCancel):
		report("fidelity|config-timeout|other-error|"+sigWord(err.Error()), "unexpected error instead of the timeout", det)
	case mustTimeOut && (el < time.Duration(cc.TimeoutMs)*time.Millisecond || el >= time.Duration(cc.DelayMs)*time.Millisecond):
		report("fidelity|config-timeout|fired-at-other-instant"+with, "the call did not time out at Config.Timeout", det)
	case mustTimeOut:
	case overLimit && err == nil && status == 200:
		report("fidelity|config-max-redirects|limit-not-enforced"+with, "a redirect chain longer than Config.MaxRedirects was followed to its end", det)
	case overLimit && err == nil && status == 302:
		report("fidelity|config-max-redirects|not-applied"+with, "Config.MaxRedirects > 0 but the first redirect was handed back unfollowed", det)
	case overLimit:
		if errors.Is(err, client.ErrTimeoutOrCancel) {
			report("fidelity|config-timeout|spurious"+with, "the call timed out although no configured timeout had elapsed", det)
		}
	case err != nil && errors.Is(err, client.ErrTimeoutOrCancel):
		sig := "fidelity|config-timeout|not-applied" + with
		if cc.ClientTOMs == 0 {
			sig = "fidelity|config-timeout|spurious" + with
		}
		report(sig, "Config.Timeout is longer than the server delay (or absent): the call must succeed", det)
	case err != nil:
		report("fidelity|config|send-error|"+sigWord(err.Error()), "the call failed", det)
	case cc.MaxRedirects > 0 && cc.Hops > 0 && status == 302:
		report("fidelity|config-max-redirects|not-applied"+with, "Config.MaxRedirects > 0 but the redirect was handed back unfollowed", det)
	case cc.Hops > 0 && cc.MaxRedirects == 0:
		// not followed, by configuration
	default:
		want := map[string]string{"id": id, "q": "q" + cc.Tag, "h": "h" + cc.Tag, "c": "c" + cc.Tag, "ua": "ua" + cc.Tag, "ref": "http://ref.test/" + cc.Tag, "m": cc.Method, "p": wantPayload}
		got := map[string]string{}
		for _, part := range strings.SplitN(body, "|", 8) {
			k, v, _ := strings.Cut(part, "=")
			got[k] = v
		}
		for _, k := range []string{"id", "q", "h", "c", "ua", "ref", "m", "p"} {
			if got[k] != want[k] {
				det["item"], det["expected"], det["received"] = k, want[k], got[k]
				report("fidelity|config|"+map[string]string{"id": "path-param", "q": "param", "h": "header", "c": "cookie", "ua": "user-agent", "ref": "referer", "m": "method", "p": "payload"}[k]+"-not-applied"+with,
					fmt.Sprintf("Config item %q did not take effect in combination with the others", k), det)
				break
			}
		}
	}
	return ok
}
