package clienteng

import (
	"fmt"
	"net"
	"sort"
	"strconv"
	"strings"
	"sync"
	"time"

	"github.com/gofiber/fiber/v3"
	"github.com/gofiber/fiber/v3/client"
	"github.com/valyala/fasthttp"
	"github.com/valyala/fasthttp/fasthttputil"

	"verifharness/internal/ev"
	"verifharness/internal/gen"
	"verifharness/internal/vt"
)

// ---------------------------------------------------------------------------------------------
// Specification: a set of (host, path, name, value, expiry). "host" is the host name without
// port. A cookie is identified by (host, name); the generator binds every name to one path, so
// the question whether equal names with different paths are one cookie or two never arises.
// Values are the id of the write ("w17"), deletions sent by the server carry "d17".

// name -> path ("" = cookie without Path attribute: the empty string is a prefix of every path)
var jarNames = []struct{ name, path string }{
	{"root", "/"}, {"a1", "/a"}, {"a2", "/a"}, {"ab", "/a/b"}, {"xab", "/ab"}, {"np1", ""}, {"np2", ""}, {"b1", "/b"},
	// cookie names are case-sensitive: these are different cookies from their lower-case twins,
	// bound to the same paths so that both match the same requests
	{"ROOT", "/"}, {"A1", "/a"}, {"Np1", ""}, {"NP1", ""},
}

var jarHosts = []string{"h1.test", "h2.test", "h1.test:8080", "h2.test:9090", "h3.test:8080", "h3.test"}

// IPv6 literals that differ only in the last group, with and without port: the brackets contain
// colons, so a host key cut at "the last colon" instead of by the host:port grammar merges them.
var jarHosts6 = []string{"[2001:db8::a]", "[2001:db8::b]", "[2001:db8::a]:8080", "[2001:db8::b]:9090", "[::1]", "[::2]"}
var jarReqPaths = []string{"/", "/a", "/a/b", "/ab", "/b", "/a/b/c", "/a/"}

// hostName is the host without port; an IPv6 literal keeps its address only ("[::1]:80" and
// "[::1]" are both "::1").
func hostName(h string) string {
	if strings.HasPrefix(h, "[") {
		if i := strings.IndexByte(h, ']'); i > 0 {
			return h[1:i]
		}
	}
	if hn, _, err := net.SplitHostPort(h); err == nil {
		return hn
	}
	return h
}

func isV6(h string) bool { return strings.HasPrefix(h, "[") }

func hostHasPort(h string) bool {
	if isV6(h) {
		return strings.Contains(h, "]:")
	}
	return strings.Contains(h, ":")
}

const (
	expNone    = iota
	expExpires // absolute instant (whole seconds when sent by the server)
	expMaxAge  // seconds after receipt (responses only)
)

type jarCookie struct {
	Name    string `json:"name"`
	Path    string `json:"path"`
	Value   string `json:"value"`
	ExpKind int    `json:"exp_kind"`
	ExpRel  int    `json:"exp_rel_s"` // seconds relative to the instant of the write
	// AlsoExpires != 0 (responses with Max-Age only): the Set-Cookie additionally carries an Expires
	// attribute AlsoExpires seconds from now (negative = past) that contradicts or agrees with
	// Max-Age. RFC 6265 5.3: Max-Age has precedence, so the specification ignores it.
	AlsoExpires int `json:"also_expires_rel_s,omitempty"`
	// Huge (Max-Age only): Max-Age=9999999999 - far beyond any history, the cookie never expires here
	Huge bool `json:"max_age_huge,omitempty"`
	// Shape of the Set-Cookie line (responses): bit 1 HttpOnly and bit 2 Secure directly after the
	// value (before Path / Max-Age / Expires), bit 4 HttpOnly at the end, bit 8 trailing ";",
	// bit 16 attribute names in mixed case. Attribute order and case carry no meaning.
	Shape       int    `json:"line_shape,omitempty"`
	MaxAgeFirst bool   `json:"max_age_before_expires,omitempty"`
	Delete      string `json:"delete,omitempty"` // "max-age-0" | "past-expires" (responses only)
}

type jarOp struct {
	Op      string      `json:"op"` // set | cycle | get | advance | release | reacquire
	API     string      `json:"api,omitempty"`
	Host    string      `json:"host,omitempty"`
	Path    string      `json:"path,omitempty"`
	Cookies []jarCookie `json:"cookies,omitempty"`
	Secs    int         `json:"secs,omitempty"`
	KeepObj bool        `json:"keep_obj,omitempty"` // do not release the harness' cookie objects after Set
	// Target (cycle): the request goes to Host, which redirects to Target (the client follows:
	// SetMaxRedirects); the Set-Cookie lines come from Target, so the cookies belong to Target
	Target string `json:"redirect_target,omitempty"`
	RelRet bool   `json:"release_returned,omitempty"` // Get: release the returned cookies (documented as safe)
}

type jarWrite struct {
	id       int
	op       int
	host     string // as given to the API
	hostname string
	ck       jarCookie
	via      string
	at       time.Time
	expAt    time.Time // zero = never
	redirect bool      // set by the target of a redirect
	updated  bool      // the spec held a live cookie (host,name) when this write arrived via a response
}

type jarEntry struct {
	w *jarWrite
}

type jarSpec struct {
	writes    map[string]*jarWrite // by value
	live      map[string]*jarEntry // hostname + "\x00" + name
	gone      map[string]string    // value -> why it is no longer stored: superseded | server-deleted:<kind> | released
	purged    map[string]bool      // hostname -> an expired cookie of this host was due for purge at a Get
	respUpd   map[string]bool      // hostname+name -> a response carried a cookie that was already stored
	redirFrom map[string]bool      // origin hostname+name -> a followed redirect from this host brought a Set-Cookie of this name from another host
	ever      map[string]bool      // hostname+name -> written since the last release
	anyPurg   bool
	hosts     map[string]bool
	expired   int
	// reuse: the history releases URI / request / cookie objects after use (documented as safe), so
	// the pools hand the same objects out again. Catch-all classes carry it in the signature: a
	// catch-all violation in a history that reuses nothing is a different root cause.
	reuse  bool
	relRet bool // the returned cookies of an earlier Get were released by the caller
}

func newJarSpec() *jarSpec {
	return &jarSpec{writes: map[string]*jarWrite{}, live: map[string]*jarEntry{}, gone: map[string]string{},
		purged: map[string]bool{}, hosts: map[string]bool{}, respUpd: map[string]bool{}, ever: map[string]bool{}, redirFrom: map[string]bool{}}
}

func (s *jarSpec) put(w *jarWrite) {
	key := w.hostname + "\x00" + w.ck.Name
	s.writes[w.ck.Value] = w
	s.hosts[w.hostname] = true
	if w.via == "response" && s.ever[key] {
		// the jar may hold an object for this name (also that of a deletion it kept)
		s.respUpd[key] = true
	}
	s.ever[key] = true
	if old := s.live[key]; old != nil {
		if w.ck.Delete != "" {
			s.gone[old.w.ck.Value] = "server-deleted:" + w.ck.Delete + shapeClass(w.ck)
		} else {
			s.gone[old.w.ck.Value] = "superseded"
		}
		w.updated = true
		if w.via == "response" {
			s.respUpd[key] = true
		}
	}
	if w.ck.Delete != "" {
		delete(s.live, key)
		s.gone[w.ck.Value] = "server-deleted:" + w.ck.Delete
		return
	}
	s.live[key] = &jarEntry{w: w}
}

// caseTwin: was a cookie whose name differs from w's only in letter case written for w's host?
func (s *jarSpec) caseTwin(w *jarWrite) bool {
	for _, o := range s.writes {
		if o.hostname == w.hostname && o.ck.Name != w.ck.Name && strings.EqualFold(o.ck.Name, w.ck.Name) && s.gone[o.ck.Value] != "released" {
			return true
		}
	}
	return false
}

// shapeClass: the deleting Set-Cookie had a flag attribute (no "=") before its Max-Age / Expires.
func shapeClass(ck jarCookie) string {
	if ck.Shape&3 != 0 {
		return "|flag-attribute-first"
	}
	return ""
}

func (s *jarSpec) release() {
	for k, e := range s.live {
		s.gone[e.w.ck.Value] = "released"
		delete(s.live, k)
	}
	s.purged = map[string]bool{}
	s.respUpd = map[string]bool{}
	s.ever = map[string]bool{}
	s.anyPurg = false
}

// segPrefix: cookie path p is a prefix of request path q at a segment boundary (or p is empty or "/").
func segPrefix(p, q string) bool {
	if p == "" || p == "/" {
		return true
	}
	if !strings.HasPrefix(q, p) {
		return false
	}
	return len(q) == len(p) || q[len(p)] == '/' || strings.HasSuffix(p, "/")
}

type retCookie struct {
	Name  string `json:"name"`
	Value string `json:"value"`
	Path  string `json:"path"`
}

type jarFinding struct {
	sig, what string
	ck        any
}

func expKindName(k int) string {
	if k == expMaxAge {
		return "max-age"
	}
	return "expires"
}

// judge compares what Get (or the Cookie header on the wire) returned with the specification.
// wire: names are unique on the wire (the request header holds one value per name), so the
// duplicate clause is not observable there.
func (s *jarSpec) judge(now time.Time, host, path string, got []retCookie, wire bool) []jarFinding {
	hn := hostName(host)
	var out []jarFinding
	counted := map[string]int{}
	// purge bookkeeping: which cookies of this host are past their expiry now
	// (every write counts, also a superseded one: with the host-with-port keying the superseded
	// cookie may still sit under the other key)
	for _, w := range s.writes {
		// (a deletion by a past Expires overwrites the stored object with an expired cookie, which
		// the next Get for the host purges like any other)
		if w.hostname == hn && s.gone[w.ck.Value] != "released" &&
			(w.ck.Delete == "past-expires" || (!w.expAt.IsZero() && w.expAt.Before(now))) {
			s.purged[hn] = true
			s.anyPurg = true
		}
	}
	// ctx: what may have disturbed the jar's internal state earlier in this history; appended to
	// the catch-all classes so that a catch-all violation in an undisturbed history stands out
	ctx := func() string {
		switch {
		case s.relRet:
			return "|after-releasing-returned-cookies"
		case s.anyPurg:
			return "|after-expiry-purge"
		case s.reuse:
			return "|objects-reused"
		}
		return ""
	}
	for _, r := range got {
		w := s.writes[r.Value]
		switch {
		case w == nil && r.Name == "" && r.Value == "":
			out = append(out, jarFinding{"jar|unknown-cookie|empty-object" + ctx(), "Get returned a cookie without name and value (a cookie object that was released to the pool)", r})
			continue
		case w == nil:
			out = append(out, jarFinding{"jar|unknown-cookie|never-written" + ctx(), "Get returned a cookie that was never written", r})
			continue
		case w.ck.Name != r.Name:
			out = append(out, jarFinding{"jar|unknown-cookie|name-of-another-write" + ctx(), "Get returned the value of one write under the name of another", r})
			continue
		case w.hostname != hn && w.redirect:
			out = append(out, jarFinding{"jar|other-host|set-by-redirect-target", fmt.Sprintf("cookie set by %s, the target of a redirect, returned for %s", w.hostname, hn), r})
			continue
		case w.hostname != hn:
			out = append(out, jarFinding{"jar|other-host" + ctx(), fmt.Sprintf("cookie stored for host %s returned for host %s", w.hostname, hn), r})
			continue
		}
		if why, ok := s.gone[r.Value]; ok {
			switch {
			case why == "superseded":
				cls := "other" + ctx()
				lv := s.live[hn+"\x00"+r.Name]
				switch {
				case lv != nil && lv.w.redirect:
					out = append(out, jarFinding{"jar|other-host|set-by-redirect-target", "the cookie set by the target of a redirect did not replace the target's stored cookie", r})
					continue
				case s.caseTwin(w):
					cls = "name-differs-only-in-case"
				case isV6(host) && (hostHasPort(w.host) != hostHasPort(host) || (lv != nil && hostHasPort(lv.w.host) != hostHasPort(host))):
					cls = "host-with-port|ipv6-literal"
				case !isV6(host) && (hostHasPort(w.host) || (lv != nil && hostHasPort(lv.w.host))):
					cls = "host-with-port"
				case s.respUpd[hn+"\x00"+r.Name]:
					cls = "after-response-update-of-existing"
				}
				out = append(out, jarFinding{"jar|stale-value|" + cls, "Get returned a value that a later write for the same host and name replaced", r})
			case strings.HasPrefix(why, "server-deleted:"):
				out = append(out, jarFinding{"jar|server-deleted-returned|" + strings.TrimPrefix(why, "server-deleted:"), "Get returned a cookie the server had deleted", r})
			default:
				out = append(out, jarFinding{"jar|returned-after-release", "Get returned a cookie stored before Release", r})
			}
			continue
		}
		if !w.expAt.IsZero() {
			if w.expAt.Equal(now) {
				continue // tie: not asserted
			}
			if w.expAt.Before(now) {
				out = append(out, jarFinding{"jar|expired-returned|" + expKindName(w.ck.ExpKind) + "|" + w.via, "Get returned a cookie past its expiry", r})
				continue
			}
		}
		if !strings.HasPrefix(path, w.ck.Path) {
			if strings.HasPrefix(w.ck.Path, path) {
				out = append(out, jarFinding{"jar|path-prefix-reversed", fmt.Sprintf("cookie with path %q returned for request path %q (request path is a prefix of the cookie path, not the other way round)", w.ck.Path, path), r})
			} else {
				out = append(out, jarFinding{"jar|non-matching-path", fmt.Sprintf("cookie with path %q returned for request path %q", w.ck.Path, path), r})
			}
			continue
		}
		counted[r.Value]++
	}
	if !wire {
		vals := make([]string, 0, len(counted))
		for v := range counted {
			vals = append(vals, v)
		}
		sort.Strings(vals)
		for _, v := range vals {
			if n := counted[v]; n > 1 {
				w := s.writes[v]
				cls := "other" + ctx()
				if s.respUpd[hn+"\x00"+w.ck.Name] {
					cls = "after-response-update-of-existing"
				}
				out = append(out, jarFinding{"jar|duplicate-returned|" + cls, fmt.Sprintf("cookie returned %d times", n), retCookie{w.ck.Name, v, w.ck.Path}})
			}
		}
	}
	// withheld
	keys := make([]string, 0, len(s.live))
	for k := range s.live {
		keys = append(keys, k)
	}
	sort.Strings(keys)
	for _, k := range keys {
		w := s.live[k].w
		if w.hostname != hn || counted[w.ck.Value] > 0 {
			continue
		}
		if !w.expAt.IsZero() && !w.expAt.After(now) {
			continue
		}
		if !strings.HasPrefix(path, w.ck.Path) {
			continue
		}
		if !segPrefix(w.ck.Path, path) {
			continue // "/a" vs "/ab": string prefix but not a path prefix — not asserted either way
		}
		cls := "other" + ctx()
		switch {
		case len(w.ck.Path) > 1 && len(path) > len(w.ck.Path):
			// the reversed prefix test alone explains this one, whatever else is true of the cookie
			out = append(out, jarFinding{"jar|path-prefix-reversed", fmt.Sprintf("cookie with path %q withheld for request path %q", w.ck.Path, path), retCookie{w.ck.Name, w.ck.Value, w.ck.Path}})
			continue
		case w.redirect:
			out = append(out, jarFinding{"jar|other-host|set-by-redirect-target", fmt.Sprintf("cookie set by %s, the target of a redirect, is not stored for it", w.hostname), retCookie{w.ck.Name, w.ck.Value, w.ck.Path}})
			continue
		case w.ck.Huge:
			cls = "max-age-overflow"
		case s.caseTwin(w):
			// another cookie of this host has the same name in different letter case
			cls = "name-differs-only-in-case"
		case w.ck.AlsoExpires < 0 && w.ck.ExpKind == expMaxAge:
			// Set-Cookie with a past Expires and a positive Max-Age: Max-Age decides, the cookie lives
			cls = "max-age-overridden-by-expires"
		case isV6(host) && hostHasPort(w.host) != hostHasPort(host):
			// "[::1]:80" and "[::1]" are the same host
			cls = "host-with-port|ipv6-literal"
		case !isV6(host) && hostHasPort(w.host):
			cls = "host-with-port"
		case s.respUpd[k]:
			cls = "after-response-update-of-existing"
		}
		out = append(out, jarFinding{"jar|withheld|" + cls, fmt.Sprintf("unexpired cookie with path %q stored for %s not returned for %s%s", w.ck.Path, w.host, host, path), retCookie{w.ck.Name, w.ck.Value, w.ck.Path}})
	}
	// A followed redirect stores the target's cookies under the origin host: whatever goes wrong
	// afterwards with a cookie of that name at the origin (overwritten, deleted, duplicated) is
	// that root cause.
	for k := range out {
		name := ""
		if rc, ok := out[k].ck.(retCookie); ok {
			name = rc.Name
		}
		if name != "" && s.redirFrom[hn+"\x00"+name] && out[k].sig != "jar|path-prefix-reversed" {
			out[k].sig = "jar|other-host|set-by-redirect-target"
		}
	}
	return out
}

// ---------------------------------------------------------------------------------------------
// rig: a server that answers with the Set-Cookie lines the history prescribes and records the
// Cookie header it received.

type jarRig struct {
	app *fiber.App
	ln  *fasthttputil.InmemoryListener
	fc  *fasthttp.Client

	mu       sync.Mutex
	setLines []string
	gotCk    []kv
	gotHost  string
	served   int
}

func newJarRig() *jarRig {
	r := &jarRig{}
	r.app = fiber.New()
	r.app.All("/*", func(c fiber.Ctx) error {
		r.mu.Lock()
		defer r.mu.Unlock()
		r.served++
		r.gotCk = nil
		r.gotHost = string(c.Request().Header.Host())
		c.Request().Header.VisitAll(func(k, v []byte) {
			if strings.EqualFold(string(k), "cookie") {
				r.gotCk = append(r.gotCk, parseCookieHeader(string(v))...)
			}
		})
		if to := c.Query("redirect_to"); to != "" {
			// first hop of a redirect: no cookies here, the target sets them
			r.gotCk = nil
			return c.Redirect().Status(302).To("http://" + to + c.Path())
		}
		for _, l := range r.setLines {
			c.Response().Header.Add("Set-Cookie", l)
		}
		return c.SendString("ok")
	})
	r.ln = fasthttputil.NewInmemoryListener()
	go func() { _ = r.app.Listener(r.ln, fiber.ListenConfig{DisableStartupMessage: true}) }()
	r.fc = &fasthttp.Client{}
	r.fc.Dial = func(string) (net.Conn, error) { return r.ln.Dial() }
	return r
}

func httpDate(t time.Time) string { return t.UTC().Format("Mon, 02 Jan 2006 15:04:05") + " GMT" }

// ---------------------------------------------------------------------------------------------
// history generation

// defaultPath is RFC 6265 5.1.4: the path a cookie without Path attribute gets from the request.
func defaultPath(reqPath string) string {
	if reqPath == "" || reqPath[0] != '/' {
		return "/"
	}
	i := strings.LastIndexByte(reqPath, '/')
	if i == 0 {
		return "/"
	}
	return reqPath[:i]
}

// genJarCookie draws a cookie. pathless: the API cannot carry a path (SetKeyValue). reqPath: path
// of the request whose response carries the cookie (viaResponse).
//
// The names bound to "/" and to "no path" are one class: a cookie without path belongs to "/"
// (the jar's own rule, and RFC 6265 for a response to a request whose default-path is "/").
// For these names every write chooses afresh between "Path=/" and no path at all, so the same
// cookie is set one way and refreshed or deleted the other way. A response omits the Path
// attribute only where the default-path of its request is "/" - elsewhere RFC 6265 and "no path
// means /" disagree and nothing is asserted.
func genJarCookie(r *gen.Rand, viaResponse bool, pathless bool, reqPath string) jarCookie {
	var n struct{ name, path string }
	for {
		n = jarNames[r.Intn(len(jarNames))]
		if !pathless || len(n.path) <= 1 {
			break
		}
	}
	ck := jarCookie{Name: n.name, Path: n.path}
	if len(n.path) <= 1 {
		ck.Path = gen.Pick(r, []string{"", "/"})
		if viaResponse && defaultPath(reqPath) != "/" {
			ck.Path = "/"
		}
	}
	if pathless {
		ck.Path = ""
		return ck
	}
	switch r.PickW(5, 4, 2) {
	case 1:
		ck.ExpKind = expExpires
		ck.ExpRel = r.Range(-2, 6)
		if ck.ExpRel == 0 {
			ck.ExpRel = 1
		}
	case 2:
		if viaResponse {
			ck.ExpKind = expMaxAge
			ck.ExpRel = r.Range(1, 5)
		}
	}
	if viaResponse && r.Chance(1, 5) {
		ck.ExpKind, ck.ExpRel = expNone, 0
		ck.Delete = gen.Pick(r, []string{"max-age-0", "past-expires", "negative-max-age"})
	}
	if viaResponse && ck.ExpKind == expMaxAge && r.Chance(1, 6) {
		ck.Huge = true
	}
	if viaResponse && r.Chance(1, 2) {
		ck.Shape = r.Intn(32)
	}
	if viaResponse && (ck.ExpKind == expMaxAge || ck.Delete == "max-age-0") && r.Chance(1, 2) {
		// both attributes, all four combinations (Expires past / future x Max-Age <= 0 / > 0)
		ck.AlsoExpires = gen.Pick(r, []int{-3, -1, 2, 6})
		ck.MaxAgeFirst = r.Bool()
	}
	return ck
}

func genJarHistory(r *gen.Rand) []jarOp {
	n := r.Range(4, 14)
	// most histories concentrate on two or three hosts so that operations meet
	hosts := append([]string(nil), jarHosts...)
	if r.Chance(1, 4) {
		// a history among IPv6 literals (one in four), sometimes mixed with a name
		hosts = append([]string(nil), jarHosts6...)
		if r.Chance(1, 3) {
			hosts = append(hosts, "h1.test")
		}
	}
	gen.Shuffle(r, hosts)
	hosts = hosts[:r.Range(2, 4)]
	var ops []jarOp
	for i := 0; i < n; i++ {
		switch r.PickW(5, 4, 7, 3, 1, 1) {
		case 0:
			op := jarOp{Op: "set", Host: gen.Pick(r, hosts), KeepObj: r.Chance(1, 4)}
			op.API = gen.Pick(r, []string{"Set", "SetByHost", "SetByHost", "SetKeyValue", "SetKeyValueBytes"})
			pathless := strings.HasPrefix(op.API, "SetKeyValue")
			k := 1
			if !pathless && r.Chance(1, 3) {
				k = 2
			}
			seen := map[string]bool{}
			for j := 0; j < k; j++ {
				ck := genJarCookie(r, false, pathless, "")
				if seen[ck.Name] {
					continue
				}
				seen[ck.Name] = true
				op.Cookies = append(op.Cookies, ck)
			}
			ops = append(ops, op)
		case 1:
			op := jarOp{Op: "cycle", Host: gen.Pick(r, hosts), Path: gen.Pick(r, jarReqPaths)}
			if t := gen.Pick(r, hosts); r.Chance(1, 8) && hostName(t) != hostName(op.Host) {
				op.Target = t
			}
			k := r.Range(0, 2)
			seen := map[string]bool{}
			for j := 0; j < k; j++ {
				ck := genJarCookie(r, true, false, op.Path)
				if seen[ck.Name] {
					continue
				}
				seen[ck.Name] = true
				op.Cookies = append(op.Cookies, ck)
			}
			for _, ck := range op.Cookies {
				if ck.Delete == "negative-max-age" {
					// the unchanged tree fails the whole request on it: alone in its response, so
					// that nothing else is attributed to this class
					op.Cookies = []jarCookie{ck}
					break
				}
			}
			ops = append(ops, op)
		case 2:
			ops = append(ops, jarOp{Op: "get", Host: gen.Pick(r, hosts), Path: gen.Pick(r, jarReqPaths)})
		case 3:
			ops = append(ops, jarOp{Op: "advance", Secs: r.Range(1, 4)})
		case 4:
			ops = append(ops, jarOp{Op: "release"})
		case 5:
			ops = append(ops, jarOp{Op: "reacquire"})
		}
	}
	// every history ends by reading every host it used
	for _, h := range hosts {
		ops = append(ops, jarOp{Op: "get", Host: h, Path: gen.Pick(r, []string{"/a/b", "/a", "/"})})
	}
	return ops
}

// ---------------------------------------------------------------------------------------------
// execution

type jarEngine struct {
	e      *ev.Env
	rig    *jarRig
	nextID int
}

func (je *jarEngine) runHistory(c *ev.Case, reuse bool, ops []jarOp) {
	e := je.e
	spec := newJarSpec()
	spec.reuse = reuse
	jar := client.AcquireCookieJar()
	cl := client.NewWithClient(je.rig.fc)
	cl.SetCookieJar(jar)
	reported := map[string]bool{}
	var trace []map[string]any
	report := func(i int, fs []jarFinding, obs any) {
		for _, f := range fs {
			if reported[f.sig] {
				continue
			}
			reported[f.sig] = true
			e.Violation(c, f.sig, f.what, map[string]any{"step": i, "cookie": f.ck, "observed": obs, "objects_reused": reuse, "history": ops[:i+1], "trace": trace})
		}
	}
	now := time.Now
	ms := func() int64 { return vt.Since().Milliseconds() }
	gets, expiredSeen := 0, 0
	for i, op := range ops {
		switch op.Op {
		case "set":
			var objs []*fasthttp.Cookie
			for j := range op.Cookies {
				ck := &op.Cookies[j]
				je.nextID++
				ck.Value = "w" + strconv.Itoa(je.nextID)
				w := &jarWrite{id: je.nextID, op: i, host: op.Host, hostname: hostName(op.Host), ck: *ck, via: "set", at: now()}
				if ck.ExpKind == expExpires {
					// whole-second instants; the harness lives on the half-second grid, so no Get
					// coincides with an expiry (a tie would not be asserted anyway)
					w.expAt = now().Truncate(time.Second).Add(time.Duration(ck.ExpRel) * time.Second)
				}
				spec.put(w)
				o := fasthttp.AcquireCookie()
				o.SetKey(ck.Name)
				o.SetValue(ck.Value)
				if ck.Path != "" {
					o.SetPath(ck.Path)
				}
				if !w.expAt.IsZero() {
					o.SetExpire(w.expAt)
				}
				objs = append(objs, o)
			}
			switch op.API {
			case "Set":
				u := fasthttp.AcquireURI()
				_ = u.Parse(nil, []byte("http://"+op.Host+"/"))
				jar.Set(u, objs...)
				if reuse {
					fasthttp.ReleaseURI(u)
				}
			case "SetByHost":
				jar.SetByHost([]byte(op.Host), objs...)
			case "SetKeyValue":
				jar.SetKeyValue(op.Host, op.Cookies[0].Name, op.Cookies[0].Value)
			case "SetKeyValueBytes":
				jar.SetKeyValueBytes(op.Host, []byte(op.Cookies[0].Name), []byte(op.Cookies[0].Value))
			}
			// documented: the jar stores copies, the caller's cookies may be released
			if reuse && !op.KeepObj {
				for _, o := range objs {
					fasthttp.ReleaseCookie(o)
				}
			}
			e.Eval(1)
			trace = append(trace, map[string]any{"step": i, "op": op.API, "host": op.Host, "cookies": op.Cookies, "t_ms": ms()})
		case "cycle":
			var lines []string
			var ws []*jarWrite
			for j := range op.Cookies {
				ck := &op.Cookies[j]
				je.nextID++
				ck.Value = "w" + strconv.Itoa(je.nextID)
				if ck.Delete != "" {
					ck.Value = "d" + strconv.Itoa(je.nextID)
				}
				setter := op.Host
				if op.Target != "" {
					setter = op.Target
					spec.redirFrom[hostName(op.Host)+"\x00"+ck.Name] = true
					spec.redirFrom[hostName(op.Target)+"\x00"+ck.Name] = true // the target misses what it set / deleted
				}
				w := &jarWrite{id: je.nextID, op: i, host: setter, hostname: hostName(setter), ck: *ck, via: "response", at: now(), redirect: op.Target != ""}
				line := ck.Name + "=" + ck.Value
				if ck.Shape&1 != 0 {
					line += "; HttpOnly"
				}
				if ck.Shape&2 != 0 {
					line += "; Secure"
				}
				if ck.Path != "" {
					line += "; Path=" + ck.Path
				}
				also := ""
				if ck.AlsoExpires != 0 {
					also = "; Expires=" + httpDate(now().Truncate(time.Second).Add(time.Duration(ck.AlsoExpires)*time.Second))
				}
				maxAge := ""
				switch {
				case ck.Delete == "max-age-0":
					maxAge = "; Max-Age=0"
				case ck.Delete == "negative-max-age":
					maxAge = "; Max-Age=-1"
				case ck.ExpKind == expMaxAge && ck.Huge:
					maxAge = "; Max-Age=9999999999" // w.expAt stays zero: beyond every history
				case ck.Delete == "past-expires":
					line += "; Expires=" + httpDate(time.Now().Add(-3*time.Second))
				case ck.ExpKind == expExpires:
					w.expAt = now().Truncate(time.Second).Add(time.Duration(ck.ExpRel) * time.Second)
					line += "; Expires=" + httpDate(w.expAt)
				case ck.ExpKind == expMaxAge:
					w.expAt = now().Add(time.Duration(ck.ExpRel) * time.Second)
					maxAge = "; Max-Age=" + strconv.Itoa(ck.ExpRel)
				}
				if ck.MaxAgeFirst {
					line += maxAge + also
				} else {
					line += also + maxAge
				}
				if ck.Shape&4 != 0 {
					line += "; HttpOnly"
				}
				if ck.Shape&8 != 0 {
					line += ";"
				}
				if ck.Shape&16 != 0 {
					line = strings.NewReplacer("; Max-Age=", "; max-AGE=", "; Expires=", "; EXPIRES=", "; Path=", "; path=", "; HttpOnly", "; httponly", "; Secure", "; SECURE").Replace(line)
				}
				lines = append(lines, line)
				ws = append(ws, w)
			}
			// expectation for the Cookie header is computed before the response is parsed
			je.rig.mu.Lock()
			je.rig.setLines = lines
			je.rig.gotCk = nil
			before := je.rig.served
			je.rig.mu.Unlock()
			sentAt, sentMs := now(), ms()
			var resp *client.Response
			var err error
			wantServed := 1
			if op.Target != "" {
				wantServed = 2
				resp, err = cl.R().SetMaxRedirects(3).Get("http://" + op.Host + op.Path + "?redirect_to=" + op.Target)
			} else {
				resp, err = cl.Get("http://" + op.Host + op.Path)
			}
			negMaxAge := false
			for _, l := range lines {
				if strings.Contains(strings.ToLower(l), "max-age=-1") {
					negMaxAge = true
				}
			}
			if err != nil && negMaxAge {
				// a negative Max-Age means "delete now" (RFC 6265 5.2.2); the exchange itself succeeded
				report(i, []jarFinding{{"jar|server-deleted-returned|negative-max-age", "a response deleting a cookie with Max-Age=-1 made the whole request fail: " + err.Error(), lines}}, lines)
			} else if err != nil {
				e.Violation(c, "jar|cycle-error|"+sigWord(err.Error()), "request cycle with a cookie jar failed", map[string]any{"err": err.Error(), "history": ops[:i+1]})
				client.ReleaseCookieJar(jar)
				return
			}
			if err == nil && reuse {
				resp.Close()
			}
			je.rig.mu.Lock()
			wire := append([]kv(nil), je.rig.gotCk...)
			served := je.rig.served - before
			je.rig.mu.Unlock()
			if served != wantServed {
				e.Inconclusive("cycle did not reach the server exactly once")
				client.ReleaseCookieJar(jar)
				return
			}
			var got []retCookie
			for _, x := range wire {
				got = append(got, retCookie{Name: x.K, Value: x.V})
			}
			e.Eval(1)
			trace = append(trace, map[string]any{"step": i, "op": "cycle", "url": "http://" + op.Host + op.Path, "redirect_target": op.Target, "cookie_header": wire, "set_cookie": lines, "t_ms": sentMs})
			if op.Target == "" {
				// (what is sent along a redirect chain is not judged: the Cookie header recorded is
				// that of the last hop)
				fs := spec.judge(sentAt, op.Host, op.Path, got, true)
				report(i, fs, wire)
			}
			for _, w := range ws {
				spec.put(w)
			}
		case "get":
			u := fasthttp.AcquireURI()
			_ = u.Parse(nil, []byte("http://"+op.Host+op.Path))
			cks := jar.Get(u)
			var got []retCookie
			for _, ck := range cks {
				got = append(got, retCookie{Name: string(ck.Key()), Value: string(ck.Value()), Path: string(ck.Path())})
			}
			if op.RelRet {
				// "The CookieJar keeps its own copies of cookies, so it is safe to release the returned
				// cookies after use."
				for _, ck := range cks {
					fasthttp.ReleaseCookie(ck)
				}
			}
			if reuse {
				fasthttp.ReleaseURI(u)
			}
			e.Eval(1)
			gets++
			trace = append(trace, map[string]any{"step": i, "op": "get", "url": "http://" + op.Host + op.Path, "returned": got, "t_ms": ms()})
			for _, en := range spec.live {
				if !en.w.expAt.IsZero() && en.w.expAt.Before(now()) {
					expiredSeen++
				}
			}
			report(i, spec.judge(now(), op.Host, op.Path, got, false), got)
			if op.RelRet && len(cks) > 0 {
				spec.relRet = true
			}
		case "advance":
			time.Sleep(time.Duration(op.Secs) * time.Second)
		case "release":
			jar.Release()
			spec.release()
		case "reacquire":
			client.ReleaseCookieJar(jar)
			jar = client.AcquireCookieJar()
			cl.SetCookieJar(jar)
			spec.release()
		}
	}
	client.ReleaseCookieJar(jar)
	if len(spec.hosts) >= 2 && expiredSeen > 0 {
		e.Nontrivial("jar", c.ID)
	}
	e.Stat("gets", int64(gets))
}

func runJar(e *ev.Env) {
	defer recordMaxRSS(e)
	vt.Require()
	vt.Start()
	je := &jarEngine{e: e, rig: newJarRig()}
	jarCorpus(je)
	e.Cases("jar", e.N(3000, 300000), func(c *ev.Case) {
		reuse := c.R.Bool()
		je.runHistory(c, reuse, genJarHistory(c.R))
		if reuse {
			e.Stat("histories_objects_reused", 1)
		}
	})
	// the documentation of Get allows releasing the returned cookies; its own family, so that the
	// damage this does never hides another root cause in the main family
	e.Cases("jarrel", e.N(200, 20000), func(c *ev.Case) {
		ops := genJarHistory(c.R)
		for i := range ops {
			if ops[i].Op == "get" && c.R.Bool() {
				ops[i].RelRet = true
			}
		}
		je.runHistory(c, true, ops)
	})
	e.Stat("server_requests", int64(je.rig.served))
}
