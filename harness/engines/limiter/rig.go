package limiter

import (
	"errors"
	"fmt"
	"net"
	"strconv"
	"strings"
	"sync"
	"time"

	"github.com/gofiber/fiber/v3"
	flim "github.com/gofiber/fiber/v3/middleware/limiter"
	"github.com/gofiber/utils/v2"
	"github.com/valyala/fasthttp"

	"verifharness/internal/drive"
	"verifharness/internal/vstore"
	"verifharness/internal/vt"
)

// tcfg is one limiter configuration.
type tcfg struct {
	Sliding bool `json:"sliding"`
	VStore  bool `json:"vstore"` // injected storage instead of the built-in memory store
	// RefStore (with VStore): the injected storage keeps the value slices it is given instead of
	// copying them (refstore.go)
	RefStore bool `json:"storage_keeps_value_slices,omitempty"`
	Max      int  `json:"max"`
	// NoConfig: limiter.New() without any Config — the documented defaults apply (Max 5,
	// Expiration 1 minute, key = c.IP(), fixed window, memory store); Max/E say so for the oracle.
	// Keys are client addresses then.
	NoConfig bool `json:"no_config,omitempty"`
	// KeyView: the KeyGenerator returns c.Get("X-Key") as it is — a view of request memory, as
	// the documentation's own example does — and the requests of the history are served on ONE
	// reused RequestCtx, as the requests of a keep-alive connection are; key names then have
	// equal or different lengths.
	KeyView bool `json:"key_is_view_of_request_memory,omitempty"`
	// MaxOmitted: the Config passed to limiter.New sets neither Max nor MaxFunc; the documented
	// default Max = 5 applies (Max is 5 here, for the oracle)
	MaxOmitted bool `json:"max_omitted,omitempty"`
	Dyn        bool `json:"maxfunc"` // MaxFunc installed: reads X-Max, falls back to Max
	E          int  `json:"expiration_s"`
	// ExpNs, when set, is the configured Expiration in nanoseconds (subsecond-expiration family:
	// values that are not whole seconds); E is then meaningless.
	ExpNs      int64 `json:"expiration_ns,omitempty"`
	SkipFailed bool  `json:"skip_failed,omitempty"`
	SkipOK     bool  `json:"skip_successful,omitempty"`
	NKeys      int   `json:"keys"`
}

func (c tcfg) expiration() time.Duration {
	if c.ExpNs > 0 {
		return time.Duration(c.ExpNs)
	}
	return time.Duration(c.E) * time.Second
}

func (c tcfg) algo() string {
	if c.Sliding {
		return "sliding"
	}
	return "fixed"
}

func (c tcfg) backend() string {
	if c.VStore {
		return "storage"
	}
	return "memory"
}

func (c tcfg) String() string {
	s := fmt.Sprintf("%s %s Max=%d E=%ds", c.algo(), c.backend(), c.Max, c.E)
	if c.ExpNs > 0 {
		s = fmt.Sprintf("%s %s Max=%d Expiration=%s", c.algo(), c.backend(), c.Max, time.Duration(c.ExpNs))
	}
	if c.VStore && c.RefStore {
		s += " (storage keeps value slices)"
	}
	if c.MaxOmitted {
		s += " (Max and MaxFunc omitted: default 5)"
	}
	if c.NoConfig {
		s = "limiter.New() without a config (fixed, memory, Max=5, Expiration=1m, key=c.IP())"
	}
	if c.KeyView {
		s += " (KeyGenerator returns c.Get(...) uncopied, one reused RequestCtx)"
	}
	if c.Dyn {
		s += " MaxFunc"
	}
	if c.SkipFailed {
		s += " SkipFailed"
	}
	if c.SkipOK {
		s += " SkipSuccessful"
	}
	return s
}

// appKey identifies configurations that can share one app (memory backend only, see memRig).
func (c tcfg) appKey() string {
	return fmt.Sprintf("%v/%d/%v/%v/%d/%d/%v/%v", c.Sliding, c.Max, c.MaxOmitted, c.NoConfig, c.E, c.ExpNs, c.SkipFailed, c.SkipOK)
}

// tstep is one request of a history.
type tstep struct {
	Adv   int    `json:"adv_ms"`          // virtual time that passes before the request
	Align bool   `json:"align,omitempty"` // then move on to the next k s + 500 ms instant
	Key   int    `json:"key"`
	Max   int    `json:"max,omitempty"` // X-Max header (MaxFunc configurations); 0 = absent
	Mode  string `json:"handler"`       // what the protected handler does, see handle
	Delay int    `json:"handler_sleep_s,omitempty"`
	// KeyDelayMs: the KeyGenerator takes that long (virtual time) for this request — a lookup.
	// The request counts from the instant the generator has answered (the observation's stamps are
	// taken there); only meaningful for Async requests, which do not hold up the history.
	KeyDelayMs int `json:"key_generator_takes_ms,omitempty"`
	// Rekey k > 0: the handler of this request stores key k-1 as the identified user, so the
	// KeyGenerator answers differently once the handler has run. The request was admitted — and
	// is counted and judged — under Key.
	Rekey int `json:"handler_identifies_user_as_key_plus_1,omitempty"`
	// Async: the request runs in its own goroutine and its handler sleeps AsyncMs of virtual time
	// while the history goes on sending requests (overlap family). The history does not wait.
	Async   bool `json:"async,omitempty"`
	AsyncMs int  `json:"async_handler_sleep_ms,omitempty"`
}

// tobs is what was observed for one request.
type tobs struct {
	Ran        bool   `json:"-"`
	T          int64  `json:"t_ns"`     // virtual time (unix ns) when the request was sent
	TEnd       int64  `json:"t_end_ns"` // ... when the response arrived
	TS         uint64 `json:"ts"`       // coarse clock when the request was sent
	TSEnd      uint64 `json:"ts_end"`   // ... when the response arrived
	Entered    int    `json:"entered"`
	Status     int    `json:"status"`
	RetryAfter string `json:"retry_after,omitempty"`
	Limit      string `json:"limit,omitempty"`
	Remaining  string `json:"remaining,omitempty"`
	Reset      string `json:"reset,omitempty"`
	Seq        int64  `json:"-"` // execution order: stamped when the request is sent ...
	EndSeq     int64  `json:"-"` // ... and when its response has arrived
	MaxCalls   int    `json:"-"`
	KeyCalls   int    `json:"-"`
	// logical clock of the concurrent families
	Call, EntryClock, ExitClock, Ret int64 `json:"-"`
}

// Handler modes: "<status>" answers with that status; "err" returns a plain error (the app's
// error handler answers 500), "err<code>" returns a *fiber.Error with that code;
// "<status>>err..." first SETS a status on the response (c.Status) and then returns the error —
// the client still receives what the error handler makes of the error.
var modes = []string{"200", "301", "400", "404", "500", "503", "err", "err404", "err503",
	"201>err", "204>err", "302>err", "304>err", "400>err", "404>err", "201>err404", "302>err503", "204>err503", "404>err302"}

// modeStatus: final is the status code the client receives; atReturn is what the response holds
// at the moment the handler returns to the middleware (an error is turned into a status by the
// app's ErrorHandler only after the whole chain has returned).
func modeStatus(mode string) (final, atReturn int) {
	atReturn = 200
	if i := strings.IndexByte(mode, '>'); i >= 0 {
		atReturn, _ = strconv.Atoi(mode[:i])
		mode = mode[i+1:]
	}
	switch {
	case mode == "err":
		return 500, atReturn
	case strings.HasPrefix(mode, "err"):
		n, _ := strconv.Atoi(mode[3:])
		return n, atReturn
	}
	n, _ := strconv.Atoi(mode)
	return n, n
}

func handle(c fiber.Ctx, mode string) error {
	if i := strings.IndexByte(mode, '>'); i >= 0 {
		n, _ := strconv.Atoi(mode[:i])
		c.Status(n)
		mode = mode[i+1:]
	}
	switch {
	case mode == "200":
		return c.SendString("ok")
	case mode == "err":
		return errors.New("boom")
	case strings.HasPrefix(mode, "err"):
		n, _ := strconv.Atoi(mode[3:])
		return fiber.NewError(n, "nope")
	}
	n, _ := strconv.Atoi(mode)
	return c.Status(n).SendString(mode)
}

// rig is one app with the limiter in front of one protected handler.
type rig struct {
	cfg   tcfg
	app   *fiber.App
	d     *drive.Direct
	vs    *vstore.Store
	mu    sync.Mutex
	obs   []*tobs            // indexed by the X-Req header
	yield func(point string) // scheduler boundary; nil in sequential families
	clock int64
}

func (rg *rig) tick() int64 {
	rg.mu.Lock()
	rg.clock++
	t := rg.clock
	rg.mu.Unlock()
	return t
}

func (rg *rig) ob(c fiber.Ctx) *tobs {
	i, err := strconv.Atoi(c.Get("X-Req"))
	rg.mu.Lock()
	defer rg.mu.Unlock()
	if err != nil || i < 0 || i >= len(rg.obs) {
		return &tobs{}
	}
	return rg.obs[i]
}

func newRig(cfg tcfg) *rig {
	rg := &rig{cfg: cfg}
	lc := flim.Config{
		Max:                    map[bool]int{false: cfg.Max, true: 0}[cfg.MaxOmitted],
		Expiration:             cfg.expiration(),
		SkipFailedRequests:     cfg.SkipFailed,
		SkipSuccessfulRequests: cfg.SkipOK,
		KeyGenerator: func(c fiber.Ctx) string {
			o := rg.ob(c)
			o.KeyCalls++
			if rg.yield != nil {
				rg.yield("keygen")
			}
			if n, err := strconv.Atoi(c.Get("X-KeyDelayMs")); err == nil && n > 0 && o.KeyCalls == 1 {
				time.Sleep(time.Duration(n) * time.Millisecond)
				// the request reaches the limiter's counter now
				o.T = time.Now().UnixNano()
				o.TS = uint64(o.T / 1e9)
				o.Seq = rg.tick()
			}
			// "the user if the handler chain has identified one, else the client": the answer
			// changes once a handler has stored a user (X-Rekey requests do, see the handler)
			if u, ok := c.Locals("user").(string); ok && u != "" {
				return u
			}
			if rg.cfg.KeyView {
				return c.Get("X-Key") // a view of the request's memory
			}
			return utils.CopyString(c.Get("X-Key"))
		},
	}
	if cfg.Dyn {
		lc.MaxFunc = func(c fiber.Ctx) int {
			rg.ob(c).MaxCalls++
			if rg.yield != nil {
				rg.yield("maxfunc")
			}
			if n, err := strconv.Atoi(c.Get("X-Max")); err == nil && n > 0 {
				return n
			}
			return cfg.Max
		}
	}
	if cfg.Sliding {
		lc.LimiterMiddleware = flim.SlidingWindow{}
	} else {
		lc.LimiterMiddleware = flim.FixedWindow{}
	}
	if cfg.VStore {
		if cfg.RefStore {
			lc.Storage = newRefStore()
		} else {
			rg.vs = vstore.New()
			rg.vs.KeepKeyRef = cfg.KeyView // like in-process storages: the key string is kept as given
			lc.Storage = rg.vs
		}
	}
	app := fiber.New()
	if cfg.NoConfig {
		app.Use(flim.New())
	} else {
		app.Use(flim.New(lc))
	}
	app.Get("/", func(c fiber.Ctx) error {
		o := rg.ob(c)
		o.Entered++
		o.EntryClock = rg.tick()
		if rg.yield != nil {
			rg.yield("handler.entry")
		}
		if u := c.Get("X-Rekey"); u != "" {
			c.Locals("user", utils.CopyString(u))
		}
		if n, err := strconv.Atoi(c.Get("X-DelayMs")); err == nil && n > 0 {
			time.Sleep(time.Duration(n) * time.Millisecond)
		}
		if n, err := strconv.Atoi(c.Get("X-Delay")); err == nil && n > 0 {
			time.Sleep(time.Duration(n) * time.Second)
		}
		if rg.yield != nil {
			rg.yield("handler.exit")
		}
		o.ExitClock = rg.tick()
		return handle(c, c.Get("X-Mode"))
	})
	rg.app = app
	rg.d = drive.NewDirect(app)
	return rg
}

// The built-in memory store starts a garbage-collection goroutine (1 s ticker) that can never
// be stopped. One app per history would leave hundreds of thousands of tickers behind and every
// virtual second would have to wake them all. Histories on the memory backend therefore share
// one app per configuration and use key names that are unique in the process; a history
// replayed alone behaves the same unless keys interfere, which is itself judged (cross-key).
var memRigs = map[string]*rig{}

func getRig(cfg tcfg) *rig {
	if cfg.VStore {
		return newRig(cfg)
	}
	k := cfg.appKey()
	if rg := memRigs[k]; rg != nil {
		rg.cfg = cfg
		return rg
	}
	// Shared apps always install MaxFunc (it falls back to cfg.Max when the request carries no
	// X-Max, which is what the default MaxFunc does); the nil-MaxFunc path is exercised by the
	// per-history apps of the storage backend.
	mk := cfg
	mk.Dyn = !cfg.MaxOmitted && !cfg.NoConfig
	// create the store's ticker at phase k s + 250 ms, away from every instant the harness acts at
	now := time.Now()
	ph := time.Duration(now.Nanosecond())
	tgt := 250 * time.Millisecond
	if ph > tgt {
		tgt += time.Second
	}
	time.Sleep(tgt - ph)
	rg := newRig(mk)
	rg.cfg = cfg
	memRigs[k] = rg
	return rg
}

var keySerial int

// keyNames returns n key names never used before in this process.
func keyNames(caseID string, n int) []string {
	keySerial++
	out := make([]string, n)
	for i := range out {
		out[i] = caseID + "#" + strconv.Itoa(keySerial) + "/k" + strconv.Itoa(i)
	}
	if keySerial%3 == 0 && n <= 8 {
		// keys that differ in letter case only
		for i := range out {
			out[i] = caseID + "#" + strconv.Itoa(keySerial) + "/" + []string{"user", "User", "USER", "uSeR", "usEr", "UsEr", "useR", "uSER"}[i%8]
		}
	}
	return out
}

func (rg *rig) request(idx int, key string, st tstep) *drive.Req {
	rq := &drive.Req{Method: "GET", URI: "/", Hdr: []drive.H{
		{K: "X-Req", V: strconv.Itoa(idx)}, {K: "X-Key", V: key}, {K: "X-Mode", V: st.Mode}}}
	if st.Max > 0 {
		rq.Hdr = append(rq.Hdr, drive.H{K: "X-Max", V: strconv.Itoa(st.Max)})
	}
	if st.Async && st.KeyDelayMs > 0 {
		rq.Hdr = append(rq.Hdr, drive.H{K: "X-KeyDelayMs", V: strconv.Itoa(st.KeyDelayMs)})
	}
	if st.Async && st.AsyncMs > 0 {
		rq.Hdr = append(rq.Hdr, drive.H{K: "X-DelayMs", V: strconv.Itoa(st.AsyncMs)})
	}
	if st.Delay > 0 {
		rq.Hdr = append(rq.Hdr, drive.H{K: "X-Delay", V: strconv.Itoa(st.Delay)})
	}
	return rq
}

func (o *tobs) fill(resp *drive.Resp) {
	o.Status = resp.Status
	o.RetryAfter = resp.Get("Retry-After")
	o.Limit = resp.Get("X-RateLimit-Limit")
	o.Remaining = resp.Get("X-RateLimit-Remaining")
	o.Reset = resp.Get("X-RateLimit-Reset")
}

// exec drives a sequential timed history. only >= 0 sends just the requests of that key, at
// the instants they have in the full history (solo differential). Returns the observations and
// a non-empty string when the harness clock and the coarse clock disagree (harness problem).
func (rg *rig) exec(caseID string, steps []tstep, only int) ([]tobs, string) {
	alignHalf()
	base := time.Now()
	keys := keyNames(caseID, rg.cfg.NKeys)
	var addrs []net.Addr // NoConfig: the key is the client address
	if rg.cfg.NoConfig {
		for i := range keys {
			n := keySerial*8 + i
			addrs = append(addrs, &net.TCPAddr{IP: net.IPv4(10, byte(n>>16), byte(n>>8), byte(n)), Port: 40000})
		}
	}
	var reused *fasthttp.RequestCtx // KeyView: one RequestCtx for the whole history
	if rg.cfg.KeyView {
		reused = &fasthttp.RequestCtx{}
		if keySerial%2 == 0 {
			for i := range keys {
				keys[i] += strings.Repeat("z", i) // keys of different lengths
			}
		}
	}
	obs := make([]tobs, len(steps))
	rg.mu.Lock()
	rg.obs = make([]*tobs, len(steps))
	for i := range obs {
		rg.obs[i] = &obs[i]
	}
	rg.mu.Unlock()
	off := 0
	clockErr := ""
	var wg sync.WaitGroup
	for i, st := range steps {
		off += st.Adv
		if st.Align && off%1000 != 0 {
			off += 1000 - off%1000
		}
		at := off
		off += st.Delay * 1000
		if only >= 0 && st.Key != only {
			continue
		}
		if d := time.Until(base.Add(time.Duration(at) * time.Millisecond)); d > 0 {
			time.Sleep(d)
		}
		o := &obs[i]
		o.Ran = true
		o.T = time.Now().UnixNano()
		o.TS = uint64(o.T / 1e9)
		if !coldstartPhase && uint64(utils.Timestamp()) != o.TS {
			clockErr = fmt.Sprintf("step %d: utils.Timestamp=%d, virtual clock=%d", i, utils.Timestamp(), o.TS)
		}
		o.Seq = rg.tick()
		rq := rg.request(i, keys[st.Key], st)
		if st.Rekey > 0 && st.Rekey <= len(keys) {
			rq.Hdr = append(rq.Hdr, drive.H{K: "X-Rekey", V: keys[st.Rekey-1]})
		}
		if addrs != nil {
			rq.Remote = addrs[st.Key]
		}
		do := func() {
			var resp *drive.Resp
			if reused != nil && !st.Async {
				reused.Response.Reset() // as the server loop does between the requests of a connection
				reused.ResetUserValues()
				resp = rg.d.DoCtx(reused, rq)
			} else {
				resp = rg.d.Do(rq)
			}
			o.TEnd = time.Now().UnixNano()
			o.TSEnd = uint64(o.TEnd / 1e9)
			o.EndSeq = rg.tick()
			o.fill(resp)
		}
		if !st.Async {
			do()
			continue
		}
		// The request gets a goroutine of its own; the barrier returns when it has been answered
		// (429) or its handler sleeps, so the order of events stays the order of the stamps.
		wg.Add(1)
		go func() {
			defer wg.Done()
			do()
		}()
		vt.Barrier()
	}
	wg.Wait() // virtual time runs on until the last slow handler has returned
	return obs, clockErr
}

// alignHalf moves to the next instant k s + 500 ms (+1 ms) unless already there.
func alignHalf() {
	ns := time.Now().Nanosecond()
	const want = 501 * int(time.Millisecond)
	if ns == want {
		return
	}
	d := want - ns
	if d < 0 {
		d += int(time.Second)
	}
	time.Sleep(time.Duration(d))
}

func describeSteps(steps []tstep, obs []tobs) []string {
	var out []string
	var t0 int64
	for _, o := range obs {
		if o.Ran && (t0 == 0 || o.T < t0) {
			t0 = o.T
		}
	}
	t0 -= t0 % 1e9 // the whole second in which the history starts
	for i, st := range steps {
		var sb strings.Builder
		fmt.Fprintf(&sb, "#%d +%dms", i, st.Adv)
		if st.Align {
			sb.WriteString("(align)")
		}
		fmt.Fprintf(&sb, " key=%d", st.Key)
		if st.Max > 0 {
			fmt.Fprintf(&sb, " MaxFunc=%d", st.Max)
		}
		fmt.Fprintf(&sb, " handler=%s", st.Mode)
		if st.Rekey > 0 {
			fmt.Fprintf(&sb, " (handler identifies the user: KeyGenerator answers key=%d afterwards)", st.Rekey-1)
		}
		if st.Async {
			fmt.Fprintf(&sb, " ASYNC sleeps %dms", st.AsyncMs)
		}
		if st.Async && st.KeyDelayMs > 0 {
			fmt.Fprintf(&sb, " KeyGenerator takes %dms", st.KeyDelayMs)
		}
		if st.Delay > 0 {
			fmt.Fprintf(&sb, " sleeps %ds", st.Delay)
		}
		if i < len(obs) && obs[i].Ran {
			o := obs[i]
			fmt.Fprintf(&sb, " => sent at %.3fs (coarse clock %d) entered=%d status=%d", float64(o.T-t0)/1e9, (o.T-t0)/1e9, o.Entered, o.Status)
			if st.Async {
				fmt.Fprintf(&sb, " (answered at %.3fs)", float64(o.TEnd-t0)/1e9)
			}
			if o.RetryAfter != "" {
				fmt.Fprintf(&sb, " Retry-After=%s", o.RetryAfter)
			}
			if o.Limit != "" {
				fmt.Fprintf(&sb, " Limit=%s Remaining=%s Reset=%s", o.Limit, o.Remaining, o.Reset)
			}
		}
		out = append(out, sb.String())
	}
	return out
}
