// Package limiter is the runtime monitor for property C13 (the rate limiter never admits more
// than its algorithm allows, under any interleaving). See DESIGN.md 3.C13.
//
// "limiter" — vt build, GOMAXPROCS=1. Families:
//
//	corpus  fixed histories and small exhaustive schedules: plain behaviour of both algorithms
//	        on both backends, and the smallest witness of every defect found (corpus.go);
//	timed   sequential timed histories on the virtual clock (1-4 keys, Max 1-5, MaxFunc per
//	        request, Expiration 1-5 s, fixed / sliding, memory / injected storage, skip options,
//	        handlers answering 2xx-5xx, returning errors, sleeping). Every response is judged
//	        against an executable sequential specification written from the documentation
//	        (spec.go, judge.go); one key in three multi-key histories is replayed alone
//	        (cross-key solo differential);
//	overlap histories in which slow handlers run beside the history (goroutines of their own,
//	        virtual sleeps of 1-3 windows), so that a skipped request is taken back after its
//	        window rolled over and after other requests were counted in the new one; judged by
//	        the same specification over hit / take-back events in execution order (overlap.go);
//	subsecond-expiration  Expiration values that are not whole seconds (1 ns ... 2.5 s): bursts
//	        sent at one instant, judged by clauses that hold for every window length (subsec.go);
//	coldstart  timed histories on the injected storage, run FIRST in the process, before the
//	        harness or any memory-backed app has started the coarse clock (coldstart.go);
//	sched   2-3 concurrent requests on the injected storage, EVERY schedule (depth-first) over
//	        the boundaries Storage.Get/Set, MaxFunc, KeyGenerator, handler entry/exit;
//	walk    3-4 concurrent requests, one seeded random schedule per case.
//	        Oracles of both: no deadlock, no panic, conservation counted from handler-entry
//	        events, linearizability of the acquire/refund history with porcupine (sched.go).
//
// "limiter.race" — -race build, real time, coarse clock pinned: 64-512 goroutines per key on
// 1-3 keys of the memory backend; exactly Max requests per key reach the handler (race.go).
//
// Signatures: clause|algorithm|input class. Clauses: over-admit, reject-with-budget,
// retry-after, headers|remaining, headers|reset, limit-not-from-MaxFunc, cross-key-interference,
// not-linearizable, deadlock, panic. Input classes of the timed family, computed from the
// history alone: handler-returned-error (with the skip option instead of the algorithm),
// after-late-refund, after-refund, idle-window, else the backend (memory / storage).
package limiter

import (
	"verifharness/internal/ev"
	"verifharness/internal/reg"
	"verifharness/internal/vt"
)

func init() {
	reg.Register("limiter", run)
	reg.Register("limiter.race", runRace)
}

func run(e *ev.Env) {
	vt.Require()
	// Before anything in this process has started the coarse clock of gofiber/utils (vt.Start
	// does, and so does every app on the built-in memory store): limiters on an external storage
	// must keep time on their own (coldstart.go).
	coldstart(e)
	vt.Start()
	corpus(e)
	e.Cases("sched", e.N(96, 1600), func(c *ev.Case) { runSched(e, c) })
	e.Cases("walk", e.N(600, 100000), func(c *ev.Case) { runWalk(e, c) })
	e.Cases("overlap", e.N(6000, 120000), func(c *ev.Case) { runOverlap(e, c) })
	e.Cases("timed", e.N(3000, 300000), func(c *ev.Case) { runTimed(e, c) })
	// last: its memory-backend apps (one per expiration value) leave tickers behind
	subsecCorpus(e)
	e.Cases("subsecond-expiration", e.N(800, 40000), func(c *ev.Case) { runSubsec(e, c) })
}
