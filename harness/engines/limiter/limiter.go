// Package limiter is the runtime monitor for property C13 (the rate limiter never admits more
// than its algorithm allows, under any interleaving). See DESIGN.md 3.C13.
//
// "limiter"      vt build, GOMAXPROCS=1. Families:
//
//	timed  sequential timed histories on the virtual clock, every response judged against
//	       an executable sequential specification written from the documentation (spec.go);
//	sched  2-4 concurrent requests interleaved by the deterministic scheduler at every
//	       storage call / callback / handler boundary; conservation + linearizability.
//
// "limiter.race" -race build, real time, coarse clock pinned: N goroutines on 1-3 keys,
//
//	admitted == Max per key exactly.
package limiter

import (
	"verifharness/internal/ev"
	"verifharness/internal/reg"
	"verifharness/internal/vt"
)

func init() {
	reg.Register("limiter", run)
	reg.Register("limiter.race", runRace)
}

func run(e *ev.Env) {
	vt.Require()
	vt.Start()
	corpus(e)
	e.Cases("sched", e.N(60, 1200), func(c *ev.Case) { runSched(e, c) })
	e.Cases("walk", e.N(600, 100000), func(c *ev.Case) { runWalk(e, c) })
	e.Cases("timed", e.N(3000, 300000), func(c *ev.Case) { runTimed(e, c) })
}
