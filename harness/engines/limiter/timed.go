package limiter

import (
	"fmt"
	"runtime/debug"
	"sort"

	"verifharness/internal/ev"
	"verifharness/internal/gen"
)

// ---- generation

func genCfg(r *gen.Rand) tcfg {
	cfg := tcfg{
		Sliding: r.Bool(),
		VStore:  r.Bool(),
		Max:     r.Range(1, 5),
		Dyn:     r.Chance(1, 2),
		E:       r.Range(1, 5),
		NKeys:   r.PickW(5, 3, 2, 1) + 1,
	}
	switch r.PickW(5, 2, 2, 1) {
	case 1:
		cfg.SkipFailed = true
	case 2:
		cfg.SkipOK = true
	case 3:
		cfg.SkipFailed, cfg.SkipOK = true, true
	}
	cfg.RefStore = cfg.VStore && r.Bool()
	if r.Chance(1, 8) {
		// neither Max nor MaxFunc configured: the documented default of 5 applies
		cfg.MaxOmitted, cfg.Max, cfg.Dyn = true, 5, false
	}
	switch r.PickW(12, 1, 3) {
	case 1:
		// no config at all: the documented defaults
		cfg = tcfg{NoConfig: true, Max: 5, E: 60, NKeys: cfg.NKeys}
	case 2:
		cfg.KeyView = true
	}
	return cfg
}

func genSteps(r *gen.Rand, cfg tcfg) []tstep {
	n := r.Range(5, 12) * cfg.NKeys
	if n > 36 {
		n = 36
	}
	E := cfg.E
	skip := cfg.SkipFailed || cfg.SkipOK
	// a history leans towards one flavour of handler so that refunds are neither absent nor constant
	okBias := r.Range(1, 9)
	steps := make([]tstep, 0, n)
	for i := 0; i < n; i++ {
		st := tstep{Key: r.Intn(cfg.NKeys), Mode: "200"}
		switch r.PickW(70, 6, 6, 8, 6, 6, 5, 8, 5) {
		case 0:
			st.Adv = 0
		case 1:
			st.Adv = 500
		case 2:
			st.Adv = (E - 1) * 1000
		case 3:
			st.Adv = E * 1000
		case 4:
			st.Adv = (E + 1) * 1000
		case 5:
			st.Adv = 2 * E * 1000
		case 6:
			st.Adv = (2*E + 1) * 1000
		case 7:
			st.Adv = r.Range(1, 3*E) * 1000
		case 8:
			st.Adv = 1000
		}
		if r.Chance(1, 10) {
			st.Align = true
		}
		if cfg.Dyn && r.Chance(3, 4) {
			st.Max = r.Range(1, 6)
		}
		if !r.Chance(okBias, 10) {
			st.Mode = gen.Pick(r, modes)
		}
		if skip && r.Chance(1, 12) {
			st.Delay = gen.Pick(r, []int{1, E - 1, E, E + 1, 2 * E})
			if st.Delay < 0 {
				st.Delay = 0
			}
		}
		if skip && cfg.NKeys > 1 && r.Chance(1, 6) {
			st.Rekey = (st.Key+r.Range(1, cfg.NKeys-1))%cfg.NKeys + 1 // another key
		}
		steps = append(steps, st)
	}
	return steps
}

// guard turns a panic of the code under test (direct drive: it unwinds into the engine) into a
// violation "panic|<innermost fiber frame>".
func guard(e *ev.Env, c *ev.Case, input any, f func()) (panicked bool) {
	defer func() {
		if r := recover(); r != nil {
			panicked = true
			st := string(debug.Stack())
			if len(st) > 3000 {
				st = st[:3000]
			}
			e.Violation(c, "panic|"+ev.PanicSite(st), fmt.Sprintf("panic: %v", r), map[string]any{"input": input, "stack": st})
		}
	}()
	f()
	return false
}

// ---- one history: drive, judge, report

type histRun struct {
	cfg   tcfg
	steps []tstep
	obs   []tobs
	j     *judgement
}

func runHist(e *ev.Env, c *ev.Case, cfg tcfg, steps []tstep) *histRun {
	rg := getRig(cfg)
	var obs []tobs
	var clockErr string
	if guard(e, c, map[string]any{"config": cfg, "steps": steps}, func() {
		obs, clockErr = rg.exec(c.ID, steps, -1)
	}) {
		return nil
	}
	if clockErr != "" {
		e.Inconclusive("coarse clock differs from the virtual clock: " + clockErr)
		return nil
	}
	return &histRun{cfg: cfg, steps: steps, obs: obs, j: judge(cfg, steps, obs)}
}

// rerun executes a candidate history quietly and returns its signatures (for shrinking).
func rerun(caseID string, cfg tcfg, steps []tstep) (hr *histRun) {
	defer func() {
		if recover() != nil {
			hr = nil
		}
	}()
	rg := getRig(cfg)
	obs, clockErr := rg.exec(caseID, steps, -1)
	if clockErr != "" {
		return nil
	}
	return &histRun{cfg: cfg, steps: steps, obs: obs, j: judge(cfg, steps, obs)}
}

var shrunk = map[string]int{}

// shrink greedily reduces a history that produces signature sig. Every candidate is executed
// against the real middleware again; only candidates that still produce sig are kept.
func shrink(caseID string, hr *histRun, sig string) *histRun {
	best := hr
	budget := 200
	try := func(cfg tcfg, steps []tstep) bool {
		if budget <= 0 || len(steps) == 0 {
			return false
		}
		budget--
		cand := rerun(caseID, cfg, steps)
		if cand != nil && cand.j.sigs()[sig] {
			best = cand
			return true
		}
		return false
	}
	clone := func() []tstep { return append([]tstep(nil), best.steps...) }
	for changed := true; changed && budget > 0; {
		changed = false
		// drop steps (keeping the others where they are in time, or not)
		for i := len(best.steps) - 1; i >= 0 && i < len(best.steps); i-- {
			s := clone()
			adv := s[i].Adv + s[i].Delay*1000
			s = append(s[:i], s[i+1:]...)
			if i < len(s) {
				s2 := append([]tstep(nil), s...)
				s2[i].Adv += adv
				if try(best.cfg, s2) {
					changed = true
					continue
				}
			}
			if try(best.cfg, s) {
				changed = true
			}
		}
		for i := range best.steps {
			st := best.steps[i]
			if st.Delay > 0 {
				s := clone()
				s[i].Delay = 0
				if try(best.cfg, s) {
					changed = true
					continue
				}
			}
			if st.Align {
				s := clone()
				s[i].Align = false
				if try(best.cfg, s) {
					changed = true
				}
			}
			if st.Adv > 0 {
				for _, a := range []int{0, 500, 1000, st.Adv - 1000} {
					if a >= 0 && a < best.steps[i].Adv {
						s := clone()
						s[i].Adv = a
						if try(best.cfg, s) {
							changed = true
							break
						}
					}
				}
			}
			if st.Mode != "200" {
				s := clone()
				s[i].Mode = "200"
				if try(best.cfg, s) {
					changed = true
				}
			}
			if st.Max > 0 {
				s := clone()
				s[i].Max = 0
				if try(best.cfg, s) {
					changed = true
				}
			}
		}
		// simpler configuration
		cfg := best.cfg
		for _, f := range []func(*tcfg){
			func(c *tcfg) { c.SkipFailed = false },
			func(c *tcfg) { c.SkipOK = false },
			func(c *tcfg) { c.Dyn = false },
			func(c *tcfg) { c.Max-- },
			func(c *tcfg) { c.E-- },
		} {
			c2 := cfg
			f(&c2)
			if c2 == cfg || c2.Max < 1 || c2.E < 1 {
				continue
			}
			s := clone()
			if !c2.Dyn {
				for i := range s {
					s[i].Max = 0
				}
			}
			if try(c2, s) {
				changed = true
				cfg = best.cfg
			}
		}
		// renumber keys
		used := map[int]bool{}
		for _, st := range best.steps {
			used[st.Key] = true
		}
		if len(used) < best.cfg.NKeys {
			var ks []int
			for k := range used {
				ks = append(ks, k)
			}
			sort.Ints(ks)
			ren := map[int]int{}
			for i, k := range ks {
				ren[k] = i
			}
			s := clone()
			for i := range s {
				s[i].Key = ren[s[i].Key]
			}
			c2 := best.cfg
			c2.NKeys = len(ks)
			if try(c2, s) {
				changed = true
			}
		}
	}
	return best
}

func (hr *histRun) detail() map[string]any {
	return map[string]any{"config": hr.cfg, "config_text": hr.cfg.String(), "steps": hr.steps,
		"history": describeSteps(hr.steps, hr.obs)}
}

func report(e *ev.Env, c *ev.Case, hr *histRun) {
	for _, f := range hr.j.Findings {
		d := hr.detail()
		if shrunk[f.Sig] < 1 && e.Only == "" && !isCorpus(c) {
			shrunk[f.Sig]++
			small := shrink(c.ID, hr, f.Sig)
			if small != hr {
				d["smallest"] = small.detail()
				for _, sf := range small.j.Findings {
					if sf.Sig == f.Sig {
						d["smallest_what"] = sf.What
					}
				}
			}
		}
		e.Violation(c, f.Sig, f.What, d)
	}
}

func account(e *ev.Env, hr *histRun) {
	j := hr.j
	e.Eval(j.Judged)
	e.Stat("timed-requests", int64(j.Judged))
	e.Stat("timed-admitted", int64(j.Admitted))
	e.Stat("timed-rejected", int64(j.Rejected))
	e.Stat("timed-refunds", int64(j.Refunds))
	e.Stat("timed-keys-dropped-as-ambiguous", int64(j.Ambiguous))
	e.Stat("timed-admissions-in-undocumented-zone", int64(j.Debatable))
	e.Stat("x-ratelimit-header-values-differing-from-spec(not judged)", int64(j.HeaderDiffs))
	if j.GapSeen {
		e.Stat("timed-histories-with-idle-window", 1)
	}
	if j.RolledSeen {
		e.Stat("timed-histories-with-window-rollover", 1)
	}
	e.Stat("timed-histories|"+hr.cfg.algo()+"|"+hr.cfg.backend(), 1)
	if j.Admitted > 0 && j.Rejected > 0 {
		e.Nontrivial("timed", hr.cfg.String(), j.Outcome)
		e.Stat("timed-nontrivial-histories", 1)
	}
}

func runTimed(e *ev.Env, c *ev.Case) {
	r := c.R
	cfg := genCfg(r)
	steps := genSteps(r, cfg)
	solo := cfg.NKeys > 1 && r.Chance(1, 3)
	soloKey := r.Intn(cfg.NKeys)
	hr := runHist(e, c, cfg, steps)
	if hr == nil {
		return
	}
	account(e, hr)
	report(e, c, hr)
	e.Sample("timed-history", map[string]any{"config": cfg.String(), "history": describeSteps(steps, hr.obs)})
	if solo {
		crossKey(e, c, hr, soloKey)
	}
}

// crossKey is a solo differential: the requests of one key are sent again, alone, at the same
// instants (relative to the start of the history) on fresh key names. Whatever the limiter
// answered for that key in company must be what it answers for it alone.
func crossKey(e *ev.Env, c *ev.Case, hr *histRun, key int) {
	rg := getRig(hr.cfg)
	var obs []tobs
	var clockErr string
	if guard(e, c, map[string]any{"config": hr.cfg, "steps": hr.steps, "solo": key}, func() {
		obs, clockErr = rg.exec(c.ID, hr.steps, key)
	}) || clockErr != "" {
		return
	}
	n := 0
	for i, st := range hr.steps {
		if st.Key != key {
			continue
		}
		n++
		a, b := hr.obs[i], obs[i]
		if a.Entered != b.Entered || a.Status != b.Status || a.RetryAfter != b.RetryAfter ||
			a.Limit != b.Limit || a.Remaining != b.Remaining || a.Reset != b.Reset {
			class := hr.cfg.backend()
			if hr.cfg.KeyView {
				class = "key-is-view-of-request-memory"
			}
			e.Violation(c, "cross-key-interference|"+hr.cfg.algo()+"|"+class,
				fmt.Sprintf("step %d (key %d) is answered differently when the other keys' requests are left out", i, key),
				map[string]any{"config": hr.cfg, "config_text": hr.cfg.String(), "steps": hr.steps,
					"together": describeSteps(hr.steps, hr.obs), "alone": describeSteps(hr.steps, obs)})
			break
		}
	}
	e.Eval(n)
	e.Stat("crosskey-solo-replays", 1)
	e.Stat("crosskey-requests-compared", int64(n))
}
