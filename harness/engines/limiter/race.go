package limiter

import (
	"fmt"
	"strconv"
	"sync"
	"sync/atomic"
	"time"
	_ "unsafe" // go:linkname

	"github.com/gofiber/fiber/v3"
	flim "github.com/gofiber/fiber/v3/middleware/limiter"
	"github.com/gofiber/utils/v2"

	"verifharness/internal/drive"
	"verifharness/internal/ev"
)

// limiter.race: -race build, real time, all Ps, built-in memory store. The coarse clock is
// pinned (DESIGN 2.3): the updater goroutine is started and stopped once — its sync.Once is then
// spent, so nobody can start it again — and the unexported timestamp is written through a
// linkname. No window can roll over while N goroutines hit 1-3 keys, so the expectation is
// exact: with Max < N requests per key, exactly Max requests per key reach the protected
// handler and every other one is answered 429. Data-race reports are collected by the driver
// from GORACE log_path; this engine is the behavioural oracle on the same executions.

//go:linkname utilsTimestamp github.com/gofiber/utils/v2.timestamp
var utilsTimestamp uint32

const pinnedAt = 1_900_000_000

func pinClock() {
	utils.StartTimeStampUpdater()
	utils.StopTimeStampUpdater()
	time.Sleep(20 * time.Millisecond) // let the updater goroutine leave its select
	atomic.StoreUint32(&utilsTimestamp, pinnedAt)
}

func runRace(e *ev.Env) {
	pinClock()
	e.Cases("burst", e.N(150, 1200), func(c *ev.Case) {
		r := c.R
		if got := utils.Timestamp(); got != pinnedAt {
			e.Inconclusive(fmt.Sprintf("coarse clock is not pinned: utils.Timestamp()=%d", got))
			return
		}
		sliding := r.Chance(1, 3)
		nkeys := r.Range(1, 3)
		n := []int{64, 128, 256, 512}[r.Intn(4)]
		max := r.Range(1, 40)
		dyn := r.Bool()
		cfgMax := max
		lc := flim.Config{Max: max, Expiration: time.Duration(r.Range(1, 5)) * time.Second,
			KeyGenerator: func(c fiber.Ctx) string { return utils.CopyString(c.Get("X-Key")) }}
		if dyn && !sliding {
			// the limit comes from MaxFunc only; cfg.Max says something else
			cfgMax = max + r.Range(1, 5)
			lc.Max = cfgMax
			lc.MaxFunc = func(fiber.Ctx) int { return max }
		}
		algo := "fixed"
		if sliding {
			lc.LimiterMiddleware = flim.SlidingWindow{}
			algo = "sliding"
		}
		entered := make([]atomic.Int64, nkeys)
		app := fiber.New()
		app.Use(flim.New(lc))
		app.Get("/", func(c fiber.Ctx) error {
			k, _ := strconv.Atoi(c.Get("X-K"))
			entered[k].Add(1)
			return c.SendString("ok")
		})
		d := drive.NewDirect(app)
		keys := keyNames(c.ID, nkeys)
		status := make([]int, n*nkeys)
		retry := make([]string, n*nkeys)
		var wg sync.WaitGroup
		start := make(chan struct{})
		for g := 0; g < n*nkeys; g++ {
			g := g
			wg.Add(1)
			go func() {
				defer wg.Done()
				k := g % nkeys
				<-start
				resp := d.Do(&drive.Req{Method: "GET", URI: "/", Hdr: []drive.H{{K: "X-Key", V: keys[k]}, {K: "X-K", V: strconv.Itoa(k)}}})
				status[g] = resp.Status
				retry[g] = resp.Get("Retry-After")
			}()
		}
		close(start)
		wg.Wait()
		e.Eval(n * nkeys)
		e.Stat("race-requests", int64(n*nkeys))
		e.Stat("race-bursts|"+algo, 1)
		if utils.Timestamp() != pinnedAt {
			e.Inconclusive("coarse clock moved during the burst")
			return
		}
		detail := map[string]any{"algorithm": algo, "keys": nkeys, "goroutines_per_key": n, "MaxFunc": max, "cfg.Max": cfgMax}
		for k := 0; k < nkeys; k++ {
			got := int(entered[k].Load())
			ok200, rej, other := 0, 0, 0
			for g := k; g < n*nkeys; g += nkeys {
				switch status[g] {
				case 200:
					ok200++
				case 429:
					rej++
					if retry[g] == "" {
						other++
					}
				default:
					other++
				}
			}
			detail[fmt.Sprintf("key%d", k)] = map[string]int{"handler_executions": got, "status_200": ok200, "status_429": rej}
			switch {
			case got > max:
				e.Violation(c, "over-admit|"+algo+"|memory|parallel", fmt.Sprintf("key %d: %d of %d parallel requests reached the protected handler, limit %d", k, got, n, max), detail)
			case got < max:
				e.Violation(c, "reject-with-budget|"+algo+"|memory|parallel", fmt.Sprintf("key %d: only %d of %d parallel requests reached the protected handler, limit %d", k, got, n, max), detail)
			case ok200 != got || rej != n-got || other != 0:
				e.Violation(c, "response-mismatch|"+algo+"|memory|parallel", fmt.Sprintf("key %d: %d handler executions but %d responses 200, %d responses 429 (%d without Retry-After or with another status)", k, got, ok200, rej, other), detail)
			}
			e.Stat("race-admitted", int64(got))
			e.Stat("race-rejected", int64(rej))
		}
		e.Nontrivial("race", c.ID, algo, strconv.Itoa(n), strconv.Itoa(max))
	})
	runRaceGC(e)
}
