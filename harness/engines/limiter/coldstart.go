package limiter

import (
	"time"

	"verifharness/internal/ev"
)

// The coldstart family runs before anything else in the process: before vt.Start (which starts
// the one-second clock of gofiber/utils that the limiter reads) and before any app on the
// built-in memory store exists (which starts it too). The clock's updater is process-global and
// started at most once, so this is the only place where a limiter configured with an EXTERNAL
// storage is the only component that could start it — the situation of a real deployment on
// Redis & co. Only the injected storage is used here; the histories and the oracle are those of
// the timed family (window rotation must happen on the virtual clock: a request in the next
// window is admitted, Retry-After counts down).
//
// The process starts at a whole virtual second and nothing sleeps before the first limiter is
// built, so a clock started by that limiter ticks on whole seconds, like the one vt.Start would
// have started. The harness cannot compare utils.Timestamp() with the virtual clock here (that
// comparison is the point of the family), so exec skips its sanity check while coldstartPhase
// is set.
var coldstartPhase bool

func coldstart(e *ev.Env) {
	coldstartPhase = true
	for _, sliding := range []bool{false, true} {
		cfg := tcfg{Sliding: sliding, VStore: true, Max: 1, E: 2, NKeys: 1}
		hist(e, "coldstart-window-rotates-"+cfg.algo(), cfg, steps(
			rq("200"), rq("200").after(1000), rq("200").after(1000), rq("200"), rq("200").after(1000), rq("200").after(3000)))
		cfg.Max, cfg.E, cfg.NKeys = 2, 3, 2
		hist(e, "coldstart-steady-client-"+cfg.algo(), cfg, steps(
			rq("200"), rq("200"), rq("200"), rq("200").key(1), rq("200").after(1000), rq("200").after(1000), rq("200").after(1000),
			rq("200").after(1000), rq("200").after(1000).key(1), rq("200").after(1000), rq("200").after(1000), rq("200").after(1000)))
	}
	e.Cases("coldstart", e.N(480, 24000), func(c *ev.Case) {
		r := c.R
		cfg := genCfg(r)
		if cfg.NoConfig {
			// a memory-backed app would start the clock for the rest of this process: keep the
			// family what it is for and run this draw as an explicit default configuration
			cfg = tcfg{Max: 5, E: 60, NKeys: cfg.NKeys, MaxOmitted: true}
		}
		cfg.VStore = true
		st := genSteps(r, cfg)
		hr := runHist(e, c, cfg, st)
		if hr == nil {
			return
		}
		account(e, hr)
		report(e, c, hr)
		e.Stat("coldstart-histories", 1)
		if hr.j.RolledSeen {
			e.Stat("coldstart-histories-with-window-rollover", 1)
		}
	})
	coldstartPhase = false
	// hand over to vt.Start on a whole second, as at process start
	if ns := time.Now().Nanosecond(); ns != 0 {
		time.Sleep(time.Duration(int(time.Second) - ns))
	}
}
