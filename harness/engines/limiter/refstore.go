package limiter

import (
	"sync"
	"time"
)

// refStore is an external fiber.Storage that KEEPS the value slice it is given: Set stores the
// caller's []byte without copying, Get hands the stored slice back without copying. The Storage
// interface does not promise a copy, and in-process storages do exactly this (fiber's own
// internal/storage/memory and the gofiber/storage memory driver it is copied from), so it is a
// realistic backend: a middleware that reuses a buffer it has passed to Set corrupts what the
// storage holds for other keys. The instrumented vstore copies values and cannot show that.
// TTLs run on the process clock (virtual under vt), with nanosecond resolution like vstore.
type refStore struct {
	mu sync.Mutex
	m  map[string]refEntry
}

type refEntry struct {
	val []byte
	exp time.Time // zero = never
}

func newRefStore() *refStore { return &refStore{m: map[string]refEntry{}} }

func (s *refStore) Get(key string) ([]byte, error) {
	s.mu.Lock()
	defer s.mu.Unlock()
	e, ok := s.m[key]
	if !ok {
		return nil, nil
	}
	if !e.exp.IsZero() && !time.Now().Before(e.exp) {
		delete(s.m, key)
		return nil, nil
	}
	return e.val, nil
}

func (s *refStore) Set(key string, val []byte, exp time.Duration) error {
	if key == "" || len(val) == 0 {
		return nil // "Empty key or value will be ignored without an error."
	}
	e := refEntry{val: val}
	if exp > 0 {
		e.exp = time.Now().Add(exp)
	}
	s.mu.Lock()
	s.m[key] = e
	s.mu.Unlock()
	return nil
}

func (s *refStore) Delete(key string) error {
	s.mu.Lock()
	delete(s.m, key)
	s.mu.Unlock()
	return nil
}

func (s *refStore) Reset() error {
	s.mu.Lock()
	s.m = map[string]refEntry{}
	s.mu.Unlock()
	return nil
}

func (s *refStore) Close() error { return nil }
