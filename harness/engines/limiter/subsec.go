package limiter

import (
	"fmt"
	"strconv"
	"time"

	"verifharness/internal/drive"
	"verifharness/internal/ev"
	"verifharness/internal/gen"
)

// The subsecond-expiration family: Expiration values that are not whole seconds — 1 ns ... just
// under 1 s, and 1 s / 1.5 s / 2.5 s as controls. The documentation does not say which window
// length W the middleware uses for such a value (the code works in whole seconds), and the
// sequential specification of spec.go is defined on whole seconds only. So this family judges
// only what holds for EVERY window length W > 0:
//
// requests sent at one instant fall into one window, hence per key
//
//	(i)   in a burst sent at one instant the protected handler runs at most MaxFunc(c) times
//	      -> over-admit|<algo>|subsecond-expiration
//	(ii)  the n-th request ever sent on a fresh key, n <= MaxFunc(c), is admitted: if it is in
//	      the window of the first, the hits are n <= limit; if a new window began, the
//	      (weighted) hits are still at most n
//	      -> reject-with-budget|<algo>|subsecond-expiration
//	(iii) a rejected request answers 429 with a Retry-After that is a non-negative integer
//	      (its value is not judged here)
//	      -> reject-status|... / retry-after|<algo>|subsecond-expiration
//
// A second key is interleaved and judged by the same clauses (other keys unaffected). After
// the burst the history may advance by 1 ms (same coarse second) and send a second burst.

var subsecExpirations = []time.Duration{
	1, time.Millisecond, 500 * time.Millisecond, 999 * time.Millisecond, time.Second - 1,
	time.Second, 1500 * time.Millisecond, 2500 * time.Millisecond,
}

type ssReq struct {
	Key   int `json:"key"`
	Burst int `json:"burst"`
}

type ssCase struct {
	Cfg    tcfg    `json:"config"`
	KeyMax [2]int  `json:"limit_per_key"` // MaxFunc(c) of each key (= cfg.Max without MaxFunc)
	Reqs   []ssReq `json:"requests"`
	GapMs  int     `json:"ms_between_bursts"`
}

func genSubsec(r *gen.Rand) *ssCase {
	sc := &ssCase{}
	sc.Cfg = tcfg{Sliding: r.Bool(), VStore: r.Bool(), Max: r.Range(1, 4), Dyn: r.Bool(), NKeys: 2,
		ExpNs: int64(gen.Pick(r, subsecExpirations))}
	sc.Cfg.RefStore = sc.Cfg.VStore && r.Bool()
	sc.KeyMax = [2]int{sc.Cfg.Max, sc.Cfg.Max}
	if sc.Cfg.Dyn {
		sc.KeyMax = [2]int{r.Range(1, 4), r.Range(1, 4)}
	}
	burst := func(b int) {
		n0 := sc.KeyMax[0] + r.Range(1, 4)
		n1 := r.Range(1, sc.KeyMax[1]+1)
		var rs []ssReq
		for i := 0; i < n0; i++ {
			rs = append(rs, ssReq{0, b})
		}
		for i := 0; i < n1; i++ {
			rs = append(rs, ssReq{1, b})
		}
		gen.Shuffle(r, rs)
		sc.Reqs = append(sc.Reqs, rs...)
	}
	burst(0)
	if r.Chance(1, 2) {
		sc.GapMs = 1
		burst(1)
	}
	return sc
}

func (sc *ssCase) run(e *ev.Env, c *ev.Case) {
	cfg := sc.Cfg
	var obs []tobs
	var lines []string
	clockMoved := false
	if guard(e, c, sc, func() {
		rg := getRig(cfg)
		alignHalf()
		keys := keyNames(c.ID, 2)
		obs = make([]tobs, len(sc.Reqs))
		rg.mu.Lock()
		rg.obs = make([]*tobs, len(obs))
		for i := range obs {
			rg.obs[i] = &obs[i]
		}
		rg.mu.Unlock()
		cur := 0
		var at time.Time
		for i, q := range sc.Reqs {
			if q.Burst != cur {
				cur = q.Burst
				time.Sleep(time.Duration(sc.GapMs) * time.Millisecond)
				at = time.Time{}
			}
			if at.IsZero() {
				at = time.Now()
			}
			if !time.Now().Equal(at) {
				clockMoved = true
			}
			rq := &drive.Req{Method: "GET", URI: "/", Hdr: []drive.H{{K: "X-Req", V: strconv.Itoa(i)}, {K: "X-Key", V: keys[q.Key]}, {K: "X-Mode", V: "200"}}}
			if cfg.Dyn {
				rq.Hdr = append(rq.Hdr, drive.H{K: "X-Max", V: strconv.Itoa(sc.KeyMax[q.Key])})
			}
			obs[i].Ran = true
			obs[i].fill(rg.d.Do(rq))
			o := obs[i]
			lines = append(lines, fmt.Sprintf("#%d burst %d key=%d limit=%d => entered=%d status=%d Retry-After=%q Limit=%q Remaining=%q Reset=%q",
				i, q.Burst, q.Key, sc.KeyMax[q.Key], o.Entered, o.Status, o.RetryAfter, o.Limit, o.Remaining, o.Reset))
		}
	}) {
		return
	}
	if clockMoved {
		e.Inconclusive("subsecond-expiration: virtual time moved inside a burst")
		return
	}
	detail := map[string]any{"case": sc, "config_text": cfg.String(), "history": lines}
	sig := func(clause string) string { return clause + "|" + cfg.algo() + "|subsecond-expiration" }
	sent := [2]int{}    // requests ever sent per key
	inBurst := [2]int{} // handler executions per key in the current burst
	cur := 0
	reported := map[string]bool{}
	viol := func(s, what string) {
		if !reported[s] {
			reported[s] = true
			e.Violation(c, s, what, detail)
		}
	}
	adm, rej := 0, 0
	for i, q := range sc.Reqs {
		if q.Burst != cur {
			cur, inBurst = q.Burst, [2]int{}
		}
		o := obs[i]
		limit := sc.KeyMax[q.Key]
		sent[q.Key]++
		if o.Entered > 1 {
			viol(sig("handler-ran-twice"), fmt.Sprintf("request #%d: protected handler executed %d times", i, o.Entered))
		}
		if o.Entered > 0 {
			adm++
			inBurst[q.Key]++
			if inBurst[q.Key] > limit {
				viol(sig("over-admit"), fmt.Sprintf("request #%d: handler execution #%d for key %d among requests sent at one instant, limit MaxFunc(c)=%d (cfg.Max=%d), Expiration=%s",
					i, inBurst[q.Key], q.Key, limit, cfg.Max, cfg.expiration()))
			}
			continue
		}
		rej++
		if sent[q.Key] <= limit {
			viol(sig("reject-with-budget"), fmt.Sprintf("request #%d: request no. %d ever sent on fresh key %d is rejected (status %d), limit MaxFunc(c)=%d (cfg.Max=%d), Expiration=%s",
				i, sent[q.Key], q.Key, o.Status, limit, cfg.Max, cfg.expiration()))
		}
		if o.Status != 429 {
			viol(sig("reject-status"), fmt.Sprintf("request #%d did not reach the handler but the status is %d", i, o.Status))
		}
		if n, err := strconv.ParseUint(o.RetryAfter, 10, 64); err != nil || strconv.FormatUint(n, 10) != o.RetryAfter {
			viol(sig("retry-after"), fmt.Sprintf("request #%d: Retry-After=%q is not a non-negative integer", i, o.RetryAfter))
		}
	}
	e.Eval(len(sc.Reqs))
	e.Stat("subsec-requests", int64(len(sc.Reqs)))
	e.Stat("subsec-admitted", int64(adm))
	e.Stat("subsec-rejected", int64(rej))
	e.Stat("subsec-cases|"+cfg.algo()+"|"+cfg.backend(), 1)
	if cfg.ExpNs < int64(time.Second) {
		e.Stat("subsec-cases-below-one-second", 1)
	}
	if adm > 0 && rej > 0 {
		e.Nontrivial("subsec", cfg.String(), fmt.Sprint(sc.KeyMax, sc.Reqs))
	}
	e.Sample("subsecond-expiration", map[string]any{"config": cfg.String(), "history": lines})
}

func runSubsec(e *ev.Env, c *ev.Case) { genSubsec(c.R).run(e, c) }

// subsecCorpus: every expiration value x both algorithms x both backends, Max=2, burst of 6 on
// key 0 with key 1 interleaved, then 1 ms, then 3 more; with MaxFunc on the storage backend.
func subsecCorpus(e *ev.Env) {
	for _, d := range subsecExpirations {
		for _, sliding := range []bool{false, true} {
			for _, vs := range []bool{false, true} {
				cfg := tcfg{Sliding: sliding, VStore: vs, Max: 2, NKeys: 2, ExpNs: int64(d), Dyn: vs}
				sc := &ssCase{Cfg: cfg, KeyMax: [2]int{2, 2}, GapMs: 1}
				if cfg.Dyn {
					sc.KeyMax = [2]int{3, 1}
				}
				for i := 0; i < 6; i++ {
					sc.Reqs = append(sc.Reqs, ssReq{0, 0})
					if i == 1 || i == 4 {
						sc.Reqs = append(sc.Reqs, ssReq{1, 0})
					}
				}
				sc.Reqs = append(sc.Reqs, ssReq{0, 1}, ssReq{1, 1}, ssReq{0, 1})
				e.Corpus(fmt.Sprintf("subsecond-expiration-%s-%s-%s", cfg.algo(), cfg.backend(), d), func(c *ev.Case) { sc.run(e, c) })
			}
		}
	}
}
