package limiter

import (
	"fmt"
	"strconv"
	"sync"
	"sync/atomic"
	"time"

	"github.com/gofiber/fiber/v3"
	flim "github.com/gofiber/fiber/v3/middleware/limiter"
	"github.com/gofiber/utils/v2"

	"verifharness/internal/drive"
	"verifharness/internal/ev"
)

// The gctick family of limiter.race: requests for keys whose stored entry has EXPIRED but has
// not been collected yet, sent while the memory store's once-per-second collector runs.
//
// The collector is a goroutine of the code under test with no boundary the vt scheduler could
// park it at: with one P under the fake clock it runs its scan and its delete pass without
// interruption, so this interleaving is unreachable there. Here it runs in real time on all
// Ps. The coarse clock stays under the engine's control (pinClock), which makes the expectation
// exact although real time passes:
//
//  1. clock = T: one request on each of several thousand "victim" keys of each app (entries
//     that expire at T+ttl);
//  2. clock = T+ttl: every victim entry is expired and still in the map, until the app's
//     collector ticks next — the tick instants are known (the ticker starts when the limiter is
//     built, period 1 s);
//  3. from 15 ms before that tick until 60 ms after it, one goroutine per app sends a burst of
//     Max+1 requests on one victim key after the other. The clock does not move during the
//     phase, so each burst lies in one (new) window: exactly Max of its requests reach the
//     handler, whatever the collector does meanwhile. The long scan over the expired entries
//     holds the store's read lock for milliseconds; the write of a first request of a key
//     queues behind it and lands between the scan and the delete pass.
func runRaceGC(e *ev.Env) {
	var now uint32 = pinnedAt + 100000
	atomic.StoreUint32(&utilsTimestamp, now)
	e.Cases("gctick", e.N(8, 48), func(c *ev.Case) {
		r := c.R
		const napps, victims = 4, 12000
		type app struct {
			d       *drive.Direct
			born    time.Time
			entered []atomic.Int32
			keys    []string
			used    int
			ttl     uint32
			algo    string
			max     int
		}
		apps := make([]*app, napps)
		for i := range apps {
			a := &app{max: r.Range(1, 2), ttl: 1, algo: "fixed", entered: make([]atomic.Int32, victims)}
			lc := flim.Config{Max: a.max, Expiration: time.Second,
				KeyGenerator: func(c fiber.Ctx) string { return utils.CopyString(c.Get("X-Key")) }}
			if i%2 == 1 {
				lc.LimiterMiddleware, a.algo, a.ttl = flim.SlidingWindow{}, "sliding", 2 // entry kept until the end of the next window
			}
			fa := fiber.New()
			a.born = time.Now()
			fa.Use(flim.New(lc))
			fa.Get("/", func(c fiber.Ctx) error {
				k, _ := strconv.Atoi(c.Get("X-K"))
				a.entered[k].Add(1)
				return c.SendString("ok")
			})
			a.d = drive.NewDirect(fa)
			a.keys = keyNames(c.ID+"/"+strconv.Itoa(i), victims)
			apps[i] = a
		}
		send := func(a *app, k int) int {
			return a.d.Do(&drive.Req{Method: "GET", URI: "/", Hdr: []drive.H{{K: "X-Key", V: a.keys[k]}, {K: "X-K", V: strconv.Itoa(k)}}}).Status
		}
		// 1. fill at clock = T
		var wg sync.WaitGroup
		for _, a := range apps {
			a := a
			wg.Add(1)
			go func() {
				defer wg.Done()
				for k := range a.keys {
					send(a, k)
				}
			}()
		}
		wg.Wait()
		for _, a := range apps {
			for k := range a.entered {
				a.entered[k].Store(0)
			}
		}
		// 2. clock = T+2: expired for both algorithms, still stored
		now += 2
		atomic.StoreUint32(&utilsTimestamp, now)
		moved := time.Now()
		// 3. hammer around each app's next collector tick
		type res struct{ over, under, bursts, odd int }
		out := make([]res, napps)
		for i, a := range apps {
			i, a := i, a
			wg.Add(1)
			go func() {
				defer wg.Done()
				since := moved.Sub(a.born)
				tick := a.born.Add((since/time.Second + 1) * time.Second)
				if tick.Sub(moved) < 20*time.Millisecond {
					// too close to prepare: the victims are collected at this tick, nothing to hammer later
					tick = moved.Add(15 * time.Millisecond)
				}
				time.Sleep(time.Until(tick.Add(-15 * time.Millisecond)))
				end := tick.Add(60 * time.Millisecond)
				for a.used < victims && time.Now().Before(end) {
					k := a.used
					a.used++
					rejected := 0
					for n := 0; n < a.max+1; n++ {
						switch send(a, k) {
						case 200:
						case 429:
							rejected++
						default:
							out[i].odd++
						}
					}
					got := int(a.entered[k].Load())
					out[i].bursts++
					switch {
					case got > a.max:
						out[i].over++
					case got < a.max || rejected != 1:
						out[i].under++
					}
				}
			}()
		}
		wg.Wait()
		if atomic.LoadUint32(&utilsTimestamp) != now {
			e.Inconclusive("gctick: the coarse clock moved during the phase")
			return
		}
		for i, a := range apps {
			o := out[i]
			e.Eval(o.bursts * (a.max + 1))
			e.Stat("gctick-bursts-on-expired-uncollected-or-fresh-keys", int64(o.bursts))
			e.Stat("gctick-collector-ticks-hammered", 1)
			detail := map[string]any{"algorithm": a.algo, "Max": a.max, "bursts": o.bursts, "bursts_with_more_than_Max_handler_executions": o.over,
				"bursts_with_fewer": o.under, "victim_keys_stored_expired": victims}
			if o.over > 0 {
				e.Violation(c, "over-admit|"+a.algo+"|memory|expired-entry-at-collector-tick",
					fmt.Sprintf("%d of %d bursts of Max+1=%d requests on a key whose expired entry was still stored reached the handler more than Max=%d times (one window, clock pinned)", o.over, o.bursts, a.max+1, a.max), detail)
			}
			if o.under > 0 || o.odd > 0 {
				e.Violation(c, "reject-with-budget|"+a.algo+"|memory|expired-entry-at-collector-tick",
					fmt.Sprintf("%d of %d bursts reached the handler fewer than Max=%d times (or were not answered 200/429: %d)", o.under, o.bursts, a.max, o.odd), detail)
			}
			if o.bursts > 100 {
				e.Nontrivial("gctick", c.ID, strconv.Itoa(i))
			}
		}
		now += 3
		atomic.StoreUint32(&utilsTimestamp, now)
	})
}
