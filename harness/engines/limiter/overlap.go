package limiter

import (
	"verifharness/internal/ev"
	"verifharness/internal/gen"
)

// The overlap family: histories in which slow handlers (virtual sleeps of one to three windows)
// run in goroutines of their own while the history goes on sending requests on the same and on
// other keys. A request can then be taken back (skip options) after its window has rolled over
// AND after other requests have been counted in the new window — a situation neither the
// sequential timed family (a sleeping handler blocks the history) nor the single-instant
// scheduler families produce.
//
// Every request is sent at k s + 501 ms; a slow handler returns at k' s + 601 ms, so a
// take-back never coincides with a hit and the order of events is the order of their stamps.
// The judge (judge.go) processes hit and take-back events in that order; verdicts are the
// statement's clauses only, as in the timed family.

func genOverlapCfg(r *gen.Rand) tcfg {
	cfg := tcfg{
		Sliding: r.Bool(),
		VStore:  r.Chance(2, 5),
		Max:     r.Range(1, 4),
		Dyn:     r.Chance(1, 4),
		E:       r.Range(1, 3),
		NKeys:   r.PickW(4, 3, 2) + 1,
	}
	switch r.PickW(4, 4, 1) {
	case 0:
		cfg.SkipFailed = true
	case 1:
		cfg.SkipOK = true
	case 2:
		cfg.SkipFailed, cfg.SkipOK = true, true
	}
	cfg.RefStore = cfg.VStore && r.Bool()
	return cfg
}

func genOverlapSteps(r *gen.Rand, cfg tcfg) []tstep {
	E := cfg.E
	okBias := r.Range(2, 8)
	slowOneIn := r.Range(3, 6)
	var qualifying []string
	switch {
	case cfg.SkipFailed && !cfg.SkipOK:
		qualifying = []string{"500", "404", "503", "err", "err503", "201>err", "302>err503"}
	case cfg.SkipOK && !cfg.SkipFailed:
		qualifying = []string{"200", "200", "301"}
	}
	mk := func(key, adv int) tstep {
		st := tstep{Key: key, Mode: "200", Adv: adv}
		if cfg.Dyn && r.Chance(2, 3) {
			st.Max = r.Range(1, 4)
		}
		if !r.Chance(okBias, 10) {
			st.Mode = gen.Pick(r, modes)
		}
		if r.Chance(1, slowOneIn) {
			// handler durations of 1, 1.5, 2, 2.5, 3 windows and a second more
			ms := gen.Pick(r, []int{1000, E * 1000, E * 1500, (E + 1) * 1000, 2 * E * 1000, (2*E + 1) * 1000, E * 2500, 3 * E * 1000, (3*E + 1) * 1000})
			// the handler returns 100 ms after the instant at which requests are sent in that second,
			// or 400 ms before it (then the requests of that very second already see the take-back);
			// never at the instant itself
			st.Async, st.AsyncMs = true, ms+100
			if ms >= 2000 && r.Bool() {
				st.AsyncMs = ms - 400
			}
			if len(qualifying) > 0 && r.Chance(2, 3) {
				st.Mode = gen.Pick(r, qualifying)
			}
		}
		if !st.Async && r.Chance(1, 10) {
			// a KeyGenerator that takes its time (a lookup) while other requests go on
			ms := gen.Pick(r, []int{1000, 1000, 2000, E * 1000, (E + 1) * 1000, 2 * E * 1000})
			st.Async, st.KeyDelayMs = true, ms+100
			if r.Bool() {
				st.KeyDelayMs = ms - 400
			}
		}
		if cfg.NKeys > 1 && r.Chance(1, 8) {
			st.Rekey = (key+r.Range(1, cfg.NKeys-1))%cfg.NKeys + 1 // another key
		}
		return st
	}
	var steps []tstep
	if r.Bool() {
		// free-running: arbitrary advances between requests
		n := r.Range(6, 12) * cfg.NKeys
		if n > 30 {
			n = 30
		}
		for i := 0; i < n; i++ {
			adv := 0
			switch r.PickW(55, 15, 8, 6, 6, 5, 5) {
			case 1:
				adv = 1000
			case 2:
				adv = E * 1000
			case 3:
				adv = (E - 1) * 1000
			case 4:
				adv = (E + 1) * 1000
			case 5:
				adv = 2 * E * 1000
			case 6:
				adv = r.Range(1, 3*E) * 1000
			}
			steps = append(steps, mk(r.Intn(cfg.NKeys), adv))
		}
		return steps
	}
	// paced: traffic in every one of 4-7 successive windows (a few seconds of each window get a
	// small burst), mostly on key 0, so that a slow handler spanning several windows finds
	// same-key hits counted in each of them
	last := 0
	for w, nw := 0, r.Range(4, 7); w < nw && len(steps) < 34; w++ {
		for sec := 0; sec < E; sec++ {
			if sec > 0 && !r.Chance(1, 2) {
				continue
			}
			at := (w*E + sec) * 1000
			for b, nb := 0, r.PickW(3, 2, 1)+1; b < nb; b++ {
				key := 0
				if cfg.NKeys > 1 && r.Chance(1, 4) {
					key = r.Intn(cfg.NKeys)
				}
				steps = append(steps, mk(key, at-last))
				last = at
			}
		}
	}
	return steps
}

func accountOverlap(e *ev.Env, hr *histRun) {
	j := hr.j
	e.Eval(j.Judged)
	e.Stat("overlap-requests", int64(j.Judged))
	e.Stat("overlap-admitted", int64(j.Admitted))
	e.Stat("overlap-rejected", int64(j.Rejected))
	e.Stat("overlap-refunds", int64(j.Refunds))
	e.Stat("overlap-header-diffs-not-judged", int64(j.HeaderDiffs))
	e.Stat("overlap-late-take-backs", int64(j.LateRefunds))
	e.Stat("overlap-late-take-backs-while-other-hits-are-counted|"+hr.cfg.algo(), int64(j.LateRefundsOnLiveState))
	e.Stat("overlap-admissions-in-undocumented-zone", int64(j.Debatable))
	e.Stat("overlap-histories|"+hr.cfg.algo()+"|"+hr.cfg.backend(), 1)
	// what the family is for: a take-back that arrives after other requests were counted
	inFlight, lateBehindHits := 0, 0
	for i, st := range hr.steps {
		if !st.Async || !hr.obs[i].Ran || hr.obs[i].Entered == 0 {
			continue
		}
		o := hr.obs[i]
		seen := false
		for k, st2 := range hr.steps {
			if k != i && st2.Key == st.Key && hr.obs[k].Ran && hr.obs[k].Seq > o.Seq && hr.obs[k].Seq < o.EndSeq {
				seen = true
				if hr.obs[k].TS >= o.TS+uint64(hr.cfg.E) {
					lateBehindHits++
					break
				}
			}
		}
		if seen {
			inFlight++
		}
	}
	e.Stat("overlap-slow-requests-overtaken-on-their-key", int64(inFlight))
	e.Stat("overlap-slow-requests-ending-after-hits-in-a-later-window", int64(lateBehindHits))
	if j.Admitted > 0 && j.Rejected > 0 && inFlight > 0 {
		e.Nontrivial("overlap", hr.cfg.String(), j.Outcome)
		e.Stat("overlap-nontrivial-histories", 1)
	}
}

func runOverlap(e *ev.Env, c *ev.Case) {
	r := c.R
	cfg := genOverlapCfg(r)
	steps := genOverlapSteps(r, cfg)
	hr := runHist(e, c, cfg, steps)
	if hr == nil {
		return
	}
	accountOverlap(e, hr)
	report(e, c, hr)
	e.Sample("overlap-history", map[string]any{"config": cfg.String(), "history": describeSteps(steps, hr.obs)})
}
