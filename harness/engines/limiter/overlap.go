package limiter

import (
	"verifharness/internal/ev"
	"verifharness/internal/gen"
)

// The overlap family: histories in which slow handlers (virtual sleeps of one to three windows)
// run in goroutines of their own while the history goes on sending requests on the same and on
// other keys. A request can then be taken back (skip options) after its window has rolled over
// AND after other requests have been counted in the new window — a situation neither the
// sequential timed family (a sleeping handler blocks the history) nor the single-instant
// scheduler families produce.
//
// Every request is sent at k s + 501 ms; a slow handler returns at k' s + 601 ms, so a
// take-back never coincides with a hit and the order of events is the order of their stamps.
// The judge (judge.go) processes hit and take-back events in that order; verdicts are the
// statement's clauses only, as in the timed family.

func genOverlapCfg(r *gen.Rand) tcfg {
	cfg := tcfg{
		Sliding: r.Bool(),
		VStore:  r.Chance(2, 5),
		Max:     r.Range(1, 3),
		Dyn:     r.Chance(1, 3),
		E:       r.Range(1, 3),
		NKeys:   r.PickW(4, 3, 2) + 1,
	}
	switch r.PickW(4, 4, 1) {
	case 0:
		cfg.SkipFailed = true
	case 1:
		cfg.SkipOK = true
	case 2:
		cfg.SkipFailed, cfg.SkipOK = true, true
	}
	return cfg
}

func genOverlapSteps(r *gen.Rand, cfg tcfg) []tstep {
	n := r.Range(6, 12) * cfg.NKeys
	if n > 30 {
		n = 30
	}
	E := cfg.E
	okBias := r.Range(2, 8)
	slowOneIn := r.Range(3, 6)
	steps := make([]tstep, 0, n)
	for i := 0; i < n; i++ {
		st := tstep{Key: r.Intn(cfg.NKeys), Mode: "200"}
		switch r.PickW(55, 15, 8, 6, 6, 5, 5) {
		case 1:
			st.Adv = 1000
		case 2:
			st.Adv = E * 1000
		case 3:
			st.Adv = (E - 1) * 1000
		case 4:
			st.Adv = (E + 1) * 1000
		case 5:
			st.Adv = 2 * E * 1000
		case 6:
			st.Adv = r.Range(1, 3*E) * 1000
		}
		if cfg.Dyn && r.Chance(2, 3) {
			st.Max = r.Range(1, 4)
		}
		if !r.Chance(okBias, 10) {
			st.Mode = gen.Pick(r, modes)
		}
		if r.Chance(1, slowOneIn) {
			d := gen.Pick(r, []int{1, E, E, E + 1, 2 * E, 2*E + 1, 3 * E})
			st.Async, st.AsyncMs = true, d*1000+100
		}
		steps = append(steps, st)
	}
	return steps
}

func accountOverlap(e *ev.Env, hr *histRun) {
	j := hr.j
	e.Eval(j.Judged)
	e.Stat("overlap-requests", int64(j.Judged))
	e.Stat("overlap-admitted", int64(j.Admitted))
	e.Stat("overlap-rejected", int64(j.Rejected))
	e.Stat("overlap-refunds", int64(j.Refunds))
	e.Stat("overlap-header-diffs-not-judged", int64(j.HeaderDiffs))
	e.Stat("overlap-admissions-in-undocumented-zone", int64(j.Debatable))
	e.Stat("overlap-histories|"+hr.cfg.algo()+"|"+hr.cfg.backend(), 1)
	// what the family is for: a take-back that arrives after other requests were counted
	inFlight, lateBehindHits := 0, 0
	for i, st := range hr.steps {
		if !st.Async || !hr.obs[i].Ran || hr.obs[i].Entered == 0 {
			continue
		}
		o := hr.obs[i]
		seen := false
		for k, st2 := range hr.steps {
			if k != i && st2.Key == st.Key && hr.obs[k].Ran && hr.obs[k].Seq > o.Seq && hr.obs[k].Seq < o.EndSeq {
				seen = true
				if hr.obs[k].TS >= o.TS+uint64(hr.cfg.E) {
					lateBehindHits++
					break
				}
			}
		}
		if seen {
			inFlight++
		}
	}
	e.Stat("overlap-slow-requests-overtaken-on-their-key", int64(inFlight))
	e.Stat("overlap-slow-requests-ending-after-hits-in-a-later-window", int64(lateBehindHits))
	if j.Admitted > 0 && j.Rejected > 0 && inFlight > 0 {
		e.Nontrivial("overlap", hr.cfg.String(), j.Outcome)
		e.Stat("overlap-nontrivial-histories", 1)
	}
}

func runOverlap(e *ev.Env, c *ev.Case) {
	r := c.R
	cfg := genOverlapCfg(r)
	steps := genOverlapSteps(r, cfg)
	hr := runHist(e, c, cfg, steps)
	if hr == nil {
		return
	}
	accountOverlap(e, hr)
	report(e, c, hr)
	e.Sample("overlap-history", map[string]any{"config": cfg.String(), "history": describeSteps(steps, hr.obs)})
}
