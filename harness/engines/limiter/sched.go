package limiter

import (
	"fmt"
	"sort"
	"strconv"
	"strings"
	"time"

	"github.com/anishathalye/porcupine"

	"verifharness/internal/ev"
	"verifharness/internal/gen"
	"verifharness/internal/sched"
)

// The concurrent families. A scenario is: a configuration on the injected storage, an optional
// sequential prologue (so that the concurrent phase meets a half-full current window and, for
// the sliding window, a weighted previous one), then 2-4 requests released together and
// interleaved by the deterministic scheduler at every boundary: Storage.Get / Storage.Set,
// MaxFunc, KeyGenerator, protected handler entry and exit.
//
// Oracles per schedule:
//   - no deadlock, no panic;
//   - conservation from handler-entry events (see conserve);
//   - linearizability of the recorded operations (acquire: request sent -> handler entered or
//     429 received; refund: handler returned -> response received) against the sequential
//     specification of spec.go, per key, with porcupine.
//
// Handlers never return errors here and every request of one key announces the same limit, so
// neither of the two undocumented corners (spec.go, judge.go) can be reached.

type scen struct {
	Cfg    tcfg    `json:"config"`
	Pre    []tstep `json:"prologue"`
	Gap    int     `json:"gap_ms"` // virtual time between prologue and the concurrent phase
	W      []tstep `json:"workers"`
	KeyMax []int   `json:"key_max"`
	// Level of boundaries: 0 = Storage.Get/Set, MaxFunc, KeyGenerator, handler entry and exit;
	// 1 = Storage.Get/Set and handler entry; 2 = Storage.Get/Set only. Coarser levels make three
	// workers exhaustible. At level 2 a worker runs from the Set of its acquire through the handler
	// to the Get of its take-back without a boundary, so two take-backs never overlap there: the
	// handler-entry boundary of level 1 is what lets a second request be counted in between.
	Level   int `json:"boundary_level"`
	workers string
}

func (sc *scen) String() string {
	var sb strings.Builder
	sb.WriteString(sc.Cfg.String())
	fmt.Fprintf(&sb, " | prologue %d requests, then +%dms |", len(sc.Pre), sc.Gap)
	for i, w := range sc.W {
		fmt.Fprintf(&sb, " w%d:key%d/max%d/%s", i, w.Key, sc.KeyMax[w.Key], w.Mode)
	}
	fmt.Fprintf(&sb, " (boundaries L%d)", sc.Level)
	return sb.String()
}

func genScen(r *gen.Rand, nw int) *scen {
	sc := &scen{}
	cfg := tcfg{Sliding: r.Bool(), VStore: true, Max: r.Range(1, 3), Dyn: r.Bool(), E: r.Range(2, 4), NKeys: 2}
	switch r.PickW(4, 2, 2) {
	case 1:
		cfg.SkipFailed = true
	case 2:
		cfg.SkipOK = true
	}
	sc.Cfg = cfg
	sc.KeyMax = []int{cfg.Max, cfg.Max}
	if cfg.Dyn {
		sc.KeyMax = []int{r.Range(1, 3), r.Range(1, 3)}
	}
	hm := func() string { return gen.Pick(r, []string{"200", "200", "500", "404"}) }
	mk := func(key int) tstep {
		st := tstep{Key: key, Mode: hm()}
		if cfg.Dyn {
			st.Max = sc.KeyMax[key]
		}
		return st
	}
	// prologue: requests that are counted (no refunds: what a refund does to the stored entry
	// over time is the business of the timed family)
	if r.Chance(2, 3) {
		n := r.Range(1, 3)
		for i := 0; i < n; i++ {
			p := mk(r.Intn(2))
			p.Mode = "200"
			if cfg.SkipOK {
				p.Mode = "500"
			}
			sc.Pre = append(sc.Pre, p)
		}
		sc.Gap = gen.Pick(r, []int{0, 0, 1000, (cfg.E - 1) * 1000, cfg.E * 1000, (cfg.E + 1) * 1000})
	}
	sameKey := r.Chance(2, 3)
	for i := 0; i < nw; i++ {
		k := 0
		if !sameKey {
			k = r.Intn(2)
		}
		sc.W = append(sc.W, mk(k))
	}
	if nw >= 3 {
		sc.Level = r.PickW(0, 2, 1)
	}
	return sc
}

// ---- porcupine model

type opIn struct {
	refund bool
	max    int
	ts     uint64
	exp    uint64 // refund: window of the hit
}

type opOut struct {
	admitted  bool
	remaining int // admitted: X-RateLimit-Remaining as of the acquire (refund taken out); -1 unknown
	reset     string
}

func limModel(a algoCfg, init winState, useCfgMax int) porcupine.Model {
	return porcupine.Model{
		Init: func() any { return init },
		Step: func(state, input, output any) (bool, any) {
			s := state.(winState)
			in := input.(opIn)
			if in.refund {
				s.refund(a, in.ts, in.exp, true)
				return true, s
			}
			out := output.(opOut)
			max := in.max
			if useCfgMax > 0 {
				max = useCfgMax
			}
			v := s.hit(a, in.ts)
			trunc, real := v.admits(max)
			if out.admitted {
				if !v.weakAdmits(max) {
					return false, s
				}
				s.admitted()
				if trunc && out.remaining >= 0 {
					w := max - v.rate
					if out.remaining != w && !(!v.exact && out.remaining == w-1) {
						return false, s
					}
				}
			} else if real {
				return false, s
			}
			if out.reset != strconv.FormatUint(v.resetIn, 10) {
				return false, s
			}
			return true, s
		},
		Equal: func(a, b any) bool { return a.(winState) == b.(winState) },
		DescribeOperation: func(input, output any) string {
			in := input.(opIn)
			if in.refund {
				return "refund()"
			}
			out := output.(opOut)
			if out.admitted {
				return fmt.Sprintf("acquire(max=%d) -> admitted, remaining=%d, reset=%s", in.max, out.remaining, out.reset)
			}
			return fmt.Sprintf("acquire(max=%d) -> rejected, retry-after=%s", in.max, out.reset)
		},
	}
}

// ---- one schedule

type schedRun struct {
	out   *sched.Outcome
	obs   []tobs
	ts    uint64
	init  map[int]winState // specification state per key after the prologue
	hits  map[int][]uint64
	fails []finding
	lin   []string
}

// prologueState replays the prologue through the specification.
func prologueState(cfg tcfg, pre []tstep, obs []tobs) map[int]winState {
	a := algoCfg{sliding: cfg.Sliding, E: uint64(cfg.E)}
	st := map[int]winState{}
	for i, p := range pre {
		w := st[p.Key]
		v := w.hit(a, obs[i].TS)
		if obs[i].Entered > 0 {
			w.admitted()
			if (cfg.SkipOK && obs[i].Status < 400) || (cfg.SkipFailed && obs[i].Status >= 400) {
				w.refund(a, obs[i].TSEnd, v.exp, true)
			}
		}
		st[p.Key] = w
	}
	return st
}

func (sc *scen) runOnce(caseID string, ch sched.Chooser) *schedRun {
	cfg := sc.Cfg
	a := algoCfg{sliding: cfg.Sliding, E: uint64(cfg.E)}
	rg := newRig(cfg)
	run := &schedRun{}
	keys := keyNames(caseID, cfg.NKeys)
	// sequential prologue on the same instants every time
	alignHalf()
	pobs := make([]tobs, len(sc.Pre))
	rg.obs = make([]*tobs, len(sc.Pre))
	for i := range pobs {
		rg.obs[i] = &pobs[i]
	}
	for i, p := range sc.Pre {
		pobs[i].TS = uint64(time.Now().Unix())
		resp := rg.d.Do(rg.request(i, keys[p.Key], p))
		pobs[i].TSEnd = pobs[i].TS
		pobs[i].fill(resp)
	}
	run.init = prologueState(cfg, sc.Pre, pobs)
	if sc.Gap > 0 {
		time.Sleep(time.Duration(sc.Gap) * time.Millisecond)
	}
	run.ts = uint64(time.Now().Unix())

	// concurrent phase
	s := sched.New()
	obs := make([]tobs, len(sc.W))
	rg.mu.Lock()
	rg.obs = make([]*tobs, len(sc.W))
	for i := range obs {
		rg.obs[i] = &obs[i]
	}
	rg.mu.Unlock()
	rg.vs.Yield = func(p string) { s.Yield(p) }
	rg.yield = func(p string) {
		if (sc.Level >= 1 && p != "handler.entry") || sc.Level >= 2 {
			return
		}
		s.Yield(p)
	}
	for i, w := range sc.W {
		i, w := i, w
		s.Go("w"+strconv.Itoa(i), func() {
			obs[i].Ran = true
			obs[i].Call = rg.tick()
			resp := rg.d.Do(rg.request(i, keys[w.Key], w))
			obs[i].Ret = rg.tick()
			obs[i].fill(resp)
		})
	}
	run.out = s.Run(ch)
	rg.vs.Yield, rg.yield = nil, nil
	run.obs = obs
	tsEnd := uint64(time.Now().Unix())
	if tsEnd != run.ts {
		run.fails = append(run.fails, finding{Sig: "harness|sched-crossed-a-second", What: "the concurrent phase did not stay within one coarse second"})
		return run
	}
	if run.out.Deadlock || len(run.out.Panics) > 0 {
		return run
	}
	sc.judgeConc(a, run)
	return run
}

// conserve: with every request of a key announcing the same limit, the hits of a window only
// grow while requests are in flight, so the n-th request that ENTERS the protected handler
// implies a rate of at least (hits before the phase, weighted) + n - (refunds that were
// already answered when it was sent). Counted purely from handler-entry events.
func (sc *scen) judgeConc(a algoCfg, run *schedRun) {
	cfg := sc.Cfg
	qual := func(status int) bool {
		return (cfg.SkipOK && status < 400) || (cfg.SkipFailed && status >= 400)
	}
	byKey := map[int][]int{}
	for i, w := range sc.W {
		byKey[w.Key] = append(byKey[w.Key], i)
	}
	var ks []int
	for k := range byKey {
		ks = append(ks, k)
	}
	sort.Ints(ks)
	for _, k := range ks {
		idx := byKey[k]
		max := sc.KeyMax[k]
		init := run.init[k]
		base := init // state at the instant of the phase, before any concurrent hit
		base.roll(a, run.ts)
		floor := weighted(a, base.prevAdm, base.exp-run.ts) + base.currAdm
		// --- conservation
		var entered []int
		for _, i := range idx {
			if run.obs[i].Entered > 0 {
				entered = append(entered, i)
			}
			if run.obs[i].Entered > 1 {
				run.fails = append(run.fails, finding{Sig: "handler-ran-twice|" + cfg.algo() + "|concurrent-storage", What: fmt.Sprintf("w%d: protected handler executed %d times", i, run.obs[i].Entered)})
			}
		}
		sort.Slice(entered, func(x, y int) bool { return run.obs[entered[x]].EntryClock < run.obs[entered[y]].EntryClock })
		for n, i := range entered {
			refunded := 0
			for _, o := range entered[:n] {
				if qual(run.obs[o].Status) && run.obs[o].ExitClock < run.obs[i].EntryClock {
					refunded++ // its handler had returned: the refund may already have been applied
				}
			}
			if need := floor + n + 1 - refunded; need > max {
				if max != cfg.Max && need <= cfg.Max {
					run.fails = append(run.fails, finding{Sig: "limit-not-from-MaxFunc|" + cfg.algo() + "|admission",
						What: fmt.Sprintf("key %d: w%d is handler execution #%d of the window, more than MaxFunc(c)=%d allows but within cfg.Max=%d", k, i, n+1, max, cfg.Max)})
					break
				}
				run.fails = append(run.fails, finding{Sig: "over-admit|" + cfg.algo() + "|concurrent-storage",
					What: fmt.Sprintf("key %d: w%d is handler execution #%d of the window (plus %d admitted before the phase, weighted), at most %d earlier ones can have been refunded, limit %d", k, i, n+1, floor, refunded, max)})
				break
			}
		}
		// --- linearizability
		var ops []porcupine.Operation
		for _, i := range idx {
			o := run.obs[i]
			in := opIn{max: max, ts: run.ts}
			if o.Entered > 0 {
				rem := -1
				if n, err := strconv.Atoi(o.Remaining); err == nil {
					rem = n
					if qual(o.Status) {
						rem--
					}
				} else {
					run.fails = append(run.fails, finding{Sig: "headers|remaining|" + cfg.algo() + "|concurrent-storage", What: fmt.Sprintf("w%d: admitted response without a numeric X-RateLimit-Remaining (%q)", i, o.Remaining)})
				}
				ops = append(ops, porcupine.Operation{ClientId: i, Input: in, Call: o.Call, Output: opOut{admitted: true, remaining: rem, reset: o.Reset}, Return: o.EntryClock})
				if qual(o.Status) {
					// the window of the hit is the one current at the instant of the phase
					ops = append(ops, porcupine.Operation{ClientId: i, Input: opIn{refund: true, ts: run.ts, exp: base.exp}, Call: o.ExitClock, Output: opOut{}, Return: o.Ret})
				}
				if o.Limit != strconv.Itoa(max) {
					run.fails = append(run.fails, finding{Sig: "limit-not-from-MaxFunc|" + cfg.algo() + "|limit-header", What: fmt.Sprintf("w%d: X-RateLimit-Limit=%q, MaxFunc(c)=%d", i, o.Limit, max)})
				}
			} else {
				if o.Status != 429 {
					run.fails = append(run.fails, finding{Sig: "reject-status|" + cfg.algo() + "|concurrent-storage", What: fmt.Sprintf("w%d did not reach the handler but the status is %d", i, o.Status)})
				}
				ops = append(ops, porcupine.Operation{ClientId: i, Input: in, Call: o.Call, Output: opOut{reset: o.RetryAfter}, Return: o.Ret})
			}
		}
		check := func(useCfgMax int) porcupine.CheckResult {
			return porcupine.CheckOperationsTimeout(limModel(a, init, useCfgMax), ops, 60*time.Second)
		}
		res := check(0)
		describe := func() {
			m := limModel(a, init, 0)
			for _, op := range ops {
				run.lin = append(run.lin, fmt.Sprintf("key%d w%d [%d,%d] %s", k, op.ClientId, op.Call, op.Return, m.DescribeOperation(op.Input, op.Output)))
			}
			run.lin = append(run.lin, fmt.Sprintf("key%d state after the prologue: %+v, phase at ts=%d", k, init, run.ts))
		}
		switch res {
		case porcupine.Unknown:
			run.fails = append(run.fails, finding{Sig: "inconclusive", What: "porcupine timeout"})
		case porcupine.Illegal:
			describe()
			if max != cfg.Max && check(cfg.Max) == porcupine.Ok {
				run.fails = append(run.fails, finding{Sig: "limit-not-from-MaxFunc|" + cfg.algo() + "|admission",
					What: fmt.Sprintf("key %d: the history has no linearization with the limit MaxFunc(c)=%d but has one with cfg.Max=%d", k, max, cfg.Max)})
			} else {
				run.fails = append(run.fails, finding{Sig: "not-linearizable|" + cfg.algo() + "|concurrent-storage",
					What: fmt.Sprintf("key %d: the acquire/refund history has no linearization against the sequential specification", k)})
			}
		}
	}
}

func (sc *scen) detail(run *schedRun) map[string]any {
	d := map[string]any{"scenario": sc, "scenario_text": sc.String()}
	if run != nil {
		if run.out != nil {
			d["schedule"] = run.out.Key()
			d["choices"] = run.out.Schedule
		}
		var rs []string
		for i, o := range run.obs {
			rs = append(rs, fmt.Sprintf("w%d: entered=%d status=%d Retry-After=%q Limit=%q Remaining=%q Reset=%q clocks call=%d entry=%d exit=%d ret=%d",
				i, o.Entered, o.Status, o.RetryAfter, o.Limit, o.Remaining, o.Reset, o.Call, o.EntryClock, o.ExitClock, o.Ret))
		}
		d["responses"] = rs
		if len(run.lin) > 0 {
			d["operations"] = run.lin
		}
	}
	return d
}

func (sc *scen) account(e *ev.Env, c *ev.Case, run *schedRun, family string, seen map[string]bool) (bad bool) {
	e.Eval(len(sc.W))
	e.Stat(family+"-schedules", 1)
	if run.out != nil {
		k := run.out.Key()
		if !seen[k] {
			seen[k] = true
			e.Stat(family+"-distinct-interleavings", 1)
		}
		e.StatMax("max-boundaries-per-schedule", int64(run.out.Steps))
		if run.out.Deadlock {
			e.Violation(c, "deadlock|"+sc.Cfg.algo(), "concurrent requests never finished: "+strings.Join(run.out.Blocked, ","), sc.detail(run))
			return true
		}
		names := make([]string, 0, len(run.out.Panics))
		for n := range run.out.Panics {
			names = append(names, n)
		}
		sort.Strings(names)
		for _, n := range names {
			p := run.out.Panics[n]
			d := sc.detail(run)
			d["panic"] = p
			e.Violation(c, "panic|"+ev.PanicSite(p), "worker "+n+" panicked", d)
			bad = true
		}
	}
	adm, rej := 0, 0
	for _, o := range run.obs {
		if o.Entered > 0 {
			adm++
		} else if o.Ran {
			rej++
		}
	}
	if adm > 0 && rej > 0 {
		e.Stat(family+"-schedules-with-admit-and-reject", 1)
		if run.out != nil {
			e.Nontrivial(family, sc.String(), run.out.Key())
		}
	}
	for _, f := range run.fails {
		if f.Sig == "inconclusive" {
			e.Inconclusive("porcupine timeout: " + sc.String())
			continue
		}
		e.Violation(c, f.Sig, f.What, sc.detail(run))
		bad = true
	}
	return bad
}

// runSched: 2 or 3 workers, every schedule (depth-first, up to a cap).
func runSched(e *ev.Env, c *ev.Case) {
	r := c.R
	sc := genScen(r, r.PickW(3, 2)+2)
	limit := e.N(600, 40000)
	seen := map[string]bool{}
	n, exhausted := sched.DFS(limit, func(ch sched.Chooser) *sched.Outcome {
		run := sc.runOnce(c.ID, ch)
		sc.account(e, c, run, "sched", seen)
		if run.out == nil {
			return &sched.Outcome{}
		}
		return run.out
	})
	e.Stat("sched-scenarios", 1)
	e.Stat(fmt.Sprintf("sched-scenarios|%d-workers", len(sc.W)), 1)
	if exhausted {
		e.Stat("sched-scenarios-exhausted", 1)
		e.Stat(fmt.Sprintf("sched-scenarios-exhausted|%d-workers", len(sc.W)), 1)
	}
	e.StatMax("max-schedules-per-scenario", int64(n))
	e.Sample("sched-scenario", map[string]any{"scenario": sc.String(), "schedules": n, "exhausted": exhausted})
}

// runWalk: 4 workers, one seeded random schedule per case.
func runWalk(e *ev.Env, c *ev.Case) {
	r := c.R
	sc := genScen(r, r.Range(3, 4))
	sc.Level = 0
	sr := r.Split()
	run := sc.runOnce(c.ID, sched.RandomChooser(sr.Intn))
	sc.account(e, c, run, "walk", map[string]bool{})
}
