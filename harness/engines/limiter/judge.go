package limiter

import (
	"fmt"
	"sort"
	"strconv"
)

// finding is one rejected observation of a history.
type finding struct {
	Sig  string
	What string
	Step int
}

// kstate is the oracle's view of one key in one history.
type kstate struct {
	w dual // the specification's state (two views of time, see spec.go)
	// doc: second copy of the state, alive from the first request on whose handler RETURNED an
	// error under a skip option, once the history has established (errMode) that the middleware
	// judges such a request by the status at the moment the handler returns, not by the status
	// the client receives as documented. w then follows the middleware so that it keeps judging
	// everything else; doc keeps the documented counting. Admission decisions are judged against
	// doc as well, and a disagreement that only doc sees is attributed to that root cause.
	doc      *dual
	dead     bool // no longer judged: a violation was reported, or nothing can be attributed any more
	violated bool
	// Input class of a disagreement: did a refund (SkipFailedRequests / SkipSuccessfulRequests)
	// ever touch this key in this history? What a refund leaves behind in the stored entry can
	// surface many requests later, and two such leftovers can cancel in one header and show in
	// the next, so anything finer than "after a refund" would not be a stable class.
	hadRefund bool
	hadLate   bool // ... and one of them came after the window of its hit had ended (slow handler)
	hadGap    bool // a whole window passed without a request on this key (coarse view)
	lastLate  bool // the previous request was refunded after the window of its hit had ended
	div       *finding
	divClass  string
}

type judgement struct {
	Findings               []finding
	Admitted               int
	Rejected               int
	Debatable              int // admissions in the zone the documentation leaves open
	Refunds                int
	Ambiguous              int // keys dropped because two disagreements explain one observation equally
	Judged                 int
	LateRefunds            int    // take-backs that found the window of their hit gone
	LateRefundsOnLiveState int    // ... while the key's current/previous window holds other hits
	HeaderDiffs            int    // X-RateLimit-* values that differ from the specification (counted, not judged)
	Outcome                string // one letter per request, for distinctness
	GapSeen                bool
	RolledSeen             bool
}

func (j *judgement) sigs() map[string]bool {
	m := map[string]bool{}
	for _, f := range j.Findings {
		m[f.Sig] = true
	}
	return m
}

// judge is a deterministic function of the recorded events (configuration, requests sent,
// observations with their coarse timestamps). It never looks at the middleware.
//
// Verdicts are limited to what the statement of C13 says: handler executions per key never
// exceed what the algorithm permits with the limit MaxFunc(c) of that request
// (over-admit), no rejection while budget remains (reject-with-budget), rejected requests
// answer 429 with Retry-After = time until the window resets. The X-RateLimit-* headers are
// not part of the statement: disagreements there are counted (HeaderDiffs), not judged.
func judge(cfg tcfg, steps []tstep, obs []tobs) *judgement {
	a := algoCfg{sliding: cfg.Sliding, E: uint64(cfg.E)}
	j := &judgement{}
	keys := map[int]*kstate{}

	sig := func(clause, class string) string {
		if class == "" {
			class = cfg.backend()
		}
		return clause + "|" + cfg.algo() + "|" + class
	}
	add := func(i int, s, what string) {
		j.Findings = append(j.Findings, finding{Sig: s, What: fmt.Sprintf("step %d: %s", i, what), Step: i})
	}
	qual := func(status int) bool {
		return (cfg.SkipOK && status < 400) || (cfg.SkipFailed && status >= 400)
	}

	// Events in execution order: every request contributes a hit (when it was sent) and an end
	// (when its response arrived — the instant a skipped request is taken back). In a sequential
	// history the end follows its hit immediately; with slow handlers running beside the history
	// (overlap family) other requests' hits and ends lie in between.
	type event struct {
		seq int64
		i   int
		end bool
	}
	var evs []event
	for i := range steps {
		if obs[i].Ran {
			evs = append(evs, event{obs[i].Seq, i, false}, event{obs[i].EndSeq, i, true})
		}
	}
	sort.SliceStable(evs, func(x, y int) bool { return evs[x].seq < evs[y].seq })
	xs := make([]dverdict, len(steps)) // verdict of each judged hit, for its refund
	refunds := make([]bool, len(steps))
	outc := make([]byte, len(steps))
	for i := range outc {
		outc[i] = '-'
	}

	for _, ev := range evs {
		i := ev.i
		st, o := steps[i], obs[i]
		ks := keys[st.Key]
		if ks == nil {
			ks = &kstate{}
			keys[st.Key] = ks
		}
		if ev.end {
			// ---- the request is over: take the hit back if the skip options say so
			if !refunds[i] || ks.dead {
				continue
			}
			j.Refunds++
			if !ks.w.refund(a, o.TEnd, xs[i]) {
				ks.lastLate, ks.hadLate = true, true
				j.LateRefunds++
				if st0 := ks.w.s[0]; st0.exp != 0 && o.TSEnd < st0.exp && (st0.prev > 0 || st0.curr > 0) {
					j.LateRefundsOnLiveState++ // other requests are counted in the windows now in force
				}
			}
			ks.hadRefund = true
			continue
		}
		if ks.dead {
			outc[i] = 'x'
			continue
		}
		maxReq := cfg.Max
		if cfg.Dyn && st.Max > 0 {
			maxReq = st.Max
		}
		hadState := ks.w.s[0].exp != 0
		oldExp := ks.w.s[0].exp
		x := ks.w.hit(a, o.T)
		v := x.v[0] // the coarse view, for messages and input classes
		entered := o.Entered > 0
		final, _ := modeStatus(st.Mode)

		// class names the input class of a disagreement at this request
		class := ""
		switch {
		case ks.hadLate:
			class = "after-late-refund"
		case ks.hadRefund:
			class = "after-refund"
		case v.gap || ks.hadGap:
			class = "idle-window"
		}
		if maxReq != cfg.Max {
			if class == "" {
				class = cfg.backend()
			}
			class += "|limit-from-MaxFunc"
		}
		if cfg.KeyView {
			// one input class, whatever else is true of the history
			class = "key-is-view-of-request-memory"
		}
		if v.gap {
			ks.hadGap = true
		}
		hint := ""
		if ks.lastLate {
			hint = " [the previous request on this key was refunded after the window of its hit had ended]"
		}
		ks.lastLate = false
		trunc, real := x.admits(maxReq)

		// Documented: "requests with StatusCode >= 400 (< 400) won't be counted" — the status
		// code of a request is the one the client receives.
		refund := entered && qual(o.Status)
		xs[i], refunds[i] = x, refund

		j.Judged++
		if v.gap {
			j.GapSeen = true
		}
		if hadState && v.exp != oldExp && !v.gap {
			j.RolledSeen = true
		}
		if o.Entered > 1 {
			add(i, sig("handler-ran-twice", ""), fmt.Sprintf("protected handler executed %d times for one request", o.Entered))
		}
		if entered && o.Status != final {
			add(i, "harness|unexpected-status", fmt.Sprintf("handler %s produced status %d", st.Mode, o.Status))
		}

		// ---- admission
		violated := false
		switch {
		case entered && !trunc && !x.weakAdmits(maxReq):
			add(i, sig("over-admit", class),
				fmt.Sprintf("protected handler entered although the window is full: rate %d (hits prev=%d curr=%d, resets in %ds) > limit MaxFunc(c)=%d (cfg.Max=%d); counting only admitted requests the rate is still %d%s",
					v.rate, ks.w.s[0].prev, ks.w.s[0].curr, v.resetIn, maxReq, cfg.Max, v.weakRate, hint))
			violated = true
		case entered && !trunc:
			j.Debatable++
		case !entered && real:
			add(i, sig("reject-with-budget", class),
				fmt.Sprintf("rejected (status %d) although budget remains: rate %d (hits prev=%d curr=%d, resets in %ds) <= limit MaxFunc(c)=%d (cfg.Max=%d)%s",
					o.Status, v.rate, ks.w.s[0].prev, ks.w.s[0].curr, v.resetIn, maxReq, cfg.Max, hint))
			violated = true
		}

		if entered {
			ks.w.admitted()
			// headers are informational: counted only
			if o.Limit != strconv.Itoa(maxReq) {
				j.HeaderDiffs++
			}
			if got, err := strconv.Atoi(o.Remaining); err != nil || !x.remainingOK(got, maxReq, refund) {
				j.HeaderDiffs++
			}
			if !x.resetOK(o.Reset) {
				j.HeaderDiffs++
			}
			j.Admitted++
			outc[i] = 'A'
		} else {
			j.Rejected++
			outc[i] = 'R'
			if o.Status != 429 {
				add(i, sig("reject-status", ""), fmt.Sprintf("request did not reach the handler but the status is %d", o.Status))
			}
			if !violated && !x.resetOK(o.RetryAfter) {
				add(i, sig("retry-after", class),
					fmt.Sprintf("Retry-After=%q, the window resets in %d s (window end %d, now %d)", o.RetryAfter, v.resetIn, v.exp, o.TS))
				violated = true
			}
		}

		if violated {
			ks.dead, ks.violated = true, true
		}
	}
	j.Outcome = string(outc)
	return j
}
