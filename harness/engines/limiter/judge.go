package limiter

import (
	"fmt"
	"sort"
	"strconv"
)

// finding is one rejected observation of a history.
type finding struct {
	Sig  string
	What string
	Step int
}

// kstate is the oracle's view of one key in one history.
type kstate struct {
	w dual // the specification's state (two views of time, see spec.go)
	// doc: second copy of the state, alive from the first request on whose handler RETURNED an
	// error under a skip option, once the history has established (errMode) that the middleware
	// judges such a request by the status at the moment the handler returns, not by the status
	// the client receives as documented. w then follows the middleware so that it keeps judging
	// everything else; doc keeps the documented counting. Admission decisions are judged against
	// doc as well, and a disagreement that only doc sees is attributed to that root cause.
	doc      *dual
	dead     bool // no longer judged: a violation was reported, or nothing can be attributed any more
	violated bool
	// Input class of a disagreement: did a refund (SkipFailedRequests / SkipSuccessfulRequests)
	// ever touch this key in this history? What a refund leaves behind in the stored entry can
	// surface many requests later, and two such leftovers can cancel in one header and show in
	// the next, so anything finer than "after a refund" would not be a stable class.
	hadRefund bool
	hadLate   bool // ... and one of them came after the window of its hit had ended (slow handler)
	hadGap    bool // a whole window passed without a request on this key (coarse view)
	lastLate  bool // the previous request was refunded after the window of its hit had ended
	div       *finding
	divClass  string
}

type judgement struct {
	Findings   []finding
	Admitted   int
	Rejected   int
	Debatable  int // admissions in the zone the documentation leaves open
	Refunds    int
	Ambiguous  int // keys dropped because two disagreements explain one observation equally
	Judged     int
	Outcome    string // one letter per request, for distinctness
	GapSeen    bool
	RolledSeen bool
}

func (j *judgement) sigs() map[string]bool {
	m := map[string]bool{}
	for _, f := range j.Findings {
		m[f.Sig] = true
	}
	return m
}

// Two disagreements with the documentation are pervasive enough that a history has to settle
// them before anything else can be attributed. Each is settled by the first request that
// exhibits it in isolation (no refund before it on the key, no idle window); until then a
// request that could be explained by it AND by something else makes its key unjudgeable.
const (
	unknown = iota
	asDocumented
	otherwise // limit: cfg.Max is used instead of MaxFunc(c); error: status at handler return is used
)

// judge is a deterministic function of the recorded events (configuration, requests sent,
// observations with their coarse timestamps). It never looks at the middleware.
func judge(cfg tcfg, steps []tstep, obs []tobs) *judgement {
	a := algoCfg{sliding: cfg.Sliding, E: uint64(cfg.E)}
	j := &judgement{}
	keys := map[int]*kstate{}
	limitMode, errMode := unknown, unknown
	out := make([]byte, 0, len(steps))
	skipOpt := "skip-failed"
	if cfg.SkipOK {
		skipOpt = "skip-successful"
	}
	b2i := map[bool]int{true: 1}

	sig := func(clause, class string) string {
		if class == "" {
			class = cfg.backend()
		}
		return clause + "|" + cfg.algo() + "|" + class
	}
	add := func(i int, s, what string) {
		j.Findings = append(j.Findings, finding{Sig: s, What: fmt.Sprintf("step %d: %s", i, what), Step: i})
	}
	qual := func(status int) bool {
		return (cfg.SkipOK && status < 400) || (cfg.SkipFailed && status >= 400)
	}

	for i, st := range steps {
		o := obs[i]
		if !o.Ran {
			out = append(out, '-')
			continue
		}
		ks := keys[st.Key]
		if ks == nil {
			ks = &kstate{}
			keys[st.Key] = ks
		}
		if ks.dead {
			out = append(out, 'x')
			continue
		}
		drop := func() {
			ks.dead = true
			j.Ambiguous++
			out = append(out, '?')
		}
		maxReq := cfg.Max
		if cfg.Dyn && st.Max > 0 {
			maxReq = st.Max
		}
		useMax := maxReq
		if limitMode == otherwise {
			useMax = cfg.Max
		}
		limitOpen := limitMode == unknown && maxReq != cfg.Max
		hadState := ks.w.s[0].exp != 0
		oldExp := ks.w.s[0].exp
		x := ks.w.hit(a, o.T)
		v := x.v[0] // the coarse view, for messages and input classes
		var xDoc dverdict
		if ks.doc != nil {
			xDoc = ks.doc.hit(a, o.T)
		}
		entered := o.Entered > 0
		final, atReturn := modeStatus(st.Mode)

		// class names the input class of a disagreement at this request
		class := ""
		switch {
		case ks.div != nil:
			class = ks.divClass // an earlier header divergence on this key names the root cause
		case ks.hadLate:
			class = "after-late-refund"
		case ks.hadRefund:
			class = "after-refund"
		case v.gap || ks.hadGap:
			class = "idle-window"
		}
		if v.gap {
			ks.hadGap = true
		}
		clean := class == ""
		hint := ""
		if ks.lastLate {
			hint = " [the previous request on this key was refunded after the window of its hit had ended]"
		}
		trunc, real := x.admits(useMax)
		got, gotErr := strconv.Atoi(o.Remaining)

		// ---- which status do the skip options look at?
		// Documented: "requests with StatusCode >= 400 (< 400) won't be counted" — the status
		// code of a request is the one the client receives.
		refundDoc := entered && qual(o.Status)
		refundImpl := refundDoc
		errDivergent := false
		if entered && final != atReturn && qual(final) != qual(atReturn) && o.Status == final {
			if errMode == unknown {
				// X-RateLimit-Remaining of this very response tells (it is the budget left after
				// the refund, if any)
				d := gotErr == nil && x.remainingOK(got, useMax, refundDoc)
				m := gotErr == nil && x.remainingOK(got, useMax, !refundDoc)
				switch {
				case !clean || limitOpen || !trunc || !x.exact() || d == m:
					drop()
					continue
				case d:
					errMode = asDocumented
				default:
					errMode = otherwise
					add(i, "headers|remaining|"+skipOpt+"|handler-returned-error",
						fmt.Sprintf("handler returned an error, the client received status %d, yet X-RateLimit-Remaining=%d (limit %d, rate %d) shows the request was %s (documented: status %s 400 is not counted)",
							o.Status, got, useMax, v.rate, map[bool]string{true: "counted", false: "not counted"}[refundDoc], map[bool]string{true: ">=", false: "<"}[cfg.SkipFailed]))
				}
			}
			if errMode == otherwise {
				refundImpl = !refundDoc
				errDivergent = true
			}
		}

		j.Judged++
		if v.gap {
			j.GapSeen = true
		}
		if hadState && v.exp != oldExp && !v.gap {
			j.RolledSeen = true
		}
		if o.Entered > 1 {
			add(i, sig("handler-ran-twice", ""), fmt.Sprintf("protected handler executed %d times for one request", o.Entered))
		}
		if entered && o.Status != final {
			add(i, "harness|unexpected-status", fmt.Sprintf("handler %s produced status %d", st.Mode, o.Status))
		}

		// ---- admission
		violated := false
		// limitSettles: the decision disagrees with MaxFunc(c) and agrees with cfg.Max
		limitSettles := false
		if limitOpen {
			altTrunc, altReal := x.admits(cfg.Max)
			limitSettles = (entered && !trunc && altTrunc) || (!entered && real && !altReal)
		}
		switch {
		case limitSettles && !clean:
			drop()
			continue
		case limitSettles:
			add(i, "limit-not-from-MaxFunc|"+cfg.algo()+"|admission",
				fmt.Sprintf("%s although the rate is %d and MaxFunc(c)=%d; the decision matches cfg.Max=%d",
					map[bool]string{true: "admitted", false: "rejected"}[entered], v.rate, maxReq, cfg.Max))
			limitMode, limitOpen = otherwise, false
			useMax = cfg.Max
			trunc, real = x.admits(useMax)
		case entered && !trunc && !x.weakAdmits(useMax):
			add(i, sig("over-admit", class),
				fmt.Sprintf("protected handler entered although the window is full: rate %d (hits prev=%d curr=%d, resets in %ds) > limit %d; counting only admitted requests the rate is still %d%s",
					v.rate, ks.w.s[0].prev, ks.w.s[0].curr, v.resetIn, useMax, v.weakRate, hint))
			violated = true
		case entered && !trunc:
			j.Debatable++
		case !entered && real:
			add(i, sig("reject-with-budget", class),
				fmt.Sprintf("rejected (status %d) although budget remains: rate %d (hits prev=%d curr=%d, resets in %ds) <= limit %d",
					o.Status, v.rate, ks.w.s[0].prev, ks.w.s[0].curr, v.resetIn, useMax))
			violated = true
		}
		// the same decision against the documented counting of returned errors; only reached when
		// the state that follows the implementation has nothing to object
		if ks.doc != nil && !violated {
			dTrunc, dReal := xDoc.admits(useMax)
			vDoc := xDoc.v[0]
			switch {
			case entered && trunc && !dTrunc && !xDoc.weakAdmits(useMax):
				add(i, "over-admit|"+skipOpt+"|handler-returned-error",
					fmt.Sprintf("protected handler entered although the window is full when requests answered with an error status are counted as documented: rate %d (hits prev=%d curr=%d) > limit %d; the middleware's count is %d",
						vDoc.rate, ks.doc.s[0].prev, ks.doc.s[0].curr, useMax, v.rate))
				ks.doc = nil
			case !entered && !real && dReal:
				add(i, "reject-with-budget|"+skipOpt+"|handler-returned-error",
					fmt.Sprintf("rejected (status %d) although budget remains when requests answered with an error status are not counted as documented: rate %d (hits prev=%d curr=%d) <= limit %d; the middleware's count is %d",
						o.Status, vDoc.rate, ks.doc.s[0].prev, ks.doc.s[0].curr, useMax, v.rate))
				ks.doc = nil
			}
		}

		if entered {
			ks.w.admitted()
			if ks.doc != nil {
				ks.doc.admitted()
			}
			// ---- limit header
			if o.Limit != strconv.Itoa(maxReq) {
				add(i, "limit-not-from-MaxFunc|"+cfg.algo()+"|limit-header",
					fmt.Sprintf("X-RateLimit-Limit=%q, MaxFunc(c)=%d", o.Limit, maxReq))
			}
			// ---- remaining / reset headers: only when nothing else is in doubt for this request
			// (a refund the specification no longer applies because the window is over leaves
			// the meaning of "remaining" open: not judged)
			lateRefund := refundImpl && x.late(a, &ks.w, o.TEnd)
			if !violated && trunc && !lateRefund {
				want := func(limit int) int { return limit - v.rate + b2i[refundImpl] }
				matches := func(limit int) bool { return gotErr == nil && x.remainingOK(got, limit, refundImpl) }
				switch {
				case matches(useMax):
					if limitOpen && clean && !matches(cfg.Max) {
						limitMode = asDocumented
					}
				case ks.div != nil:
				case limitOpen && matches(cfg.Max) && !clean:
					drop()
					continue
				case limitOpen && matches(cfg.Max):
					add(i, "limit-not-from-MaxFunc|"+cfg.algo()+"|remaining-header",
						fmt.Sprintf("X-RateLimit-Remaining=%d = cfg.Max(%d) - rate(%d)%s; with MaxFunc(c)=%d it must be %d", got, cfg.Max, v.rate,
							map[bool]string{true: " + 1 refunded"}[refundImpl], maxReq, want(useMax)))
					limitMode = otherwise
				default:
					ks.div = &finding{Sig: sig("headers|remaining", class), Step: i,
						What: fmt.Sprintf("step %d: X-RateLimit-Remaining=%q, specification: limit %d - rate %d (hits prev=%d curr=%d, resets in %ds)%s = %d%s",
							i, o.Remaining, useMax, v.rate, ks.w.s[0].prev, ks.w.s[0].curr, v.resetIn, map[bool]string{true: " + 1 refunded"}[refundImpl], want(useMax), hint)}
					ks.divClass = class
				}
				if !x.resetOK(o.Reset) && ks.div == nil {
					ks.div = &finding{Sig: sig("headers|reset", class), Step: i,
						What: fmt.Sprintf("step %d: X-RateLimit-Reset=%q, the window resets in %d s", i, o.Reset, v.resetIn)}
					ks.divClass = class
				}
			}
			j.Admitted++
			out = append(out, 'A')
		} else {
			j.Rejected++
			out = append(out, 'R')
			if o.Status != 429 {
				add(i, sig("reject-status", ""), fmt.Sprintf("request did not reach the handler but the status is %d", o.Status))
			}
			if !violated && !x.resetOK(o.RetryAfter) {
				add(i, sig("retry-after", class),
					fmt.Sprintf("Retry-After=%q, the window resets in %d s (window end %d, now %d)", o.RetryAfter, v.resetIn, v.exp, o.TS))
				violated = true
			}
		}

		// ---- refund
		ks.lastLate = false
		if errDivergent && ks.doc == nil && !violated {
			cp := ks.w
			ks.doc = &cp
			xDoc = x
		}
		if ks.doc != nil && refundDoc {
			ks.doc.refund(a, o.TEnd, xDoc)
		}
		if refundImpl {
			j.Refunds++
			if !ks.w.refund(a, o.TEnd, x) {
				ks.lastLate, ks.hadLate = true, true
			}
			ks.hadRefund = true
		}
		if violated {
			ks.dead, ks.violated = true, true
		}
	}
	// header divergences that never turned into an admission-level violation
	var ids []int
	for k := range keys {
		ids = append(ids, k)
	}
	sort.Ints(ids)
	for _, k := range ids {
		ks := keys[k]
		if ks.div != nil && !ks.violated {
			j.Findings = append(j.Findings, *ks.div)
		}
	}
	j.Outcome = string(out)
	return j
}
