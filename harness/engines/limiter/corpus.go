package limiter

import (
	"fmt"
	"strings"

	"verifharness/internal/drive"
	"verifharness/internal/ev"
	"verifharness/internal/sched"
)

// Fixed regression corpus: runs on shard 0 only, independent of the seed. Every case goes
// through the same executor and the same oracle as the generated histories.

func rq(mode string) tstep           { return tstep{Mode: mode} }
func (s tstep) after(ms int) tstep   { s.Adv = ms; return s }
func (s tstep) sleeps(sec int) tstep { s.Delay = sec; return s }
func (s tstep) async(ms int) tstep   { s.Async, s.AsyncMs = true, ms; return s }
func (s tstep) maxFunc(n int) tstep  { s.Max = n; return s }
func (s tstep) key(k int) tstep      { s.Key = k; return s }
func steps(ss ...tstep) []tstep      { return ss }
func mem(c tcfg) tcfg                { c.VStore = false; return c }
func sto(c tcfg) tcfg                { c.VStore = true; return c }
func fixedW(max, e int) tcfg         { return tcfg{Max: max, E: e, NKeys: 1} }
func slidingW(max, e int) tcfg       { return tcfg{Sliding: true, Max: max, E: e, NKeys: 1} }
func (c tcfg) skipFailed() tcfg      { c.SkipFailed = true; return c }
func (c tcfg) skipSuccessful() tcfg  { c.SkipOK = true; return c }
func (c tcfg) withMaxFunc() tcfg     { c.Dyn = true; return c }
func (c tcfg) keys(n int) tcfg       { c.NKeys = n; return c }
func isCorpus(c *ev.Case) bool       { return strings.HasPrefix(c.ID, "corpus:") }
func hist(e *ev.Env, name string, cfg tcfg, ss []tstep) {
	e.Corpus(name, func(c *ev.Case) {
		hr := runHist(e, c, cfg, ss)
		if hr == nil {
			return
		}
		account(e, hr)
		report(e, c, hr)
		e.Stat("corpus-histories", 1)
	})
}

func corpus(e *ev.Env) {
	// ---- plain behaviour of both algorithms on both backends (expected to hold)
	for _, b := range []func(tcfg) tcfg{mem, sto} {
		n := b(tcfg{}).backend()
		hist(e, "fixed-window-edges-"+n, b(fixedW(2, 2)), steps(
			rq("200"), rq("200"), rq("200"), // A A R(2)
			rq("200").after(1000), // R(1)
			rq("200").after(1000), // new window: A
			rq("404"), rq("200"),  // A R
			rq("200").after(5000), rq("200"), rq("200")))
		hist(e, "sliding-window-weights-"+n, b(slidingW(3, 4)), steps(
			rq("200"), rq("200"), rq("200"), rq("200"), // A A A R: 4 hits in the first window
			rq("200").after(4000), // weight 1: 4+1 > 3: R
			rq("200").after(2000), // weight 1/2: 2+... still full
			rq("200").after(1000), rq("200").after(1000),
			rq("200").after(4000), rq("200").after(4000)))
		hist(e, "maxfunc-fixed-"+n, b(fixedW(5, 2)).withMaxFunc(), steps(
			rq("200").maxFunc(2), rq("200").maxFunc(2), rq("200").maxFunc(2), // A A R
			rq("200").maxFunc(6), rq("200"),
			rq("200").maxFunc(1).after(2000), rq("200").maxFunc(1)))
		hist(e, "two-keys-"+n, b(fixedW(1, 3)).keys(2), steps(
			rq("200"), rq("200").key(1), rq("200"), rq("200").key(1),
			rq("200").after(3000), rq("200").key(1)))
		hist(e, "skip-failed-statuses-"+n, b(fixedW(2, 3)).skipFailed(), steps(
			rq("500"), rq("404"), rq("400"), rq("200"), rq("301"), rq("200"), rq("500")))
		hist(e, "skip-successful-statuses-"+n, b(slidingW(2, 3)).skipSuccessful(), steps(
			rq("200"), rq("301"), rq("200"), rq("500"), rq("404"), rq("200")))
	}

	// ---- witnesses of the defects found on the unchanged tree (DESIGN 3.C13 "H:" and beyond)

	// (1) sliding window: admission and X-RateLimit-Remaining use cfg.Max, not MaxFunc(c)
	hist(e, "sliding-maxfunc-remaining", mem(slidingW(5, 2)).withMaxFunc(), steps(
		rq("200").maxFunc(2), rq("200").maxFunc(2), rq("200").maxFunc(2), rq("200").maxFunc(2), rq("200").maxFunc(2), rq("200").maxFunc(2)))
	hist(e, "sliding-maxfunc-admits-beyond-limit", mem(slidingW(5, 2)).withMaxFunc(), steps(
		rq("200"), rq("200"), rq("200").maxFunc(2)))
	hist(e, "sliding-maxfunc-rejects-within-limit", sto(slidingW(1, 2)).withMaxFunc(), steps(
		rq("200"), rq("200").maxFunc(3)))

	// (2) the skip options look at the status before the ErrorHandler has turned a returned
	// error into the status the client receives
	hist(e, "skip-failed-returned-error", mem(fixedW(1, 2)).skipFailed(), steps(rq("err"), rq("200")))
	hist(e, "skip-failed-returned-fiber-error", sto(slidingW(1, 2)).skipFailed(), steps(rq("err503"), rq("200")))
	hist(e, "skip-successful-returned-error", mem(fixedW(1, 2)).skipSuccessful(), steps(rq("err"), rq("500")))
	hist(e, "skip-successful-returned-fiber-error", sto(slidingW(1, 2)).skipSuccessful(), steps(rq("err404"), rq("500")))

	// (3) sliding window: the refund rewrites the entry with TTL = Expiration instead of
	// "until the end of the next window": the previous window is forgotten early ...
	hist(e, "sliding-refund-forgets-window-reset", mem(slidingW(1, 2)).skipSuccessful(), steps(rq("200"), rq("200").after(3000)))
	hist(e, "sliding-refund-forgets-window-remaining", sto(slidingW(2, 1)).skipSuccessful(), steps(rq("404"), rq("200"), rq("200").after(1000)))
	hist(e, "sliding-refund-forgets-window-over-admit", mem(slidingW(2, 2)).skipFailed(), steps(
		rq("200"), rq("500"), rq("200").after(2000), rq("200")))
	hist(e, "sliding-refund-forgets-window-retry-after", sto(slidingW(1, 3)).skipFailed(), steps(rq("500"), rq("200").after(4000), rq("200")))
	// ... or kept beyond it, and then counted with full weight
	hist(e, "sliding-refund-keeps-stale-window", sto(slidingW(2, 4)).skipSuccessful(), steps(
		rq("500"), rq("200").after(2000).sleeps(4), rq("500").after(2000), rq("200")))

	// (4) a refund issued after the window of its hit has ended (slow handler) writes a
	// counter of -1: the next window admits Max+1
	hist(e, "fixed-late-refund-remaining", mem(fixedW(1, 1)).skipSuccessful(), steps(rq("200").sleeps(2), rq("200")))
	hist(e, "fixed-late-refund-over-admit", mem(fixedW(1, 1)).skipSuccessful(), steps(rq("200").sleeps(2), rq("400"), rq("400")))
	hist(e, "fixed-late-refund-over-admit-storage", sto(fixedW(2, 2)).skipFailed(), steps(rq("503").sleeps(5), rq("200"), rq("200"), rq("200")))
	hist(e, "sliding-late-refund-over-admit", sto(slidingW(1, 1)).skipFailed(), steps(rq("404").sleeps(2), rq("200"), rq("200")))
	hist(e, "sliding-late-refund-remaining", mem(slidingW(1, 1)).skipSuccessful(), steps(rq("200").sleeps(2), rq("200")))
	// (3) again, on a key that has seen (4) before: same symptoms, input class "after-late-refund"
	hist(e, "sliding-late-refund-then-reset", sto(slidingW(1, 3)).skipSuccessful(), steps(
		rq("200").sleeps(8), rq("200").after(13000), rq("200").after(4000)))
	hist(e, "sliding-late-refund-then-reject", sto(slidingW(2, 4)).skipFailed(), steps(
		rq("503").sleeps(8), rq("200"), rq("503").after(2000), rq("200").after(4000), rq("200"), rq("200").after(4000)))
	hist(e, "sliding-late-refund-then-retry-after", sto(slidingW(1, 3)).skipSuccessful(), steps(
		rq("200").sleeps(10), rq("200"), rq("400").after(4000), rq("200")))

	// (5) sliding window on an external storage: the entry outlives "end of the next window"
	// by the sub-second phase; a request arriving then meets the window before the idle one
	// with full weight
	hist(e, "sliding-idle-window-stale-previous-reject", sto(slidingW(2, 2)), steps(rq("200"), rq("200"), rq("200").after(3500)))
	hist(e, "sliding-idle-window-stale-previous-remaining", sto(slidingW(3, 5)), steps(rq("200"), rq("200").after(2000), rq("200").after(7500)))

	// ---- slow handlers beside the history: a failing request outlives its window while the
	// next window fills up; when it is finally answered the current window's count must stand
	// (fourth request: 429), also on a second key that is new at that moment
	for _, b := range []func(tcfg) tcfg{mem, sto} {
		n := b(tcfg{}).backend()
		hist(e, "overlap-late-failure-keeps-window-count-fixed-"+n, b(fixedW(2, 2)).skipFailed(), steps(
			rq("500").async(2100), rq("200").after(2000), rq("200"), rq("200").after(1000), rq("200")))
		hist(e, "overlap-late-failure-keeps-window-count-sliding-"+n, b(slidingW(2, 2)).skipFailed(), steps(
			rq("500").async(4100), rq("200").after(4000), rq("200"), rq("200").after(1000), rq("200")))
		hist(e, "overlap-late-success-other-key-"+n, b(fixedW(1, 2)).skipSuccessful().keys(2), steps(
			rq("200").async(3100), rq("500").after(2000), rq("500").after(1000).key(1), rq("500").key(1), rq("500"),
			rq("500").after(2000), rq("500").key(1), rq("500"), rq("500").key(1)))
		// a failing request that outlives two window rotations: nothing of it is left to take back,
		// the two hits of the window in between stay counted (last request: 429)
		hist(e, "overlap-failure-two-windows-later-sliding-"+n, b(slidingW(3, 3)).skipFailed(), steps(
			rq("500").async(6600), rq("200").after(3000), rq("200"), rq("200").after(3000), rq("200").after(1000), rq("200")))
		hist(e, "overlap-failure-two-windows-later-fixed-"+n, b(fixedW(2, 2)).skipFailed(), steps(
			rq("500").async(4600), rq("200").after(2000), rq("200"), rq("200").after(2000), rq("200").after(1000), rq("200")))
		hist(e, "overlap-refund-inside-window-"+n, b(fixedW(2, 3)).skipFailed(), steps(
			rq("500").async(1100), rq("200"), rq("200"), rq("200").after(2000), rq("200"), rq("200")))
	}

	// ---- a storage that keeps the value slices it is given (in-process storages do): what is
	// stored for one key must not change when another key is written (A A B, then A: 429)
	for _, w := range []tcfg{fixedW(2, 3), slidingW(2, 3)} {
		cfg := sto(w).keys(3)
		cfg.RefStore = true
		hist(e, "storage-keeps-value-slices-"+cfg.algo(), cfg, steps(
			rq("200"), rq("200"), rq("200").key(1), rq("200"), rq("200").key(2), rq("200").key(1), rq("200"), rq("200").key(1),
			rq("200").after(3000), rq("200").key(1), rq("200"), rq("200").key(2), rq("200")))
	}

	// ---- a handler that sets a status and THEN returns an error: the client receives what the
	// error handler makes of the error, and that is the status the skip options go by
	hist(e, "skip-failed-status-set-then-error", mem(fixedW(1, 3)).skipFailed(), steps(rq("201>err"), rq("204>err503"), rq("302>err"), rq("200"), rq("200")))
	hist(e, "skip-failed-status-set-then-error-sliding", sto(slidingW(1, 3)).skipFailed(), steps(rq("201>err404"), rq("304>err"), rq("200"), rq("200")))
	hist(e, "skip-successful-status-set-then-error", sto(fixedW(1, 3)).skipSuccessful(), steps(rq("201>err"), rq("201>err")))
	hist(e, "skip-successful-status-set-then-error-sliding", mem(slidingW(2, 3)).skipSuccessful(), steps(rq("404>err302"), rq("204>err"), rq("302>err503"), rq("500")))

	// ---- Max and MaxFunc omitted: the documented default Max = 5 is the limit (8 requests in one
	// window: 5 admitted, 3 rejected; again in the next window)
	for _, w := range []tcfg{mem(fixedW(5, 2)), sto(fixedW(5, 2)), mem(slidingW(5, 2)), sto(slidingW(5, 2)).skipFailed()} {
		w.MaxOmitted = true
		hist(e, "max-omitted-default-5-"+w.algo()+"-"+w.backend(), w, steps(
			rq("200"), rq("200"), rq("200"), rq("200"), rq("200"), rq("200"), rq("200"), rq("200"),
			rq("200").after(5000), rq("200"), rq("200"), rq("200"), rq("200"), rq("200"), rq("200")))
	}

	// ---- a KeyGenerator whose answer changes once the handler has identified the user: a
	// request is counted, and taken back, under the key it was admitted with. Key 1 uses up its
	// budget with failures; key 0's successful requests (skipped) identify the user as key 1:
	// all of them are admitted, and key 1 stays at its limit.
	rk := func(s tstep, k int) tstep { s.Rekey = k + 1; return s }
	for _, w := range []tcfg{mem(fixedW(2, 4)), sto(fixedW(2, 4)), mem(slidingW(2, 4)), sto(slidingW(2, 4))} {
		hist(e, "key-changes-after-handler-"+w.algo()+"-"+w.backend(), w.skipSuccessful().keys(2), steps(
			rq("500").key(1), rq("500").key(1), rq("500").key(1),
			rk(rq("200"), 1), rk(rq("200"), 1), rk(rq("200"), 1), rk(rq("200"), 1),
			rq("500").key(1), rq("500"), rq("500"), rq("500")))
	}

	// ---- limiter.New() without any config: Max 5 per minute and client address
	hist(e, "no-config", tcfg{NoConfig: true, Max: 5, E: 60, NKeys: 2}, steps(
		rq("200"), rq("200"), rq("200").key(1), rq("200"), rq("200"), rq("200"), rq("200"), rq("200").after(30000),
		rq("200").key(1), rq("200").after(30000), rq("200"), rq("200").key(1)))

	// ---- the KeyGenerator of the documentation's example returns a view of request memory, and
	// the requests arrive on one reused RequestCtx (keep-alive): keys stay apart
	for _, w := range []tcfg{mem(fixedW(2, 3)), sto(fixedW(2, 3)), mem(slidingW(2, 3)), sto(slidingW(2, 3))} {
		w.KeyView = true
		hist(e, "key-view-reused-ctx-"+w.algo()+"-"+w.backend(), w.keys(2), steps(
			rq("200"), rq("200").key(1), rq("200"), rq("200").key(1), rq("200"), rq("200").key(1),
			rq("200").after(3000), rq("200").key(1), rq("200"), rq("200").key(1)))
	}

	// ---- a KeyGenerator that takes 1.6 s for one request while the window it started in ends and
	// other requests open the next one: the late request counts in the window in force when the
	// generator answers (Retry-After is that window's)
	for _, w := range []tcfg{mem(fixedW(1, 2)), sto(fixedW(1, 2)), mem(slidingW(2, 2)), sto(slidingW(2, 2))} {
		slow := rq("200")
		slow.Async, slow.KeyDelayMs = true, 1600
		hist(e, "slow-key-generator-across-a-window-"+w.algo()+"-"+w.backend(), w, steps(
			rq("200"), slow.after(1000), rq("200").after(1000), rq("200"), rq("200").after(1000), rq("200")))
	}

	// ---- probe, not a verdict: fiber.Storage documents "Empty key or value will be ignored"
	// for Set. A KeyGenerator that returns "" (the documentation's own example reads a header
	// that may be absent) therefore is never limited on an external storage.
	e.Corpus("probe-empty-key", func(c *ev.Case) {
		for _, vs := range []bool{false, true} {
			cfg := tcfg{Max: 1, E: 5, NKeys: 1, VStore: vs}
			rg := getRig(cfg)
			obs := make([]tobs, 4)
			rg.mu.Lock()
			rg.obs = nil
			for i := range obs {
				rg.obs = append(rg.obs, &obs[i])
			}
			rg.mu.Unlock()
			n := 0
			for i := range obs {
				rg.d.Do(&drive.Req{Method: "GET", URI: "/", Hdr: []drive.H{{K: "X-Req", V: fmt.Sprint(i)}, {K: "X-Mode", V: "200"}}})
				n += obs[i].Entered
			}
			e.Stat("probe-empty-key-admitted-of-4|max-1|"+cfg.backend(), int64(n))
		}
	})

	// ---- concurrency: small scenarios, every schedule
	conc := func(name string, sc *scen, limit int) {
		e.Corpus(name, func(c *ev.Case) {
			seen := map[string]bool{}
			n, exhausted := sched.DFS(limit, func(ch sched.Chooser) *sched.Outcome {
				run := sc.runOnce(c.ID, ch)
				sc.account(e, c, run, "sched", seen)
				if run.out == nil {
					return &sched.Outcome{}
				}
				return run.out
			})
			e.Stat("corpus-sched-scenarios", 1)
			if exhausted {
				e.Stat("corpus-sched-scenarios-exhausted", 1)
			}
			e.Sample("sched-scenario", map[string]any{"scenario": sc.String(), "schedules": n, "exhausted": exhausted})
		})
	}
	conc("sched-two-requests-one-slot-fixed", &scen{Cfg: sto(fixedW(1, 3)).keys(2), KeyMax: []int{1, 1}, W: steps(rq("200"), rq("200"))}, 5000)
	conc("sched-two-requests-one-slot-sliding", &scen{Cfg: sto(slidingW(1, 3)).keys(2), KeyMax: []int{1, 1}, W: steps(rq("200"), rq("200"))}, 5000)
	conc("sched-refund-races-acquire", &scen{Cfg: sto(fixedW(1, 3)).keys(2).skipFailed(), KeyMax: []int{1, 1}, W: steps(rq("500"), rq("200"))}, 5000)
	conc("sched-two-take-backs-then-request", &scen{Cfg: sto(fixedW(2, 3)).keys(2).skipFailed(), KeyMax: []int{2, 2}, Level: 1,
		W: steps(rq("500"), rq("500"), rq("200"))}, 20000)
	conc("sched-two-take-backs-then-request-sliding", &scen{Cfg: sto(slidingW(2, 3)).keys(2).skipSuccessful(), KeyMax: []int{2, 2}, Level: 1,
		W: steps(rq("200"), rq("200"), rq("500"))}, 20000)
	conc("sched-three-requests-two-slots", &scen{Cfg: sto(fixedW(2, 3)).keys(2), KeyMax: []int{2, 2}, Level: 1,
		Pre: steps(rq("200")), W: steps(rq("200"), rq("200"), rq("200"))}, 20000)
	conc("sched-sliding-weighted-previous", &scen{Cfg: sto(slidingW(3, 4)).keys(2), KeyMax: []int{3, 3}, Gap: 5000,
		Pre: steps(rq("200"), rq("200"), rq("200")), W: steps(rq("200"), rq("200"))}, 5000)
}
