package limiter

import "strconv"

// Sequential specification of the rate limiter, per key, on the coarse second clock.
// Written from /repo/docs/middleware/limiter.md and the statement of property C13, NOT from
// the middleware sources:
//
//   - "Max number of recent connections during Expiration seconds before sending a 429": every
//     request that reaches the limiter is a hit (a rejected request is a connection too).
//   - fixed window: the first hit opens the window [t, t+E); a hit at ts >= t+E opens the next
//     one at ts. A hit is admitted iff the hits of its window (including itself) are <= max.
//   - sliding window: windows are contiguous ([t,t+E), [t+E,t+2E) ...) as long as no whole
//     window passes without a hit; the documentation's formula
//     rate = previous window's hits * (time until the current window ends / Expiration)
//     + current window's hits
//     does not pin the rounding of the weighted part. Both readings are kept: truncated to an
//     integer (DESIGN 3.C13; permits more) and real-valued (permits less). An admission is
//     only an over-admission when even the truncated rate exceeds max; a rejection is only
//     "with budget" when even the real-valued rate is <= max; in between nothing is asserted.
//     When a whole window
//     passed without a hit (ts >= exp+E) "the previous window" had no requests: the state is
//     forgotten and the hit opens a fresh window at ts.
//   - max is MaxFunc(c) of the request being judged.
//   - Retry-After / reset = exp - ts, whole seconds as the coarse clock sees them.
//   - refund(): SkipFailedRequests / SkipSuccessfulRequests — "requests with StatusCode >= 400
//     (< 400) won't be counted": the hit is taken out of the window it was counted in; if that
//     window is no longer part of the state the refund is a no-op.
//
// Next to the hit counters the state carries a second, weaker pair that counts only hits the
// implementation ADMITTED. It is used to grade a disagreement: an admission that even the weak
// pair forbids is an indisputable over-admission; an admission the hit-counting pair forbids
// but the weak pair allows lies in the zone where the documentation is silent (do rejected
// requests consume budget when the limit changes per request?) and is only counted.

type algoCfg struct {
	sliding bool
	E       uint64
}

type winState struct {
	exp              uint64 // end of the current window; 0 = no state
	curr, prev       int    // hits (admitted or not) minus refunds
	currAdm, prevAdm int    // hits the implementation admitted, minus refunds
}

// roll brings the state to coarse time ts. gap reports that state existed and was forgotten
// because at least one whole window passed (sliding) — the input class "idle window".
func (s *winState) roll(a algoCfg, ts uint64) (gap bool) {
	switch {
	case s.exp == 0:
		*s = winState{exp: ts + a.E}
	case ts < s.exp:
	case !a.sliding:
		*s = winState{exp: ts + a.E}
	case ts >= s.exp+a.E:
		gap = s.curr != 0 || s.prev != 0
		*s = winState{exp: ts + a.E}
	default:
		s.prev, s.prevAdm = s.curr, s.currAdm
		s.curr, s.currAdm = 0, 0
		s.exp += a.E
	}
	return gap
}

type verdict struct {
	rate     int    // truncated rate including this hit
	weakRate int    // truncated rate counting only admitted hits, including this one
	num      uint64 // prev * resetIn: the real-valued rate is num/E + curr
	curr     int
	e        uint64
	exact    bool   // the weighted part has no fractional part: both readings give the same rate
	resetIn  uint64 // exp - ts
	exp      uint64 // window the hit was counted in
	gap      bool
}

func weighted(a algoCfg, prev int, resetIn uint64) int {
	if !a.sliding || prev <= 0 {
		return 0
	}
	return int(uint64(prev) * resetIn / a.E)
}

// hit counts one request at ts. The state evolves the same whatever the limit is and whatever
// the implementation decided.
func (s *winState) hit(a algoCfg, ts uint64) verdict {
	gap := s.roll(a, ts)
	s.curr++
	v := verdict{resetIn: s.exp - ts, exp: s.exp, gap: gap, curr: s.curr, e: a.E, exact: true}
	v.rate = weighted(a, s.prev, v.resetIn) + s.curr
	v.weakRate = weighted(a, s.prevAdm, v.resetIn) + s.currAdm + 1
	if a.sliding && s.prev > 0 {
		v.num = uint64(s.prev) * v.resetIn
		v.exact = v.num%a.E == 0
	}
	return v
}

// admits: trunc = admitted under the truncated reading; real = admitted under the real-valued
// reading too (real implies trunc).
func (v verdict) admits(max int) (trunc, real bool) {
	trunc = v.rate <= max
	real = max >= v.curr && v.num <= uint64(max-v.curr)*v.e
	return trunc, real && trunc
}

// weakAdmits: the request fits when only hits the implementation admitted are counted.
func (v verdict) weakAdmits(max int) bool { return v.weakRate <= max }

// admitted tells the weak counters that the implementation let the request through.
func (s *winState) admitted() { s.currAdm++ }

// refund takes back a hit counted in the window ending at hitExp, at coarse time ts. It
// reports false when that window is no longer part of the state (nothing to take back).
func (s *winState) refund(a algoCfg, ts, hitExp uint64, wasAdmitted bool) bool {
	if s.exp == 0 {
		return false
	}
	switch {
	case hitExp == s.exp && (ts < s.exp || (a.sliding && ts < s.exp+a.E)):
		// still the current window, or (sliding, not yet rolled) about to become the previous
		s.curr--
		if wasAdmitted {
			s.currAdm--
		}
	case a.sliding && hitExp+a.E == s.exp && ts < s.exp:
		s.prev--
		if wasAdmitted {
			s.prevAdm--
		}
	default:
		return false
	}
	return true
}

// ---- two views of time

// The middleware counts on a clock that ticks once per second. Requests that are not sent at
// the same sub-second phase see differences on that clock that are up to one second off the
// real differences, and an external storage expires entries in real time. So that no verdict
// hinges on which of the two a reader has in mind, the state is kept twice: view 0 on the coarse
// clock exactly as the property statement puts it (floor of the time), view 1 on a second clock
// whose ticks are anchored at the instant the key's window was opened (real elapsed time, in
// whole seconds since that instant). A request is only judged wrong when both views say so, and
// a header is right when either view produces it. With all requests on one phase — the bulk of
// the generated histories — the two views are identical.
type dual struct {
	s   [2]winState
	phi int64 // sub-second phase (ns) of view 1's anchor
}

type dverdict struct{ v [2]verdict }

func (d *dual) ts1(a algoCfg, t int64, openFresh bool) uint64 {
	ts := uint64((t - d.phi) / 1e9)
	s := &d.s[1]
	fresh := s.exp == 0 || (!a.sliding && ts >= s.exp) || (a.sliding && ts >= s.exp+a.E)
	if fresh && openFresh {
		d.phi = t % 1e9
		ts = uint64(t / 1e9)
	}
	return ts
}

// hit counts a request sent at t (unix nanoseconds).
func (d *dual) hit(a algoCfg, t int64) dverdict {
	var x dverdict
	x.v[0] = d.s[0].hit(a, uint64(t/1e9))
	x.v[1] = d.s[1].hit(a, d.ts1(a, t, true))
	return x
}

func (d *dual) admitted() { d.s[0].admitted(); d.s[1].admitted() }

// refund at t; reports whether view 0 still had the window of the hit.
func (d *dual) refund(a algoCfg, t int64, x dverdict) bool {
	ok := d.s[0].refund(a, uint64(t/1e9), x.v[0].exp, true)
	d.s[1].refund(a, d.ts1(a, t, false), x.v[1].exp, true)
	return ok
}

// admits: trunc = some view admits under the truncated reading (an admission is defensible);
// real = every view admits even under the real-valued reading (a rejection is indefensible).
func (x dverdict) admits(max int) (trunc, real bool) {
	t0, r0 := x.v[0].admits(max)
	t1, r1 := x.v[1].admits(max)
	return t0 || t1, r0 && r1
}

func (x dverdict) weakAdmits(max int) bool { return x.v[0].weakAdmits(max) || x.v[1].weakAdmits(max) }

// remainingOK: got is limit - rate (+1 when refunded) in some view.
func (x dverdict) remainingOK(got, limit int, refunded bool) bool {
	for _, v := range x.v {
		w := limit - v.rate
		if refunded {
			w++
		}
		if got == w || (!v.exact && got == w-1) {
			return true
		}
	}
	return false
}

func (x dverdict) resetOK(got string) bool {
	for _, v := range x.v {
		if got == strconv.FormatUint(v.resetIn, 10) {
			return true
		}
	}
	return false
}

// late: the hit's window is over at t in some view (a refund then has nothing to take back).
func (x dverdict) late(a algoCfg, d *dual, t int64) bool {
	ts := [2]uint64{uint64(t / 1e9), uint64((t - d.phi) / 1e9)}
	for i, v := range x.v {
		if (!a.sliding && ts[i] >= v.exp) || (a.sliding && ts[i] >= v.exp+a.E) {
			return true
		}
	}
	return false
}

func (x dverdict) exact() bool { return x.v[0].exact && x.v[1].exact }
